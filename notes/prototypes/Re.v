From Coq Require Import List Ascii String NArith Arith Lia Bool.
Import ListNotations.

Definition byte := ascii.
Definition cls := list (N * N).
Definition in_cls (c : cls) (a : ascii) : bool :=
  existsb (fun r => (fst r <=? N_of_ascii a)%N && (N_of_ascii a <=? snd r)%N) c.

Inductive re :=
| Eps | Cls (c : cls) | AnyNL | Cat (a b : re) | Alt (a b : re)
| Star (a : re) | Plus (a : re) | Opt (a : re) | Grp (n : nat) (a : re) | Bot | Eot.

Definition caps := list (nat * (nat * nat)).   (* group -> (start,end) ; latest first *)
Definition K := list ascii -> nat -> caps -> option caps.

Fixpoint m (r : re) (s : list ascii) (i : nat) (c : caps) (k : K) {struct r} : option caps :=
  match r with
  | Eps => k s i c
  | Cls cl => match s with x :: xs => if in_cls cl x then k xs (S i) c else None | [] => None end
  | AnyNL => match s with x :: xs => if (N_of_ascii x =? 10)%N then None else k xs (S i) c | [] => None end
  | Cat a b => m a s i c (fun s' i' c' => m b s' i' c' k)
  | Alt a b => match m a s i c k with Some r => Some r | None => m b s i c k end
  | Star a =>
      (fix loop (n : nat) (s : list ascii) (i : nat) (c : caps) {struct n} : option caps :=
         match n with
         | O => k s i c
         | S n' =>
             match m a s i c (fun s' i' c' => if Nat.eqb i' i then None else loop n' s' i' c') with
             | Some r => Some r
             | None => k s i c
             end
         end) (S (List.length s)) s i c
  | Plus a =>
      m a s i c (fun s0 i0 c0 =>
      (fix loop (n : nat) (s : list ascii) (i : nat) (c : caps) {struct n} : option caps :=
         match n with
         | O => k s i c
         | S n' =>
             match m a s i c (fun s' i' c' => if Nat.eqb i' i then None else loop n' s' i' c') with
             | Some r => Some r
             | None => k s i c
             end
         end) (S (List.length s0)) s0 i0 c0)
  | Opt a => match m a s i c k with Some r => Some r | None => k s i c end
  | Grp n a => m a s i c (fun s' i' c' => k s' i' ((n, (i, i')) :: c'))
  | Bot => if Nat.eqb i 0 then k s i c else None
  | Eot => match s with [] => k s i c | _ => None end
  end.

Definition run (r : re) (s : string) : option caps :=
  m r (list_ascii_of_string s) 0 [] (fun _ _ c => Some c).

Definition ws : cls := [(9,10);(12,13);(32,32)]%N.
Definition idc : cls := [(48,57);(65,90);(95,95);(97,122)]%N.
Fixpoint lit (s : list ascii) : re :=
  match s with [] => Eps | x :: xs => Cat (Cls [(N_of_ascii x, N_of_ascii x)]) (lit xs) end.
Definition L (s : string) := lit (list_ascii_of_string s).
Fixpoint cats (l : list re) : re := match l with [] => Eps | [x] => x | x :: xs => Cat x (cats xs) end.

Definition re_impl : re :=
  cats [Bot; Star (Cls ws); L "//"; Star (Cls ws); L "@implements"; Plus (Cls ws);
        Opt (Grp 1 (L "&")); Opt (Cat (Grp 2 (Plus (Cls idc))) (L ".")); Grp 3 (Plus (Cls idc));
        Opt (Cat (Plus (Cls ws)) (Star AnyNL)); Eot].

Open Scope string_scope.
Time Eval vm_compute in run re_impl "// @implements &io.Reader  trailing text".
Time Eval vm_compute in run re_impl "// @implements io.Reader;".
Time Eval vm_compute in run re_impl "//@implements   Reader".

(* deterministic star: continuation rejects class heads *)
Definition rejects_heads (cl : cls) (k : K) : Prop :=
  forall x xs i c, in_cls cl x = true -> k (x :: xs) i c = None.

Fixpoint span (cl : cls) (s : list ascii) : list ascii * list ascii :=
  match s with
  | x :: xs => if in_cls cl x then let '(a, b) := span cl xs in (x :: a, b) else ([], s)
  | [] => ([], [])
  end.

Definition star_loop (a : re) (k : K) :=
  fix loop (n : nat) (s : list ascii) (i : nat) (c : caps) {struct n} : option caps :=
         match n with
         | O => k s i c
         | S n' =>
             match m a s i c (fun s' i' c' => if Nat.eqb i' i then None else loop n' s' i' c') with
             | Some r => Some r
             | None => k s i c
             end
         end.

Lemma star_loop_cls cl k : rejects_heads cl k ->
  forall n s i c, List.length s < n ->
    star_loop (Cls cl) k n s i c = k (snd (span cl s)) (i + List.length (fst (span cl s))) c.
Proof.
  intros Hk n. induction n as [|n IH]; intros s i c Hn; [lia|].
  cbn [star_loop m]. destruct s as [|x xs]; cbn [span].
  - cbn. now rewrite Nat.add_0_r.
  - destruct (in_cls cl x) eqn:Hx.
    + assert (Hne : Nat.eqb (S i) i = false) by (apply Nat.eqb_neq; lia).
      rewrite Hne. cbn in Hn. rewrite IH by lia.
      destruct (span cl xs) as [a b] eqn:Hs. cbn [fst snd List.length].
      replace (S i + List.length a) with (i + S (List.length a)) by lia.
      destruct (k b (i + S (List.length a)) c) eqn:Hkb; [reflexivity|].
      now rewrite Hk.
    + cbn. now rewrite Nat.add_0_r.
Qed.

Lemma m_star_cls cl k s i c : rejects_heads cl k ->
  m (Star (Cls cl)) s i c k = k (snd (span cl s)) (i + List.length (fst (span cl s))) c.
Proof. intros Hk. change (m (Star (Cls cl)) s i c k) with (star_loop (Cls cl) k (S (List.length s)) s i c).
  apply star_loop_cls; [exact Hk|lia]. Qed.
Print Assumptions m_star_cls.
