From Coq Require Import List ZArith Lia Bool Sorted.
Import ListNotations.
Open Scope Z_scope.

Inductive node := Node (pos end_ : Z) (cs : list node).
Definition npos (n : node) := match n with Node p _ _ => p end.
Definition nend (n : node) := match n with Node _ e _ => e end.
Definition kids (n : node) := match n with Node _ _ cs => cs end.

Fixpoint preorder (n : node) : list node :=
  match n with Node p e cs => n :: flat_map preorder cs end.

(* nested induction principle *)
Section NodeInd.
  Variable P : node -> Prop.
  Hypothesis H : forall p e cs, Forall P cs -> P (Node p e cs).
  Fixpoint node_ind' (n : node) : P n :=
    match n with
    | Node p e cs => H p e cs ((fix go (l : list node) : Forall P l :=
                                 match l with [] => Forall_nil _ | x :: r => Forall_cons x (node_ind' x) (go r) end) cs)
    end.
End NodeInd.

(* model of ignore.findNextNodeAfterComment's Inspect callback (after fix: remembers End of the node) *)
Definition st := option (Z * Z).
Fixpoint visit (c : Z) (n : node) (s : st) {struct n} : st :=
  match n with
  | Node p e cs =>
      let descend := fold_left (fun s ch => visit c ch s) cs s in
      if p <=? c then descend
      else match s with
           | None => Some (p, e)
           | Some (np, _) => if p <? np then Some (p, e) else descend
           end
  end.

Definition first_after (c : Z) (l : list node) : st :=
  match find (fun n => c <? npos n) l with Some n => Some (npos n, nend n) | None => None end.

Definition visit_list (c : Z) (cs : list node) (s : st) : st := fold_left (fun s ch => visit c ch s) cs s.

Definition ge_all (p : Z) (l : list node) : Prop := Forall (fun n => p <= npos n) l.

(* Part 1: once something is found at position p, later nodes with pos >= p never replace it *)
Lemma visit_keep c n : forall p e, ge_all p (preorder n) -> visit c n (Some (p, e)) = Some (p, e).
Proof.
  induction n as [q qe cs IH] using node_ind'. intros p e Hge.
  cbn [preorder] in Hge. inversion Hge as [|? ? Hq Hrest]; subst. cbn [npos] in Hq.
  cbn [visit].
  assert (Hfold : fold_left (fun s ch => visit c ch s) cs (Some (p, e)) = Some (p, e)).
  { clear Hq Hge. induction cs as [|x r IHr]; [reflexivity|].
    cbn [fold_left]. inversion IH as [|? ? Hx Hr]; subst.
    cbn [flat_map] in Hrest. apply Forall_app in Hrest as [H1 H2].
    rewrite Hx by exact H1. apply IHr; assumption. }
  destruct (q <=? c); [exact Hfold|].
  destruct (q <? p) eqn:Hlt; [apply Z.ltb_lt in Hlt; lia | exact Hfold].
Qed.

Lemma visit_list_keep c cs : forall p e, ge_all p (flat_map preorder cs) -> visit_list c cs (Some (p, e)) = Some (p, e).
Proof.
  induction cs as [|x r IH]; intros p e H; [reflexivity|].
  cbn [visit_list fold_left]. cbn [flat_map] in H. apply Forall_app in H as [H1 H2].
  rewrite visit_keep by exact H1. apply IH; exact H2.
Qed.

Definition sorted (l : list node) : Prop := StronglySorted (fun a b => npos a <= npos b) l.

Lemma sorted_app_l l1 l2 : sorted (l1 ++ l2) -> sorted l1.
Proof. induction l1 as [|a l1 IH]; intros H; [constructor|].
  inversion H as [|? ? Hs Hf]; subst. constructor; [apply IH; exact Hs|]. apply Forall_app in Hf as [Hf1 _]; exact Hf1. Qed.
Lemma sorted_app_r l1 l2 : sorted (l1 ++ l2) -> sorted l2.
Proof. induction l1 as [|a l1 IH]; intros H; [exact H|]. inversion H; subst. apply IH; assumption. Qed.
Lemma sorted_app_le l1 l2 a b : sorted (l1 ++ l2) -> In a l1 -> In b l2 -> npos a <= npos b.
Proof. induction l1 as [|x l1 IH]; intros H Ha Hb; [destruct Ha|].
  inversion H as [|? ? Hs Hf]; subst. destruct Ha as [->|Ha].
  - rewrite Forall_forall in Hf. apply Hf. apply in_or_app; right; exact Hb.
  - apply IH; assumption. Qed.

Lemma find_app' {A} (f : A -> bool) l1 l2 :
  find f (l1 ++ l2) = match find f l1 with Some x => Some x | None => find f l2 end.
Proof. induction l1 as [|a l1 IH]; [reflexivity|]. cbn. destruct (f a); [reflexivity|exact IH]. Qed.

(* Part 2: with nothing found yet, a sorted pre-order makes the pruned walk return the first node after c *)
Lemma visit_list_none_from c cs :
  Forall (fun n => sorted (preorder n) -> visit c n None = first_after c (preorder n)) cs ->
  sorted (flat_map preorder cs) -> visit_list c cs None = first_after c (flat_map preorder cs).
Proof.
  induction cs as [|x r IHr]; intros HF Hs; [reflexivity|].
  inversion HF as [|? ? Hx Hr]; subst.
  cbn [visit_list fold_left flat_map]. cbn [flat_map] in Hs.
  rewrite Hx by (eapply sorted_app_l; exact Hs).
  unfold first_after at 2. rewrite find_app'.
  unfold first_after at 1.
  destruct (find (fun n => c <? npos n) (preorder x)) as [y|] eqn:Hf.
  - apply find_some in Hf as [Hin Hy].
    change (fold_left (fun s ch => visit c ch s) r (Some (npos y, nend y))) with (visit_list c r (Some (npos y, nend y))).
    apply visit_list_keep. apply Forall_forall. intros b Hb.
    eapply sorted_app_le; eassumption.
  - apply IHr; [exact Hr|]. eapply sorted_app_r; exact Hs.
Qed.

Lemma visit_none c n : sorted (preorder n) -> visit c n None = first_after c (preorder n).
Proof.
  induction n as [q qe cs IH] using node_ind'. intros Hs.
  cbn [visit preorder]. unfold first_after. cbn [find npos].
  destruct (q <=? c) eqn:Hq.
  - assert (c <? q = false) as -> by (apply Z.ltb_ge; apply Z.leb_le in Hq; lia).
    cbn [preorder] in Hs. inversion Hs; subst.
    apply (visit_list_none_from c cs IH). assumption.
  - assert (c <? q = true) as -> by (apply Z.ltb_lt; apply Z.leb_gt in Hq; lia). reflexivity.
Qed.
Print Assumptions visit_none.
