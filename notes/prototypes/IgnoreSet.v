From Coq Require Import List String ZArith Lia Bool Arith.
Import ListNotations.
Open Scope Z_scope.

(* --- codes --- *)
Definition str_eqb := String.eqb.
Definition mem (x : string) (l : list string) : bool := existsb (String.eqb x) l.

Section Codes.
Variable table : list (string * list string).   (* category -> codes, from Extracted.v *)

Fixpoint cat_of (c : string) (t : list (string * list string)) : option string :=
  match t with
  | [] => None
  | (k, cs) :: r => if mem c cs then Some k else cat_of c r
  end.

Definition is_cat (c : string) : bool := existsb (fun kc => String.eqb c (fst kc)) table.

(* codes.GetCodesForCheck *)
Definition check_list (c : string) : list string :=
  if is_cat c then ["ALL"%string; c]
  else match cat_of c table with
       | Some k => ["ALL"%string; k; c]
       | None => ["ALL"%string; c]
       end.

(* --- IgnoreSet --- *)
Record marker := { m_codes : list string; m_start : Z; m_end : Z }.
Record iset := { markers : list marker; index : list (string * list nat);
                 module_ign : list string; minp : Z; maxp : Z; inited : bool }.
Definition zero : iset := {| markers := []; index := []; module_ign := []; minp := 0; maxp := 0; inited := false |}.

Definition ensure_init (s : iset) : iset :=
  if inited s then s else
  {| markers := []; index := []; module_ign := module_ign s; minp := 0; maxp := 0; inited := true |}.

Fixpoint idx_get (c : string) (ix : list (string * list nat)) : list nat :=
  match ix with [] => [] | (k, v) :: r => if String.eqb c k then v else idx_get c r end.
Fixpoint idx_app (c : string) (i : nat) (ix : list (string * list nat)) : list (string * list nat) :=
  match ix with
  | [] => [(c, [i])]
  | (k, v) :: r => if String.eqb c k then (k, v ++ [i]) :: r else (k, v) :: idx_app c i r
  end.

Definition add (s0 : iset) (cs : list string) (st en : Z) : iset :=
  let s := ensure_init s0 in
  let i := List.length (markers s) in
  {| markers := markers s ++ [{| m_codes := cs; m_start := st; m_end := en |}];
     index := fold_left (fun ix c => idx_app c i ix) cs (index s);
     module_ign := module_ign s;
     minp := if (minp s =? 0) || (st <? minp s) then st else minp s;
     maxp := if (maxp s =? 0) || (en >? maxp s) then en else maxp s;
     inited := true |}.

Definition add_module (s0 : iset) (cs : list string) : iset :=
  let s := ensure_init s0 in
  {| markers := markers s; index := index s; module_ign := module_ign s ++ cs;
     minp := minp s; maxp := maxp s; inited := true |}.

Inductive res := Ok (b : bool) | Panic.

Definition covers_idx (s : iset) (pos : Z) (i : nat) : res :=
  match nth_error (markers s) i with
  | Some m => Ok ((m_start m <=? pos) && (pos <=? m_end m))
  | None => Panic
  end.

Fixpoint scan_idx (s : iset) (pos : Z) (l : list nat) : res :=
  match l with
  | [] => Ok false
  | i :: r => match covers_idx s pos i with
              | Panic => Panic
              | Ok true => Ok true
              | Ok false => scan_idx s pos r
              end
  end.

Fixpoint scan_codes (s : iset) (pos : Z) (cl : list string) : res :=
  match cl with
  | [] => Ok false
  | c :: r => match scan_idx s pos (idx_get c (index s)) with
              | Panic => Panic
              | Ok true => Ok true
              | Ok false => scan_codes s pos r
              end
  end.

Definition contains (s : iset) (code : string) (pos : Z) : res :=
  if negb (inited s) then Ok false else
  if existsb (fun c => mem c (module_ign s)) (check_list code) then Ok true else
  if (minp s =? 0) || (pos <? minp s) || (pos >? maxp s) then Ok false else
  scan_codes s pos (check_list code).

(* --- histories and spec --- *)
Inductive op := OpAdd (cs : list string) (st en : Z) | OpGlobal (cs : list string).
Definition step (s : iset) (o : op) : iset :=
  match o with OpAdd cs st en => add s cs st en | OpGlobal cs => add_module s cs end.
Definition run (ops : list op) : iset := fold_left step ops zero.

Definition overlaps (cs toks : list string) : bool := existsb (fun t => mem t cs) toks.
Definition covers (code : string) (pos : Z) (o : op) : bool :=
  match o with
  | OpAdd cs st en => (st <=? pos) && (pos <=? en) && overlaps cs (check_list code)
  | OpGlobal cs => overlaps cs (check_list code)
  end.
Definition spec (ops : list op) (code : string) (pos : Z) : bool := existsb (covers code pos) ops.

Definition starts_ok (ops : list op) : Prop :=
  forall cs st en, In (OpAdd cs st en) ops -> 1 <= st.

(* abstraction: scoped adds / global adds of a history *)
Fixpoint scoped (ops : list op) : list marker :=
  match ops with
  | [] => []
  | OpAdd cs st en :: r => {| m_codes := cs; m_start := st; m_end := en |} :: scoped r
  | OpGlobal _ :: r => scoped r
  end.
Fixpoint globals (ops : list op) : list string :=
  match ops with
  | [] => []
  | OpAdd _ _ _ :: r => globals r
  | OpGlobal cs :: r => cs ++ globals r
  end.

Definition index_ok (s : iset) : Prop :=
  forall c i, In i (idx_get c (index s)) <->
              exists m, nth_error (markers s) i = Some m /\ mem c (m_codes m) = true.

Definition Inv (ops : list op) (s : iset) : Prop :=
  markers s = scoped ops /\ module_ign s = globals ops /\ index_ok s /\
  (inited s = false -> ops = []) /\
  (markers s = [] -> minp s = 0) /\
  (forall m, In m (markers s) -> 1 <= minp s <= m_start m) /\
  (forall m, In m (markers s) -> m_end m <= Z.max (maxp s) 0).

End Codes.
