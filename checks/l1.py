"""Common driver of the checker-exactness properties C01-C04 over the shared generated-worlds run."""
import json, os
import lib, worlds


def minimise(ctx, files, cfg, prefixes, max_rounds=14):
    """delta-debugging on whole files, then on top-level declarations separated by blank lines: keep the disagreement"""
    def differs(fs):
        r, m, _ = worlds.run_sources(ctx, fs, cfg)
        if r["rc"] not in (0, 3) and not r["crashed"]:
            return None          # does not compile any more
        a, b = worlds.compare(r["diags"], m["diags"], prefixes)
        if r["crashed"] != bool(m["panics"]):
            return ("crash", r["stderr"][-300:], m["panics"])
        return (a, b) if (a or b) else None
    cur = dict(files)
    rounds = 0
    changed = True
    while changed and rounds < max_rounds:
        changed = False
        for rel in sorted(cur):
            if rel.endswith("types.go") or rel.endswith("funcs.go") or rel.endswith("m.go"):
                continue
            blocks = cur[rel].split("\n\n")
            if len(blocks) <= 3:
                continue
            for i in range(len(blocks) - 1, 1, -1):
                if not blocks[i].strip() or blocks[i].startswith(("package", "import", "var _ =", "type L")):
                    continue
                cand = dict(cur)
                cand[rel] = "\n\n".join(blocks[:i] + blocks[i + 1:])
                rounds += 1
                if rounds > max_rounds:
                    break
                if differs(cand):
                    cur = cand
                    changed = True
                    break
            if changed or rounds > max_rounds:
                break
    return cur, differs(cur)


def vet_cache_sequence(ctx, prefixes):
    """go vet keeps the facts of a dependency in the build cache, keyed by files, tool and flags - not by the environment.
    A sequence of runs on ONE fresh cache in which an earlier run excluded this checker's category through the environment:
    the later, unrestricted runs must still report the violations that stem from the dependency's annotations."""
    import re, shutil, stressgen
    cat = prefixes[0]
    code = {"IMM": "IMM01", "CTOR": "CTOR01", "TONL": "TONL02", "PKGO": "PKGO02"}[cat]
    d = lib.scratch_dir()
    root = os.path.join(d, "m")
    files, _ = stressgen.ignore_stress(0, 0)
    files["app/app.go"] = "package app\n\nimport \"w/lib\"\n\nfunc Use(t *lib.T) {\n\tt.F = 1\n\t_ = lib.T{}\n\t_ = lib.Mock()\n\t_ = lib.Internal()\n}\n"
    stressgen.write(root, files)
    env = dict(ctx.env)
    env["GOCACHE"] = os.path.join(d, "gocache")
    seq, bad = [], None
    for val, pats in ((cat, ["./..."]), (None, ["./app"]), ("ALL", ["./..."]), (None, ["./..."]), (cat.lower() + "01", ["./app"]), ("", ["./app"])):
        e = dict(env)
        if val is not None:
            e["GOGREEMENT_EXCLUDE_CHECKS"] = val
        else:
            e.pop("GOGREEMENT_EXCLUDE_CHECKS", None)
        rc, out, err = lib.sh(["go", "vet", "-vettool=" + ctx.gg] + pats, cwd=root, env=e, timeout=900)
        got = sorted(set(re.findall(r"\[([A-Z]+\d+)\]", err + out)))
        seq.append({"GOGREEMENT_EXCLUDE_CHECKS": val, "patterns": pats, "codes": got})
        parsed = [t.strip().upper() for t in (val or "").split(",") if t.strip()]
        excluded = any(t in parsed for t in ("ALL", cat, code))
        if (code in got) == excluded or lib.crash_in(err + out):
            bad = {"sequence_so_far": seq, "expected": "%s %s in the last run" % (code, "absent" if excluded else "present"), "stderr_tail": err[-500:], "files": files}
            break
    shutil.rmtree(d, ignore_errors=True)
    return bad, len(seq)


def run(ctx, pid, prefixes, what, assumptions):
    rep = lib.Report(ctx, pid)
    res = worlds.base_run(ctx)
    found = False
    nontrivial = set()
    evaluations = 0
    if res["skel_rc"] != 0:
        # generated programs must compile; a failure here is a defect of the generator, not of gogreement
        rep.notes["generator_error"] = res["skel_err"]
    reported = set()
    for name, c in res["configs"].items():
        impl = [d for d in c["impl"] if d["code"].startswith(prefixes)]
        model = [d for d in c["model"] if d["code"].startswith(prefixes)]
        evaluations += len(res["sites"])
        for d in impl:
            nontrivial.add((d["file"], d["line"], d["code"], name))
        a, b = worlds.compare(c["impl"], c["model"], prefixes)
        crashed = c["impl_crashed"] or c["impl_rc"] not in (0, 3)
        if crashed and not c["model_panics"]:
            found = True
            rep.violation({"property": pid, "kind": "crash", "config": c["cfg"], "stderr_tail": c["impl_stderr"][-2000:], "errors": c["impl_errors"],
                           "what": "the binary failed on the generated worlds (the model predicts a normal run)"})
            continue
        by_world = {}
        for k in a:
            by_world.setdefault(k[0].split("/")[0], {"impl_only": [], "model_only": []})["impl_only"].append(k)
        for k in b:
            by_world.setdefault(k[0].split("/")[0], {"impl_only": [], "model_only": []})["model_only"].append(k)
        for wid in sorted(by_world)[:3]:
            if (wid, name) in reported or len(rep.violations) >= 3:
                continue
            reported.add((wid, name))
            files = worlds.world_files(res, wid)
            if not rep.violations:
                small, still = minimise(ctx, files, tuple(c["cfg"]), prefixes)
            else:
                small, still = files, "(not minimised: an earlier violation of this run was)"
            found = True
            rep.violation({"property": pid, "kind": "world", "config": c["cfg"], "world": wid,
                           "reported_by_implementation_only": by_world[wid]["impl_only"][:20],
                           "expected_by_model_only": by_world[wid]["model_only"][:20],
                           "after_minimisation": still, "files": small,
                           "what": what, "replay_cmd": "checks/replay.sh <this file>"})
    vbad, vruns = vet_cache_sequence(ctx, prefixes)
    if vbad:
        found = True
        rep.violation(dict({"property": pid, "kind": "vet-sequence",
                            "what": "go vet -vettool on one build cache: what an earlier run (with this checker's category excluded through the environment) left in the cached facts "
                                    "of a dependency makes a later run lose the violations of an annotation declared in a directly imported package"}, **vbad))
    lib.obligation_gate(rep, ctx, pid, found)
    rep.cov["vet_cache_sequence_runs"] = vruns
    rep.cov["evaluations"] = evaluations
    rep.cov["distinct_nontrivial"] = len(nontrivial)
    rep.cov["rule"] = ("%d generated worlds (declaring package d, alias package m, user packages u / ok / bypath, sites inside d itself; 1-4 files each incl. _test.go), every candidate "
                       "statement on its own line with a site id, nested at random depth 0-3 under if/for/switch/select/closure/defer/go/block, inside functions, methods, "
                       "constructor-named functions, @testonly functions and package-level initialisers; type spelled directly, through an import alias, a third-package alias, a local alias or a dot import; "
                       "the binary (-json) and the model (ggx skel -> modelrun) are run on the whole module under the default and the scan-tests configuration and compared by (file, line, code). "
                       "plus a six-run `go vet -vettool` sequence on one fresh build cache in which earlier runs exclude this checker's category through the environment (vet_cache_sequence). evaluations = candidate sites x configurations; non-trivial = distinct (site, code, configuration) actually reported with a code of this property" % res["n"])
    rep.cov["input_distribution"] = {k: res["stats"][k] for k in ("tags", "depth", "nest", "place", "spelling", "tdoc")}
    some = [d for d in res["configs"]["default"]["impl"] if d["code"].startswith(prefixes)][:3]
    rep.cov["samples"] = [{"file": d["file"], "line": d["line"], "code": d["code"],
                           "source_line": res["sources"].get(d["file"], "").split("\n")[d["line"] - 1].strip() if d["file"] in res["sources"] else ""} for d in some] or ["(no diagnostics of this property in this run)"]
    rep.cov["worlds"] = res["n"]
    rep.cov["packages_serialised"] = {n: c.get("packages") for n, c in res["configs"].items()}
    rep.cov["packages_meeting_the_theorems_wellformedness_predicate"] = {n: c.get("packages_wf") for n, c in res["configs"].items()}
    rep.cov["diagnostics_compared"] = {n: len([d for d in c["impl"] if d["code"].startswith(prefixes)]) for n, c in res["configs"].items()}
    rep.assumptions = assumptions
    return rep.finish()


def replay(ctx, d):
    if d.get("kind") == "vet-sequence":
        print(json.dumps({k: v for k, v in d.items() if k != "files"}, indent=1)[:4000])
        bad, _ = vet_cache_sequence(ctx, (d["property"] == "C01" and ("IMM",)) or (d["property"] == "C02" and ("CTOR",)) or (d["property"] == "C03" and ("TONL",)) or ("PKGO",))
        print("re-run of the sequence:", "VIOLATED" if bad else "holds")
        return 1 if bad else 0
    if d.get("kind") != "world":
        print(json.dumps(d, indent=1)[:4000])
        return 0
    r, m, info = worlds.run_sources(ctx, d["files"], tuple(d["config"]))
    a, b = worlds.compare(r["diags"], m["diags"])
    print("config:", d["config"])
    print("reported by the implementation only:", a)
    print("expected by the model only        :", b)
    print("binary exit status:", r["rc"], "crashed:", r["crashed"])
    return 1 if (a or b or r["crashed"]) else 0
