"""Generator of @implements worlds for C05: interfaces with arbitrary method signatures in a library package, types that
implement them exactly / with differently spelled identical types / with almost-the-same types / partially, with value
and pointer receivers, directly and through embedding; annotations with and without `&`, resolved through plain,
renamed and missing imports, through a package whose name differs from its directory, and in the same package.

The generator does not decide verdicts: Go's type checker does (ggx impl-oracle)."""

BASICS = ["int", "string", "bool", "byte", "uint8", "rune", "int32", "error", "any", "interface{}", "float64"]


def T_basic(n): return ("basic", n)
def T_named(n): return ("named", n)      # declared in package ifc: N, M, and the aliases AN (= N), APN (= *N), Bytes (= []byte)


def rand_type(rng, depth=0):
    r = rng.random()
    if depth > 2 or r < 0.35:
        return T_basic(rng.choice(BASICS))
    if r < 0.55:
        return T_named(rng.choice(["N", "M", "AN", "APN", "Bytes"]))
    k = rng.choice(["ptr", "ptr", "ptr2", "ptr3", "slice", "array", "map", "chan", "func", "struct", "iface"])
    if k == "ptr":
        return ("ptr", rand_type(rng, depth + 1))
    if k == "ptr2":
        return ("ptr", ("ptr", rand_type(rng, depth + 2)))
    if k == "ptr3":
        return ("ptr", ("ptr", ("ptr", T_named(rng.choice(["N", "M"])))))
    if k == "slice":
        return ("slice", rand_type(rng, depth + 1))
    if k == "array":
        return ("array", rng.choice([2, 3]), rand_type(rng, depth + 1))
    if k == "map":
        return ("map", T_basic(rng.choice(["string", "int", "byte", "uint8"])), rand_type(rng, depth + 1))
    if k == "chan":
        return ("chan", rng.choice(["", "<-", "->"]), rand_type(rng, depth + 1))
    if k == "func":
        return ("func", [rand_type(rng, depth + 1) for _ in range(rng.randint(0, 2))], [rand_type(rng, depth + 1) for _ in range(rng.randint(0, 1))])
    if k == "struct":
        return ("struct", [(rng.choice(["A", "B"]), rand_type(rng, depth + 1))])
    return ("iface", [("Q", [rand_type(rng, depth + 2)], [])])


def render(t, q):
    k = t[0]
    if k == "basic":
        return t[1]
    if k == "named":
        return q + t[1]
    if k == "ptr":
        return "*" + render(t[1], q)
    if k == "slice":
        return "[]" + render(t[1], q)
    if k == "array":
        return "[%d]%s" % (t[1], render(t[2], q))
    if k == "map":
        return "map[%s]%s" % (render(t[1], q), render(t[2], q))
    if k == "chan":
        return {"": "chan ", "<-": "<-chan ", "->": "chan<- "}[t[1]] + render(t[2], q)
    if k == "func":
        rs = [render(x, q) for x in t[2]]
        return "func(%s)%s" % (", ".join(render(x, q) for x in t[1]), (" " + rs[0]) if len(rs) == 1 else (" (" + ", ".join(rs) + ")" if rs else ""))
    if k == "struct":
        return "struct{ %s }" % "; ".join("%s %s" % (n, render(x, q)) for n, x in t[1])
    if k == "iface":
        return "interface{ %s }" % "; ".join("%s(%s)" % (n, ", ".join(render(x, q) for x in ps)) for n, ps, rs in t[1])
    raise ValueError(t)


RESPELL = {"byte": "uint8", "uint8": "byte", "rune": "int32", "int32": "rune", "any": "interface{}", "interface{}": "any"}


def respell(rng, t):
    """an identical type, spelled differently where possible"""
    k = t[0]
    if k == "basic":
        return T_basic(RESPELL.get(t[1], t[1])) if rng.random() < 0.8 else t
    if k == "named":
        if t[1] == "N" and rng.random() < 0.7:
            return T_named("AN")
        if t[1] == "AN":
            return T_named("N")
        if t[1] == "APN":
            return ("ptr", T_named(rng.choice(["N", "AN"])))
        if t[1] == "Bytes":
            return ("slice", T_basic(rng.choice(["byte", "uint8"])))
        return t
    if k == "ptr":
        if t[1] == T_named("N") and rng.random() < 0.5:
            return T_named("APN")
        return ("ptr", respell(rng, t[1]))
    if k == "slice":
        if t[1] in (T_basic("byte"), T_basic("uint8")) and rng.random() < 0.5:
            return T_named("Bytes")
        return ("slice", respell(rng, t[1]))
    if k == "array":
        return ("array", t[1], respell(rng, t[2]))
    if k == "map":
        return ("map", respell(rng, t[1]), respell(rng, t[2]))
    if k == "chan":
        return ("chan", t[1], respell(rng, t[2]))
    if k == "func":
        return ("func", [respell(rng, x) for x in t[1]], [respell(rng, x) for x in t[2]])
    if k == "struct":
        return ("struct", [(n, respell(rng, x)) for n, x in t[1]])
    if k == "iface":
        return ("iface", [(n, [respell(rng, x) for x in ps], rs) for n, ps, rs in t[1]])
    return t


def mutate(rng, t):
    """a type that is (almost always) NOT identical"""
    k = t[0]
    c = rng.choice(["ptr+", "ptr-", "swapname", "inner", "slice"])
    if c == "ptr+":
        return ("ptr", t)
    if c == "ptr-" and k == "ptr":
        return t[1]
    if c == "swapname" and k == "named":
        return T_named({"N": "M", "M": "N", "AN": "M", "APN": "N", "Bytes": "N"}[t[1]])
    if c == "swapname" and k == "basic":
        return T_basic({"int": "int32", "string": "int", "bool": "string", "byte": "rune", "uint8": "int32", "rune": "byte", "int32": "int", "error": "any", "any": "error",
                        "interface{}": "error", "float64": "int"}[t[1]])
    if c == "inner":
        if k in ("ptr", "slice"):
            return (k, mutate(rng, t[1]))
        if k == "array":
            return ("array", 5 - t[1], t[2]) if rng.random() < 0.5 else ("array", t[1], mutate(rng, t[2]))
        if k == "map":
            return ("map", t[1], mutate(rng, t[2]))
        if k == "chan":
            return ("chan", rng.choice([d for d in ("", "<-", "->") if d != t[1]]), t[2])
        if k == "func":
            return ("func", t[1] + [T_basic("int")], t[2])
        if k == "struct":
            return ("struct", [(n + "x", x) for n, x in t[1]])
        if k == "iface":
            return ("iface", [(n, ps + [T_basic("int")], rs) for n, ps, rs in t[1]])
    if c == "slice":
        return ("slice", t)
    return ("ptr", t)


def rand_method(rng, name):
    ps = [rand_type(rng) for _ in range(rng.randint(0, 3))]
    rs = [rand_type(rng) for _ in range(rng.choice([0, 1, 1, 2]))]
    variadic = bool(ps) and rng.random() < 0.25
    return {"name": name, "ps": ps, "rs": rs, "variadic": variadic}


def render_sig(m, q):
    ps = [render(x, q) for x in m["ps"]]
    if m["variadic"] and ps:
        ps[-1] = "..." + ps[-1]
    rs = [render(x, q) for x in m["rs"]]
    return "(%s)%s" % (", ".join("p%d %s" % (i, p) for i, p in enumerate(ps)), (" " + rs[0]) if len(rs) == 1 else (" (" + ", ".join(rs) + ")" if rs else ""))


def zero_returns(m, q):
    if not m["rs"]:
        return ""
    return " var r%s; return %s " % ("; var r".join("%d %s" % (i, render(x, q)) for i, x in enumerate(m["rs"])), ", ".join("r%d" % i for i in range(len(m["rs"]))))


def variant_of(rng, m, how):
    n = dict(m)
    if how == "exact":
        return n
    if how == "respell":
        n["ps"] = [respell(rng, x) for x in m["ps"]]
        n["rs"] = [respell(rng, x) for x in m["rs"]]
        return n
    # mutate one aspect
    c = rng.choice(["param", "result", "count", "variadic", "swap"])
    n["ps"], n["rs"] = list(m["ps"]), list(m["rs"])
    if c == "param" and n["ps"]:
        i = rng.randrange(len(n["ps"]))
        n["ps"][i] = mutate(rng, n["ps"][i])
    elif c == "result" and n["rs"]:
        i = rng.randrange(len(n["rs"]))
        n["rs"][i] = mutate(rng, n["rs"][i])
    elif c == "variadic" and n["ps"]:
        if n["variadic"]:
            n["variadic"] = False
            n["ps"][-1] = ("slice", n["ps"][-1])      # ...T vs []T: same parameter type, different variadicity
        else:
            n["variadic"] = True
            if n["ps"][-1][0] == "slice":
                n["ps"][-1] = n["ps"][-1][1]
    elif c == "swap" and len(n["rs"]) == 2 and n["rs"][0] != n["rs"][1]:
        n["rs"] = [n["rs"][1], n["rs"][0]]
    else:
        n["ps"] = n["ps"] + [T_basic("int")]
        if n["variadic"]:
            n["variadic"] = False
    return n


def impl_world(rng, wid, modroot="w", stats=None):
    """returns {relative file: text}"""
    root = "%s/%s" % (modroot, wid)
    st = stats if stats is not None else {}
    def count(k, v):
        st.setdefault(k, {})
        st[k][v] = st[k].get(v, 0) + 1
    files = {}
    # ---- the library package
    nif = rng.randint(2, 4)
    ifaces = []
    lines = ["package ifc", "", "type N struct{ V int }", "type M struct{ W string }", "type AN = N", "type APN = *N", "type Bytes = []byte", "const Anchor = 0", "",
             "type NotAnInterface struct{}", "func FuncNamedLikeAnInterface() {}", "type Empty interface{}", "type MixLocal struct{}", "func (MixLocal) hidl(x int) {}", ""]
    for i in range(nif):
        ms = [rand_method(rng, "M%d" % j) for j in range(rng.randint(1, 4))]
        emb = None
        if i > 0 and rng.random() < 0.3:
            emb = "I%d" % rng.randrange(i)
        ifaces.append({"name": "I%d" % i, "methods": ms, "embeds": emb})
        hid = None
        if rng.random() < 0.4:
            # an unexported method: only a method of package ifc can satisfy it - by embedding one of ifc's mixin types
            hid = rand_method(rng, "hid%d" % i)
            hid["unexported"] = True
            ms.append(hid)
        lines.append("type I%d interface {" % i)
        if emb:
            lines.append("\t" + emb)
        for m in ms:
            nm = m["name"] if (not emb or m.get("unexported")) else m["name"] + "x%d" % i
            m["name"] = nm
            lines.append("\t%s%s" % (nm, render_sig(m, "")))
        lines.append("}")
        if hid:
            lines += ["type MixV%d struct{}" % i, "func (MixV%d) %s%s {%s}" % (i, hid["name"], render_sig(hid, ""), zero_returns(hid, "")),
                      "type MixP%d struct{}" % i, "func (*MixP%d) %s%s {%s}" % (i, hid["name"], render_sig(hid, ""), zero_returns(hid, ""))]
        lines.append("")
    files["%s/ifc/ifc.go" % wid] = "\n".join(lines) + "\n"
    # a package whose declared name differs from its directory
    files["%s/libfoo/foo.go" % wid] = "package foo\n\ntype Doer interface{ Do(x int) error }\nconst Anchor = 0\n"
    by_name = {i["name"]: i for i in ifaces}

    def all_methods(i):
        out = list(i["methods"])
        if i["embeds"]:
            out = all_methods(by_name[i["embeds"]]) + out
        return out
    # ---- the package with the annotated types: four files binding ifc differently
    binds = {"a.go": ('"%s/ifc"' % root, "ifc."), "b.go": ('xi "%s/ifc"' % root, "xi."), "c.go": ('"%s/libfoo"' % root, None), "d.go": (None, None)}
    out = {fn: [] for fn in binds}
    tcount = 0
    local_ifaces = []
    for fn in ("a.go", "b.go"):
        imp, q = binds[fn]
        for _ in range(rng.randint(3, 6)):
            I = rng.choice(ifaces)
            tname = "T%d" % tcount
            tcount += 1
            amp = rng.random() < 0.5
            qual = rng.choice([q[:-1]] * 6 + ["nosuch", "t", "ifc" if q != "ifc." else "xi"])
            target = rng.choice([I["name"]] * 8 + ["NotAnInterface", "FuncNamedLikeAnInterface", "Missing", "Empty"])
            shape = rng.choice(["struct", "struct", "struct", "int", "slice"])
            doc = ["// %s is generated." % tname, "// @implements %s%s.%s%s" % ("&" if amp else "", qual, target, rng.choice(["", "", " because", "  // why"]))]
            if rng.random() < 0.2:
                J = rng.choice(ifaces)
                doc.append("// @implements %s%s.%s" % ("&" if rng.random() < 0.5 else "", q[:-1], J["name"]))
            count("qualifier", "bound" if qual == q[:-1] else "unbound:" + ("own-name" if qual == "t" else "other"))
            count("target", target if not target.startswith("I") else "interface")
            count("contract", "pointer" if amp else "value")
            embeds = []
            body = []
            decls = []
            for m in all_methods(I):
                if m.get("unexported"):
                    k = m["name"][3:]
                    how = rng.choice(["mix-v", "mix-v", "mix-vp", "mix-p", "mix-pp", "own", "own-and-mix", "missing"]) if shape == "struct" else rng.choice(["own", "missing"])
                    count("unexported-method", how)
                    if how in ("own", "own-and-mix"):
                        # a method of the same name declared in THIS package is another method (Go qualifies unexported names)
                        v = variant_of(rng, m, "exact" if how == "own" else "mutate")
                        decls.append("func (r %s) %s%s {%s}" % (tname, v["name"], render_sig(v, q), zero_returns(v, q)))
                    if how != "own" and how != "missing":
                        embeds.append({"mix-v": "%sMixV%s", "mix-vp": "*%sMixV%s", "mix-p": "%sMixP%s", "mix-pp": "*%sMixP%s", "own-and-mix": "%sMixV%s"}[how] % (q, k))
                    continue
                how = rng.choice(["exact", "exact", "exact", "respell", "respell", "mutate", "missing"])
                count("method", how)
                if how == "missing":
                    continue
                v = variant_of(rng, m, how)
                place = rng.choice(["direct", "direct", "direct", "embed-value", "embed-pointer"]) if shape == "struct" else "direct"
                recv_ptr = rng.random() < 0.45
                count("placement", place + ("/ptr-recv" if recv_ptr else "/value-recv"))
                if place == "direct":
                    decls.append("func (r %s%s) %s%s {%s}" % ("*" if recv_ptr else "", tname, v["name"], render_sig(v, q), zero_returns(v, q)))
                else:
                    en = "E%s%s" % (tname, v["name"])
                    decls.append("type %s struct{}" % en)
                    decls.append("func (r %s%s) %s%s {%s}" % ("*" if recv_ptr else "", en, v["name"], render_sig(v, q), zero_returns(v, q)))
                    embeds.append(("*" if place == "embed-pointer" else "") + en)
            if shape == "struct":
                head = "type %s struct { %s }" % (tname, "; ".join(embeds)) if embeds else "type %s struct{}" % tname
            elif shape == "int":
                head = "type %s int" % tname
            else:
                head = "type %s []string" % tname
            out[fn] += doc + [head] + decls + [""]
    # same-package interfaces, no qualifier
    L = rand_method(rng, "Run")
    out["d.go"] += ["type Local interface {", "\tRun%s" % render_sig(L, "xq."), "}", ""] if False else []
    lm = {"name": "Run", "ps": [T_basic("int"), ("ptr", ("ptr", T_basic("string")))], "rs": [T_basic("error")], "variadic": False}
    out["d.go"] += ["type Local interface {", "\tRun%s" % render_sig(lm, ""), "}", ""]
    for i, (amp, how, recv_ptr, qual) in enumerate([(False, "exact", False, ""), (False, "exact", True, ""), (True, "exact", True, ""), (False, "mutate", False, ""), (True, "missing", False, ""),
                                                    (False, "exact", False, "t."), (False, "exact", False, "ifc."), (False, "exact", False, "foo."), (False, "exact", False, "libfoo.")]):
        tname = "D%d" % i
        target = "Local" if qual in ("", "t.") else ("I0" if qual == "ifc." else "Doer")
        doc = ["// @implements %s%s%s" % ("&" if amp else "", qual, target)]
        decls = []
        if how != "missing":
            v = variant_of(rng, lm, how)
            decls.append("func (r %s%s) Run%s {%s}" % ("*" if recv_ptr else "", tname, render_sig(v, ""), zero_returns(v, "")))
        out["d.go"] += doc + ["type %s struct{}" % tname] + decls + [""]
        count("qualifier", "none" if qual == "" else "unbound-in-file:" + qual)
    # a same-package interface with an unexported method: satisfied by a method of THIS package only
    out["d.go"] += ["type LocalH interface{ hidl(x int) }", "", "// @implements LocalH", "type DH0 struct{}", "func (DH0) hidl(x int) {}", "",
                    "// @implements LocalH", "type DH1 struct{}", "", "// @implements &LocalH", "type DH2 struct{}", "func (*DH2) hidl(x int) {}", ""]
    out["a.go"] += ["// @implements LocalH", "type AH struct{ ifc.MixLocal }", ""]
    # an interface whose signature mentions a defined type of THIS package, in a package that also has an in-package test
    # file: the stand-alone driver analyses the package twice (t and t [t.test]) with distinct type objects
    out["d.go"] += ["type Pt struct{ X int }", "type LocalP interface{ At(p Pt) *Pt }", "", "// @implements LocalP", "type DP0 struct{}", "func (DP0) At(p Pt) *Pt { return nil }", "",
                    "// @implements LocalP", "type DP1 struct{}", "func (DP1) At(p *Pt) *Pt { return nil }", ""]
    files["%s/t/d_test.go" % wid] = "package t\n\nimport \"testing\"\n\nfunc TestNothing(t *testing.T) { _ = DP0{} }\n"
    # c.go: the package whose name differs from its directory
    for i, (qual, amp) in enumerate([("foo", False), ("foo", True), ("libfoo", False), ("ifc", False)]):
        tname = "C%d" % i
        out["c.go"] += ["// @implements %s%s.Doer" % ("&" if amp else "", qual), "type %s struct{}" % tname,
                        "func (r %s%s) Do(x int) error { return nil }" % ("*" if i == 1 else "", tname), ""]
        count("qualifier", "name-differs-from-dir:" + qual)
    for fn, (imp, q) in binds.items():
        hdr = ["package t", ""]
        if imp:
            hdr += ["import %s" % imp, "", "var _ = %sAnchor" % (q if q else "foo."), ""]
        files["%s/t/%s" % (wid, fn)] = "\n".join(hdr + out[fn]) + "\n"
    return files
