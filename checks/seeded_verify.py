#!/usr/bin/env python3
"""Confirms each seeded change under /verif/seeded/<id>/ in a scratch worktree of /repo: the patch applies, the tree
builds, the pinned suite still passes (559), and the demonstration passes on the clean tree and fails with the change.
Writes <id>/meta.json (fields confirmed_* ; the fields property/needs/detected_by are filled in by hand or by
checks/seeded_run.py).  usage: seeded_verify.py [ids...]"""
import json, os, re, shutil, subprocess, sys
sys.path.insert(0, os.path.dirname(os.path.abspath(__file__)))
import lib

SEEDED = os.path.join(lib.VERIF, "seeded")


def sh(cmd, cwd=None, env=None, timeout=900):
    p = subprocess.run(cmd, cwd=cwd, env=env, shell=True, capture_output=True, text=True, timeout=timeout)
    return p.returncode, p.stdout + p.stderr


def suite(wt, env):
    rc, out = sh("go test -json -vet=off -count=1 ./... 2>/dev/null", cwd=wt, env=env)
    p = f = 0
    for line in out.split("\n"):
        try:
            e = json.loads(line)
        except Exception:
            continue
        if e.get("Test") and e.get("Action") == "pass":
            p += 1
        if e.get("Test") and e.get("Action") == "fail":
            f += 1
    return p, f


def run_demo(d, binary, wt, env):
    if os.path.exists(os.path.join(d, "demo.sh")):
        rc, out = sh("bash demo.sh %s" % binary, cwd=d, env=env, timeout=600)
        return rc, out[-1500:]
    return None, "no demo.sh"


def verify(name):
    d = os.path.join(SEEDED, name)
    env = lib.go_env()
    wt = "/tmp/sv/%s" % name
    os.makedirs("/tmp/sv", exist_ok=True)
    sh("git -C %s worktree remove --force %s" % (lib.REPO, wt))
    rc, out = sh("git -C %s worktree add -q --detach %s HEAD" % (lib.REPO, wt))
    meta_p = os.path.join(d, "meta.json")
    meta = json.load(open(meta_p)) if os.path.exists(meta_p) else {}
    try:
        rc, out = sh("go build -o /tmp/sv/%s.clean ./cmd/gogreement" % name, cwd=wt, env=env)
        rc_a, out_a = sh("git apply %s" % os.path.join(d, "patch.diff"), cwd=wt)
        meta["confirmed_patch_applies"] = rc_a == 0
        rc_b, out_b = sh("go build ./... && go build -o /tmp/sv/%s.mut ./cmd/gogreement" % name, cwd=wt, env=env)
        meta["confirmed_builds"] = rc_b == 0
        p, f = suite(wt, env)
        meta["confirmed_suite"] = {"pass": p, "fail": f}
        rc1, o1 = run_demo(d, "/tmp/sv/%s.clean" % name, wt, env)
        rc2, o2 = run_demo(d, "/tmp/sv/%s.mut" % name, wt, env)
        meta["confirmed_demo_clean_rc"] = rc1
        meta["confirmed_demo_mutant_rc"] = rc2
        meta["confirmed_demo_mutant_tail"] = o2[-400:]
        meta["confirmed"] = bool(rc_a == 0 and rc_b == 0 and p == 559 and f == 0 and rc1 == 0 and rc2 not in (0, None))
        meta["ran"] = ["git worktree add (scratch) ; git apply patch.diff ; go build ./... ; go test -json -vet=off -count=1 ./... ; bash demo.sh <clean binary> ; bash demo.sh <mutated binary>"]
    finally:
        sh("git -C %s worktree remove --force %s" % (lib.REPO, wt))
        for x in (".clean", ".mut"):
            try:
                os.remove("/tmp/sv/%s%s" % (name, x))
            except OSError:
                pass
    json.dump(meta, open(meta_p, "w"), indent=1)
    return name, meta.get("confirmed"), meta.get("confirmed_suite"), meta.get("confirmed_demo_clean_rc"), meta.get("confirmed_demo_mutant_rc")


if __name__ == "__main__":
    names = sys.argv[1:] or sorted(os.listdir(SEEDED))
    import concurrent.futures
    with concurrent.futures.ThreadPoolExecutor(max_workers=4) as ex:
        for r in ex.map(verify, names):
            print(*r)
            sys.stdout.flush()
