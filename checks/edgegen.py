"""Guard-targeted programs for C10 (totality): compilable packages that put annotated items and annotation / @ignore
comments at every unusual place the analyzers' type assertions, nil checks, index expressions and position look-ups have
to survive: aliases and blank type names, grouped and generic declarations, local types, unnamed receivers, universe
types at every candidate site, package-level initialisers first in the file, dot imports, //line directives (with and
without column, naming this file / a sibling / nothing that exists), empty and comment-only files, very long lines, CRLF.

Every world is one module directory tree {relative file: text}.  Annotation lines are drawn at random for every `@A@`
placeholder so that each shape meets each annotation kind over the runs."""

TYPE_ANN = ["// @immutable", "// @constructor NewT, MakeT", "// @constructor", "// @testonly", "// @packageonly", "// @packageonly nobody, x/y",
            "// @implements Shape", "// @implements &Shape", "// @implements lib.Shape", "// @implements &lib.Shape", "// @implements nosuch.Shape", "// @implements lib.Missing",
            "// @implements error", "// @implements lib.Pt", "// @mutable", "// @ignore ALL", "// plain doc"]
FUNC_ANN = ["// @testonly", "// @packageonly", "// @packageonly nobody", "// @immutable", "// @constructor X", "// @implements Shape", "// @ignore IMM, CTOR", "// plain doc"]
FIELD_ANN = ["// @mutable", "// @immutable", "// @testonly", "// @ignore IMM01", "// plain"]


def fill(rng, text, stats):
    out = []
    for line in text.split("\n"):
        while "@A@" in line or "@F@" in line or "@M@" in line:
            for ph, pool, key in (("@A@", TYPE_ANN, "type"), ("@F@", FUNC_ANN, "func"), ("@M@", FIELD_ANN, "field")):
                if ph in line:
                    a = rng.choice(pool)
                    stats.setdefault(key, {})
                    stats[key][a] = stats[key].get(a, 0) + 1
                    line = line.replace(ph, a, 1)
        out.append(line)
    return "\n".join(out)


LIB = '''package lib

// Shape is implemented by many.
type Shape interface {
	Area() int
}

// Pt is annotated in every way at once.
// @immutable
// @constructor NewPt, MakePt
// @testonly
// @packageonly nobody
type Pt struct {
	X, Y int
	// @mutable
	Cache map[string]int
	Xs    []int
	In    *Pt
}

func NewPt() *Pt  { return &Pt{} }
func MakePt() Pt { var p Pt; p.X = 1; return p }

// @testonly
func Mock() int { return 1 }

// @packageonly nobody
func Internal() int { return 2 }

// @testonly
// @packageonly nobody
func (p *Pt) Reset() { p.X = 0 }

// @packageonly
func (p Pt) Peek() int { return p.X }

// G is generic and annotated.
// @immutable
// @constructor NewG
// @testonly
// @packageonly nobody
type G[T any] struct {
	F T
	// @mutable
	M T
}

func NewG[T any]() *G[T] { return &G[T]{} }

// @testonly
func (g *G[T]) Set(v T) { g.F = v }

// @testonly
// @packageonly nobody
func Gen[T any](v T) T { return v }

// GI is a generic interface.
type GI[T any] interface{ Get() T }

// @immutable
// @testonly
type Alias = Pt

// @immutable
// @constructor NewPt
type PP *Pt

// self-referential and mutually recursive pointer types
type Link *Link
type Ping *Pong
type Pong *Ping

// promotion over several levels, by value and by pointer at every level
type Meta struct{ Rev int }
type Node struct {
	Meta
	Kids []*Node
}
type Tree struct{ *Node }
type Forest struct{ Tree }
type Grove struct{ *Forest }

// @immutable
type Leaf struct {
	Meta
	*Node
}

// @immutable
// @testonly
type Fn func(int) int

// @immutable
type Err error

const Anchor = 0

var Global = Pt{}
var GlobalP = &Pt{}
'''

USER = '''package user

import (
	"w/@W@/lib"
)

var _ = lib.Anchor

// package-level initialisers come first: no enclosing function yet
var first = func() *lib.Pt { p := lib.NewPt(); p.X = 1; p.X++; p.Xs[0] = 2; p.Cache["a"] = 1; return p }()
var second, third = lib.Pt{}, &lib.Pt{X: 1}
var fourth lib.Pt
var _ lib.Pt
var (
	fifth  = []lib.Pt{{}, {X: 1}}
	sixth  = map[string]*lib.Pt{"a": {}}
	errv   error
	_      = new(error)
	_      = new(lib.Pt)
	_      = new(*lib.Pt)
	_      = new(lib.G[int])
	_      = lib.G[string]{}
	_      = &lib.G[lib.Pt]{}
	_      = lib.Gen[int](1)
	_      = lib.Gen(lib.Pt{})
	_      = lib.Mock
	_      = (*lib.Pt).Reset
	_      = lib.Pt.Peek
)

@A@
type Local struct {
	@M@
	A, B int
	@M@
	lib.Pt
	@M@
	*lib.G[int]
	inner struct {
		@M@
		C int
	}
}

@A@
type LocalAlias = lib.Pt

@A@
type _ lib.Pt

@A@
type (
	@A@
	Grouped1 struct{ V int }
	Grouped2 int
	@A@
	GroupedAlias = Grouped1
)

@A@
type LG[T any] struct{ V T }

@A@
type LI interface {
	@M@
	Area() int
}

@A@
type LF func(lib.Pt) *lib.Pt

@A@
type LP *lib.Pt

@A@
type LM map[*lib.Pt][]lib.Pt

@F@
func (Local) Area() int { return 0 }

@F@
func (_ *Local) Unnamed() {}

@F@
func (l *Local) Writes(o *lib.Pt, pp **lib.Pt, e error, ch chan lib.Pt) {
	l.A = 1
	l.Pt.X = 2
	l.X = 3
	l.inner.C = 4
	o.X, l.B = 5, 6
	(o.X) = 7
	(*o).X = 8
	(*pp).X = 9
	(**pp).X = 10
	o.In.In.X = 11
	o.Xs[0], o.Cache["k"] = 1, 2
	o.Xs[0]++
	o.Xs[1] += 2
	o.X <<= 1
	o.X &^= 1
	*o = lib.Pt{}
	*l = Local{}
	*(&l.A) = 1
	for o.X = range []int{1} {
	}
	for o.X, o.Y = range []int{1} {
	}
	var ok bool
	*o, ok = <-ch
	_ = ok
	o.X, _ = 1, 2
	lib.Global.X = 1
	lib.GlobalP.X++
	lib.NewPt().X = 1
	func() *lib.Pt { return o }().X--
	[]*lib.Pt{o}[0].X = 1
	map[string]*lib.Pt{}["a"].X = 1
	_ = e
	// fields promoted over one, two, three and four levels with embedded pointers at every level; cyclic pointer types
	var tr lib.Tree
	var fo lib.Forest
	var gr lib.Grove
	var lf lib.Leaf
	tr.Node = &lib.Node{}
	tr.Rev = 5
	tr.Rev++
	tr.Kids[0] = nil
	fo.Rev = 6
	fo.Node.Meta.Rev += 1
	gr.Forest = &fo
	gr.Rev = 7
	gr.Tree.Node.Kids[0].Rev--
	lf.Rev = 8
	lf.Meta.Rev = 9
	lf.Node.Rev = 10
	lf.Kids[0] = nil
	(&lf).Node.Kids[0].Meta.Rev++
	var ln lib.Link
	var pg lib.Ping
	var po lib.Pong
	type box struct {
		L lib.Link
		P *lib.Ping
	}
	_ = func(a lib.Link, b lib.Pong) (lib.Ping, *lib.Link) { return nil, nil }
	_, _, _, _ = ln, pg, po, box{}
	// index / parenthesis / dereference layers around the assigned operand, in every order
	type grid [][]int
	g := &grid{{1}}
	(*g)[0][0] = 0
	(*g)[0][0]++
	(o.Xs)[0] = 1
	((o.Xs))[0] = 1
	(o.Xs)[0]++
	(o.Cache)["k"] = 1
	((o).Cache)["k"]++
	rows := [][]*lib.Pt{{o}}
	rows[0][0].X = 1
	(rows[0])[0].X = 2
	(rows)[0][0].X++
	(*(&rows))[0][0].Y = 3
	(*pp).Xs[0] = 1
	(*(*pp)).Xs[0] += 1
	((*pp).Xs)[0] -= 1
	[][]int{{1}}[0][0] = 2
	mm := map[string][]int{"a": {1}}
	mm["a"][0] = 1
	(mm["a"])[0] = 1
	(mm)["a"] = nil
	cells := [][]lib.Pt{{*o}}
	cells[0][0].X = 1
	(cells[0][0]).X = 1
	(cells)[0][0].Xs[0] = 1
	((cells)[0])[0].Xs[0]++
	ptrs := []*[]lib.Pt{&cells[0]}
	(*ptrs[0])[0].X = 1
	(*(ptrs)[0])[0].Xs[0] = 1
}

@F@
func NewT() *lib.Pt {
	var a lib.Pt
	var b, c lib.Pt
	var d *lib.Pt
	var f lib.G[int]
	var g, _ lib.Alias
	var h error
	var i interface{}
	var j struct{ P lib.Pt }
	var k [2]lib.Pt
	var m lib.PP
	var n lib.Fn
	_, _, _, _, _, _, _, _, _, _, _, _ = a, b, c, d, f, g, h, i, j, k, m, n
	new := func(x int) *int { return &x }
	_ = new(1)
	return &lib.Pt{}
}

@F@
func MakeT[T any](v T) lib.G[T] {
	var z lib.G[T]
	z.F = v
	z.M = v
	x := lib.G[T]{F: v}
	x.F = v
	_ = lib.Gen[T](v)
	return z
}

@F@
func Calls(p *lib.Pt, s lib.Shape, f func() int, fs []func() int, m map[string]func()) {
	_ = lib.Mock()
	_ = (lib.Mock)()
	_ = f()
	_ = fs[0]()
	m["a"]()
	func() {}()
	p.Reset()
	(*p).Reset()
	(*lib.Pt).Reset(p)
	lib.Pt.Peek(*p)
	_ = s.Area()
	_ = p.In.In.Peek()
	_ = lib.NewG[int]().F
	lib.NewG[int]().Set(1)
	_ = len([]lib.Pt{})
	_ = make([]lib.Pt, 1)
	_ = make(chan *lib.Pt)
	_ = any(p).(*lib.Pt)
	_ = interface{}(*p).(lib.Pt)
	switch v := any(p).(type) {
	case *lib.Pt:
		v.X = 1
	case lib.Pt:
		v.X = 2
	case error, nil:
	}
	_ = lib.Pt(*p)
	_ = (*lib.Pt)(p)
	_ = lib.Fn(func(int) int { return 0 })(1)
	_ = lib.Err(nil)
	var e lib.Err
	_ = e
	goto done
done:
	for {
		break
	}
	select {
	case <-make(chan lib.Pt):
	default:
	}
	defer lib.Mock()
	go p.Reset()
	type inFunc struct{ P lib.Pt }
	_ = inFunc{}
	// @immutable
	// @constructor nope
	type localAnnotated struct{ F int }
	la := localAnnotated{}
	la.F = 1
}

@F@
func init() { first.X = 1 }

// trailing the last declaration
var last = lib.Pt{} // @ignore CTOR01
'''

DOT = '''package dot

import (
	. "w/@W@/lib"
	_ "w/@W@/lib"
)

@A@
type D struct{ P Pt }

@F@
func Use(p *Pt) {
	p.X = 1
	_ = Pt{}
	_ = Mock()
	_ = Internal()
	p.Reset()
	var q Pt
	_ = q
	_ = NewG[int]()
	_ = Gen(1)
	_ = Anchor
}
'''

LINEDIR = '''package linedir

import "w/@W@/lib"

var _ = lib.Anchor

func before(p *lib.Pt) {
	p.X = 1 // @ignore X9
}

//line linedir.go:7
func sameFileNoColumn(p *lib.Pt) {
	p.X += 2
	_ = lib.Pt{} // @ignore X9
	_ = lib.Mock()
}

/*line linedir.go:3:1*/ func sameFileWithColumn(p *lib.Pt) { p.X = 3 }

//line sibling.go:2
func sibling(p *lib.Pt) {
	p.X = 4
	_ = lib.Internal() // @ignore X9
}

//line generated.y:1000
func unreadable(p *lib.Pt) {
	p.X = 5 // @ignore IMM01
	// @ignore CTOR01
	_ = lib.Pt{}
}

//line linedir.go:100000
func beyondTheFile(p *lib.Pt) {
	p.X = 6
	_ = new(lib.Pt) // @ignore X9
}

//line :5
func emptyName(p *lib.Pt) { p.X = 7 }
'''

SIBLING = '''package linedir

// sibling file of linedir.go
func sib() {}
'''

ODD = '''// @ignore X9
// a comment before the package clause
package odd // @ignore ALL

// @ignore IMM01
import ( // @ignore X9
	// @ignore X9
	"w/@W@/lib" // @ignore X9
) // @ignore X9

// a free comment @immutable

var _ = lib.Anchor // @ignore X9

// @ignore CTOR
type T struct { // @ignore X9
	// @ignore X9
	A int // @ignore X9
	// @ignore X9
} // @ignore X9

func f(p *lib.Pt) { // @ignore X9
	// @ignore X9
	if p != nil { // @ignore X9
		// @ignore X9
	} else { // @ignore X9
		p.X = 1
		// @ignore X9
	}
	_ = []int{ // @ignore X9
		// @ignore X9
		1, // @ignore X9
		// @ignore X9
	}
	switch { // @ignore X9
	// @ignore X9
	case true: // @ignore X9
		// @ignore X9
	}
	// @ignore X9
}

// @ignore X9
'''

EMPTY = "package empty\n"
ONLYCOMMENTS = "// @ignore ALL\n// @immutable\npackage onlycomments\n\n// @implements Shape\n// @constructor New\n\n/* @testonly */\n// @ignore IMM01\n"
ONLYIMPORTS = 'package onlyimports\n\nimport _ "w/@W@/lib" // @ignore ALL\n'


def longlines(wid):
    long_expr = " + ".join(["1"] * 300)
    huge = "/* " + "x" * 70000 + " */"
    return ('package longlines\n\nimport "w/%s/lib"\n\nvar _ = lib.Anchor\n\nfunc f(p *lib.Pt) {\n\tp.X = %s; p.Y = 2; _ = lib.Pt{}\n\t%s p.X = 3\n\tp.X = 4\n}\n' % (wid, long_expr, huge))


def edge_world(rng, wid, stats=None):
    st = stats if stats is not None else {}
    files = {}
    sub = lambda t: fill(rng, t.replace("@W@", wid), st)
    files["%s/lib/lib.go" % wid] = sub(LIB)
    files["%s/user/user.go" % wid] = sub(USER)
    files["%s/dot/dot.go" % wid] = sub(DOT)
    files["%s/linedir/linedir.go" % wid] = sub(LINEDIR)
    files["%s/linedir/sibling.go" % wid] = SIBLING
    files["%s/odd/odd.go" % wid] = sub(ODD)
    files["%s/empty/empty.go" % wid] = EMPTY
    files["%s/onlycomments/c.go" % wid] = ONLYCOMMENTS
    files["%s/onlyimports/i.go" % wid] = sub(ONLYIMPORTS)
    files["%s/longlines/l.go" % wid] = longlines(wid)
    crlf = sub(DOT).replace("package dot", "package crlf").replace("\n", "\r\n")
    files["%s/crlf/crlf.go" % wid] = crlf
    # an in-package test file and an external test package
    files["%s/user/user_test.go" % wid] = sub('package user\n\nimport "w/@W@/lib"\n\n@A@\ntype TT struct{ P lib.Pt }\n\nfunc tt(p *lib.Pt) { p.X = 1; _ = lib.Mock(); _ = TT{} }\n')
    files["%s/user/ext_test.go" % wid] = sub('package user_test\n\nimport "w/@W@/lib"\n\nfunc ext(p *lib.Pt) { p.X = 1; _ = lib.Internal() }\n')
    return files
