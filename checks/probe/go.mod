module probe

go 1.25
