package gen

import "probe/a"

func G(t *a.T) {
	t.F = 9
	_ = a.T{}
}
