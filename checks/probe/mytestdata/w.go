package mytestdata

import "probe/a"

func W(t *a.T) {
	t.F = 8
}
