// Package a declares one annotated item per category.
package a

// T is immutable and built by NewT only.
// @immutable
// @constructor NewT
type T struct {
	F  int
	Xs []int
}

func NewT() *T {
	t := &T{}
	t.F = 1
	return t
}

// Mock is for tests.
// @testonly
func Mock() int { return 1 }

// Helper is for tests.
// @testonly
type Helper struct{ N int }

// @testonly
func (h *Helper) Reset() { h.N = 0 }

// Internal may be used from package allowed only.
// @packageonly allowed
func Internal() int { return 2 }

// Secret is restricted too.
// @packageonly allowed
type Secret struct{ V int }

// @packageonly allowed
func (s *Secret) Open() int { return s.V }

type Shape interface {
	Area() int
	Name() string
}
