package u

import "probe/a"

// Sq claims an interface of a package that is not imported under that name.
// @implements nosuch.Shape
type Sq struct{}

// Sq2 names an interface that does not exist.
// @implements a.Missing
type Sq2 struct{}

// Sq3 lacks a method.
// @implements a.Shape
type Sq3 struct{}

func (Sq3) Area() int { return 1 }

func Use(t *a.T, h *a.Helper, s *a.Secret) int {
	t.F = 2
	t.F += 1
	t.F++
	t.Xs[0] = 3
	x := a.T{}
	y := new(a.T)
	var z a.T
	_ = a.Mock()
	h.Reset()
	_ = a.Internal()
	_ = s.Open()
	_, _, _ = x, y, z
	return 0
}
