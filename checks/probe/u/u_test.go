package u

import "probe/a"

func helperForTests(t *a.T) {
	t.F = 7
	_ = a.Mock()
}
