package allowed

import "probe/a"

func Fine(s *a.Secret) int { return a.Internal() + s.Open() }
