#!/usr/bin/env python3
"""checks/check.py <property id> [quick|thorough]  — exit 0 if the property held on everything explored,
exit 1 with a line `VIOLATION property=<id> replay=<path>` otherwise; rewrites evidence/<id>.json."""
import importlib, os, sys
sys.path.insert(0, os.path.dirname(os.path.abspath(__file__)))
import lib


def main():
    if len(sys.argv) < 2:
        print(__doc__)
        return 2
    pid = sys.argv[1].upper()
    if len(sys.argv) > 2:
        os.environ["VERIF_TIER"] = sys.argv[2]
    os.environ.setdefault("VERIF_TIER", "quick")
    mod = importlib.import_module("props." + pid.lower())
    ctx = lib.prepare()
    return mod.run(ctx)


if __name__ == "__main__":
    sys.exit(main())
