"""C08 — exclude-checks removes exactly the matching codes, project-wide.
Correspondence: the real binary on worlds producing all 16 codes, under many exclusion lists given by flag or
environment in any case / spacing: the reported set must equal the FILTERED unrestricted set (the property itself,
on the implementation) and the model's set under the same configuration."""
import concurrent.futures, os
import lib, worlds, worldgen
from props.c18 import H, decode_cfg

CATS = ["IMM", "CTOR", "TONL", "PKGO", "IMPL"]
CODES = ["IMM01", "IMM02", "IMM03", "IMM04", "CTOR01", "CTOR02", "CTOR03", "TONL01", "TONL02", "TONL03", "PKGO01", "PKGO02", "PKGO03", "IMPL01", "IMPL02", "IMPL03"]
JUNK = ["IM", "IMM0", "X9", "IMM011", "CTOR0", "PKG", "A", "ALLL", "TONL1", "no imm", "not all", "IMM 01", "CTOR-01"]


def tokens_for(code):
    cat = code.rstrip("0123456789")
    return ["ALL", cat, code] if cat in CATS and cat != code else ["ALL", code]


def spell(rng, toks):
    out = []
    for t in toks:
        r = rng.random()
        t = t.lower() if r < 0.3 else (t.capitalize() if r < 0.4 else t)
        out.append(rng.choice(["", " ", "  ", "\t", " \t", "\n"]) + t + rng.choice(["", " ", "\t", "\r", " \r\n"]))
    s = ",".join(out)
    if rng.random() < 0.2:
        s += ","
    if rng.random() < 0.1:
        s = "," + s
    return s


def run(ctx):
    rep = lib.Report(ctx, "C08")
    rng = lib.rng_for(ctx, "C08")
    nworlds = 10 if ctx.tier != "thorough" else 60
    d = lib.scratch_dir()
    root = os.path.join(d, "m")
    wl, sites, stats = worlds.generate(ctx, nworlds, "c08", root, layout={"unrelated_ignores": True}, full_annotations=True, with_impl=True)
    dump = os.path.join(d, "dump.sx")
    rc, err = worlds.skel(ctx, root, dump)
    sets = [[t] for t in ["ALL"] + CATS + CODES + JUNK]
    sets += [[a, b] for i, a in enumerate(CATS) for b in CATS[i + 1:]]
    nrand = 25 if ctx.tier != "thorough" else 500
    for _ in range(nrand):
        k = rng.randint(2, 6)
        sets.append([rng.choice(CATS + CODES + CODES + JUNK + ["ALL"] if rng.random() < 0.05 else CATS + CODES + CODES + JUNK) for _ in range(k)])
    sets.append([])
    base = lib.run_binary(ctx, root, flags=["--config.scan-tests=true", "--config.exclude-paths="])
    baseline = sorted(worlds.keyset(base["diags"]))
    codes_seen = sorted({k[2] for k in baseline})
    jobs = []
    for i, S in enumerate(sets):
        val = spell(rng, S)
        by_env = (i % 2 == 1)
        jobs.append((S, val, by_env))
    # the parsed list, through the model of the configuration (ties C18 in)
    plines = [("E:GOGREEMENT_EXCLUDE_CHECKS=%s" % H(v)) if e else ("F:exclude-checks=%s" % H(v)) for (_, v, e) in jobs]
    mcfg = [decode_cfg(l) for l in lib.run_lines([ctx.modelrun, "config"], plines)]

    def one(j):
        S, val, by_env = jobs[j]
        fl = ["--config.scan-tests=true", "--config.exclude-paths="]
        env = {}
        if by_env:
            env["GOGREEMENT_EXCLUDE_CHECKS"] = val
        else:
            fl.append("--config.exclude-checks=" + val)
        r = lib.run_binary(ctx, root, flags=fl, env=env)
        m = worlds.model_analyze(ctx, dump, (True, [], mcfg[j][2]), root)
        return r, m
    with concurrent.futures.ThreadPoolExecutor(max_workers=lib.NCPU) as ex:
        results = list(ex.map(one, range(len(jobs))))
    found = False
    nontrivial = set()
    for (S, val, by_env), cfg, (r, m) in zip(jobs, mcfg, results):
        parsed = cfg[2]
        got = sorted(worlds.keyset(r["diags"]))
        want = [k for k in baseline if not any(t in parsed for t in tokens_for(k[2]))]
        a_only, m_only = worlds.compare(r["diags"], m["diags"], worlds.MODELLED)
        ok = (got == want) and not r["crashed"] and not a_only and not m_only
        if 0 < len(want) < len(baseline):
            nontrivial.add(tuple(sorted(parsed)))
        if not ok:
            found = True
            if len(rep.violations) < 4:
                extra = sorted(set(got) - set(want))[:10]
                missing = sorted(set(want) - set(got))[:10]
                wid = (extra + missing + a_only + m_only)[0][0].split("/")[0] if (extra or missing or a_only or m_only) else None
                files = {k: open(os.path.join(root, k)).read() for k in [os.path.relpath(os.path.join(dp, f), root) for dp, _, fs in os.walk(os.path.join(root, wid)) for f in fs]} if wid else {}
                rep.violation({"property": "C08", "kind": "exclude-checks", "value": val, "given_by": "environment" if by_env else "flag", "parsed_list": parsed,
                               "reported_although_excluded_or_not_in_baseline": extra, "missing_although_not_excluded": missing,
                               "implementation_vs_model": {"impl_only": a_only[:10], "model_only": m_only[:10]}, "crashed": r["crashed"], "stderr_tail": r["stderr"][-500:],
                               "world": wid, "files": files, "config": [True, [], parsed],
                               "what": "the diagnostics under exclude-checks are not the filter of the unrestricted diagnostics"})
    lib.obligation_gate(rep, ctx, "C08", found)
    rep.cov["evaluations"] = len(jobs) * len(baseline)
    rep.cov["distinct_nontrivial"] = len(nontrivial)
    rep.cov["rule"] = ("%d worlds with every annotation present plus an @implements package (codes produced: %s); exclusion lists: every single token of {ALL, 5 categories, 16 codes, %d junk tokens "
                       "incl. strict prefixes of categories}, every pair of categories, %d random subsets, the empty list; spelled in random case / spacing / stray commas, alternately by flag and by "
                       "environment; each run of the real binary compared with the filtered unrestricted run and with the model. evaluations = configurations x baseline diagnostics; non-trivial = "
                       "distinct parsed lists that remove some but not all diagnostics" % (nworlds, ",".join(codes_seen), len(JUNK), nrand))
    rep.cov["configurations"] = len(jobs)
    rep.cov["baseline_diagnostics"] = len(baseline)
    rep.cov["codes_in_baseline"] = codes_seen
    rep.cov["samples"] = [{"value": jobs[i][1], "by_env": jobs[i][2], "parsed": mcfg[i][2]} for i in (0, 7, 30, len(jobs) - 2)]
    rep.assumptions = ["ASCII tokens", "the unrestricted run is the reference (metamorphic) and the model is the second reference"]
    return rep.finish()


def replay(ctx, d):
    import l1
    d = dict(d)
    d["kind"] = "world"
    return l1.replay(ctx, d)
