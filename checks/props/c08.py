"""C08 — exclude-checks removes exactly the matching codes, project-wide.
Correspondence: the real binary on worlds producing all 16 codes, under many exclusion lists given by flag or
environment in any case / spacing: the reported set must equal the FILTERED unrestricted set (the property itself,
on the implementation) and the model's set under the same configuration."""
import concurrent.futures, os
import lib, worlds, worldgen
from props.c18 import H, decode_cfg

CATS = ["IMM", "CTOR", "TONL", "PKGO", "IMPL"]
CODES = ["IMM01", "IMM02", "IMM03", "IMM04", "CTOR01", "CTOR02", "CTOR03", "TONL01", "TONL02", "TONL03", "PKGO01", "PKGO02", "PKGO03", "IMPL01", "IMPL02", "IMPL03"]
JUNK = ["IM", "IMM0", "X9", "IMM011", "CTOR0", "PKG", "A", "ALLL", "TONL1", "no imm", "not all", "IMM 01", "CTOR-01",
        # U+212A KELVIN SIGN and U+017F LONG S are equal to K / S only under Unicode case FOLDING: as tokens they are junk
        "P\u212aGO", "P\u212aGO01", "p\u212ago03", "\u017fX9"]


def tokens_for(code):
    cat = code.rstrip("0123456789")
    return ["ALL", cat, code] if cat in CATS and cat != code else ["ALL", code]


def spell(rng, toks):
    out = []
    for t in toks:
        r = rng.random()
        t = t.lower() if r < 0.3 else (t.capitalize() if r < 0.4 else t)
        out.append(rng.choice(["", " ", "  ", "\t", " \t", "\n"]) + t + rng.choice(["", " ", "\t", "\r", " \r\n"]))
    s = ",".join(out)
    if rng.random() < 0.2:
        s += ","
    if rng.random() < 0.1:
        s = "," + s
    return s


def run(ctx):
    rep = lib.Report(ctx, "C08")
    rng = lib.rng_for(ctx, "C08")
    nworlds = 10 if ctx.tier != "thorough" else 60
    d = lib.scratch_dir()
    root = os.path.join(d, "m")
    wl, sites, stats = worlds.generate(ctx, nworlds, "c08", root, layout={"unrelated_ignores": True}, full_annotations=True, with_impl=True)
    dump = os.path.join(d, "dump.sx")
    rc, err = worlds.skel(ctx, root, dump)
    sets = [[t] for t in ["ALL"] + CATS + CODES + JUNK]
    sets += [[a, b] for i, a in enumerate(CATS) for b in CATS[i + 1:]]
    nrand = 25 if ctx.tier != "thorough" else 500
    for _ in range(nrand):
        k = rng.randint(2, 6)
        sets.append([rng.choice(CATS + CODES + CODES + JUNK + ["ALL"] if rng.random() < 0.05 else CATS + CODES + CODES + JUNK) for _ in range(k)])
    sets.append([])
    base = lib.run_binary(ctx, root, flags=["--config.scan-tests=true", "--config.exclude-paths="])
    baseline = sorted(worlds.keyset(base["diags"]))
    codes_seen = sorted({k[2] for k in baseline})
    jobs = []
    for i, S in enumerate(sets):
        val = spell(rng, S)
        by_env = (i % 2 == 1)
        jobs.append((S, val, by_env))
    # the parsed list, through the model of the configuration (ties C18 in)
    plines = [("E:GOGREEMENT_EXCLUDE_CHECKS=%s" % H(v)) if e else ("F:exclude-checks=%s" % H(v)) for (_, v, e) in jobs]
    mcfg = [decode_cfg(l) for l in lib.run_lines([ctx.modelrun, "config"], plines)]

    def one(j):
        S, val, by_env = jobs[j]
        fl = ["--config.scan-tests=true", "--config.exclude-paths="]
        env = {}
        if by_env:
            env["GOGREEMENT_EXCLUDE_CHECKS"] = val
        else:
            fl.append("--config.exclude-checks=" + val)
        r = lib.run_binary(ctx, root, flags=fl, env=env)
        m = worlds.model_analyze(ctx, dump, (True, [], mcfg[j][2]), root)
        return r, m
    with concurrent.futures.ThreadPoolExecutor(max_workers=lib.NCPU) as ex:
        results = list(ex.map(one, range(len(jobs))))
    found = False
    nontrivial = set()
    for (S, val, by_env), cfg, (r, m) in zip(jobs, mcfg, results):
        parsed = cfg[2]
        got = sorted(worlds.keyset(r["diags"]))
        want = [k for k in baseline if not any(t in parsed for t in tokens_for(k[2]))]
        a_only, m_only = worlds.compare(r["diags"], m["diags"], worlds.MODELLED)
        ok = (got == want) and not r["crashed"] and not a_only and not m_only
        if 0 < len(want) < len(baseline):
            nontrivial.add(tuple(sorted(parsed)))
        if not ok:
            found = True
            if len(rep.violations) < 4:
                extra = sorted(set(got) - set(want))[:10]
                missing = sorted(set(want) - set(got))[:10]
                wid = (extra + missing + a_only + m_only)[0][0].split("/")[0] if (extra or missing or a_only or m_only) else None
                files = {k: open(os.path.join(root, k)).read() for k in [os.path.relpath(os.path.join(dp, f), root) for dp, _, fs in os.walk(os.path.join(root, wid)) for f in fs]} if wid else {}
                rep.violation({"property": "C08", "kind": "exclude-checks", "value": val, "given_by": "environment" if by_env else "flag", "parsed_list": parsed,
                               "reported_although_excluded_or_not_in_baseline": extra, "missing_although_not_excluded": missing,
                               "implementation_vs_model": {"impl_only": a_only[:10], "model_only": m_only[:10]}, "crashed": r["crashed"], "stderr_tail": r["stderr"][-500:],
                               "world": wid, "files": files, "config": [True, [], parsed],
                               "what": "the diagnostics under exclude-checks are not the filter of the unrestricted diagnostics"})
    # (b) repeated runs on a concurrency stress module (40 independent packages, four checker families each): the
    # module-wide exclusion must be applied by every checker of every package in every run
    import stressgen, re as _re
    sfiles, scodes = stressgen.ignore_stress(40, 20)
    sroot = os.path.join(d, "stress", "m")
    stressgen.write(sroot, sfiles)
    stress_runs = 0
    for i in range(16 if ctx.tier != "thorough" else 80):
        val, want = [("ALL", 0), ("all", 0), ("IMM,CTOR", 80), ("tonl02, PKGO", 80)][i % 4]
        env = {"GOGREEMENT_EXCLUDE_CHECKS": val} if i % 2 else {}
        fl = [] if i % 2 else ["--config.exclude-checks=" + val]
        r = lib.run_binary(ctx, sroot, flags=fl, env=env, timeout=600)
        stress_runs += 1
        if len(r["diags"]) != want or r["crashed"]:
            found = True
            rep.violation({"property": "C08", "kind": "stress", "value": val, "given_by": "environment" if i % 2 else "flag", "run": i, "diagnostics": len(r["diags"]), "expected": want,
                           "leaked": [[x["file"], x["line"], x["code"]] for x in r["diags"]][:8], "crashed": r["crashed"], "stderr_tail": r["stderr"][-400:],
                           "module": "checks/stressgen.ignore_stress(40, 20)", "files": {k: v for k, v in sfiles.items() if k in ("lib/lib.go", "s0/s.go")},
                           "what": "under exclude-checks a matched diagnostic is reported (or an unmatched one lost) in some runs: the exclusion is not applied uniformly"})
            break
    # (c) go vet: facts of a dependency are cached by cmd/go per (files, tool, flags) - not per environment.  A sequence of
    # runs on ONE build cache with different lists given by the environment: every run = the filter of the unrestricted run
    vroot = os.path.join(d, "vet", "m")
    vfiles = {"lib/lib.go": sfiles["lib/lib.go"], "app/app.go": "package app\n\nimport \"w/lib\"\n\nfunc Use(t *lib.T) {\n\tt.F = 1\n\t_ = lib.T{}\n\t_ = lib.Mock()\n\t_ = lib.Internal()\n}\n"}
    stressgen.write(vroot, vfiles)
    venv = dict(ctx.env)
    venv["GOCACHE"] = os.path.join(d, "vet", "gocache")
    venv["GOFLAGS"] = ctx.env.get("GOFLAGS", "-mod=mod")
    vseq = []
    for val in ["TONL", "imm01", "", "pkgo, Ctor01", "PKGO", "junk", "ALL", "IMM", ""]:
        e = dict(venv)
        e["GOGREEMENT_EXCLUDE_CHECKS"] = val
        rc, out, err = lib.sh(["go", "vet", "-vettool=" + ctx.gg, "./app"], cwd=vroot, env=e, timeout=900)
        got = sorted(set(_re.findall(r"\[([A-Z]+\d+)\]", err + out)))
        parsed = [t.strip().upper() for t in val.split(",") if t.strip()]
        want = sorted(c for c in ("IMM01", "CTOR01", "TONL02", "PKGO02") if not any(t in parsed for t in tokens_for(c)))
        vseq.append({"GOGREEMENT_EXCLUDE_CHECKS": val, "codes": got})
        if got != want or lib.crash_in(err + out):
            found = True
            rep.violation({"property": "C08", "kind": "vet-sequence", "sequence_so_far": vseq, "expected_codes_of_last_run": want, "stderr_tail": err[-600:], "files": vfiles,
                           "what": "go vet -vettool on one build cache: after a run with one exclusion list, a run with another list does not give the filter of the unrestricted diagnostics "
                                   "(what an earlier configuration left in the cached facts of a dependency leaks into later runs)"})
            break
    lib.obligation_gate(rep, ctx, "C08", found)
    rep.cov["evaluations"] = len(jobs) * len(baseline)
    rep.cov["distinct_nontrivial"] = len(nontrivial)
    rep.cov["rule"] = ("%d worlds with every annotation present plus an @implements package (codes produced: %s); exclusion lists: every single token of {ALL, 5 categories, 16 codes, %d junk tokens "
                       "incl. strict prefixes of categories}, every pair of categories, %d random subsets, the empty list; spelled in random case / spacing / stray commas, alternately by flag and by "
                       "environment; each run of the real binary compared with the filtered unrestricted run and with the model; plus 16 repeated runs on a concurrency stress module (40 packages x 4 checker families) under ALL / two-category lists, and a sequence of 9 go vet -vettool runs on one build cache with the list changing through the environment. evaluations = configurations x baseline diagnostics; non-trivial = "
                       "distinct parsed lists that remove some but not all diagnostics" % (nworlds, ",".join(codes_seen), len(JUNK), nrand))
    rep.cov["configurations"] = len(jobs)
    rep.cov["baseline_diagnostics"] = len(baseline)
    rep.cov["codes_in_baseline"] = codes_seen
    rep.cov["samples"] = [{"value": jobs[i][1], "by_env": jobs[i][2], "parsed": mcfg[i][2]} for i in (0, 7, 30, len(jobs) - 2)]
    rep.assumptions = ["ASCII tokens, plus four junk tokens with the non-ASCII letters that Unicode case folding equates with K and S", "the unrestricted run is the reference (metamorphic) and the model is the second reference"]
    return rep.finish()


def replay(ctx, d):
    import l1, json
    if d.get("kind") in ("stress", "vet-sequence"):
        print(json.dumps({k: v for k, v in d.items() if k != "files"}, indent=1)[:5000])
        print("(schedule- or cache-dependent: re-run `checks/check.sh C08 quick`; the module is regenerated from checks/stressgen.py)")
        return 0
    d = dict(d)
    d["kind"] = "world"
    return l1.replay(ctx, d)
