"""C19 — rendered excerpt shows the right line; the caret marks the reported column.
Correspondence: reporting.Reporter.ReportViolation (public API, synthetic Pass) vs the extracted Coq model,
full message text; plus an independent reading of the property on the implementation's message (used to
describe a disagreement, never to replace the theorem)."""
import binascii
import lib

HX = lambda b: binascii.hexlify(b).decode() if b else "."


def mk_line(L, variant):
    if variant == "plain":
        return bytes(33 + (i * 7) % 90 for i in range(L))
    if variant == "tabs":
        b = bytearray(33 + (i * 5) % 90 for i in range(L))
        for i in range(L):
            if i < 3 or i % 37 == 11 or i in (L - 2, 196, 197, 198, 199, 200):
                if i < L:
                    b[i] = 9
        return bytes(b)
    if variant == "utf8":
        s = ""
        i = 0
        while len(s.encode()) < L:
            s += ["a", "é", "世", "😀", "b", "\t"][i % 6]
            i += 1
        e = s.encode()[:L]
        return e + b"z" * (L - len(e))
    raise ValueError(variant)


def case_line(content, n, col, code="IMM01", msg=b"m"):
    return "%s %d %d %s %s" % ("-" if content is None else HX(content), n, col, code, HX(msg))


def parse_msg(hexline):
    if hexline is None or not hexline.startswith("M"):
        return None
    return binascii.unhexlify(hexline[2:].strip()) if len(hexline) > 2 else b""


def property_holds(content, n, col, msg, maxlen=200):
    """the property's own clauses, read off a rendered message (in-fragment: 1 <= col <= len)"""
    if msg is None:
        return "failure instead of a message"
    lines = msg.split(b"\n")
    if content is None:
        return None if b"= help:" not in msg and not any(l.endswith(b"^") for l in lines) else "excerpt for an unreadable file"
    src = content.split(b"\n")
    if src and src[-1] == b"":
        src.pop()
    src = [l[:-1] if l.endswith(b"\r") else l for l in src]
    if n > len(src) or n < 1:
        return None
    line = src[n - 1]
    if not (1 <= col <= len(line)):
        return None
    want_prefix = (b"%d | " % n)
    row = None
    for i, l in enumerate(lines):
        if l.lstrip(b" ").startswith(want_prefix) and len(l) - len(l.lstrip(b" ")) + len(b"%d" % n) == l.index(b" |"):
            row = i
            break
    if row is None:
        return "the line numbered like the diagnostic is not shown"
    w = lines[row].index(b" | ")
    ex = lines[row][w + 3:]
    if len(line) <= maxlen and ex != line:
        return "short line not shown as it is"
    if len(ex) > maxlen + 6:
        return "excerpt longer than the display limit plus ellipses"
    if row + 1 >= len(lines) or not lines[row + 1].endswith(b"^"):
        return "no caret under the diagnostic's line"
    pad = lines[row + 1][w + 3:-1]
    dc = len(pad)
    if dc >= len(ex) or ex[dc] != line[col - 1]:
        return "the caret does not stand under the byte at the reported column"
    for k in range(dc):
        if (ex[k] == 9) != (pad[k] == 9):
            return "caret padding does not mirror the excerpt's tabs"
    return None


def run(ctx):
    rep = lib.Report(ctx, "C19")
    cases = []   # (content, n, col, tag)
    lens = list(range(0, 7)) + list(range(195, 207)) + list(range(392, 403)) + list(range(596, 601))
    ctxa, ctxb = b"package p", b"// " + b"c" * 230
    for variant in ("plain", "tabs", "utf8"):
        for L in lens:
            line = mk_line(L, variant)
            content = b"\n".join([ctxa, ctxb, line, ctxb, b"end"]) + b"\n"
            for col in range(1, L + 2):
                cases.append((content, 3, col, "%s/L%d" % (variant, L)))
    if ctx.tier == "thorough":
        for L in range(0, 601):
            line = mk_line(L, "plain")
            for col in range(1, L + 2):
                cases.append((line + b"\n", 1, col, "sweep/L%d" % L))
    # placement in the file, line endings, unreadable / short files
    long_ = mk_line(260, "tabs")
    for col in (1, 2, 100, 197, 198, 199, 260, 261):
        cases.append((long_, 1, col, "one-line-no-newline"))
        cases.append((long_ + b"\n", 1, col, "first-line"))
        cases.append((b"a\nb\nc\n" + long_, 4, col, "last-line-no-newline"))
        cases.append((b"a\r\nb\r\n" + long_ + b"\r\nd\r\n", 3, col, "crlf"))
        cases.append((None, 3, col, "unreadable"))
        cases.append((b"", 1, col, "empty-file"))
        cases.append((b"\n\n\n", 2, col, "blank-lines"))
        for beyond in range(1, 8):
            cases.append((b"x\ny\nz\n", 3 + beyond, col, "short-file+%d" % beyond))
        cases.append((b"x\ny\nz\n", 1000, col, "short-file+997"))
    # a long line (below the 64 KiB limit of the line scanner) ABOVE the reported one: inside and outside the context window
    for big in (4095, 4096, 4097, 5016, 8193, 20000):
        body = b"\n".join([b"package p", b"var s = \"" + b"x" * big + b"\"", b"// two", b"\tvalue.Field = 1", b"// four", b"\tother.Field++", b"end"]) + b"\n"
        for n, col in ((4, 2), (4, 8), (6, 2), (2, 5), (3, 1)):
            cases.append((body, n, col, "below-long-line/%d" % big))
    for n in (9, 10, 11, 99, 100, 101):   # width of the line-number gutter changes
        cases.append((b"\n".join(b"l%d" % i for i in range(1, 120)) + b"\n", n, 2, "gutter"))
    for code in ("IMM01", "CTOR02", "TONL03", "PKGO01", "IMPL03", "ZZZ9", "IM"):
        cases.append((b"abc\n", 1, 2, "url/" + code))
    lines = []
    for (content, n, col, tag) in cases:
        code = tag.split("/")[1] if tag.startswith("url/") else "IMM01"
        lines.append(case_line(content, n, col, code, b"msg with \"quotes\" and\nnewline"))
    impl, model = lib.run_pair(ctx, "unit-reporter", "reporter", lines)
    nontrivial = set()
    tags = {}
    fails = []
    prop_fail = 0
    for (content, n, col, tag), a, b in zip(cases, impl, model):
        tags[tag.split("/")[0]] = tags.get(tag.split("/")[0], 0) + 1
        L = None
        if content is not None:
            src = content.split(b"\n")
            L = len(src[n - 1]) if 1 <= n <= len(src) else None
        if L is not None and L > 200 and 1 <= col <= L:
            nontrivial.add((tag, col))
        ph = property_holds(content, n, col, parse_msg(a))
        if a != b or ph:
            fails.append((content, n, col, tag, a, b, ph))
    found = False
    seen = set()
    for (content, n, col, tag, a, b, ph) in fails:
        key = (tag.split("/")[0], ph, (a or "")[:1], (b or "")[:1])
        if key in seen:
            continue
        seen.add(key)
        found = True
        ma, mb = parse_msg(a), parse_msg(b)
        rep.violation({"property": "C19", "kind": "message", "tag": tag,
                       "content_hex": None if content is None else HX(content), "line": n, "col": col,
                       "case_line": case_line(content, n, col, "IMM01", b"msg with \"quotes\" and\nnewline"),
                       "implementation": a if ma is None else ma.decode("utf8", "replace"),
                       "model": b if mb is None else mb.decode("utf8", "replace"),
                       "property_clause_violated_by_implementation": ph,
                       "what": "reporting.Reporter renders a message that differs from the proved model" + (": " + ph if ph else "")})
        if len(rep.violations) >= 4:
            break
    lib.obligation_gate(rep, ctx, "C19", found)
    rep.cov["evaluations"] = len(cases)
    rep.cov["distinct_nontrivial"] = len(nontrivial)
    rep.cov["exhaustive"] = True
    rep.cov["rule"] = ("messages rendered by ReportViolation for synthetic files: line lengths {0..6,195..206,392..402,596..600} x ALL columns 1..len+1 x {plain, tabs, multi-byte} "
                       "in a 5-line file with long context lines%s; plus first/last line, no trailing newline, CRLF, empty and blank files, unreadable file, files shorter than the reported "
                       "line by 1..7 and 997 lines, gutter-width changes, every category's URL. Full message text compared with the model. "
                       "non-trivial = distinct (shape, column) with a truncated (>200 byte) line and 1 <= col <= len" % (", and every length 0..600 x every column (one-line files)" if ctx.tier == "thorough" else ""))
    rep.cov["input_distribution"] = tags
    rep.cov["samples"] = [{"line_len": 260, "variant": "tabs", "line": 3, "col": 198, "case": lines[len(lines) // 2][:80] + "..."},
                          {"tag": cases[-1][3], "case": lines[-1]}]
    rep.assumptions = ["byte-level statements (as the code is): visual width of multi-byte runes is not claimed",
                       "source lines shorter than bufio.Scanner's 64 KiB token limit",
                       "theorem (2) is for 1 <= col <= len; col = len+1 and beyond are compared with the model only"]
    return rep.finish()


def replay(ctx, d):
    impl, model = lib.run_pair(ctx, "unit-reporter", "reporter", [d["case_line"]])
    for name, x in (("implementation", impl[0]), ("model", model[0])):
        m = parse_msg(x)
        print("---- %s ----" % name)
        print(x if m is None else m.decode("utf8", "replace"))
    return 0 if impl[0] == model[0] else 1
