"""C09 — code without annotations is never reported.
Correspondence: zero diagnostics from the real binary over corpora the suite never saw (the Go standard library,
the repository's dependencies, x/tools in the thorough tier) under two configurations, and over generated programs
in which every annotation is replaced by a near-miss or moved to an inert placement (implementation AND model)."""
import concurrent.futures, os, shutil
import lib, worlds, worldgen

GOROOT_SRC = os.path.join(os.path.dirname(lib.GO125), "src")


def run(ctx):
    rep = lib.Report(ctx, "C09")
    found = False
    corp = []
    cfgs = [("default", []), ("scan-tests,no-excludes", ["--config.scan-tests=true", "--config.exclude-paths="])]
    jobs = []
    for name, fl in cfgs:
        jobs.append(("std/" + name, GOROOT_SRC, fl, ["std"]))
        jobs.append(("deps/" + name, ctx.repo, fl + ["-test=false"], ["github.com/stretchr/testify/assert", "github.com/stretchr/testify/require", "github.com/stretchr/testify/assert/yaml", "gopkg.in/yaml.v3", "github.com/cloudflare/ahocorasick", "github.com/davecgh/go-spew/spew", "github.com/pmezard/go-difflib/difflib"]))
    if ctx.tier == "thorough":
        jobs.append(("x-tools/default", ctx.repo, [], ["golang.org/x/tools/go/...", "golang.org/x/tools/internal/..."]))
        jobs.append(("x-tools/scan", ctx.repo, cfgs[1][1], ["golang.org/x/tools/go/...", "golang.org/x/tools/internal/..."]))

    def one(j):
        name, cwd, fl, pats = j
        r = lib.run_binary(ctx, cwd, flags=fl, patterns=pats, timeout=1500)
        try:
            import json
            npk = len(json.loads(r["stdout"])) if r["stdout"].strip() else 0
        except Exception:
            npk = -1
        # how many packages were analysed: ask go list
        rc, out, err = lib.sh(["go", "list"] + pats, cwd=cwd, env=ctx.env, timeout=600)
        return name, r, len([l for l in out.split("\n") if l.strip()])
    with concurrent.futures.ThreadPoolExecutor(max_workers=4) as ex:
        res = list(ex.map(one, jobs))
    npkgs = 0
    for name, r, n in res:
        npkgs += n
        corp.append({"corpus": name, "packages": n, "diagnostics": len(r["diags"]), "exit_status": r["rc"], "errors": r["errors"][:2]})
        if r["diags"] or r["crashed"] or r["rc"] not in (0,):
            found = True
            if len(rep.violations) < 3:
                rep.violation({"property": "C09", "kind": "corpus", "corpus": name, "diagnostics": [(d["file"], d["line"], d["code"], d["message"][:200]) for d in r["diags"][:10]],
                               "exit_status": r["rc"], "stderr_tail": r["stderr"][-800:],
                               "what": "the binary reports diagnostics (or fails) on a corpus without annotations",
                               "replay_cmd": "cd <corpus dir> && gogreement -json <patterns>"})
    # generated near-miss worlds
    n = 40 if ctx.tier != "thorough" else 400
    d = lib.scratch_dir()
    root = os.path.join(d, "m")
    wl, sites, stats = worlds.generate(ctx, n, "c09", root, gen=worldgen.nearmiss_world)
    dump = os.path.join(d, "dump.sx")
    rc, err = worlds.skel(ctx, root, dump)
    gen = []
    for cname, cfg in (("default", (False, ["testdata"], [])), ("scan-tests", (True, [], []))):
        r = lib.run_binary(ctx, root, flags=worlds.cfg_flags(cfg), timeout=1500)
        m = worlds.model_analyze(ctx, dump, cfg, root)
        nonempty = {k: v for k, v in m["annots"].items() if v}
        gen.append({"config": cname, "implementation_diagnostics": len(r["diags"]), "model_diagnostics": len(m["diags"]), "model_annotations_collected": len(nonempty)})
        if r["diags"] or m["diags"] or nonempty or r["crashed"] or r["rc"] != 0 or rc != 0:
            found = True
            if len(rep.violations) < 5:
                bad = [(x["file"], x["line"], x["code"]) for x in (r["diags"] or m["diags"])[:10]]
                wid = bad[0][0].split("/")[0] if bad else None
                files = {os.path.relpath(os.path.join(dp, f), root): open(os.path.join(dp, f)).read() for dp, _, fs in os.walk(os.path.join(root, wid)) for f in fs} if wid else {}
                rep.violation({"property": "C09", "kind": "world", "config": list(cfg), "reported_by_implementation": [(x["file"], x["line"], x["code"]) for x in r["diags"][:10]],
                               "reported_by_model": [(x["file"], x["line"], x["code"]) for x in m["diags"][:10]], "annotations_collected_by_model": dict(list(nonempty.items())[:3]),
                               "exit_status": r["rc"], "skel_error": err[-500:], "stderr_tail": r["stderr"][-500:], "world": wid, "files": files,
                               "what": "a program whose comments only mention the keywords (near-misses, inert placements) is reported"})
    lib.obligation_gate(rep, ctx, "C09", found)
    rep.cov["evaluations"] = npkgs + 2 * n * 6
    rep.cov["distinct_nontrivial"] = sum(c["packages"] for c in corp if c["corpus"].endswith("/default")) + n
    rep.cov["rule"] = ("corpora without annotations, run through the real binary under the default and the scan-tests/no-excludes configuration: the whole Go 1.25 standard library (`std`), the "
                       "repository's dependencies (testify, yaml.v3, ahocorasick, go-spew, go-difflib)%s; plus %d generated worlds that carry every annotation of the usual worlds as a near-miss "
                       "(mid-sentence, other case, longer word, block comment, split, commented-out, quoted) or in an inert placement (trailing, detached, local declaration) - expected: zero "
                       "diagnostics from implementation and model and no annotation collected. non-trivial = distinct packages / worlds analysed" % (", x/tools go/... and internal/..." if ctx.tier == "thorough" else "", n))
    rep.cov["corpora"] = corp
    rep.cov["generated"] = gen
    rep.cov["near_miss_distribution"] = stats.get("near_miss")
    rep.cov["samples"] = corp[:2] + gen[:1]
    rep.assumptions = ["corpora are what is installed in this sandbox (offline); their doc comments were not checked by the model's recogniser (too large to serialise), only by the real reader"]
    return rep.finish()


def replay(ctx, d):
    if d.get("kind") == "world":
        import l1
        return l1.replay(ctx, d)
    print(d)
    return 0
