"""C11 — results are deterministic and independent of the analysis schedule.

(A) Coq obligations of Properties/C11.v: every valid schedule over any universe computes the same per-package result
    (diagnostics and texts); unrelated packages do not matter; the configuration cell is write-once; and the inventory of
    package-level state regenerated from the source admits only read-only uses and the sync.Once-guarded configuration.
(B) byte comparison of the normalised -json output of the real binary: repeated parallel runs, the sequential driver
    (-debug=p), permuted package lists, runs with and without unrelated packages; on DAG worlds and on a "hot" module
    (many packages with hundreds of annotation comments each, analysed concurrently on all cores).
(C) the same module through a -race build of the binary: any report of the race detector is a violation
    (the half of the property a model cannot exhibit: supported by sampling, labelled partial)."""
import concurrent.futures, json, os, re, shutil
import lib, worlds, worldgen, daggen

CFG = (False, ["testdata"], [])


def hot_module(npk, ntypes):
    files = {}
    base = ["package hb", ""]
    for i in range(ntypes):
        base += ["// T%d is hot." % i, "// @immutable", "// @constructor NewT%d" % i, "type T%d struct {" % i, "\tF int", "\t// @mutable", "\tM int", "}",
                 "func NewT%d() *T%d { return &T%d{} }" % (i, i, i), ""]
        if i % 3 == 0:
            base += ["// @testonly", "func Mock%d() int { return %d }" % (i, i), "// @packageonly nobody", "func In%d() int { return %d }" % (i, i), ""]
    files["hot/hb/hb.go"] = "\n".join(base) + "\n"
    for p in range(npk):
        ls = ["package h%d" % p, "", 'import "w/hot/hb"', ""]
        for i in range(ntypes):
            ls += ["// L%d is local and annotated too." % i, "// @immutable", "// @testonly", "// @packageonly x/y", "type L%d struct{ V int }" % i, ""]
        ls += ["func Use(l *L0) {"]
        for i in range(ntypes):
            ls += ["\tt%d := hb.NewT%d()" % (i, i), "\tt%d.F = %d" % (i, p), "\tt%d.M = 1" % i, "\t_ = hb.T%d{}" % i]
            if i % 3 == 0:
                ls += ["\t_ = hb.Mock%d()" % i, "\t_ = hb.In%d()" % i]
        ls += ["\tl.V = 1", "}", ""]
        files["hot/h%d/h.go" % p] = "\n".join(ls) + "\n"
    return files


def testvariant_tree():
    """an API package that exists in two type-checked instances in one run (plain, and recompiled for its in-package
    tests), with @implements annotations in an importer of each instance"""
    return {
        "tv/kv/kv.go": "package kv\n\ntype Key struct{ K string }\n\ntype Store interface {\n\tGet(k Key) (string, error)\n\tPut(k *Key, v string) error\n}\n",
        "tv/kv/kv_internal_test.go": "package kv\n\nvar internalOnly = Key{}\n",
        "tv/kv/kv_ext_test.go": "package kv_test\n\nimport \"w/tv/kv\"\n\n// @implements kv.Store\ntype fake struct{}\n\nfunc (fake) Get(k kv.Key) (string, error) { return \"\", nil }\nfunc (fake) Put(k *kv.Key, v string) error { return nil }\n\n// @implements kv.Store\ntype broken struct{}\n\nfunc (broken) Get(k kv.Key) (string, error) { return \"\", nil }\n",
        "tv/usekv/use.go": "package usekv\n\nimport \"w/tv/kv\"\n\n// @implements kv.Store\ntype Mem struct{}\n\nfunc (Mem) Get(k kv.Key) (string, error) { return \"\", nil }\nfunc (Mem) Put(k *kv.Key, v string) error { return nil }\n",
    }


def multifile_ignores(npk=6, nfiles=4):
    """packages of several files that each carry @ignore comments for the same codes: the files of a package are parsed
    concurrently, so their position ranges are in no fixed order from run to run.  Returns (files, expected positions)"""
    files, expect = {}, set()
    for p in range(npk):
        for k in range(nfiles):
            fn = "mf/p%d/%s.go" % (p, "abcdefgh"[k])
            ls = ["package p%d" % p, ""]
            if k == 0:
                ls += ["// T is immutable.", "// @immutable", "// @constructor NewT", "type T struct{ F int }", "", "func NewT() *T { return &T{} }", ""]
            ls += ["func mut%d(t *T) {" % k, "	t.F = 1 // @ignore IMM01", "	// @ignore IMM", "	t.F++", "	t.F = 3", "	_ = T{} // @ignore CTOR01", "	_ = &T{}", "}", "",
                   "// @ignore ALL", "func quiet%d(t *T) {" % k, "	t.F = 4", "	_ = T{}", "}", ""]
            files[fn] = "\n".join(ls) + "\n"
            for i, l in enumerate(ls, 1):
                if l in ("\tt.F = 3",):
                    expect.add((fn, i, "IMM01"))
                # (CTOR01 at `_ = &T{}` is excluded by flag in every run of this check: a run in which it shows has
                #  analysed that package under another configuration than the one given)
    return files, expect


def normalise(stdout, root):
    """the -json output as a sorted list of (package, analyzer, position, full message): byte-for-byte comparable"""
    try:
        d = json.loads(stdout) if stdout.strip() else {}
    except Exception:
        return None
    out = []
    for pkg, v in d.items():
        for an, ds in v.items():
            if isinstance(ds, dict):
                out.append((pkg, an, "ERROR", json.dumps(ds, sort_keys=True)))
                continue
            for x in ds:
                out.append((pkg, an, x.get("posn", "").replace(root + "/", ""), x.get("message", "")))
    return sorted(out)


def race_binary(ctx):
    p = os.path.join(ctx.cache, "gogreement-race")
    if not os.path.exists(p):
        rc, out, err = lib.sh(["go", "build", "-race", "-o", p, "./cmd/gogreement"], cwd=ctx.repo, env=ctx.env, timeout=1800)
        if rc != 0:
            return None, (out + err)[-800:]
    return p, ""


def run(ctx):
    rep = lib.Report(ctx, "C11")
    thorough = ctx.tier == "thorough"
    d = lib.scratch_dir()
    root = os.path.join(d, "m")
    rng = lib.rng_for(ctx, "c11")
    worldgen.write_module(root, "w")
    n = 8 if not thorough else 60
    wids = []
    for i in range(n):
        wid = "w%04d" % i
        W = daggen.dag_world(rng, wid)
        worldgen.render(W, root, rng)
        wids.append(wid)
    for rel, text in hot_module(16 if not thorough else 32, 60 if not thorough else 150).items():
        p = os.path.join(root, rel)
        os.makedirs(os.path.dirname(p), exist_ok=True)
        open(p, "w").write(text)
    for rel, text in testvariant_tree().items():
        p = os.path.join(root, rel)
        os.makedirs(os.path.dirname(p), exist_ok=True)
        open(p, "w").write(text)
    mf_files, mf_expect = multifile_ignores()
    for rel, text in mf_files.items():
        p = os.path.join(root, rel)
        os.makedirs(os.path.dirname(p), exist_ok=True)
        open(p, "w").write(text)
    # test files are analysed (test variants of packages take part) and a check is excluded by flag: a non-default
    # configuration that every action of every package must see, however the actions are scheduled
    flags = worlds.cfg_flags((True, ["testdata"], ["TONL02", "PKGO03", "CTOR01"]))
    all_dirs = sorted({os.path.relpath(dp, root) for dp, _, fs in os.walk(root) if any(f.endswith(".go") for f in fs)})
    pats_all = ["./" + x for x in all_dirs]
    runs = []
    reps = 4 if not thorough else 12
    for i in range(reps):
        runs.append(("parallel #%d (./...)" % i, flags, ["./..."]))
    runs.append(("sequential (-debug=p)", ["-debug=p"] + flags, ["./..."]))
    for i in range(2 if not thorough else 6):
        perm = list(pats_all)
        rng.shuffle(perm)
        runs.append(("parallel, packages listed in permuted order #%d" % i, flags, perm))
    runs.append(("sequential, reversed package list", ["-debug=p"] + flags, list(reversed(pats_all))))

    def one(r):
        name, fl, pats = r
        x = lib.run_binary(ctx, root, flags=fl, patterns=pats, timeout=1800)
        return name, normalise(x["stdout"], root), x
    with concurrent.futures.ThreadPoolExecutor(max_workers=3) as ex:
        res = list(ex.map(one, runs))
    ref_name, ref, refx = res[0]
    found = False
    problems = []
    for name, norm, x in res:
        if x["crashed"] or norm is None or x["rc"] != 0:
            problems.append({"run": name, "what": "run failed", "exit_status": x["rc"], "stderr_tail": x["stderr"][-600:]})
        elif norm != ref:
            a = [t for t in norm if t not in ref][:5]
            b = [t for t in ref if t not in norm][:5]
            problems.append({"run": name, "what": "output differs from `%s`" % ref_name, "only_in_this_run": a, "only_in_reference": b, "sizes": [len(norm), len(ref)]})
    # the multi-file packages: in every run exactly the unsuppressed statements are reported
    for name, norm, x in res:
        got = set()
        for t in norm or []:
            m = re.match(r"^(mf/\S+?\.go):(\d+):\d+$", t[2])
            c = re.search(r"\[(\w+)\]", t[3])
            if m and c:
                got.add((m.group(1), int(m.group(2)), c.group(1)))
        if norm is not None and got != mf_expect:
            problems.append({"run": name, "what": "a package whose files each carry @ignore comments: reported statements differ from the unsuppressed ones",
                             "reported_although_suppressed": sorted(got - mf_expect)[:6], "not_reported": sorted(mf_expect - got)[:6]})
            break
    # with / without unrelated packages: a world alone vs in the full run
    sub = []
    for wid in wids[: (3 if not thorough else 10)]:
        sub.append(("only ./%s/..." % wid, flags, ["./%s/..." % wid], wid + "/"))
    sub.append(("only ./hot/h3/... (its dependency hb unnamed)", flags, ["./hot/h3/..."], "hot/h3/"))
    for k in (0, 3, 5):      # leaf packages named alone: nothing else is scheduled before their actions
        sub.append(("only ./mf/p%d" % k, flags, ["./mf/p%d" % k], "mf/p%d/" % k))
    sub.append(("only ./tv/kv/... (test variants, without the other importer)", flags, ["./tv/kv/..."], "tv/kv/"))
    sub.append(("only ./tv/usekv/...", flags, ["./tv/usekv/..."], "tv/usekv/"))
    for name, fl, pats, prefix in sub:
        x = lib.run_binary(ctx, root, flags=fl, patterns=pats, timeout=900)
        norm = normalise(x["stdout"], root)
        want = [t for t in (ref or []) if t[2].startswith(prefix)]
        got = [t for t in (norm or []) if t[2].startswith(prefix)]
        if norm is None or got != want:
            problems.append({"run": name, "what": "the package's output differs when unrelated packages are not analysed alongside", "only_alone": [t for t in got if t not in want][:5],
                             "only_in_full_run": [t for t in want if t not in got][:5]})
    # race detector
    race = {"built": False, "runs": 0, "reports": 0}
    gr, berr = race_binary(ctx)
    if gr:
        race["built"] = True
        for i in range(2 if not thorough else 8):
            e = dict(ctx.env)
            e["GORACE"] = "halt_on_error=0 exitcode=0"
            rc, out, err = lib.sh([gr, "-json"] + flags + ["./..."], cwd=root, env=e, timeout=1800)
            race["runs"] += 1
            nrep = err.count("WARNING: DATA RACE")
            race["reports"] += nrep
            if nrep:
                m = re.search(r"WARNING: DATA RACE.*?(?=\n==================|\Z)", err, flags=re.S)
                problems.append({"run": "-race build #%d" % i, "what": "the race detector reports a data race", "reports": nrep, "first_report": (m.group(0) if m else err)[:2500]})
                break
            norm = normalise(out, root)
            if norm != ref:
                problems.append({"run": "-race build #%d" % i, "what": "output of the -race build differs from the reference", "sizes": [len(norm or []), len(ref or [])]})
    else:
        race["build_error"] = berr
    if problems:
        found = True
        rep.violation({"property": "C11", "kind": "schedule", "problems": problems[:6], "module": "%d DAG worlds + hot module (16 packages x 60 annotated types)" % n,
                       "what": "the output depends on the schedule / the run set, or concurrent analysis races",
                       "replay_cmd": "checks/check.sh C11 quick (the inputs are regenerated from the seed)"})
    shutil.rmtree(d, ignore_errors=True)
    lib.obligation_gate(rep, ctx, "C11", found)
    rep.cov["evaluations"] = len(res) + len(sub) + race["runs"]
    rep.cov["distinct_nontrivial"] = len(res) + len(sub) + race["runs"] if ref else 0
    rep.cov["rule"] = ("one module of %d DAG worlds, six four-file packages whose files each carry @ignore comments for the same codes (files of a package are parsed concurrently: their position ranges come in no fixed order) and a hot sub-tree (%d packages x %d annotated declarations, all importing one annotated package) analysed %d times in parallel (16 cores), "
                       "sequentially (-debug=p), with the package list permuted / reversed, per world alone, and by a -race build; the normalised -json outputs (package, analyzer, position, full "
                       "message text) must be byte-identical and the race detector silent. non-trivial = runs compared (each carries %d diagnostics)" %
                       (n, 16 if not thorough else 32, 60 if not thorough else 150, reps, len(ref or [])))
    rep.cov["diagnostics_per_run"] = len(ref or [])
    rep.cov["runs"] = [name for name, _, _ in res] + [s[0] for s in sub]
    rep.cov["race_detector"] = race
    rep.cov["samples"] = [list(t)[:3] for t in (ref or [])[:3]]
    rep.assumptions = ["the absence of data races is sampled by the race detector, not proved (partial: DESIGN section 5, C11); the theorem covers the logical non-interference",
                       "schedules are those the go/analysis driver produces on this 16-core machine"]
    return rep.finish()


def replay(ctx, d):
    print(json.dumps(d, indent=1)[:6000])
    return 0
