"""C07 — @ignore suppresses exactly the diagnostics in its scope that match its codes.

Three legs (DESIGN.md section 5, C07):
 (A) the Coq obligations of Properties/C07.v (scope computation = first node after the comment / code on the line;
     one more marker = one more filter; first-unsuppressed-use for the once-per-file codes);
 (B) correspondence: generated worlds with @ignore comments inserted at the placements of the property; the real binary
     against the Coq model (ggx skel -> modelrun) by (file, line, code), plus the boolean hypotheses of the scope
     theorems evaluated on every inserted comment;
 (C) an oracle written from the property's text and go/parser only (independent of the model and of gogreement's
     scope code): the diagnostics of the program with the comments = the diagnostics without them, minus those that lie
     in the documented scope of a comment whose code list matches (ALL > category > code, case-insensitive), with the
     once-per-file codes allowed to move to a later unsuppressed use of the same file."""
import json, os, re, shutil
import lib, worlds, worldgen

PREF = ("IMM", "CTOR", "TONL", "PKGO", "IMPL")
ONCE = ("TONL01", "PKGO01")
ALLCODES = ["IMM01", "IMM02", "IMM03", "IMM04", "CTOR01", "CTOR02", "CTOR03", "TONL01", "TONL02", "TONL03", "PKGO01", "PKGO02", "PKGO03", "IMPL01", "IMPL02", "IMPL03"]


def category(code):
    return re.sub(r"\d+$", "", code)


def matches(tokens, code):
    """the documented hierarchy: ALL > category > code, tokens already upper-cased"""
    return "ALL" in tokens or category(code) in tokens or code in tokens


FORM_CLASSES = ["exact", "category", "all", "misc-effective", "ineffective"]


def code_list(rng, code, cls=None):
    """(comment text, effective upper-cased tokens or None when the comment must have no effect, label)"""
    cat = category(code)
    other = rng.choice([c for c in ALLCODES if c != code and category(c) == cat] or ["X9"])
    wrongcat = rng.choice([c for c in ("IMM", "CTOR", "TONL", "PKGO", "IMPL") if c != cat])
    mix = lambda s: "".join(ch.lower() if rng.random() < 0.5 else ch.upper() for ch in s)
    forms = {
        "exact": [("exact", " " + code, [code]), ("lower", " " + code.lower(), [code]), ("mixed-case", " " + mix(code), [code]),
                  ("trailing-text", " %s because of reasons" % code, [code]), ("trailing-comma", " %s," % code, [code])],
        "category": [("category", " " + cat, [cat]), ("mixed-case-category", " " + mix(cat), [cat]), ("category-and-unknown", " X9, %s" % cat, ["X9", cat])],
        "all": [("all", " ALL", ["ALL"]), ("all-lower", " all", ["ALL"]), ("all-and-more", " %s,ALL" % wrongcat, [wrongcat, "ALL"])],
        "misc-effective": [("several", " X9, %s" % code, ["X9", code]), ("several-nospace", " %s,%s" % (other, code), [other, code]),
                           ("trailing-slashes", " %s // see issue 7" % code, [code]), ("tab-separated", "\t%s" % code, [code]), ("no-space-after-slashes", None, [code])],
        "ineffective": [("sibling-code", " " + other, [other]), ("unknown", " X9", ["X9"]), ("wrong-category", " " + wrongcat, [wrongcat]),
                        ("several-others", " %s , %s" % (other, wrongcat), [other, wrongcat]),
                        ("no-codes", "", None), ("malformed-dash", " %s-1" % cat, None), ("malformed-semicolon", " %s;" % code, None),
                        ("not-the-keyword", None, None), ("capital-keyword", None, None)],
    }
    label, text, toks = rng.choice(forms[cls or rng.choice(FORM_CLASSES)])
    if label == "no-space-after-slashes":
        return "//@ignore " + code, toks, label
    if label == "not-the-keyword":
        return "// @ignored " + code, None, label
    if label == "capital-keyword":
        return "// @Ignore " + code, None, label
    return "// @ignore" + text, toks, label


def line_shape(text):
    t = re.sub(r"/\*.*?\*/", "", text).strip()
    if t.startswith(("case ", "default:")):
        return "case"
    if t.startswith(("}", ")")):
        return "close"
    if t.endswith(("{", "(")):
        return "open"
    if t.endswith("."):
        return "dot"            # a selector broken after the dot: the selected name stands on the next line
    return "plain"


def candidates(finfo, lines_of, diags_by_file):
    """every (label, placement, target diagnostic) the property names, around the diagnostics of one world"""
    out = []
    files = sorted(finfo)
    for f in files:
        fi = finfo[f]
        stmts = fi["Stmts"] or []
        decls = fi["Decls"] or []
        code_lines = sorted(int(x) for x in fi["CodeLines"])
        src = lines_of[f]
        eligible = lambda ln: str(ln) in fi["CodeLines"] and not fi["CommentEnd"].get(str(ln), False)
        for d in diags_by_file.get(f, []):
            L = d["line"]
            tgt = [d["file"], d["line"], d["code"]]
            prevs = [x for x in code_lines if x < L]
            nexts = [x for x in code_lines if x > L]
            decl = next((x for x in decls if x["Start"] <= L <= x["End"]), None)
            inl = [("same", L), ("prev", prevs[-1] if prevs else None), ("prev2", prevs[-2] if len(prevs) > 1 else None), ("next", nexts[0] if nexts else None)]
            if decl:
                if decl["Start"] != L:
                    inl.append(("func-line", decl["Start"]))
                if decl["End"] != L:
                    inl.append(("decl-last", decl["End"]))
                if decls and decl is decls[-1]:
                    inl.append(("eof-decl" + ("-same" if decl["End"] == L else ""), decl["End"]))
            for rel, ln in inl:
                if ln is not None and eligible(ln) and (decl is None or decl["Start"] <= ln <= decl["End"]):
                    out.append(("inline/%s/%s" % (rel, line_shape(src[ln - 1])), {"file": f, "line": ln}, d))
            inside = sorted([s for s in stmts if s["StartsLine"] and s["Start"] <= L <= s["End"]], key=lambda s: s["End"] - s["Start"])
            def above(label, node):
                out.append((label, {"file": f, "before": node["Start"], "scope_node": {"start": node["Start"], "end": [node["EndLine"], node["EndCol"]], "kind": node["Kind"]}}, d))
            nxt, prv = [], []
            if inside:
                above("above-stmt", inside[0])
                if len(inside) > 1:
                    above("above-outer", inside[-1])
                inner = inside[0]
                nxt = sorted([s for s in stmts if s["StartsLine"] and s["Start"] > inner["End"]], key=lambda s: s["Start"])
                prv = sorted([s for s in stmts if s["StartsLine"] and s["End"] < inner["Start"]], key=lambda s: -s["End"])
                if nxt:
                    above("above-next-sibling", nxt[0])
                if prv:
                    above("above-prev-sibling", prv[0])
            # a comment standing alone INSIDE a multi-line statement (before a continuation line): whatever its scope is taken
            # to be, it cannot reach beyond that statement
            starts = {s["Start"] for s in stmts}
            for lab, S in (("inside-own-stmt", inside[0] if inside else None), ("inside-previous-stmt", prv[0] if (inside and prv) else None)):
                if S is None or S["End"] <= S["Start"]:
                    continue
                # continuation lines on which an expression of S starts (a line that only closes something is excluded: a
                # stand-alone comment that is the last thing of its block / argument list is left unspecified, DESIGN 5.1)
                conts = [ln for ln in range(S["Start"] + 1, S["End"] + 1) if ln not in starts and str(ln) in fi["CodeLines"]
                         and not re.sub(r"/\*.*?\*/", "", src[ln - 1]).strip().startswith(("}", ")", "]", "case ", "default:", "else"))]
                if conts:
                    ln = conts[len(conts) // 2] if lab == "inside-own-stmt" else conts[-1]
                    out.append((lab, {"file": f, "before": ln, "weak_stmt": {"start": S["Start"], "end": [S["EndLine"], S["EndCol"]], "kind": S["Kind"]}}, d))
            if decl and decl["StartsLine"]:
                above("above-decl", decl)
                later = [x for x in decls if x["Start"] > decl["End"] and x["StartsLine"]]
                if later:
                    above("above-next-decl", later[0])
            out.append(("file-level", {"file": f, "before": fi["PackageLine"], "scope": {"file": f, "from": [0, 0], "to": [10 ** 9, 0]}}, d))
            for o in files:
                if o != f and os.path.dirname(o) == os.path.dirname(f):
                    out.append(("file-level-other", {"file": o, "before": finfo[o]["PackageLine"], "scope": {"file": o, "from": [0, 0], "to": [10 ** 9, 0]}}, d))
                    break
    return out


def nested_pairs(rng, finfo, diags_by_file):
    """two cooperating comments: one above a declaration for the code of one diagnostic inside it, and one trailing the
    line of ANOTHER diagnostic of the declaration (another category) that names both codes.  By the text both are gone."""
    out = []
    for f in sorted(finfo):
        fi = finfo[f]
        for decl in fi["Decls"] or []:
            if not decl["StartsLine"]:
                continue
            ds = [d for d in diags_by_file.get(f, []) if decl["Start"] < d["line"] <= decl["End"]]
            pairs = [(a, b) for a in ds for b in ds if a["line"] != b["line"] and category(a["code"]) != category(b["code"])
                     and str(a["line"]) in fi["CodeLines"] and not fi["CommentEnd"].get(str(a["line"]), False)
                     and not any(x["line"] == a["line"] and x is not a for x in ds)]
            if pairs:
                a, b = rng.choice(pairs)
                wide = rng.choice([b["code"], category(b["code"]), b["code"].lower()])
                outer = {"file": f, "before": decl["Start"], "scope_node": {"start": decl["Start"], "end": [decl["EndLine"], decl["EndCol"]], "kind": decl["Kind"]},
                         "kind": "nested/outer-above-decl", "text": "// @ignore " + wide, "tokens": [wide.upper()], "codes_form": "nested-outer", "form_class": "nested",
                         "target": [b["file"], b["line"], b["code"]]}
                inner = {"file": f, "line": a["line"], "kind": "nested/inner-inline", "text": "// @ignore %s, %s" % (b["code"], a["code"]), "tokens": [b["code"], a["code"]],
                         "codes_form": "nested-inner-shares-a-code", "form_class": "nested", "target": [a["file"], a["line"], a["code"]]}
                out.append((outer, inner))
    return out


def plan_comments(rng, finfo, lines_of, diags_by_file, k, cover):
    """choose k placements for one world so that the (placement label, code category, code-list class) strata seen
    least often so far in this run are served first"""
    cands = candidates(finfo, lines_of, diags_by_file)
    by = {}
    for lab, pl, d in cands:
        by.setdefault((lab, category(d["code"])), []).append((pl, d))
    options = [(cover.get((st, cls), 0), rng.random(), st, cls) for st in by for cls in FORM_CLASSES]
    options.sort()
    out, used = [], set()
    file_level_used = set()
    np_ = nested_pairs(rng, finfo, diags_by_file)
    if np_:
        outer, inner = rng.choice(np_)
        out += [outer, inner]
        used.add((outer["file"], None, outer["before"]))
        used.add((inner["file"], inner["line"], None))
        cover[(("nested", category(inner["target"][2])), "nested")] = cover.get((("nested", category(inner["target"][2])), "nested"), 0) + 1
    # a selector broken after the dot (the reported expression starts on this line, the selected name stands on the next):
    # always served when the world has one, with an effective code list
    dots = [(lab, pl, d) for lab, pl, d in cands if lab == "inline/same/dot"]
    rng.shuffle(dots)
    for lab, pl, d in dots[:2]:
        key = (pl["file"], pl.get("line"), pl.get("before"))
        if key in used:
            continue
        used.add(key)
        cls = rng.choice(["exact", "category", "all"])
        text, toks, label = code_list(rng, d["code"], cls)
        c = dict(pl)
        c.update({"kind": lab, "text": text, "tokens": toks, "codes_form": label, "form_class": cls, "target": [d["file"], d["line"], d["code"]]})
        out.append(c)
        cover[((lab, category(d["code"])), cls)] = cover.get(((lab, category(d["code"])), cls), 0) + 1
    for _, _, st, cls in options:
        if len(out) >= k:
            break
        pool = list(by[st])
        rng.shuffle(pool)
        for pl, d in pool:
            key = (pl["file"], pl.get("line"), pl.get("before"))
            if key in used or (st[0].startswith("file-level") and pl["file"] in file_level_used):
                continue
            used.add(key)
            if st[0].startswith("file-level"):
                file_level_used.add(pl["file"])
            text, toks, label = code_list(rng, d["code"], cls)
            c = dict(pl)
            c.update({"kind": st[0], "text": text, "tokens": toks, "codes_form": label, "form_class": cls, "target": [d["file"], d["line"], d["code"]]})
            out.append(c)
            cover[(st, cls)] = cover.get((st, cls), 0) + 1
            break
    return out


def apply_comments(files, comments):
    """returns (new files, per-file old->new line map function, comments with their scopes in NEW coordinates)"""
    newfiles = dict(files)
    shift = {}
    for f in set(c["file"] for c in comments):
        lines = files[f].split("\n")
        ins = sorted([c for c in comments if c["file"] == f and "before" in c], key=lambda c: c["before"])
        app = {c["line"]: c for c in comments if c["file"] == f and "line" in c}
        out = []
        befores = []
        for i, l in enumerate(lines, 1):
            for c in ins:
                if c["before"] == i:
                    ind = re.match(r"^\s*", l).group(0)
                    out.append(ind + c["text"])
                    c["new_line"] = len(out)
                    befores.append(i)
            if i in app:
                l = l + " " + app[i]["text"]
            out.append(l)
            if i in app:
                app[i]["new_line"] = len(out)
        newfiles[f] = "\n".join(out)
        shift[f] = sorted(befores)
    def newline(f, old):
        return old + sum(1 for b in shift.get(f, []) if b <= old)
    for c in comments:
        f = c["file"]
        if "line" in c:
            nl = c["new_line"]
            c["scope"] = {"file": f, "from": [nl, 0], "to": [nl, 10 ** 9]}
        elif "scope_node" in c:
            sn = c["scope_node"]
            c["scope"] = {"file": f, "from": [c["new_line"], 0], "to": [newline(f, sn["end"][0]), sn["end"][1]]}
        elif "weak_stmt" in c:
            ws = c["weak_stmt"]
            c["weak"] = {"file": f, "from": [newline(f, ws["start"]), 0], "to": [newline(f, ws["end"][0]), ws["end"][1]]}
            c["scope"] = {"file": f, "from": [-1, 0], "to": [-1, 0]}      # no claim about what is suppressed inside
    return newfiles, newline


def in_scope(c, f, line, col):
    s = c["scope"]
    return s["file"] == f and tuple(s["from"]) <= (line, col) <= tuple(s["to"])


def in_weak(comments, f, line, col=1):
    for c in comments:
        w = c.get("weak")
        if w and w["file"] == f and tuple(w["from"]) <= (line, col) <= tuple(w["to"]):
            return True
    return False


def expected_from_text(base_diags, comments, newline):
    """the property's text applied to the diagnostics of the comment-free program (new coordinates)"""
    kept, removed = [], []
    for d in base_diags:
        nl = newline(d["file"], d["line"])
        if in_weak(comments, d["file"], nl, d["col"]):
            continue        # inside a statement that holds a stand-alone comment: unspecified, not compared
        hit = [c for c in comments if c["tokens"] and in_scope(c, d["file"], nl, d["col"]) and matches(c["tokens"], d["code"])]
        (removed if hit else kept).append((d["file"], nl, d["code"], d["message"].split("\n")[0]))
    return kept, removed


def judge_text_oracle(base_diags, var_diags, comments, newline):
    """returns (unexpectedly missing, unexpectedly present)"""
    kept, removed = expected_from_text(base_diags, comments, newline)
    have = {(d["file"], d["line"], d["code"]): d for d in var_diags}
    missing = [k[:3] for k in kept if k[:3] not in have]
    extra = []
    keptk = {k[:3] for k in kept}
    for k, d in sorted(have.items()):
        if k in keptk or in_weak(comments, k[0], k[1], d["col"]):
            continue
        if d["code"] in ONCE:
            # the report may move to a later unsuppressed use: some removed diagnostic of the same file, code and message,
            # earlier in the file, and the new position not inside a matching scope
            moved = any(r[0] == k[0] and r[2] == k[2] and r[3] == d["message"].split("\n")[0] and r[1] < k[1] for r in removed)
            covered = any(c["tokens"] and in_scope(c, k[0], k[1], d["col"]) and matches(c["tokens"], k[2]) for c in comments)
            if moved and not covered:
                continue
        extra.append(k)
    # a once-per-file diagnostic that was kept but is now missing is acceptable only if ... never: kept means unsuppressed first use
    return missing, extra


def build(ctx, n, salt):
    d = lib.scratch_dir()
    root0 = os.path.join(d, "b", "m")
    root1 = os.path.join(d, "v", "m")
    rng = lib.rng_for(ctx, salt)
    worldgen.write_module(root0, "w")
    stats = worldgen.new_stats()
    wids = []
    for i in range(n):
        wid = "w%04d" % i
        W = worldgen.full_world(rng, wid, "w", stats=stats, full_annotations=(i % 2 == 0), with_impl=(i % 3 == 0))
        worldgen.render(W, root0, rng)
        wids.append(wid)
    return d, root0, root1, rng, stats, wids


def read_tree(root):
    out = {}
    for dp, _, fs in os.walk(root):
        for f in fs:
            if f.endswith(".go"):
                p = os.path.join(dp, f)
                out[os.path.relpath(p, root)] = open(p).read().rstrip("\n")
    return out


CONFIGS = [("default", (False, ["testdata"], [])), ("scan-tests", (True, [], []))]


def evaluate(ctx, files0, comments_by_cfg_world=None, rng=None, per_world=4, fixed_comments=None):
    """runs base and variant; returns per configuration the judgement"""
    d = lib.scratch_dir()
    root0, root1 = os.path.join(d, "b", "m"), os.path.join(d, "v", "m")
    worlds.write_sources(root0, files0)
    rc, out, err = lib.sh([ctx.ggx, "stmts", "-dir", root0], env=ctx.env)
    finfo = {x["File"]: x for x in json.loads(out or "[]")}
    res = {}
    base = {name: lib.run_binary(ctx, root0, flags=worlds.cfg_flags(cfg), timeout=1500) for name, cfg in CONFIGS}
    # placements are planned on the diagnostics of the scan-tests configuration (a superset of files)
    if fixed_comments is None:
        comments = []
        cover = {}
        by_world = {}
        for x in base["scan-tests"]["diags"]:
            by_world.setdefault(x["file"].split("/")[0], {}).setdefault(x["file"], []).append(x)
        for wid in sorted(by_world):
            fi = {f: v for f, v in finfo.items() if f.startswith(wid + "/")}
            lo = {f: files0[f].split("\n") for f in fi}
            comments += plan_comments(rng, fi, lo, by_world[wid], per_world, cover)
    else:
        comments = [dict(c) for c in fixed_comments]
    files1, newline = apply_comments(files0, comments)
    worlds.write_sources(root1, files1)
    dump = os.path.join(d, "dump.sx")
    src, serr = worlds.skel(ctx, root1, dump)
    for name, cfg in CONFIGS:
        r1 = lib.run_binary(ctx, root1, flags=worlds.cfg_flags(cfg), timeout=1500)
        m1 = worlds.model_analyze(ctx, dump, cfg, root1)
        missing, extra = judge_text_oracle(base[name]["diags"], r1["diags"], comments, newline)
        a_only, m_only = worlds.compare(r1["diags"], m1["diags"], PREF)
        a_only = [k for k in a_only if not in_weak(comments, k[0], k[1], 10 ** 6) or not in_weak(comments, k[0], k[1], 0)]
        m_only = [k for k in m_only if not in_weak(comments, k[0], k[1], 10 ** 6) or not in_weak(comments, k[0], k[1], 0)]
        res[name] = {"cfg": cfg, "base": base[name], "var": r1, "model": m1, "text_missing": missing, "text_extra": extra, "impl_only": a_only, "model_only": m_only,
                     "skel_rc": src, "skel_err": serr[-500:]}
    shutil.rmtree(d, ignore_errors=True)
    return comments, files1, res, newline


def shrink_comments(ctx, files0, comments, still_bad):
    cur = list(comments)
    i = 0
    rounds = 0
    while i < len(cur) and rounds < 10:
        cand = cur[:i] + cur[i + 1:]
        rounds += 1
        if cand and still_bad(cand):
            cur = cand
        else:
            i += 1
    return cur


def strip(c):
    return {k: v for k, v in c.items() if k in ("file", "kind", "text", "tokens", "codes_form", "form_class", "line", "before", "scope_node", "weak_stmt", "scope", "target") and not (k == "scope" and ("line" in c or "scope_node" in c or "weak_stmt" in c))}


def run(ctx):
    rep = lib.Report(ctx, "C07")
    n = 36 if ctx.tier != "thorough" else 400
    per_world = 12
    d, root0, root1, rng, stats, wids = build(ctx, n, "c07")
    files0 = read_tree(root0)
    shutil.rmtree(d, ignore_errors=True)
    comments, files1, res, newline = evaluate(ctx, files0, rng=rng, per_world=per_world)
    found = False
    dist = {"placement": {}, "codes_form": {}, "effective": 0, "must_have_no_effect": 0}
    for c in comments:
        dist["placement"][c["kind"]] = dist["placement"].get(c["kind"], 0) + 1
        dist["codes_form"][c["codes_form"]] = dist["codes_form"].get(c["codes_form"], 0) + 1
        dist.setdefault("target_category", {})
        dist["target_category"][category(c["target"][2])] = dist["target_category"].get(category(c["target"][2]), 0) + 1
        dist["effective" if c["tokens"] else "must_have_no_effect"] += 1
    nontrivial = 0
    removed_total = 0
    for name, _ in CONFIGS:
        r = res[name]
        kept, removed = expected_from_text(r["base"]["diags"], comments, newline)
        removed_total += len(removed)
        bad = r["text_missing"] or r["text_extra"] or r["impl_only"] or r["model_only"] or r["var"]["crashed"] or r["var"]["rc"] not in (0, 3) or r["skel_rc"] != 0
        if not bad:
            continue
        found = True
        if len(rep.violations) >= 2:
            continue
        keys = (r["text_missing"] + r["text_extra"] + r["impl_only"] + r["model_only"])
        wid = keys[0][0].split("/")[0] if keys else None
        wfiles0 = {k: v for k, v in files0.items() if wid and k.startswith(wid + "/")}
        wcomments = [strip(c) for c in comments if wid and c["file"].startswith(wid + "/")]

        def still_bad(cs, wfiles0=wfiles0, name=name):
            _, _, rr, _ = evaluate(ctx, wfiles0, fixed_comments=cs)
            x = rr[name]
            return bool(x["text_missing"] or x["text_extra"] or x["impl_only"] or x["model_only"] or x["var"]["crashed"])
        small = wcomments
        if wid and wcomments and not rep.violations:
            small = shrink_comments(ctx, wfiles0, wcomments, still_bad)
        _, sfiles1, rr, _ = evaluate(ctx, wfiles0, fixed_comments=small) if wid else (None, {}, {name: r}, None)
        x = rr[name]
        rep.violation({"property": "C07", "kind": "ignore-scope", "config": list(r["cfg"]), "world": wid, "comments": small,
                       "files_without_comments": wfiles0, "files": sfiles1,
                       "by_the_property_text": {"diagnostics_that_should_have_stayed_but_are_gone": x["text_missing"][:10],
                                                "diagnostics_that_should_be_gone_or_absent_but_are_reported": x["text_extra"][:10]},
                       "implementation_vs_model": {"impl_only": x["impl_only"][:10], "model_only": x["model_only"][:10]},
                       "exit_status": r["var"]["rc"], "stderr_tail": r["var"]["stderr"][-600:] if r["var"]["crashed"] else "",
                       "what": "an @ignore comment does not remove exactly the diagnostics of its documented scope that match its codes"})
    for c in comments:
        if c["tokens"]:
            nontrivial += 1
    lib.obligation_gate(rep, ctx, "C07", found)
    m = res["scan-tests"]["model"]
    rep.cov["evaluations"] = len(comments) * len(CONFIGS)
    rep.cov["distinct_nontrivial"] = nontrivial
    rep.cov["rule"] = ("%d generated worlds (all 13 AST-checker codes + IMPL01-03 in every third world); up to %d @ignore comments per world placed relative to a reported diagnostic: trailing its line, the "
                       "previous / second previous / next code line (incl. lines that only open or close a block), the func line and the last line of its declaration; standing alone above its "
                       "innermost statement, an enclosing statement, the next / previous sibling statement, its declaration, the next declaration; before the package clause of its file or of "
                       "another file of the package. Code lists: exact, sibling code, category, ALL, unknown, wrong category, lower / mixed case, several, trailing text / comma / slashes, tab, "
                       "no blank after //, and malformed forms that must have no effect; per world one nested pair (a comment above a declaration for one code, and a comment inside it that repeats that code and names the code of another diagnostic). Per configuration (default, scan-tests): (B) binary = Coq model on the commented program by (file, line, "
                       "code); (C) binary on the commented program = binary on the comment-free program minus the matching diagnostics inside the documented scope (positions from go/parser), "
                       "TONL01/PKGO01 allowed to move to a later use. evaluations = comments x configurations; non-trivial = comments with an effective code list" % (n, per_world))
    rep.cov["input_distribution"] = dist
    rep.cov["diagnostics_base"] = {k: len(v["base"]["diags"]) for k, v in res.items()}
    rep.cov["diagnostics_with_comments"] = {k: len(v["var"]["diags"]) for k, v in res.items()}
    rep.cov["diagnostics_expected_removed_by_text_oracle"] = removed_total
    rep.cov["ignore_comments_inside_declarations"] = m["ignore_comments_in_decls"]
    rep.cov["ignore_comments_meeting_the_scope_theorems_hypotheses"] = m["ignore_comments_meeting_hypotheses"]
    rep.cov["samples"] = [{"file": c["file"], "placement": c["kind"], "comment": c["text"], "target": c.get("target")} for c in comments[:4]]
    rep.assumptions = ["placements are those the property names (stand-alone comments are inserted only directly above a statement of a statement list or above a top-level declaration; "
                       "a stand-alone comment that is the last thing of its block or precedes a case clause is left unspecified, DESIGN 5.1)",
                       "positions (statement ends, code lines) come from go/parser and go/scanner through `ggx stmts`"]
    return rep.finish()


def replay(ctx, d):
    if d.get("kind") != "ignore-scope":
        print(json.dumps(d, indent=1)[:4000])
        return 0
    comments, files1, res, _ = evaluate(ctx, d["files_without_comments"], fixed_comments=d["comments"])
    bad = 0
    for name, r in res.items():
        print("config", name, "| text oracle: missing", r["text_missing"], "extra", r["text_extra"], "| impl only", r["impl_only"], "model only", r["model_only"])
        bad |= bool(r["text_missing"] or r["text_extra"] or r["impl_only"] or r["model_only"] or r["var"]["crashed"])
    return 1 if bad else 0
