"""C05 — @implements verdicts agree with Go's own type checker.

(A) Coq obligations of Properties/C05.v (resolution, IMPL01/02/03 characterisation, listed methods = the filter of the
    interface's methods, identical is an equivalence that sees through aliases and counts pointers);
(B) binary = Coq model on generated interface/type pairs, by (file, line, column, code, full short message);
(C) binary = Go's own verdict (ggx impl-oracle: scoping of the file's imports, scope lookup, method sets,
    types.Identical, cross-checked with types.Implements), incl. the names of the missing methods;
(D) library model: the model's signature matching vs types.Identical is exercised implicitly by (B)+(C) on every pair."""
import json, os, re, shutil
import lib, worlds, implgen

CFG = (False, ["testdata"], [])


def parse_missing(msg):
    first = msg.split("\n   |")[0] if "\n   |" in msg else msg
    lines = first.split("\n")
    out = []
    seen = False
    for l in lines:
        if l.startswith("missing methods:"):
            seen = True
            continue
        if seen and l.startswith("  "):
            m = re.match(r"^\s+(\w+)\(", l)
            if m:
                out.append(m.group(1))
    return tuple(out)


def evaluate(ctx, files):
    d = lib.scratch_dir()
    root = os.path.join(d, "m")
    worlds.write_sources(root, files)
    rc, out, err = lib.sh([ctx.ggx, "impl-oracle", "-dir", root], env=ctx.env, cwd=root, timeout=1500)
    oracle = json.loads(out) if out.strip() else []
    dump = os.path.join(d, "dump.sx")
    src, serr = worlds.skel(ctx, root, dump, tests=False)
    r = lib.run_binary(ctx, root, flags=worlds.cfg_flags(CFG), timeout=1500)
    m = worlds.model_analyze(ctx, dump, CFG, root)
    shutil.rmtree(d, ignore_errors=True)
    return oracle, r, m, (rc, err[-500:], src, serr[-500:])


def judge(oracle, r, m):
    impl = [x for x in r["diags"] if x["code"].startswith("IMPL")]
    short = lambda msg: msg.split("\n   |")[0].split("\n  |")[0]
    # (B) model
    mk = lambda x, mm: (x["file"], x["line"], x["col"], x["code"], mm)
    a = sorted(mk(x, re.sub(r"^error: \[\w+\] ", "", re.split(r"\n\s*\|\n", x["message"])[0])) for x in impl)
    b = sorted(mk(x, x["message"]) for x in m["diags"] if x["code"].startswith("IMPL"))
    model_diff = ([x for x in a if x not in b], [x for x in b if x not in a])
    # (C) Go's verdict
    want = {}
    skipped = 0
    for v in oracle:
        if v["Expect"].startswith("SKIP"):
            skipped += 1
            continue
        if v["Expect"] == "OK":
            want.setdefault((v["File"], v["Line"]), [])
            continue
        want.setdefault((v["File"], v["Line"]), []).append((v["Expect"], tuple(v.get("Missing") or ()) if v["Expect"] == "IMPL03" else ()))
    skip_lines = {(v["File"], v["Line"]) for v in oracle if v["Expect"].startswith("SKIP")}
    got = {}
    for x in impl:
        got.setdefault((x["file"], x["line"]), []).append((x["code"], parse_missing(x["message"]) if x["code"] == "IMPL03" else ()))
    go_diff = []
    for k in sorted(set(want) | set(got)):
        if k in skip_lines:
            continue
        if sorted(set(want.get(k, []))) != sorted(set(got.get(k, []))):
            go_diff.append({"file": k[0], "line": k[1], "go_says": sorted(want.get(k, [])), "gogreement_reports": sorted(got.get(k, []))})
    return model_diff, go_diff, skipped, len(impl)


def run(ctx):
    rep = lib.Report(ctx, "C05")
    n = 150 if ctx.tier != "thorough" else 2000
    rng = lib.rng_for(ctx, "c05")
    files, stats = {}, {}
    for i in range(n):
        files.update(implgen.impl_world(rng, "w%04d" % i, stats=stats))
    oracle, r, m, info = evaluate(ctx, files)
    model_diff, go_diff, skipped, nimpl = judge(oracle, r, m)
    found = False
    bad = r["crashed"] or r["rc"] not in (0, 3) or info[0] != 0 or info[2] != 0
    if model_diff[0] or model_diff[1] or go_diff or bad:
        found = True
        keys = [x[0] for x in model_diff[0] + model_diff[1]] + [x["file"] for x in go_diff]
        wid = keys[0].split("/")[0] if keys else None
        wfiles = {k: v for k, v in files.items() if wid and k.startswith(wid + "/")}
        small = dict(wfiles)
        if wid:
            o2, r2, m2, _ = evaluate(ctx, wfiles)
            md2, gd2, _, _ = judge(o2, r2, m2)
            model_diff_w, go_diff_w = md2, gd2
        else:
            model_diff_w, go_diff_w = model_diff, go_diff
        rep.violation({"property": "C05", "kind": "implements", "world": wid, "files": small,
                       "gogreement_vs_go_type_checker": go_diff_w[:10],
                       "implementation_vs_model": {"impl_only": [list(x) for x in model_diff_w[0][:6]], "model_only": [list(x) for x in model_diff_w[1][:6]]},
                       "exit_status": r["rc"], "stderr_tail": r["stderr"][-600:] if bad else "", "harness": info if bad else None,
                       "what": "an @implements verdict (or its list of missing methods) differs from Go's type checker / from the proved model"})
    lib.obligation_gate(rep, ctx, "C05", found)
    from collections import Counter
    exp = Counter(v["Expect"].split(":")[0] for v in oracle)
    rep.cov["evaluations"] = len(oracle)
    rep.cov["distinct_nontrivial"] = len({(v["File"], v["Line"], v["Text"]) for v in oracle if v["Expect"] in ("IMPL01", "IMPL02", "IMPL03") or (v["Expect"] == "OK" and v["Iface"] != "Empty")})
    rep.cov["rule"] = ("%d generated worlds: a library package with 2-4 interfaces (1-4 methods each, optional embedded interface; signatures over basic types incl. byte/uint8, rune/int32, "
                       "any/interface{}, named types, aliases of a named / pointer / slice type, pointers of depth 1-3, slices, arrays, maps, channels of all directions, func, struct and interface "
                       "literals, variadics), a package whose name differs from its directory, and a user package of four files that bind the library as itself, under an alias, not at all; per "
                       "annotated type every interface method is implemented exactly / identically but spelled differently / almost / not at all, with value or pointer receiver, directly or "
                       "promoted through an embedded struct or *struct; interfaces with an unexported method (satisfied only by a mixin type of the interface's package embedded by value or pointer - value or pointer receiver - never by a method of the same name declared in the annotated type's package; both at once); a same-package interface over a defined type of a package that also has an in-package _test.go file (analysed twice by the stand-alone driver); contracts with and without &; qualifiers bound, unbound, the package's own name, the directory name of a differently named "
                       "package; targets that are interfaces, the empty interface, a struct, a function, absent. evaluations = annotations judged by Go; non-trivial = annotations with a decidable "
                       "verdict other than the trivially satisfied empty interface. Compared: binary vs Go's verdict incl. missing-method names; binary vs model incl. column and message" % n)
    rep.cov["packages_serialised"] = m.get("packages")
    rep.cov["packages_meeting_the_input_conditions_of_the_theorems"] = {"x_impl_inputs_ok (method identities unique, import names known)": m.get("packages_impl_inputs_ok"),
                                                                        "x_lines_ok && x_pos_ok && x_ranges_ok": m.get("packages_lines_ok")}
    rep.cov["go_verdicts"] = dict(exp)
    rep.cov["oracle_skipped"] = skipped
    rep.cov["impl_diagnostics"] = nimpl
    rep.cov["input_distribution"] = stats
    rep.cov["samples"] = [{"file": v["File"], "line": v["Line"], "annotation": v["Text"].strip(), "go_says": v["Expect"], "missing": v.get("Missing")} for v in oracle[:4]]
    rep.assumptions = ["fragment: non-generic types and interfaces; no @implements on an alias declaration (DESIGN 5.1)",
                       "the method sets (types.NewMethodSet) and interface completion are inputs of the model; types.Identical is a library model (equality of normal forms) exercised on every pair"]
    return rep.finish()


def replay(ctx, d):
    if d.get("kind") != "implements":
        print(json.dumps(d, indent=1)[:4000])
        return 0
    oracle, r, m, info = evaluate(ctx, d["files"])
    md, gd, _, _ = judge(oracle, r, m)
    print("gogreement vs Go's type checker:", json.dumps(gd, indent=1)[:3000])
    print("implementation only:", md[0][:6])
    print("model only:", md[1][:6])
    return 1 if (md[0] or md[1] or gd) else 0
