"""C06 — annotations cross package boundaries intact, whatever the driver or the run set.

(A) Coq obligations of Properties/C06.v (locality, exported fact is local, indices indifferent to the origin of a fact,
    fact fields exported/encodable + gob round trip, wiring, every valid schedule / every universe gives the same result);
(B) the same worlds through five drivers - standalone binary (multichecker), `go vet -vettool` (unitchecker: one process
    per package, facts gob-encoded on disk), in-process checker.Analyze parallel / sequential / with the fact sanity
    check - and through the Coq model: identical (file, line, column, code, message);
(C) run sets: the diagnostics of a package are the same when only that package is named on the command line (its
    dependencies being analysed as unnamed dependencies) as in the ./... run.
Worlds (checks/daggen.py): import DAG of depth >= 2 with annotated values flowing through an intermediate API into a
package that does not import the declaring package, two packages of one name on an allow-list by name, grammar sweep."""
import concurrent.futures, json, os, re, shutil
import lib, worlds, worldgen, daggen

CONFIGS = [("default", (False, ["testdata"], [])),
           ("scan-tests, two exclude-paths entries naming things inside the module", (True, ["/near/", "d/funcs"], []))]
TEXT = re.compile(r"^(\S+?\.go):(\d+):(\d+): (error: \[(\w+)\].*)$")


def key(d):
    return (d["file"], d["line"], d["col"], d["code"], d["message"].split("\n")[0])


def cfg_env(ctx, cfg):
    e = dict(ctx.env)
    e["GOGREEMENT_SCAN_TESTS"] = "true" if cfg[0] else "false"
    e["GOGREEMENT_EXCLUDE_PATHS"] = ",".join(cfg[1])
    e["GOGREEMENT_EXCLUDE_CHECKS"] = ",".join(cfg[2])
    return e


def vet_diags(ctx, root, cfg, patterns=("./...",)):
    # the configuration goes through flags: cmd/go caches vet results per (files, tool, flags), not per environment
    fl = ["-config.scan-tests=%s" % ("true" if cfg[0] else "false"), "-config.exclude-paths=" + ",".join(cfg[1]), "-config.exclude-checks=" + ",".join(cfg[2])]
    rc, out, err = lib.sh(["go", "vet", "-vettool=" + ctx.gg] + fl + list(patterns), cwd=root, env=ctx.env, timeout=1800)
    res = set()
    for line in (err + "\n" + out).split("\n"):
        m = TEXT.match(line.strip())
        if m:
            f = m.group(1)
            f = os.path.relpath(f, root) if f.startswith("/") else os.path.normpath(f)
            res.add((f, int(m.group(2)), int(m.group(3)), m.group(5), m.group(4)))
    crashed = lib.crash_in(err + "\n" + out)
    return res, rc, crashed, err[-1500:]


def inproc_diags(ctx, root, cfg, flags=(), patterns=("./...",)):
    rc, out, err = lib.sh([ctx.ggx, "inproc", "-dir", root] + list(flags) + list(patterns), cwd=root, env=cfg_env(ctx, cfg), timeout=1800)
    try:
        j = json.loads(out)
    except Exception:
        return set(), rc, True, (err + out)[-1500:]
    diags, errors = lib.parse_json_diags(json.dumps(j.get("diags") or {}), root)
    errs = (j.get("errors") or []) + errors
    return {key(d) for d in diags if not d["file"].startswith("..")}, rc, bool(errs), "; ".join(errs)[-1500:]


def meta_sources(root, wid):
    return {os.path.relpath(os.path.join(dp, f), root): open(os.path.join(dp, f)).read() for dp, _, fs in os.walk(os.path.join(root, wid)) for f in fs}


def run(ctx):
    rep = lib.Report(ctx, "C06")
    n = 12 if ctx.tier != "thorough" else 120
    d = lib.scratch_dir()
    root = os.path.join(d, "m")
    rng = lib.rng_for(ctx, "c06")
    worldgen.write_module(root, "w")
    stats = worldgen.new_stats()
    sites = {}
    wids = []
    for i in range(n):
        wid = "w%04d" % i
        W = daggen.dag_world(rng, wid, stats=stats)
        s, _ = worldgen.render(W, root, rng)
        sites.update(s)
        wids.append(wid)
    # two single-file packages in which an annotated declaration of the imported package and an UNRELATED declaration of
    # the importer start at the same byte offset: under go vet every package has a FileSet of its own, so the two have
    # the same token.Pos there (in the stand-alone driver they share one FileSet and differ)
    for wid in wids[:2]:
        btxt = 'package cob\n\nimport "w/%s/co/coa"\n\n// Seed is ordinary.\nfunc Seed() int { return coa.Fixture() + coa.Plain() }\n\n// T2 is ordinary.\ntype T2 struct{ F int }\n' % wid
        off = btxt.index("func Seed")
        atxt = "package coa\n\n// " + "x" * (off - 30) + "\n// @testonly\nfunc Fixture() int { return 1 }\n\nfunc Plain() int { return 2 }\n"
        assert atxt.index("func Fixture") == off
        for rel, text in (("co/coa/a.go", atxt), ("co/cob/b.go", btxt)):
            pth = os.path.join(root, wid, rel)
            os.makedirs(os.path.dirname(pth), exist_ok=True)
            open(pth, "w").write(text)
    dump = os.path.join(d, "dump.sx")
    src, serr = worlds.skel(ctx, root, dump)
    found = False
    problems = []
    summary = {}
    nsub = 0
    base = set()
    for cname, CFG in CONFIGS:
        jobs = {
            "multichecker ./...": lambda CFG=CFG: (lambda r: ({key(x) for x in r["diags"] if not x["file"].startswith("..")}, r["rc"], r["crashed"] or bool(r["errors"]), r["stderr"][-800:]))(lib.run_binary(ctx, root, flags=worlds.cfg_flags(CFG), timeout=1800)),
            "go vet -vettool (unitchecker)": lambda CFG=CFG: vet_diags(ctx, root, CFG),
            "in-process parallel": lambda CFG=CFG: inproc_diags(ctx, root, CFG),
            "in-process sequential": lambda CFG=CFG: inproc_diags(ctx, root, CFG, ["-seq"]),
            "in-process + fact sanity check": lambda CFG=CFG: inproc_diags(ctx, root, CFG, ["-sanity"]),
        }
        with concurrent.futures.ThreadPoolExecutor(max_workers=5) as ex:
            futs = {k: ex.submit(f) for k, f in jobs.items()}
            res = {k: f.result() for k, f in futs.items()}
        m = worlds.model_analyze(ctx, dump, CFG, root)
        model = {(x["file"], x["line"], x["col"], x["code"], "error: [%s] %s" % (x["code"], x["message"].split("\n")[0])) for x in m["diags"]}
        base = res["multichecker ./..."][0]
        summary[cname] = {k: {"diagnostics": len(v[0]), "exit_status": v[1]} for k, v in res.items()}
        summary[cname]["Coq model"] = {"diagnostics": len(model)}
        for k, (ds, rc, bad, tail) in res.items():
            if bad:
                problems.append({"config": cname, "driver": k, "what": "driver failed", "exit_status": rc, "tail": tail})
            if ds != base:
                problems.append({"config": cname, "driver": k, "what": "diagnostics differ from the standalone binary's", "only_here": sorted(ds - base)[:8], "only_in_standalone": sorted(base - ds)[:8]})
        if model != base or src != 0 or m["rc"] != 0:
            problems.append({"config": cname, "driver": "Coq model", "what": "diagnostics differ from the standalone binary's", "only_in_model": sorted(model - base)[:8], "only_in_standalone": sorted(base - model)[:8],
                             "skel": serr[-300:], "model_stderr": m["stderr"][-300:]})
        subsets = []
        for wid in wids[: (3 if ctx.tier != "thorough" else 12)]:
            for pk in ("u", "far", "near", "v2/client", "ok", "tv/a", "tv/b"):
                subsets.append((wid, pk))
        nsub += len(subsets)

        def one_subset(wp, CFG=CFG, base=base):
            wid, pk = wp
            r = lib.run_binary(ctx, root, flags=worlds.cfg_flags(CFG), patterns=["./%s/%s/..." % (wid, pk)], timeout=900)
            got = {key(x) for x in r["diags"] if not x["file"].startswith("..")}
            want = {x for x in base if x[0].startswith("%s/%s/" % (wid, pk))}
            return wp, got, want, r
        with concurrent.futures.ThreadPoolExecutor(max_workers=lib.NCPU) as ex:
            for wp, got, want, r in ex.map(one_subset, subsets):
                if got != want or r["crashed"]:
                    problems.append({"config": cname, "driver": "multichecker ./%s/%s/... (only this package named)" % wp, "what": "diagnostics of the package differ from those in the ./... run",
                                     "only_when_named_alone": sorted(got - want)[:8], "only_in_full_run": sorted(want - got)[:8]})
    subsets = [None] * nsub
    res = {}
    far = sorted(x for x in base if "/far/" in x[0])
    if problems:
        found = True
        bad_files = [x[0] for p in problems for kk in ("only_here", "only_in_standalone", "only_in_model", "only_when_named_alone", "only_in_full_run") for x in p.get(kk, [])]
        wid = bad_files[0].split("/")[0] if bad_files else wids[0]
        rep.violation({"property": "C06", "kind": "drivers", "problems": problems[:8], "world": wid, "files": meta_sources(root, wid),
                       "what": "the diagnostics depend on the driver / on which packages are analysed alongside / on an indirect dependency"})
    shutil.rmtree(d, ignore_errors=True)
    lib.obligation_gate(rep, ctx, "C06", found)
    rep.cov["evaluations"] = sum(v["diagnostics"] for c in summary.values() for v in c.values()) + len(subsets)
    rep.cov["distinct_nontrivial"] = len(base)
    rep.cov["rule"] = ("%d worlds (12+ packages each: declaring package, alias package, users, @implements packages, an API package re-exporting annotated values, a package that reaches them only through "
                       "that API, one that imports both, two packages of the same name, grammar-sweeping annotation values) analysed by the standalone binary, go vet -vettool, in-process "
                       "checker.Analyze parallel / sequential / with SanityCheck, and the Coq model: under two configurations (default; scan-tests with exclude-paths entries matching a directory and a file of the module, so that test variants and excluded annotation sources take part): the sets of (file, line, column, code, message) must coincide; plus %d runs naming a single "
                       "package. non-trivial = distinct diagnostics of the reference run, each of which every driver has to reproduce" % (n, len(subsets)))
    rep.cov["drivers"] = summary
    rep.cov["diagnostics_in_the_package_without_direct_import"] = far
    rep.cov["samples"] = [list(x) for x in sorted(base)[:3]]
    rep.assumptions = ["gob and the unitchecker fact files are exercised, not modelled beyond the exported-field rule (partial: DESIGN section 5, C06)"]
    return rep.finish()


def replay(ctx, d):
    print(json.dumps({k: v for k, v in d.items() if k != "files"}, indent=1)[:6000])
    return 0
