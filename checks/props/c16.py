"""C16 — suppression decision = inclusive range + ALL > category > code.
Correspondence: util.IgnoreSet public API (Add, AddModuleIgnore, Contains) vs the Coq model (extracted),
and vs the list-scan reference Spec that the theorem proves equal to the model."""
import itertools, os, subprocess
import lib

CODES = ["ALL", "IMM", "IMM01", "IMM02", "CTOR01", "X9"]
QCODES = ["IMM01", "IMM02", "IMM", "CTOR01", "CTOR02", "CTOR", "X9", "ALL"]
QUERIES = " ".join("%s:%d" % (c, p) for c in QCODES for p in range(0, 7))
NQ = len(QCODES) * 7


def op_alphabet():
    ops = []
    ranges = [(s, e) for s in range(1, 6) for e in range(s, 6)] + [(3, 2), (5, 1), (4, 3)]
    for c in CODES:
        for (s, e) in ranges:
            ops.append("A:%s:%d:%d" % (c, s, e))
        ops.append("G:%s" % c)
    return ops


def run_both(ctx, lines):
    """returns (impl_lines, model_lines) ; model line = '<contains> <spec>'"""
    data = "\n".join(lines) + "\n"
    n = lib.NCPU
    chunks = [lines[i::n] for i in range(n)]
    procs = []
    for ch in chunks:
        if not ch:
            procs.append(None)
            continue
        d = "\n".join(ch) + "\n"
        p1 = subprocess.Popen([ctx.ggx, "unit-ignoreset"], stdin=subprocess.PIPE, stdout=subprocess.PIPE, text=True, env=ctx.env)
        p2 = subprocess.Popen([ctx.modelrun, "ignoreset"], stdin=subprocess.PIPE, stdout=subprocess.PIPE, text=True)
        procs.append((p1, p2, d))
    import threading
    results = [None] * n

    def work(i):
        p1, p2, d = procs[i]
        o1 = [None]
        t = threading.Thread(target=lambda: o1.__setitem__(0, p1.communicate(d)[0]))
        t.start()
        o2 = p2.communicate(d)[0]
        t.join()
        results[i] = (o1[0].split("\n"), o2.split("\n"))
    ths = []
    for i in range(n):
        if procs[i]:
            th = threading.Thread(target=work, args=(i,))
            th.start()
            ths.append(th)
    for th in ths:
        th.join()
    impl = [None] * len(lines)
    model = [None] * len(lines)
    for i in range(n):
        if not procs[i]:
            continue
        a, b = results[i]
        for k, idx in enumerate(range(i, len(lines), n)):
            impl[idx] = a[k] if k < len(a) else "?"
            model[idx] = b[k] if k < len(b) else "?"
    return impl, model


def in_fragment(ops):
    for o in ops:
        if o.startswith("A:"):
            if int(o.split(":")[2]) < 1:
                return False
    return True


def compare(ctx, histories, queries, stats):
    lines = [" ".join(h) + " | " + queries for h in histories]
    impl, model = run_both(ctx, lines)
    fails = []
    for h, a, b in zip(histories, impl, model):
        parts = (b or "").split(" ")
        mc = parts[0] if parts else ""
        sp = parts[1] if len(parts) > 1 else ""
        frag = in_fragment(h)
        stats["evaluations"] += len(a or "")
        if h and ("1" in (a or "")) and ("0" in (a or "")) and frag:
            stats["nontrivial"].add(" ".join(h))
        if frag:
            if a != sp or a != mc:
                fails.append((h, a, mc, sp))
        else:
            stats["out_of_fragment"] += 1
            if a != mc:
                stats["model_infidelity"].append({"history": h, "impl": a, "model": mc})
    return fails


def shrink(ctx, h, queries):
    """greedy: drop ops while impl and reference still disagree"""
    cur = list(h)
    changed = True
    while changed:
        changed = False
        for i in range(len(cur)):
            cand = cur[:i] + cur[i + 1:]
            st = {"evaluations": 0, "nontrivial": set(), "out_of_fragment": 0, "model_infidelity": []}
            if compare(ctx, [cand], queries, st):
                cur = cand
                changed = True
                break
    return cur


def run(ctx):
    rep = lib.Report(ctx, "C16")
    rng = lib.rng_for(ctx, "C16")
    stats = {"evaluations": 0, "nontrivial": set(), "out_of_fragment": 0, "model_infidelity": []}
    alpha = op_alphabet()
    hist = [[]] + [[a] for a in alpha] + [[a, b] for a in alpha for b in alpha]
    # the nil receiver and a few multi-code markers
    hist.append(["N"])
    exhaustive_len = 2
    if ctx.tier == "thorough":
        # length 3 over a reduced alphabet that still has every code, nested/overlapping/disjoint/reversed ranges and globals
        red = [o for o in alpha if o.startswith("G:") or o.split(":")[2:] in (["1", "5"], ["2", "3"], ["4", "5"], ["3", "3"], ["3", "2"])]
        hist += [[a, b, c] for a in red for b in red for c in red]
        exhaustive_len = 3
    fails = compare(ctx, hist, QUERIES, stats)
    n_exh = len(hist)
    # random longer histories over wider ranges, multi-code markers, empty code lists, positions <= 0 (out of fragment)
    nrand = 5000 if ctx.tier != "thorough" else 60000
    rh = []
    wide_codes = CODES + ["TONL", "PKGO03", "imm01", "", "IMM0", "I", "IM", "CTOR0", "A", "AL", "IMM010", "CTO"]
    for _ in range(nrand):
        k = rng.randint(1, 8)
        h = []
        lo = -2 if rng.random() < 0.15 else 1
        for _ in range(k):
            cs = ",".join(rng.choice(wide_codes) for _ in range(rng.choice([1, 1, 1, 2, 3])))
            if rng.random() < 0.2:
                h.append("G:%s" % cs)
            else:
                s = rng.randint(lo, 40)
                e = s + rng.choice([0, 0, 1, 2, 5, 10, 30, -1, -3])
                h.append("A:%s:%d:%d" % (cs, s, e))
        rh.append(h)
    wq = " ".join("%s:%d" % (c, p) for c in QCODES + ["TONL01", "PKGO03", "imm01"] for p in (-1, 0, 1, 2, 3, 5, 8, 13, 21, 34, 40, 41, 70))
    fails += compare(ctx, rh, wq, stats)

    found = False
    seen = set()
    known = [k for k in lib.load_known() if k.get("property") == "C16" and k.get("status") == "known"]
    for (h, a, mc, sp) in fails[:50]:
        q = QUERIES if " ".join(h) in set(" ".join(x) for x in hist) else wq
        m = shrink(ctx, h, q)
        key = " ".join(m)
        if key in seen:
            continue
        seen.add(key)
        st = {"evaluations": 0, "nontrivial": set(), "out_of_fragment": 0, "model_infidelity": []}
        lines = [" ".join(m) + " | " + q]
        impl, model = run_both(ctx, lines)
        qs = q.split(" ")
        spc = model[0].split(" ")[1]
        diff = [qs[i] for i in range(len(qs)) if i < len(impl[0]) and i < len(spc) and impl[0][i] != spc[i]]
        found = True
        rep.violation({"property": "C16", "kind": "history", "ops": m, "queries_that_differ": diff,
                       "implementation": impl[0], "model_contains_and_reference": model[0], "all_queries": q,
                       "what": "util.IgnoreSet.Contains differs from the list-scan reference (some suppression with a token among ALL / category / code that is global or has start <= p <= end)",
                       "replay_cmd": "checks/replay.sh <this file>"})
        if len(rep.violations) >= 5:
            break
    # end to end: the decision is taken per POSITION.  Two diagnostics of one code on one line, the first inside the range of
    # a stand-alone @ignore (which ends with the next statement / element, in mid-line), the second outside every range
    import worlds, shutil
    e2e = {"p/p.go": "package p\n\n// T is annotated.\n// @immutable\n// @constructor NewT\ntype T struct{ a, b int }\n\nfunc NewT() *T { return &T{} }\n\n"
                     "func f(t *T) {\n\t// @ignore IMM01\n\tt.a = 1; t.b = 2\n\tt.a = 3; t.b = 4\n\t// @ignore IMM\n\tt.a++; t.b++\n\tt.a = 5 // @ignore IMM01\n}\n\n"
                     "var xs = []T{\n\t// @ignore CTOR01\n\tT{a: 1}, T{a: 2},\n\tT{a: 3}, T{a: 4},\n}\n\n"
                     "// Mock is for tests.\n// @testonly\nfunc Mock() int { return 1 }\n\n// H helps.\ntype H struct{ n int }\n\n// @testonly\nfunc (h *H) Reset() { h.n = 0 }\n\n"
                     "func g(h *H) { // @ignore TONL\n\t_ = Mock()\n\th.Reset()\n}\n\nfunc k(h *H) { _ = Mock() // @ignore ALL\n\th.Reset()\n}\n"}
    want = {("p/p.go", 12, 11, "IMM01"), ("p/p.go", 13, 2, "IMM01"), ("p/p.go", 13, 11, "IMM01"), ("p/p.go", 15, 9, "IMM03"),
            ("p/p.go", 21, 11, "CTOR01"), ("p/p.go", 22, 2, "CTOR01"), ("p/p.go", 22, 11, "CTOR01"),
            # an inline comment on a func header line covers that LINE only: the body below is decided position by position
            ("p/p.go", 36, 6, "TONL02"), ("p/p.go", 37, 2, "TONL03"), ("p/p.go", 41, 2, "TONL03")}
    ed = lib.scratch_dir()
    eroot = os.path.join(ed, "m")
    worlds.write_sources(eroot, e2e)
    dump = os.path.join(ed, "dump.sx")
    src, serr = worlds.skel(ctx, eroot, dump)
    e2e_res = {}
    for cname, cfg in (("default", (False, ["testdata"], [])),):
        r = lib.run_binary(ctx, eroot, flags=worlds.cfg_flags(cfg))
        m = worlds.model_analyze(ctx, dump, cfg, eroot)
        got = worlds.keyset(r["diags"], with_col=True)
        mod = worlds.keyset(m["diags"], with_col=True)
        e2e_res[cname] = {"implementation": sorted(got), "model": sorted(mod)}
        if got != want or mod != want or r["crashed"] or src != 0:
            found = True
            rep.violation({"property": "C16", "kind": "end-to-end", "files": e2e, "config": list(cfg), "expected": sorted(want), "implementation": sorted(got), "model": sorted(mod),
                           "skel_error": serr[-300:], "stderr_tail": r["stderr"][-400:],
                           "what": "two diagnostics of one code on one line, one inside and one outside the range of an @ignore: dropped iff the position lies in a range"})
    shutil.rmtree(ed, ignore_errors=True)
    lib.obligation_gate(rep, ctx, "C16", found)
    rep.cov["evaluations"] = stats["evaluations"]
    rep.cov["distinct_nontrivial"] = len(stats["nontrivial"])
    rep.cov["exhaustive"] = True
    rep.cov["rule"] = ("histories: ALL sequences of length <= %d over %d ops (6 codes x 18 ranges in 1..5 incl. 3 reversed, + 6 global ops)%s, "
                       "plus the nil receiver, each x %d queries (8 codes incl. CTOR/CTOR02/unknown x positions 0..6), enumerated exhaustively (%d histories); "
                       "plus %d random histories of length 1..8 (multi-code, empty and lower-case tokens, positions -2..40, 15%% out of fragment = a range starting <= 0). "
                       "plus one end-to-end program (real binary and model): pairs of same-code diagnostics on one line around the mid-line end of a stand-alone @ignore range. non-trivial = distinct in-fragment non-empty history on which at least one query is suppressed and one is not"
                       % (2, len(alpha), " and length 3 over a reduced alphabet" if exhaustive_len == 3 else "", NQ, n_exh, nrand))
    rep.cov["samples"] = [{"ops": hist[200], "queries": QUERIES[:60] + "..."}, {"ops": hist[5000]}, {"ops": rh[0]}, {"ops": rh[1]}]
    rep.cov["out_of_fragment_cases"] = stats["out_of_fragment"]
    rep.cov["model_infidelity_outside_fragment"] = stats["model_infidelity"][:5]
    rep.assumptions = ["scoped ranges start at a real token.Pos (>= 1): the theorem's hypothesis, shown necessary by C16_without_hypothesis_refuted",
                       "a nil *IgnoreSet is only ever queried (Add on nil dereferences in ensureInitialized; no caller does it)"]
    return rep.finish()


def replay(ctx, d):
    if d.get("kind") == "end-to-end":
        import l1
        dd = dict(d)
        dd["kind"] = "world"
        return l1.replay(ctx, dd)
    if d.get("kind") != "history":
        print(d)
        return 0
    q = d["all_queries"]
    impl, model = run_both(ctx, [" ".join(d["ops"]) + " | " + q])
    print("ops      :", d["ops"])
    print("queries  :", q)
    print("impl     :", impl[0])
    print("model/ref:", model[0])
    return 0 if impl[0] == model[0].split(" ")[1] else 1
