"""C18 — configuration resolves flag > environment > default, for any input strings.
Correspondence: (1) in-process public API (FromEnv, CreateFlagSet + ParseFlagsFromFlagSet) vs the extracted
model over the full grid; (2) the real binary in a fresh process on a probe module whose planted violations
reveal each option, vs what the model's configuration predicts."""
import binascii, os, shutil
import lib

H = lambda s: (binascii.hexlify(s if isinstance(s, bytes) else s.encode()).decode() or ".")

BOOLS = ["true", "TRUE", "True", "tRuE", "TRue", "1", "t", "T", "yes", "YES", "Yes", "yEs", "on", "ON", "On", "oN",
         "false", "FALSE", "False", "0", "f", "F", "no", "off", " true ", "\ttrue\n", " on ", "yes ", "  YES", "2", "truee",
         "y", "enabled", "tr ue", " 1 ", " T", "-1", "01"]
LISTS = ["testdata", "a,b", " a , b ", "a,,b", ",", " , ", "a,", ",a", "imm01,CTOR", "Imm01 , tonl", "vendor/x,gen-files,a.b",
         "ALL", "all", " ", "a b", "a\tb,c", "x", "IMM01", "imm", "a,b,c,d,e,f", "\tgen\t,\nmytestdata\n", "A,a", ",,,",
         "gen,generated", "generated,gen", "a,ab,abc", "IMM,IMM01", "imm01,IMM01,imm", "all,ALL,IMM", "x,ALL , y"]
ENV = {"scan": "GOGREEMENT_SCAN_TESTS", "paths": "GOGREEMENT_EXCLUDE_PATHS", "checks": "GOGREEMENT_EXCLUDE_CHECKS"}
FLAG = {"scan": "scan-tests", "paths": "exclude-paths", "checks": "exclude-checks"}


def tok_env(opt, v):
    return [] if v is None else ["E:%s=%s" % (ENV[opt], H(v))]


def tok_flag(opt, v):
    if v is None:
        return []
    if v is True:
        return ["B:%s" % FLAG[opt]]
    return ["F:%s=%s" % (FLAG[opt], H(v))]


def ascii_only(vals):
    return all(all(b < 128 for b in (v if isinstance(v, bytes) else v.encode())) for v in vals if isinstance(v, (str, bytes)))


def grid_cases(ctx, rng):
    cases = []   # (tokens, in_fragment, tag)
    for fv in [None, True, ""] + BOOLS:
        for ev in [None, ""] + BOOLS:
            cases.append((tok_flag("scan", fv) + tok_env("scan", ev), True, "bool-grid"))
    for opt in ("paths", "checks"):
        for fv in [None, ""] + LISTS:
            for ev in [None, ""] + LISTS:
                cases.append((tok_flag(opt, fv) + tok_env(opt, ev), True, "list-grid"))
    n = 2000 if ctx.tier != "thorough" else 20000
    for _ in range(n):
        toks = []
        for opt, pool in (("scan", BOOLS), ("paths", LISTS), ("checks", LISTS)):
            r = rng.random()
            fv = None if r < 0.4 else ("" if r < 0.5 else rng.choice(pool))
            if opt == "scan" and rng.random() < 0.1:
                fv = True
            r = rng.random()
            ev = None if r < 0.4 else ("" if r < 0.5 else rng.choice(pool))
            toks += tok_flag(opt, fv) + tok_env(opt, ev)
        if rng.random() < 0.1:      # the last occurrence of a repeated flag wins
            toks += tok_flag("scan", rng.choice(["true", "false", "0", "1"]))
        rng.shuffle(toks)
        cases.append((toks, True, "random-combo"))
    n = 3000 if ctx.tier != "thorough" else 30000
    alpha = list(b" \t\n,,,aAbBzZ019_-./imIMctorCTORALLall") + [0xc2, 0xa0, 0x85, 0xe9, 0xc3, 0xff]
    for _ in range(n):
        toks = []
        frag = True
        for opt in ("scan", "paths", "checks"):
            if rng.random() < 0.7:
                v = bytes(rng.choice(alpha) for _ in range(rng.randint(1, 12)))
                frag = frag and all(b < 128 for b in v)
                toks += ["E:%s=%s" % (ENV[opt], H(v))]
            if rng.random() < 0.3 and opt != "scan":
                v = bytes(rng.choice(alpha) for _ in range(rng.randint(1, 12)))
                frag = frag and all(b < 128 for b in v)
                toks += ["F:%s=%s" % (FLAG[opt], H(v))]
        cases.append((toks, frag, "fuzz-env"))
    return cases


def text_oracle(toks):
    """the property's own text on a token list (ASCII values): flag if given, else the variable if set (even to the empty
    string), else the default; lists split on commas, trimmed, empty items dropped, check codes upper-cased; booleans true
    exactly for true/1/yes/on in any case with surrounding blanks, and Go's other ParseBool spellings; a bare bool flag is
    true; of a repeated flag the last occurrence counts.  Returns 'S=.. P=.. C=..' or None where the text is silent."""
    un = lambda h: b"" if h == "." else binascii.unhexlify(h)
    flag, env = {}, {}
    for t in toks:
        if t.startswith("B:"):
            flag[t[2:]] = True
        elif t.startswith("F:"):
            k, v = t[2:].split("=", 1)
            flag[k] = un(v)
        elif t.startswith("E:"):
            k, v = t[2:].split("=", 1)
            env[k] = un(v)
    ws = b" \t\n\r\x0b\x0c"

    def blist(v, upper):
        items = [x.strip(ws) for x in v.split(b",")]
        items = [x for x in items if x]
        return [x.upper() if upper else x for x in items]

    def pbool(v, from_flag):
        if v is True:
            return True
        t = v.strip(ws)
        if from_flag:
            # flag.BoolVar uses strconv.ParseBool on the raw text; anything else is a usage error: not specified here
            return {b"1": True, b"t": True, b"T": True, b"true": True, b"TRUE": True, b"True": True,
                    b"0": False, b"f": False, b"F": False, b"false": False, b"FALSE": False, b"False": False}.get(v, None)
        return t.lower() in (b"true", b"1", b"yes", b"on", b"t")
    if FLAG["scan"] in flag:
        sc = pbool(flag[FLAG["scan"]], True)
        if sc is None:
            return None
    elif ENV["scan"] in env:
        sc = pbool(env[ENV["scan"]], False)
    else:
        sc = False
    out = []
    for opt, upper, default in (("paths", False, [b"testdata"]), ("checks", True, [])):
        if FLAG[opt] in flag:
            out.append(blist(flag[FLAG[opt]], upper))
        elif ENV[opt] in env:
            out.append(blist(env[ENV[opt]], upper))
        else:
            out.append(default)
    return "S=%d P=%s C=%s" % (1 if sc else 0, ",".join(H(x) for x in out[0]), ",".join(H(x) for x in out[1]))


def decode_cfg(line):
    """'S=1 P=hex,hex C=hex' -> (scan, paths, checks) or None"""
    if not line or not line.startswith("S="):
        return None
    parts = dict(p.split("=", 1) for p in line.split(" "))
    un = lambda h: [] if h == "" else [("" if x == "." else binascii.unhexlify(x).decode("utf8", "replace")) for x in h.split(",")]
    return (parts["S"] == "1", un(parts["P"]), un(parts["C"]))


def expected_visible(baseline, cfg, tokens_for):
    scan, paths, checks = cfg
    out = []
    for d in baseline:
        f = d["abs"]
        if any(p in f for p in paths):
            continue
        if not scan and f.endswith("_test.go"):
            continue
        if any(t in checks for t in tokens_for(d["code"])):
            continue
        out.append((d["file"], d["line"], d["code"]))
    return sorted(out)


CATS = {"IMM": "IMM", "CTOR": "CTOR", "TONL": "TONL", "PKGO": "PKGO", "IMPL": "IMPL"}


def tokens_for(code):
    cat = code.rstrip("0123456789")
    return ["ALL", cat, code] if cat in CATS and cat != code else ["ALL", code]


def run(ctx):
    rep = lib.Report(ctx, "C18")
    rng = lib.rng_for(ctx, "C18")
    cases = grid_cases(ctx, rng)
    lines = [" ".join(t) for (t, _, _) in cases]
    impl, model = lib.run_pair(ctx, "unit-config", "config", lines)
    dist, fails, infid, text_fails = {}, [], [], []
    nontriv = set()
    for (toks, frag, tag), a, b in zip(cases, impl, model):
        dist[tag] = dist.get(tag, 0) + 1
        if a != b:
            (fails if frag else infid).append((toks, a, b, tag))
        elif frag:
            # the property's text itself, on the implementation's answer (the model takes its parameters from the source)
            want = text_oracle(toks)
            if want is not None and a != want and a.startswith("S="):
                text_fails.append((toks, a, want, tag))
        if frag and toks and a not in ("S=0 P=7465737464617461 C=",):
            nontriv.add(" ".join(sorted(toks)))
    found = False
    seen = set()
    for (toks, a, b, tag) in fails:
        # shrink: drop tokens while the disagreement persists
        cur = list(toks)
        changed = True
        while changed:
            changed = False
            for i in range(len(cur)):
                cand = cur[:i] + cur[i + 1:]
                x, y = lib.run_pair(ctx, "unit-config", "config", [" ".join(cand)])
                if x[0] != y[0]:
                    cur = cand
                    changed = True
                    break
        x, y = lib.run_pair(ctx, "unit-config", "config", [" ".join(cur)])
        key = (tuple(t.split("=")[0] for t in cur), x[0].split(" ")[0], y[0].split(" ")[0])
        if key in seen:
            continue
        seen.add(key)
        found = True
        readable = [t.split("=")[0] + "=" + repr(binascii.unhexlify(t.split("=")[1]).decode("utf8", "replace") if t.split("=")[1] != "." else "") if "=" in t else t for t in cur]
        rep.violation({"property": "C18", "kind": "config-api", "tokens": cur, "readable": readable,
                       "implementation": x[0], "implementation_decoded": decode_cfg(x[0]),
                       "model_flag_env_default": y[0], "model_decoded": decode_cfg(y[0]),
                       "what": "config.CreateFlagSet/ParseFlagsFromFlagSet/FromEnv resolve differently from flag > environment > default"})
        if len(rep.violations) >= 4:
            break

    for (toks, a, want, tag) in text_fails[:200]:
        cur = list(toks)
        changed = True
        while changed:
            changed = False
            for i in range(len(cur)):
                cand = cur[:i] + cur[i + 1:]
                x, _ = lib.run_pair(ctx, "unit-config", "config", [" ".join(cand)])
                w = text_oracle(cand)
                if w is not None and x[0] != w and x[0].startswith("S="):
                    cur = cand
                    changed = True
                    break
        x, _ = lib.run_pair(ctx, "unit-config", "config", [" ".join(cur)])
        key = ("text", tuple(t.split("=")[0] for t in cur))
        if key in seen:
            continue
        seen.add(key)
        found = True
        readable = [t.split("=")[0] + "=" + repr(binascii.unhexlify(t.split("=")[1]).decode("utf8", "replace") if t.split("=")[1] != "." else "") if "=" in t else t for t in cur]
        rep.violation({"property": "C18", "kind": "config-text", "tokens": cur, "readable": readable, "implementation": x[0], "implementation_decoded": decode_cfg(x[0]),
                       "by_the_property_text": text_oracle(cur), "by_the_property_text_decoded": decode_cfg(text_oracle(cur)),
                       "what": "the resolved configuration differs from what the property's text prescribes (flag, else variable even if empty, else default; lists split, trimmed, empties dropped, check codes upper-cased)"})
        if len(rep.violations) >= 4:
            break

    # ---- the real binary in a fresh process on the probe module
    d = lib.scratch_dir()
    root = os.path.join(d, "p")
    shutil.copytree(os.path.join(lib.VERIF, "checks", "probe"), root)
    base = lib.run_binary(ctx, root, flags=["--config.scan-tests=true", "--config.exclude-paths="])
    baseline = base["diags"]
    for x in baseline:
        x["abs"] = os.path.join(root, x["file"])
    probes = []
    bsample = ["true", "TRUE", " yes ", "On", "1", "t", "false", "0", "off", "", "2", "tRuE", " T "]
    lsample_p = ["gen", "mytestdata,gen", "", "nomatch", " gen , ", "u_test", "testdata", "gen,,", "GEN"]
    lsample_c = ["IMM01", "imm", "ALL", "all", " ctor02 , TONL ", "", "IM", "IMM01,IMM02,IMM03,IMM04,CTOR,TONL,PKGO,IMPL", "X9,,", "pkgo03,impl01", " All ", "x9, all ,y", "IMM,IMM01", "imm01,IMM01"]
    for v in bsample:
        probes.append(([], {ENV["scan"]: v}))
    for v in ["true", "false", "1", "0", "T", "F"]:
        probes.append((["--config.scan-tests=" + v], {ENV["scan"]: rng.choice(bsample)}))
    probes.append((["--config.scan-tests"], {}))
    for v in lsample_p:
        probes.append(([], {ENV["paths"]: v}))
        probes.append((["--config.scan-tests=true"], {ENV["paths"]: v}))        # the options together: test files are subject to exclude-paths too
        probes.append((["--config.exclude-paths=" + v], {ENV["scan"]: "on"}))
        probes.append((["--config.exclude-paths=" + v], {ENV["paths"]: rng.choice(lsample_p)}))
    for v in lsample_c:
        probes.append(([], {ENV["checks"]: v}))
        probes.append((["--config.exclude-checks=" + v], {ENV["checks"]: rng.choice(lsample_c)}))
    probes.append(([], {}))
    extra = 10 if ctx.tier != "thorough" else 600
    for _ in range(extra):
        fl, en = [], {}
        for opt, pool in (("scan", bsample), ("paths", lsample_p), ("checks", lsample_c)):
            if rng.random() < 0.5:
                en[ENV[opt]] = rng.choice(pool)
            if rng.random() < 0.4:
                v = rng.choice(pool if opt != "scan" else ["true", "false", "1", "0"])
                fl.append("--config.%s=%s" % (FLAG[opt], v))
        probes.append((fl, en))
    # the model's configuration for each probe
    plines = []
    for fl, en in probes:
        toks = []
        for f in fl:
            name = f[len("--config."):]
            if "=" in name:
                k, v = name.split("=", 1)
                toks.append("F:%s=%s" % (k, H(v)))
            else:
                toks.append("B:%s" % name)
        for k, v in en.items():
            toks.append("E:%s=%s" % (k, H(v)))
        plines.append(" ".join(toks))
    mcfg = lib.run_lines([ctx.modelrun, "config"], plines)
    import concurrent.futures
    def one(i):
        fl, en = probes[i]
        return lib.run_binary(ctx, root, flags=fl, env=en)
    with concurrent.futures.ThreadPoolExecutor(max_workers=lib.NCPU) as ex:
        results = list(ex.map(one, range(len(probes))))
    nb = 0
    for (fl, en), ml, r in zip(probes, mcfg, results):
        nb += 1
        cfg = decode_cfg(ml)
        got = sorted((x["file"], x["line"], x["code"]) for x in r["diags"])
        if cfg is None:
            ok = (r["rc"] == 2 and "invalid" in r["stderr"])      # the flag package rejects the value: allowed for flags only
            exp = "flag error (exit 2)"
        else:
            exp = expected_visible(baseline, cfg, tokens_for)
            ok = (got == exp) and not r["crashed"]
        if ok:
            nontriv.add("probe:" + " ".join(fl) + str(sorted(en.items())))
        if not ok and len(rep.violations) < 6:
            found = True
            rep.violation({"property": "C18", "kind": "binary-probe", "flags": fl, "env": en,
                           "model_config": cfg, "expected_reported": exp, "reported_by_binary": got,
                           "exit_status": r["rc"], "stderr_tail": r["stderr"][-600:],
                           "what": "the binary, run in a fresh process on the probe module, reports a different subset of the planted violations than the configuration flag > environment > default implies",
                           "probe_module": "checks/probe (copied to a scratch directory)"})
    lib.obligation_gate(rep, ctx, "C18", found)
    rep.cov["evaluations"] = len(cases) + nb
    rep.cov["distinct_nontrivial"] = len(nontriv)
    rep.cov["text_oracle"] = ("every in-fragment case of the grid is also compared with an oracle written from the property's text (flag, else variable even if empty, else default; "
                              "lists split, trimmed, empties dropped, check codes upper-cased; boolean spellings), independent of the model whose parameters are regenerated from the source")
    rep.cov["rule"] = ("in-process public API: the full grid {flag absent, bare, empty, value} x {env unset, empty, value} for the boolean (%d spellings) and for both lists (%d values), "
                       "random combinations of all three options incl. repeated flags, and fuzzed environment bytes (non-ASCII = out of fragment, compared but never reported); "
                       "plus %d runs of the real binary in a fresh process on the probe module (every planted violation reveals one option). "
                       "non-trivial = distinct in-fragment case whose resolved configuration is not the all-default one, or a probe run that matched" % (len(BOOLS), len(LISTS), nb))
    rep.cov["input_distribution"] = dist
    rep.cov["binary_probe_runs"] = nb
    rep.cov["probe_baseline_diagnostics"] = len(baseline)
    rep.cov["out_of_fragment_disagreements"] = len(infid)
    rep.cov["samples"] = [lines[5], lines[len(lines) // 2], {"flags": probes[3][0], "env": probes[3][1]}]
    rep.assumptions = ["ASCII values: Go trims and upper/lower-cases by Unicode, the model by bytes < 128 (non-ASCII inputs are exercised, disagreements on them are logged as model infidelity)",
                       "GOGREEMENT_ENV_ONLY unset (the property's domain); flag syntax -name=value and bare boolean flags",
                       "strconv.ParseBool and the flag package's last-occurrence-wins are library models, validated by this same correspondence"]
    return rep.finish()


def replay(ctx, d):
    if d.get("kind") == "config-api":
        x, y = lib.run_pair(ctx, "unit-config", "config", [" ".join(d["tokens"])])
        print("case :", d["readable"])
        print("impl :", x[0], decode_cfg(x[0]))
        print("model:", y[0], decode_cfg(y[0]))
        return 0 if x[0] == y[0] else 1
    if d.get("kind") == "config-text":
        x, _ = lib.run_pair(ctx, "unit-config", "config", [" ".join(d["tokens"])])
        w = text_oracle(d["tokens"])
        print("case :", d["readable"])
        print("impl :", x[0], decode_cfg(x[0]))
        print("text :", w, decode_cfg(w))
        return 0 if x[0] == w else 1
    print(d)
    return 0
