"""C10 — analysis is total: no panic, internal error or hang on any compilable package.

(A) Coq obligations of Properties/C10.v: every partial operation mirrored in the model (token.File.LineStart in the
    @ignore reader, the marker index of the suppression set, the slice expressions of the excerpt renderer) never takes
    its failure outcome; the per-package analysis returns a normal result for every tree; termination is structural.
(B) outcome correspondence (ok / panic / internal error / timeout) through the real binary - text and -json mode, default
    and scan-tests configuration - and through `go vet -vettool` (unitchecker):
      * guard-targeted worlds (checks/edgegen.py): aliases and blank type names, grouped / generic / local declarations,
        unnamed receivers, universe types at every candidate site, initialisers first in the file, dot imports, //line
        directives of every form, empty / comment-only files, 70 KB lines, CRLF, @ignore comments at every odd place;
      * real-world corpora (yaml.v3, go-spew, go-difflib, testify, the repository's own source) copied to scratch with
        annotations and @ignore comments injected on random declarations and lines.
    The model is run on the same inputs: it must predict a normal result (its input condition evaluated per package).
(C) every model/implementation disagreement on these inputs is counted in the evidence (files with //line directives are
    outside the fragment of the diagnostic-level comparison)."""
import json, os, re, shutil
import lib, worlds, edgegen

CONFIGS = [("default", (False, ["testdata"], [])), ("scan-tests", (True, [], []))]
CRASH = re.compile(r"panic:|internal error|goroutine \d+ \[|fatal error:|runtime error")


def outcome(r, ok_rcs):
    txt = (r["stderr"] or "") + "\n" + (r["stdout"] or "")[-20000:]
    if r["rc"] == 124 or "TIMEOUT" in (r["stderr"] or "")[:20]:
        return "timeout"
    if lib.crash_in(txt):
        return "crash"
    if r["rc"] not in ok_rcs:
        return "exit %s" % r["rc"]
    if r.get("errors"):
        return "analyzer error"
    return "ok"


def BOUND(ctx):
    """wall-clock bound of one run: the inputs take seconds (edge worlds) to about a minute (largest corpus, thorough tier)"""
    return 240 if ctx.tier != "thorough" else 900


def run_all_drivers(ctx, root, patterns=("./...",), extra=(), vet=True, timeout=600):
    """every (driver, mode, configuration) outcome on one module"""
    res = []
    for name, cfg in CONFIGS:
        fl = worlds.cfg_flags(cfg) + list(extra)
        rj = lib.run_binary(ctx, root, flags=fl, patterns=patterns, json_mode=True, timeout=timeout)
        res.append(("multichecker -json / " + name, outcome(rj, (0,)), rj))
        if res[-1][1] == "timeout":
            return res          # a run that does not end is the violation; the other drivers would only wait as long
        rt = lib.run_binary(ctx, root, flags=fl, patterns=patterns, json_mode=False, timeout=timeout)
        rt["errors"] = []
        res.append(("multichecker text / " + name, outcome(rt, (0, 3)), rt))
        if res[-1][1] == "timeout":
            return res
    if vet:
        env = dict(ctx.env)
        rc, out, err = lib.sh(["go", "vet", "-vettool=" + ctx.gg] + list(patterns), cwd=root, env=env, timeout=timeout)
        rv = {"rc": rc, "stdout": out, "stderr": err, "errors": []}
        res.append(("go vet -vettool / default", outcome(rv, (0, 1)), rv))
    return res


TYPE_ANN = ["// @immutable", "// @constructor %s", "// @constructor %s, %s", "// @testonly", "// @packageonly", "// @packageonly nobody, x/y", "// @implements io.Reader", "// @implements &fmt.Stringer",
            "// @implements error", "// @implements &%s", "// @implements nosuch.Thing", "// @mutable", "// @ignore ALL"]
FUNC_ANN = ["// @testonly", "// @packageonly", "// @packageonly nobody", "// @immutable", "// @constructor X", "// @ignore IMM, CTOR, TONL"]
IGN = ["// @ignore ALL", "// @ignore IMM", "// @ignore CTOR01, TONL", "// @ignore X9", "// @ignore"]


def inject(ctx, rng, root, stats, density=0.3):
    """annotation lines above random type / func declarations, @mutable above random struct fields, @ignore comments
    above and behind random code lines; comments only, so the packages compile exactly as before"""
    rc, out, err = lib.sh([ctx.ggx, "stmts", "-dir", root], env=ctx.env, timeout=600)
    finfo = {x["File"]: x for x in json.loads(out or "[]")}
    for rel, fi in sorted(finfo.items()):
        p = os.path.join(root, rel)
        try:
            lines = open(p, encoding="utf8").read().split("\n")
        except Exception:
            continue
        names = re.findall(r"^func (\w+)\(", "\n".join(lines), flags=re.M) or ["New"]
        tnames = re.findall(r"^type (\w+) ", "\n".join(lines), flags=re.M) or ["T"]
        out_lines = []
        in_struct = False
        for i, l in enumerate(lines, 1):
            ind = re.match(r"^\s*", l).group(0)
            code_line = str(i) in (fi["CodeLines"] or {})
            if re.match(r"^type \w+ ", l) or re.match(r"^\t\w+\s+(struct|interface|func|map|\[|\*|\w)", l) and False:
                pass
            if code_line and re.match(r"^type \w+", l) and rng.random() < density:
                for _ in range(rng.randint(1, 3)):
                    a = rng.choice(TYPE_ANN)
                    a = a % tuple(rng.choice(names if "constructor" in a else tnames) for _ in range(a.count("%s")))
                    out_lines.append(a)
                    stats["type"] = stats.get("type", 0) + 1
            elif code_line and re.match(r"^func ", l) and rng.random() < density:
                out_lines.append(rng.choice(FUNC_ANN))
                stats["func"] = stats.get("func", 0) + 1
            elif code_line and in_struct and re.match(r"^\t\w", l) and rng.random() < density / 2:
                out_lines.append(ind + "// @mutable")
                stats["field"] = stats.get("field", 0) + 1
            elif code_line and l.startswith("\t") and rng.random() < 0.02 and not lines[i - 2].rstrip().endswith((",", "(", "+", "&&", "||", "=")):
                out_lines.append(ind + rng.choice(IGN))
                stats["ignore-standalone"] = stats.get("ignore-standalone", 0) + 1
            if code_line and not fi["CommentEnd"].get(str(i), False) and rng.random() < 0.02:
                l = l + " " + rng.choice(IGN)
                stats["ignore-inline"] = stats.get("ignore-inline", 0) + 1
            if re.match(r"^type \w+ struct \{\s*$", l):
                in_struct = True
            elif l.startswith("}"):
                in_struct = False
            out_lines.append(l)
        open(p, "w", encoding="utf8").write("\n".join(out_lines))


def corpora(ctx):
    mod = "/root/go/pkg/mod"
    c = [("yaml.v3", os.path.join(mod, "gopkg.in/yaml.v3@v3.0.1"), ["./..."], ["-test=false"]),
         ("go-spew", os.path.join(mod, "github.com/davecgh/go-spew@v1.1.1"), ["./spew/..."], ["-test=false"]),
         ("go-difflib", os.path.join(mod, "github.com/pmezard/go-difflib@v1.0.0"), ["./difflib/..."], ["-test=false"]),
         ("testify", None, ["./assert/...", "./require/..."], ["-test=false"]),
         ("gogreement-src", ctx.repo, ["./src/...", "./cmd/..."], [])]
    import glob
    t = sorted(glob.glob(os.path.join(mod, "github.com/stretchr/testify@*")))
    c[3] = ("testify", t[-1] if t else None, c[3][2], c[3][3])
    return [x for x in c if x[1] and os.path.isdir(x[1])]


def copy_corpus(src, dst):
    shutil.copytree(src, dst, ignore=shutil.ignore_patterns(".git", "book", "node_modules", "*.test"))
    for dp, ds, fs in os.walk(dst):
        os.chmod(dp, 0o755)
        for f in fs:
            os.chmod(os.path.join(dp, f), 0o644)
    if not os.path.exists(os.path.join(dst, "go.mod")):
        # modules older than go.mod: the module path is the directory's path in the module cache
        m = re.search(r"/pkg/mod/(.+?)@", src)
        open(os.path.join(dst, "go.mod"), "w").write("module %s\n\ngo 1.25\n" % (m.group(1) if m else "corpus"))


def run(ctx):
    rep = lib.Report(ctx, "C10")
    thorough = ctx.tier == "thorough"
    found = False
    runs = []
    fidelity = {"files_compared": 0, "implementation_only": 0, "model_only": 0, "examples": []}
    model_info = {"packages": 0, "packages_lines_ok": 0, "model_failures": []}
    d = lib.scratch_dir()

    def check_module(label, root, patterns=("./...",), extra=(), vet=True, files=None, tests=True):
        nonlocal found
        res = run_all_drivers(ctx, root, patterns, extra, vet=vet, timeout=BOUND(ctx))
        for what, oc, r in res:
            runs.append({"input": label, "run": what, "outcome": oc})
            if oc != "ok":
                found = True
                if len(rep.violations) < 3:
                    rep.violation({"property": "C10", "kind": "crash", "input": label, "run": what, "outcome": oc, "exit_status": r["rc"], "stderr_tail": (r["stderr"] or "")[-2500:],
                                   "analyzer_errors": r.get("errors", [])[:5], "files": files or {}, "patterns": list(patterns), "flags": list(extra),
                                   "what": "the tool does not terminate normally on a compilable input"})
        # the model on the same input
        dump = os.path.join(d, "dump-%s.sx" % re.sub(r"\W", "", label))
        rc, err = lib.sh([ctx.ggx, "skel", "-dir", root, "-o", dump] + (["-tests"] if tests else []) + list(patterns), cwd=root, env=ctx.env, timeout=1800)[0::2]
        for name, cfg in CONFIGS:
            m = worlds.model_analyze(ctx, dump, cfg, root)
            model_info["packages"] += m["packages"]
            model_info["packages_lines_ok"] += m["packages_lines_ok"]
            if rc != 0 or m["rc"] != 0 or m["panics"]:
                model_info["model_failures"].append({"input": label, "config": name, "skel_rc": rc, "skel_err": err[-300:], "model_rc": m["rc"], "model_stderr": m["stderr"][-300:], "panics": m["panics"][:3]})
            rj = [r for what, oc, r in res if what == "multichecker -json / " + name]
            if rj and rc == 0 and m["rc"] == 0:
                skipf = set()
                for dp, _, fs in os.walk(root):
                    for f in fs:
                        if f.endswith(".go"):
                            try:
                                if re.search(r"^\s*(//line |/\*line )", open(os.path.join(dp, f), encoding="utf8", errors="replace").read(), flags=re.M):
                                    skipf.add(os.path.relpath(os.path.join(dp, f), root))
                            except Exception:
                                pass
                inside = lambda x: x["file"] not in skipf and not x["file"].startswith("..")     # generated test mains live in the build cache
                a, b = worlds.compare([x for x in rj[0]["diags"] if inside(x)], [x for x in m["diags"] if inside(x)])
                fidelity["implementation_only"] += len(a)
                fidelity["model_only"] += len(b)
                fidelity["files_compared"] += 1
                if (a or b) and len(fidelity["examples"]) < 6:
                    fidelity["examples"].append({"input": label, "config": name, "implementation_only": a[:4], "model_only": b[:4]})
        try:
            os.remove(dump)
        except OSError:
            pass

    # (1) guard-targeted worlds
    rng = lib.rng_for(ctx, "c10-edge")
    n_edge = 3 if not thorough else 40
    stats = {}
    files = {}
    for i in range(n_edge):
        files.update(edgegen.edge_world(rng, "w%04d" % i, stats=stats))
    root = os.path.join(d, "edge", "m")
    worlds.write_sources(root, files)
    check_module("edge worlds", root, files={k: v for k, v in files.items() if k.startswith("w0000/") and len(v) < 20000})
    # (1b) concurrency stress: the first look-ups of the five checkers of a package overlap on a long marker list
    import stressgen
    sfiles, scodes = stressgen.ignore_stress(40, 50)
    sroot = os.path.join(d, "stress", "m")
    stressgen.write(sroot, sfiles)
    nst = 12 if not thorough else 60
    for i in range(nst):
        r = lib.run_binary(ctx, sroot, json_mode=False, timeout=BOUND(ctx))
        oc = outcome(dict(r, errors=[]), (3,))
        n = len(re.findall(r"^\S+\.go:\d+:\d+: error: \[", r["stdout"] + "\n" + r["stderr"], flags=re.M))
        if oc == "ok" and n != 40 * len(scodes):
            oc = "%d diagnostics instead of %d" % (n, 40 * len(scodes))
        runs.append({"input": "stress (40 packages x 50 @ignore markers around violations of 4 checkers)", "run": "multichecker text #%d" % i, "outcome": oc})
        if oc != "ok":
            found = True
            rep.violation({"property": "C10", "kind": "crash", "input": "concurrency stress module (regenerated by checks/stressgen.ignore_stress(40, 50))", "run": "multichecker text #%d" % i,
                           "outcome": oc, "exit_status": r["rc"], "stderr_tail": (r["stderr"] or "")[-2500:], "files": {k: v for k, v in sfiles.items() if k in ("lib/lib.go", "s0/s.go")},
                           "what": "the tool does not terminate normally on a compilable input (schedule-dependent: repeated runs)"})
            break
    # (2) injected corpora
    rng = lib.rng_for(ctx, "c10-inject")
    istats = {}
    seeds = 1 if not thorough else 6
    jobs = []
    for cname, src, pats, extra in corpora(ctx):
        for s in range(seeds):
            dst = os.path.join(d, "corp", "%s-%d" % (re.sub(r"\W", "", cname), s))
            copy_corpus(src, dst)
            st = {}
            inject(ctx, rng, dst, st, density=0.25 + 0.1 * s)
            istats[cname] = {k: istats.get(cname, {}).get(k, 0) + v for k, v in st.items()}
            jobs.append(("%s (injected, seed %d)" % (cname, s), dst, pats, extra, s == 0, "-test=false" not in extra))
    import concurrent.futures
    with concurrent.futures.ThreadPoolExecutor(max_workers=5) as ex:
        list(ex.map(lambda j: check_module(j[0], j[1], patterns=j[2], extra=j[3], vet=j[4], tests=j[5]), jobs))
    shutil.rmtree(d, ignore_errors=True)
    if model_info["model_failures"]:
        found = True
        rep.violation({"property": "C10", "kind": "model-outcome", "failures": model_info["model_failures"][:4],
                       "what": "the serializer or the model did not produce a normal result on an input where the binary did (or the model predicts a panic)"})
    lib.obligation_gate(rep, ctx, "C10", found)
    rep.cov["evaluations"] = len(runs)
    rep.cov["distinct_nontrivial"] = len({(r["input"], r["run"]) for r in runs if r["outcome"] == "ok"})
    rep.cov["rule"] = ("outcome (ok / crash / timeout / bad exit status / analyzer error) of every (input, driver, mode, configuration): %d guard-targeted worlds (11 packages each) and the corpora "
                       "%s with injected annotations, each through multichecker -json and text under the default and the scan-tests configuration and through go vet -vettool; the model (ggx skel -> "
                       "modelrun) on the same inputs must give a normal result and its input condition (x_lines_ok) must hold. non-trivial = distinct runs that ended normally" %
                       (n_edge, ", ".join(c[0] for c in corpora(ctx))))
    rep.cov["runs"] = runs[:60]
    rep.cov["edge_annotation_mix"] = {k: len(v) for k, v in stats.items()}
    rep.cov["injected"] = istats
    rep.cov["model"] = {k: v for k, v in model_info.items() if k != "model_failures"}
    rep.cov["model_vs_implementation_on_these_inputs"] = fidelity
    rep.cov["samples"] = runs[:3]
    rep.assumptions = ["panics inside go/types, x/tools or the Go runtime, and panic sites the model does not mirror, are reachable by the runs only (partial: DESIGN section 5, C10)",
                       "wall-clock bound %d s per run (a run that exceeds it is reported as not terminating; the remaining drivers of that input are then skipped)" % BOUND(ctx)]
    return rep.finish()


def replay(ctx, d):
    if d.get("kind") == "crash" and d.get("files"):
        dd = lib.scratch_dir()
        root = os.path.join(dd, "m")
        worlds.write_sources(root, d["files"])
        bad = 0
        for what, oc, r in run_all_drivers(ctx, root):
            print(what, "->", oc)
            bad |= oc != "ok"
        return 1 if bad else 0
    print(json.dumps({k: v for k, v in d.items() if k != "files"}, indent=1)[:5000])
    return 0
