"""C13 — enforcement follows type identity, not spelling at the use site.
Metamorphic correspondence on the real binary: the same IR with the annotated types spelled directly, through an
import alias, through a type alias declared in a third package, through a local type alias, and parenthesised where Go's
syntax allows, and as a plain identifier under a dot import; diagnostics compared by (site id, code) / (using package, type); each rendering also compared with the model."""
import concurrent.futures, os
import lib, worlds, meta

VARIANTS = ["direct", "import-alias", "third-alias", "local-alias", "paren", "dot"]


def run(ctx):
    rep = lib.Report(ctx, "C13")
    n = 30 if ctx.tier != "thorough" else 300
    rs, base = meta.render_set(ctx, None, VARIANTS, lambda v, i: {"spelling_mode": v, "ctor_names": False}, lambda v, i: {}, n, "c13")
    cfg = (True, [], [])

    def one(v):
        root, sites = rs[v]
        r = lib.run_binary(ctx, root, flags=worlds.cfg_flags(cfg), timeout=1500)
        dump = os.path.join(os.path.dirname(root), "dump.sx")
        rc, err = worlds.skel(ctx, root, dump)
        m = worlds.model_analyze(ctx, dump, cfg, root)
        return v, r, m, rc, err
    with concurrent.futures.ThreadPoolExecutor(max_workers=6) as ex:
        res = {v: (r, m, rc, err) for v, r, m, rc, err in ex.map(one, VARIANTS)}
    found = False
    b_unk, b_key, b_unm = meta.normalise(res["direct"][0]["diags"], rs["direct"][1])
    nontrivial = set(b_unk) | set(b_key)
    evals = 0
    for v in VARIANTS:
        r, m, rc, err = res[v]
        root, sites = rs[v]
        evals += len(sites)
        unk, key, unm = meta.normalise(r["diags"], sites)
        # the alias declarations themselves are extra uses of the aliased type in local-alias mode: they can only ADD a
        # once-per-file report of a type that the package already uses, never change the (package, type) set
        a_only, m_only = worlds.compare(r["diags"], m["diags"], worlds.MODELLED)
        d1 = sorted(unk ^ b_unk)
        d2 = sorted(key ^ b_key)
        bad = r["crashed"] or r["rc"] not in (0, 3) or rc != 0
        if d1 or d2 or a_only or m_only or bad:
            found = True
            if len(rep.violations) < 4:
                wid = d1[0][0][:5] if d1 else (d2[0][0].split("/")[0] if d2 else ((a_only + m_only)[0][0].split("/")[0] if (a_only or m_only) else None))
                rep.violation({"property": "C13", "kind": "spelling", "variant": v, "config": list(cfg),
                               "site_and_code_differences_vs_direct_spelling": d1[:12], "once_per_file_type_differences": d2[:12],
                               "implementation_vs_model_on_this_rendering": {"impl_only": a_only[:10], "model_only": m_only[:10]},
                               "exit_status": r["rc"], "stderr_tail": r["stderr"][-500:], "skel_error": err[-300:], "world": wid,
                               "files_direct": meta.world_sources(rs["direct"][0], wid) if wid else {}, "files": meta.world_sources(root, wid) if wid else {},
                               "what": "the same program with the type spelled differently at the use sites gets different verdicts"})
    lib.obligation_gate(rep, ctx, "C13", found)
    rep.cov["evaluations"] = evals
    rep.cov["distinct_nontrivial"] = len(nontrivial)
    rep.cov["rule"] = ("%d IRs x 6 spellings of the annotated types at every use site (d.T; dd.T with a renamed import; m.AT with the alias declared in a third package; a local alias LT; (d.T) where "
                       "a parenthesised type is syntactically allowed; T with a dot import) - the worlds are generated from the same seed, so they differ in spelling only. Compared as in C12." % n)
    rep.cov["diagnostics_per_spelling"] = {v: len(res[v][0]["diags"]) for v in VARIANTS}
    rep.cov["samples"] = [list(x) for x in sorted(b_unk)[:3]] + [list(x) for x in sorted(b_key)[:2]]
    rep.assumptions = ["go/types records identical types/objects for renamed imports and parenthesised types (an input fact, exercised by the runs)",
                       "pointers of depth >= 2 and generics are outside the fragment"]
    return rep.finish()


def replay(ctx, d):
    import l1
    d = dict(d)
    d["kind"] = "world"
    return l1.replay(ctx, d)
