"""C12 — verdicts do not depend on source layout.
Metamorphic correspondence on the real binary: one IR rendered under several layouts (declaration order, file
assignment, blank lines and ordinary comments, gofmt, consistent renaming of locals and receivers, all composed);
the diagnostics keyed by (site id, code) - for TONL01/PKGO01 by (using package, type) - must be identical; every
rendering is also compared with the model."""
import concurrent.futures, os
import lib, worlds, meta

VARIANTS = ["base", "permute", "move", "swapfiles", "blank", "gofmt", "rename", "all"]


def layout_of(v, i):
    d = _layout_of(v, i)
    d["pkg_ignores"] = True
    return d


def _layout_of(v, i):
    return {"base": {}, "permute": {"permute": True}, "move": {"move": True}, "blank": {"blank": True}, "gofmt": {},
            "rename": {"rename": True}, "swapfiles": {"swapfiles": True},
            "all": {"permute": True, "move": True, "blank": True, "rename": True, "swapfiles": True}}[v]


def run(ctx):
    rep = lib.Report(ctx, "C12")
    n = 30 if ctx.tier != "thorough" else 300
    variants = VARIANTS if ctx.tier != "thorough" else VARIANTS + ["all2", "all3"]
    lo = lambda v, i: layout_of("all" if v.startswith("all") else v, i)
    rs, base = meta.render_set(ctx, None, variants, lambda v, i: {"with_impl": True}, lo, n, "c12")
    if "gofmt" in rs:
        meta.gofmt(ctx, rs["gofmt"][0])
        rs["gofmt"] = (rs["gofmt"][0], meta.reread_sites(rs["gofmt"][0]))
    if "all" in rs:
        meta.gofmt(ctx, rs["all"][0])
        rs["all"] = (rs["all"][0], meta.reread_sites(rs["all"][0]))
    cfg = (True, [], [])

    def one(v):
        root, sites = rs[v]
        r = lib.run_binary(ctx, root, flags=worlds.cfg_flags(cfg), timeout=1500)
        dump = os.path.join(os.path.dirname(root), "dump.sx")
        rc, err = worlds.skel(ctx, root, dump)
        m = worlds.model_analyze(ctx, dump, cfg, root)
        return v, r, m, rc, err
    with concurrent.futures.ThreadPoolExecutor(max_workers=4) as ex:
        res = {v: (r, m, rc, err) for v, r, m, rc, err in ex.map(one, variants)}
    found = False
    b_unk, b_key, b_unm = meta.normalise(res["base"][0]["diags"], rs["base"][1])
    nontrivial = set(b_unk) | set(b_key)
    evals = 0
    for v in variants:
        r, m, rc, err = res[v]
        root, sites = rs[v]
        evals += len(sites)
        unk, key, unm = meta.normalise(r["diags"], sites)
        a_only, m_only = worlds.compare(r["diags"], m["diags"], worlds.MODELLED)
        d1 = sorted(unk ^ b_unk)
        d2 = sorted(key ^ b_key)
        bad = r["crashed"] or r["rc"] not in (0, 3) or rc != 0
        if d1 or d2 or a_only or m_only or bad:
            found = True
            if len(rep.violations) < 4:
                wid = None
                if d1:
                    wid = d1[0][0][:5]
                elif d2:
                    wid = d2[0][0].split("/")[0]
                elif a_only or m_only:
                    wid = (a_only + m_only)[0][0].split("/")[0]
                rep.violation({"property": "C12", "kind": "layout", "variant": v, "layout": lo(v, 0), "config": list(cfg),
                               "site_and_code_differences_vs_base_rendering": d1[:12], "once_per_file_type_differences": d2[:12],
                               "implementation_vs_model_on_this_rendering": {"impl_only": a_only[:10], "model_only": m_only[:10]},
                               "exit_status": r["rc"], "stderr_tail": r["stderr"][-500:], "skel_error": err[-300:], "world": wid,
                               "files_base": meta.world_sources(rs["base"][0], wid) if wid else {}, "files": meta.world_sources(root, wid) if wid else {},
                               "what": "the same program rendered with another layout gets different verdicts"})
    # several statements of one code on ONE line, and the same file after gofmt (one statement per line): the reported statements
    # must be the same - identified by code and by the text of the statement at the reported position
    import shutil, re
    two = {"p/p.go": "package p\n\n// T is annotated.\n// @immutable\n// @constructor NewT\ntype T struct{ n, total int }\n\nfunc NewT() *T { return &T{} }\n\n"
                     "func reset(c *T) { c.n = 0; c.total = 0 }\n\nfunc bump(c *T) {\n\tc.n++; c.total++\n\tc.n += 1; c.total += 2\n\t_ = T{}; _ = T{n: 1}\n\tvar a T; var b T\n\t_, _ = a, b\n}\n"}
    td = lib.scratch_dir()
    ra, rb = os.path.join(td, "a", "m"), os.path.join(td, "b", "m")
    worlds.write_sources(ra, two)
    worlds.write_sources(rb, two)
    meta.gofmt(ctx, rb)

    def stmts(root):
        r = lib.run_binary(ctx, root, timeout=600)
        src = open(os.path.join(root, "p/p.go")).read().split("\n")
        out = []
        for x in r["diags"]:
            rest = src[x["line"] - 1][x["col"] - 1:]
            out.append((x["code"], re.split(r"[;{}]", rest)[0].strip()))
        return sorted(out), r
    sa, r1 = stmts(ra)
    sb, r2 = stmts(rb)
    if sa != sb or r1["crashed"] or r2["crashed"] or len(sa) != 10:
        found = True
        rep.violation({"property": "C12", "kind": "same-line", "files": two, "reported_in_the_original": [list(x) for x in sa], "reported_after_gofmt": [list(x) for x in sb],
                       "expected_count": 10,
                       "what": "two statements of one code on one line: the reported statements differ from those of the gofmt'd file (one statement per line)"})
    shutil.rmtree(td, ignore_errors=True)
    lib.obligation_gate(rep, ctx, "C12", found)
    rep.cov["evaluations"] = evals
    rep.cov["distinct_nontrivial"] = len(nontrivial)
    rep.cov["same_line_leg"] = "a file with several statements of one code on one line and its gofmt output (one per line): the same 10 statements reported"
    rep.cov["rule"] = ("%d IRs x %d renderings (%s): declaration order permuted, declarations moved between the non-test files of their package (imports unioned), blank lines / ordinary and "
                       "keyword-mentioning comments inserted, gofmt, locals and receivers renamed consistently, and all of it composed (+gofmt). Diagnostics of the real binary mapped to site ids "
                       "through the markers; compared with the base rendering by (site, code), TONL01/PKGO01 by (using package, type); each rendering also compared with the model. "
                       "evaluations = sites x renderings; non-trivial = distinct reported (site, code) / (package, type) of the base rendering" % (n, len(variants), ", ".join(variants)))
    rep.cov["diagnostics_per_rendering"] = {v: len(res[v][0]["diags"]) for v in variants}
    rep.cov["diagnostics_on_unmarked_lines_base"] = b_unm[:5]
    rep.cov["samples"] = [list(x) for x in sorted(b_unk)[:3]] + [list(x) for x in sorted(b_key)[:2]]
    rep.assumptions = ["the transformations are the listed families; semantics preservation is by construction of the generator (every rendering compiles)"]
    return rep.finish()


def replay(ctx, d):
    if d.get("kind") == "same-line":
        import json
        print(json.dumps(d, indent=1)[:3000])
        return 0
    import l1
    d = dict(d)
    d["kind"] = "world"
    return l1.replay(ctx, d)
