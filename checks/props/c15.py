"""C15 — the annotation grammar is exactly the documented one.
Correspondence: (1) annotations.ReadAllAnnotations / ignore.ReadIgnoreAnnotations (public API) on parsed files carrying
each comment string at each attachment site, vs the model's reader over the serialised trees; (2) Go's regexp on the
seven extracted expressions vs the library model Regex.v on arbitrary byte strings."""
import binascii, itertools, os
import lib, worlds

HX = lambda s: binascii.hexlify(s if isinstance(s, bytes) else s.encode()).decode() or "."
UN = lambda h: "" if h in (".", "") else binascii.unhexlify(h).decode("utf8", "replace")

KEYWORDS = ["implements", "constructor", "immutable", "testonly", "mutable", "packageonly", "ignore"]
ARGS = {
    "implements": ["Reader", "&Reader", "str.X", "&aux2.Y", "auxa.Z", "zz.Q", "a.b.c", "&", "9I", "_I"],
    "constructor": ["New", "New,Make", "New , Make", "New,", ",New", "9New", "_n", "New;Make", "New Make"],
    "immutable": ["x", "because"],
    "testonly": ["x"],
    "mutable": ["x"],
    "packageonly": ["pkg", "a/b.c-d", "p1,p2", "p1 , p2", "p1,", ",p1", "p;q", "p q"],
    "ignore": ["IMM01", "imm01,CTOR", "IMM01 , ctor02", "ALL", "IMM01,", ",IMM01", "IMM-01", "IMM01 reason", "X9"],
}


def alphabet(k):
    near = ["@" + k.capitalize(), "@" + k + "x", "@ " + k, "@" + k.upper()]
    other = "@immutable" if k != "immutable" else "@constructor"
    return [" ", "\t", "  ", "//", "@" + k, near[0], near[1], near[2], other, ",", ".", "&", ";", "-"] + ARGS[k][:6]


def sequences(k, maxlen):
    al = alphabet(k)
    for n in range(1, maxlen + 1):
        for seq in itertools.product(al, repeat=n):
            yield "".join(seq)


SITE_OF = {"implements": "type", "constructor": "type", "immutable": "type", "testonly": "type", "mutable": "field", "packageonly": "type", "ignore": "ignore"}
EXTRA_SITES = ["func", "method", "field", "group", "group2", "groupdoc", "groupmixed", "trailing", "local", "localvar", "localgroup", "free", "var", "plainfield", "ignore", "type"]


def decl_for(i, c, site):
    if site == "type":
        return [c, "type T%d struct{ F int }" % i, ""]
    if site == "func":
        return [c, "func F%d() {}" % i, ""]
    if site == "method":
        return [c, "func (r *R) M%d() {}" % i, ""]
    if site == "field":
        return ["// @immutable", "type S%d struct {" % i, "\t" + c, "\tF, G int", "}", ""]
    if site == "group":
        return ["type (", "\t" + c, "\tG%d struct{}" % i, ")", ""]
    if site == "group2":      # the second member has no doc of its own and must not inherit the first member's
        return ["type (", "\t" + c, "\tG%d struct{}" % i, "", "\tH%d struct{}" % i, ")", ""]
    if site == "groupdoc":    # the group's doc belongs to every member without a doc of its own
        return [c, "type (", "\tG%d struct{}" % i, "\tH%d struct{}" % i, ")", ""]
    if site == "groupmixed":  # a member's own (plain) doc takes precedence over the group's
        return [c, "type (", "\t// plain doc of the member", "\tG%d struct{}" % i, "\tH%d struct{}" % i, ")", ""]
    if site == "ignore":
        return [c, "var V%d = 0" % i, ""]
    if site == "trailing":
        return ["type X%d struct{} %s" % (i, c), ""]
    if site == "local":
        return ["func L%d() {" % i, "\t" + c, "\ttype t struct{}", "\t_ = t{}", "}", ""]
    if site == "localvar":    # a local declaration inside a function literal of a package-level initialiser
        return ["var L%d = func() int {" % i, "\t" + c, "\ttype t struct{ F int }", "\tv := t{}", "\tv.F = 1", "\treturn v.F", "}()", ""]
    if site == "localgroup":  # ... and inside a local parenthesised group
        return ["func L%d() {" % i, "\ttype (", "\t\t" + c, "\t\tt struct{}", "\t)", "\t_ = t{}", "}", ""]
    if site == "free":
        return [c, "", "type Y%d struct{}" % i, ""]
    if site == "var":
        return [c, "var W%d int" % i, ""]
    if site == "plainfield":
        return ["type P%d struct {" % i, "\t" + c, "\tF int", "}", ""]
    raise ValueError(site)


def comment_ok(c):
    return c.startswith("//") and "\n" not in c and "\r" not in c and "\x00" not in c


def run(ctx):
    rep = lib.Report(ctx, "C15")
    rng = lib.rng_for(ctx, "C15")
    maxlen = 3 if ctx.tier != "thorough" else 4
    # ---------------- (1) reader correspondence
    cases = []   # (text, site, keyword)
    dist = {}
    for k in KEYWORDS:
        seen = set()
        for s in sequences(k, maxlen):
            c = "//" + s
            if c in seen:
                continue
            seen.add(c)
            cases.append((c, SITE_OF[k], k))
        # longer sampled sequences, incl. two different keywords on one line, arguments and trailing text
        al = alphabet(k)
        for _ in range(1500 if ctx.tier != "thorough" else 20000):
            n = rng.randint(4, 7)
            c = "//" + "".join(rng.choice(al) for _ in range(n))
            cases.append((c, SITE_OF[k], k))
        # well-formed lines with every argument shape, at every site
        for a in ARGS[k]:
            for lead in ("// ", "//", "//\t ", "//  "):
                for tail in ("", " ", " trailing text", "\ttail", ";", " // nested @" + k):
                    c = lead + "@" + k + " " + a + tail
                    for site in EXTRA_SITES:
                        cases.append((c, site, k))
                    cases.append((lead + "@" + k + a + tail, SITE_OF[k], k))
                    cases.append((lead + "@" + k + tail, SITE_OF[k], k))
        for other in KEYWORDS:
            if other != k:
                cases.append(("// @%s %s (see @%s)" % (k, ARGS[k][0], other), SITE_OF[k], k))
                cases.append(("// @%s %s @%s %s" % (k, ARGS[k][0], other, ARGS[other][0]), SITE_OF[k], k))
                cases.append(("// old: // @%s %s" % (k, ARGS[k][0]), SITE_OF[k], k))
        # very long runs of blanks / tabs where the grammar allows "optional blanks" (a reader that looks at a prefix of the line only)
        for nb in (40, 57, 62, 63, 64, 65, 100, 300, 5000):
            for ch in (" ", "\t"):
                cases.append(("//" + ch * nb + "@" + k + " " + ARGS[k][0], SITE_OF[k], k))
                cases.append(("// @" + k + ch * nb + ARGS[k][0], SITE_OF[k], k))
                cases.append(("// @" + k + " " + ARGS[k][0] + ch * nb + "tail", SITE_OF[k], k))
        cases.append(("/* @%s %s */" % (k, ARGS[k][0]), SITE_OF[k], k))
        cases.append(("/*@%s*/" % k, SITE_OF[k], k))
    # fuzzed printable / multi-byte strings
    pool = list(" \t,.&/;-_@aAzZ09") + ["é", "世", "@immutable", "@ignore", "@constructor", "//", "IMM01", "New"]
    for _ in range(3000 if ctx.tier != "thorough" else 50000):
        c = "//" + "".join(rng.choice(pool) for _ in range(rng.randint(0, 14)))
        cases.append((c, rng.choice(EXTRA_SITES), "fuzz"))
    cases = [(c, s, k) for (c, s, k) in cases if comment_ok(c) or c.startswith("/*")]
    # ---------------- write the module: packages of 2000 cases, files of 400
    d = lib.scratch_dir()
    root = os.path.join(d, "m")
    os.makedirs(root)
    open(os.path.join(root, "go.mod"), "w").write("module w\n\ngo 1.25\n")
    for aux, name in (("auxa", "auxa"), ("aux2", "aux2")):
        os.makedirs(os.path.join(root, aux))
        open(os.path.join(root, aux, "a.go"), "w").write("package %s\n\ntype X interface{ M() }\ntype Y interface{ M() }\ntype Z interface{ M() }\nconst Anchor = 0\n" % name)
    where = {}
    PK, FL = 2000, 400
    for pi in range(0, len(cases), PK):
        pdir = os.path.join(root, "p%04d" % (pi // PK))
        os.makedirs(pdir)
        for fi in range(pi, min(pi + PK, len(cases)), FL):
            lines = ["package p", "", 'import (', '\tstr "w/auxa"', '\t"w/aux2"', ')', "", "var _ = str.Anchor + aux2.Anchor", ""]
            if fi == pi:
                lines += ["type R struct{}", "type Reader interface{ Read() }", ""]
            for i in range(fi, min(fi + FL, pi + PK, len(cases))):
                c, site, k = cases[i]
                dist[k + "/" + site] = dist.get(k + "/" + site, 0) + 1
                where[i] = ("p%04d" % (pi // PK), len(lines) + 1)
                lines += decl_for(i, c, site)
            open(os.path.join(pdir, "f%05d.go" % fi), "w").write("\n".join(lines) + "\n")
    dump = os.path.join(d, "dump.sx")
    rc, err = worlds.skel(ctx, root, dump, tests=False)
    rci, outi, erri = lib.sh([ctx.ggx, "annots", "-dir", root, "-paths", "testdata"], cwd=root, env=ctx.env, timeout=3000)
    rcm, outm, errm = lib.sh([ctx.modelrun, "annots", dump, "0", HX("testdata"), "-"], timeout=3000)

    def parse(out):
        r = {}
        for line in out.split("\n"):
            f = line.split(" ")
            if f[0] in ("A", "I") and len(f) >= 2:
                r[(f[0], UN(f[1]))] = UN(f[2]) if len(f) > 2 else ""
            elif f[0] == "P":
                r[("P", UN(f[1]))] = "panic"
        return r
    impl, model = parse(outi), parse(outm)
    found = False
    nontrivial = set()
    for key in sorted(set(impl) | set(model)):
        a, b = impl.get(key), model.get(key)
        if a:
            for item in a.split(";"):
                nontrivial.add((key, item))
        if a == b:
            continue
        sa, sb = set((a or "").split(";")), set((b or "").split(";"))
        diff_items = sorted(sa ^ sb)[:6]
        # locate the cases: the item names carry the case number
        import re
        ids = set()
        for it in diff_items:
            for m in re.finditer(r"[TFMSGHVXLYWP](\d+)", it):
                ids.add(int(m.group(1)))
        culprits = [{"case": i, "comment": cases[i][0], "site": cases[i][1], "keyword": cases[i][2]} for i in sorted(ids) if i < len(cases)][:5]
        if key[0] == "I":
            # ignore markers are positional: report the differing markers
            culprits = culprits or [{"markers_impl_only": sorted(sa - sb)[:5], "markers_model_only": sorted(sb - sa)[:5]}]
        found = True
        if len(rep.violations) < 4:
            rep.violation({"property": "C15", "kind": "reader", "package": key[1], "which": "annotations" if key[0] == "A" else ("ignore markers" if key[0] == "I" else "panic"),
                           "implementation_only": sorted(sa - sb)[:10], "model_only": sorted(sb - sa)[:10], "cases": culprits,
                           "what": "ReadAllAnnotations / ReadIgnoreAnnotations recognise a different set of annotations than the documented grammar (the proved model) on these comment lines"})
    if rc != 0 or rci not in (0,) or rcm != 0:
        rep.notes["harness_errors"] = {"skel": err[-500:], "annots": erri[-500:], "model": errm[-500:]}
        found = True
        rep.violation({"property": "C15", "kind": "harness", "skel": err[-1500:], "annots": erri[-1500:], "model": errm[-1500:],
                       "what": "the generated module could not be loaded / read by the implementation or the model (a crash of the reader, or a generator defect)"})
    # ---------------- (2) the regex library model on arbitrary byte strings
    rcases = []
    for wi, k in enumerate(KEYWORDS):
        for s in sequences(k, 2):
            rcases.append((wi, s.encode()))
            rcases.append((wi, b"//" + s.encode()))
            rcases.append((wi, b" \t// " + s.encode()))
        for a in ARGS[k]:
            for tail in (b"", b" x", b"\ny", b" x\ny", b"\n", b" \xff", b"\xffx", b" \xc3\xa9t\xc3\xa9", b"\x0c", b"\r"):
                rcases.append((wi, b"// @" + k.encode() + b" " + a.encode() + tail))
                rcases.append((wi, b"\n// @" + k.encode() + b" " + a.encode() + tail))
    bpool = [bytes([b]) for b in b" \t\n\r\x0c,.&/;-_@aAzZ09\xff\xc3\xa9"] + [b"//", b"@ignore", b"@immutable", b"@constructor", b"@packageonly", b"@implements", b"@testonly", b"@mutable", b"IMM01", b"New", b"a/b"]
    for _ in range(4000 if ctx.tier != "thorough" else 200000):
        rcases.append((rng.randrange(7), b"".join(rng.choice(bpool) for _ in range(rng.randint(0, 12)))))
    rlines = ["%d %s" % (w, HX(s)) for (w, s) in rcases]
    ri = lib.run_lines([ctx.ggx, "unit-regex", "-repo", ctx.repo], rlines, env=ctx.env, shards=4)
    rm = lib.run_lines([ctx.modelrun, "regex"], rlines, shards=8)
    nre = 0
    for (w, s), a, b in zip(rcases, ri, rm):
        nre += 1
        if a != "-":
            nontrivial.add(("re", w, s))
        if a != b:
            found = True
            if len(rep.violations) < 6:
                rep.violation({"property": "C15", "kind": "regex", "which": KEYWORDS[w], "string_hex": HX(s), "string": s.decode("utf8", "replace"),
                               "go_regexp_submatch_indices": a, "model_submatch_indices": b,
                               "what": "Go's regexp on the expression extracted from the source and the library model Regex.v disagree (the regex changed in a way the model's theorems do not cover, or the library model is wrong)"})
    # every annotation line is read in every run: a module of 12 independent packages x 120 annotated types analysed
    # concurrently by the stand-alone driver, several times (a reader that shares state between packages loses lines)
    import stressgen, shutil as _sh
    afiles, awant = stressgen.annotation_stress(12, 120)
    ad = lib.scratch_dir()
    aroot = os.path.join(ad, "m")
    stressgen.write(aroot, afiles)
    stress = []
    for i in range(6 if ctx.tier != "thorough" else 40):
        r = lib.run_binary(ctx, aroot, timeout=900)
        n = len([x for x in r["diags"] if x["code"] == "IMM01"])
        stress.append(n)
        if n != awant or r["crashed"]:
            found = True
            have = {(x["file"], x["line"]) for x in r["diags"]}
            lost = []
            for rel, text in sorted(afiles.items()):
                for ln, l in enumerate(text.split("\n"), 1):
                    if l.endswith(".F = %s" % l.split("= ")[-1]) and l.startswith("\tt") and (rel, ln) not in have:
                        lost.append([rel, ln, l.strip()])
            rep.violation({"property": "C15", "kind": "stress", "run": i, "IMM01_reported": n, "expected": awant, "writes_not_reported_because_their_annotation_line_was_not_read": lost[:8],
                           "crashed": r["crashed"], "stderr_tail": r["stderr"][-400:], "module": "checks/stressgen.annotation_stress(12, 120)",
                           "files": {"a0/a.go": afiles["a0/a.go"][:1500] + "..."},
                           "what": "a well-formed `// @immutable` doc line is not recognised in some runs (schedule-dependent: the module is analysed by concurrent passes)"})
            break
    _sh.rmtree(ad, ignore_errors=True)
    rep.cov["stress_runs_IMM01_counts"] = stress
    lib.obligation_gate(rep, ctx, "C15", found)
    rep.cov["evaluations"] = len(cases) + nre
    rep.cov["distinct_nontrivial"] = len(nontrivial)
    rep.cov["exhaustive"] = True
    rep.cov["further_legs"] = ("runs of 40 ... 5000 blanks / tabs at the three optional-blank places of every keyword; six repeated runs of the real binary on "
                               "stressgen.annotation_stress(12, 120): every annotation line is read in every run (1440 IMM01)")
    rep.cov["rule"] = ("comment lines = '//' + ALL token sequences of length <= %d over a 20-token alphabet per keyword (blanks, //, the keyword, near-keywords in other case / longer / split, another keyword, "
                       ", . & ; - and argument shapes), enumerated exhaustively at the keyword's attachment site; sampled longer sequences; every argument shape x lead x tail at EVERY site "
                       "(type, func, method, field of @immutable struct, grouped spec - also a group of two where the second member has no doc, a documented group, a documented group with a documented member -, var for @ignore; inert: trailing, local declaration (in a function, in a function literal of a package-level initialiser, in a local group), detached, var doc, field of plain struct); two keywords on one "
                       "line, commented-out annotations, block comments; fuzzed strings. Compared: the full annotation summary and the @ignore markers of each package. Plus %d strings (arbitrary bytes, "
                       "newlines, invalid UTF-8, leading blanks) through Go's regexp vs Regex.v with submatch indices. non-trivial = distinct recognised annotation / matching string" % (maxlen, nre))
    rep.cov["input_distribution"] = dist
    rep.cov["samples"] = [{"comment": cases[i][0], "site": cases[i][1]} for i in (0, len(cases) // 3, len(cases) // 2, len(cases) - 1)]
    rep.assumptions = ["comment strings that can occur in a Go source file (valid UTF-8, no NUL, one line); arbitrary bytes are covered at the regex level",
                       "Go's regexp is a library model (Regex.v), validated here on the seven expressions"]
    return rep.finish()
