"""C17 — every diagnostic is well-formed, documented and suppressible by the code it shows.

(A) Coq obligations of Properties/C17.v (codes of each checker are table codes of its category; message = header +
    excerpt + help link of the category page; diagnostics stem from kept files; `// @ignore CODE` parses to [CODE]; one
    more marker [CODE] over the line suppresses that diagnostic and leaves every other table code / other line alone).
(B) every diagnostic of the real binary (-json) on generated worlds covering all 16 codes: shape `error: [CODE] ...`,
    CODE in the table regenerated from the source, analyzer = the checker of the code's category, file = a non-excluded
    file of the package that reported it, `= help: <page of the category>`; for the modelled checkers the FULL message
    text is compared with the model's rendering (header, excerpt, caret, help line).
(C) for a stratified sample of diagnostics the line gets `// @ignore CODE` appended and the program is re-run: exactly
    that diagnostic disappears (once-per-file codes may move to a later use) - text oracle of C07 and the model.
(D) text mode: exit status non-zero exactly when a diagnostic is printed (runs with and without diagnostics)."""
import json, os, re, shutil
import lib, worlds, worldgen
from props import c07

CHECKER_VAR = {"IMM": "ImmutableChecker", "CTOR": "ConstructorChecker", "TONL": "TestOnlyChecker", "PKGO": "PackageOnlyChecker", "IMPL": "ImplementsChecker"}
PAGE_WORD = {"IMM": "immutable", "CTOR": "constructor", "TONL": "testonly", "PKGO": "packageonly", "IMPL": "implements"}
HEAD = re.compile(r"^error: \[([A-Za-z0-9]+)\] (.*)$")


def extracted_tables(ctx):
    """the code table and the URL arms as regenerated from the source on this run (theories/Extracted.v)"""
    txt = open(os.path.join(ctx.coqdir, "theories", "Extracted.v")).read()
    m = re.search(r"Definition codes_table.*?:=\s*(.*?)\.\n\n", txt, flags=re.S)
    codes = re.findall(r'\("([A-Z]+\d\d)", "', m.group(1)) if m else []
    m = re.search(r"Definition url_arms.*?:=\s*(.*?)\.\n\n", txt, flags=re.S)
    arms = re.findall(r'\("([A-Z]+)", "([^"]+)"\)', m.group(1)) if m else []
    m = re.search(r"Definition analyzers.*?:=\s*(.*?)\.\n\n", txt, flags=re.S)
    names = dict(re.findall(r'\("(\w+)", "(\w+)", "run\w+"', m.group(1))) if m else {}
    return codes, arms, {cat: names.get(var) for cat, var in CHECKER_VAR.items()}


def model_messages(ctx, diags, sources):
    """the model's rendering of each diagnostic: (file content, line, col, code, short message) -> full text"""
    lines = []
    for d in diags:
        content = sources.get(d["file"])
        c = worlds.HX(content) if content is not None else "-"
        lines.append("%s %d %d %s %s" % (c, d["line"], d["col"], d["code"], worlds.HX(d["message"])))
    out = lib.run_lines([ctx.modelrun, "reporter"], lines)
    res = []
    for o in out:
        res.append(worlds.UN(o[2:]) if o.startswith("M ") else None)
    return res


def pkg_dir(pkgkey, modroot="w"):
    """`w/w0000/u [w/w0000/u.test]` -> w0000/u ; external test packages live in the same directory"""
    p = pkgkey.split(" ")[0]
    if p.endswith("_test"):
        p = p[:-5]
    if p.endswith(".test"):
        return None
    return p[len(modroot) + 1:] if p.startswith(modroot + "/") else p


def raw_diags(out, root):
    """-json output -> list of (package key, analyzer, file, line, col, message)"""
    res = []
    d = json.loads(out) if out.strip() else {}
    for pkg, v in d.items():
        for an, ds in v.items():
            if isinstance(ds, dict):
                res.append((pkg, an, None, 0, 0, "ANALYZER ERROR: %s" % ds.get("error")))
                continue
            for x in ds:
                m = re.match(r"^(.*):(\d+):(\d+)$", x.get("posn", ""))
                f = os.path.relpath(m.group(1), root) if m else None
                res.append((pkg, an, f, int(m.group(2)) if m else 0, int(m.group(3)) if m else 0, x.get("message", "")))
    return res


def run(ctx):
    rep = lib.Report(ctx, "C17")
    n = 14 if ctx.tier != "thorough" else 200
    d, root0, root1, rng, stats, wids = c07.build(ctx, n, "c17")
    # a few worlds with excluded files (by path entry, by directory, test files) for the configuration with several exclude-paths entries
    for i in range(2):
        worldgen.render(worldgen.c14_world(rng, "x%04d" % i, "w"), root0, rng)
    files0 = c07.read_tree(root0)
    disk = {rel: open(os.path.join(root0, rel)).read() for rel in files0}
    codes, arms, ANALYZER_OF = extracted_tables(ctx)
    urls = dict(arms)
    found = False
    problems = []
    per_code = {}
    checked = 0
    text_equal = 0
    dump = os.path.join(d, "dump.sx")
    src_rc, serr = worlds.skel(ctx, root0, dump)
    cfgs = [("default", (False, ["testdata"], [])), ("scan-tests", (True, [], [])), ("scan-tests, two exclude-paths entries", (True, ["zz_generated", "/gen/"], []))]
    sample_pool = []
    for name, cfg in cfgs:
        r = lib.run_binary(ctx, root0, flags=worlds.cfg_flags(cfg), timeout=1500)
        m = worlds.model_analyze(ctx, dump, cfg, root0)
        if r["crashed"] or r["rc"] not in (0, 3):
            problems.append({"config": name, "what": "binary failed", "stderr": r["stderr"][-800:]})
        raws = raw_diags(r["stdout"], root0)
        seen = set()
        for pkg, an, f, line, col, msg in raws:
            checked += 1
            first = msg.split("\n")[0]
            hm = HEAD.match(first)
            bad = []
            if not hm:
                bad.append("first line is not `error: [CODE] ...`")
                code = "?"
            else:
                code = hm.group(1)
                if code not in codes:
                    bad.append("code %s is not in the table of codes.go" % code)
                others = set(re.findall(r"\[([A-Z]{3,4}\d\d)\]", first)) - {code}
                if others:
                    bad.append("another code shown in the message: %s" % sorted(others))
            cat = re.sub(r"\d+$", "", code)
            per_code[code] = per_code.get(code, 0) + 1
            if ANALYZER_OF.get(cat) != an:
                bad.append("reported by analyzer %s, expected %s" % (an, ANALYZER_OF.get(cat)))
            pd = pkg_dir(pkg)
            if f is None or pd is None or os.path.dirname(f) != pd:
                bad.append("position %s is not in a file of the package %s" % (f, pkg))
            else:
                absf = os.path.join(root0, f)
                if any(p in absf for p in cfg[1]) or (not cfg[0] and f.endswith("_test.go")):
                    bad.append("position lies in an excluded file")
            want = urls.get(cat)
            if "\n" in msg.strip("\n"):
                hl = [l for l in msg.split("\n") if l.strip().startswith("= help:")]
                if len(hl) != 1 or want is None or hl[0].strip() != "= help: " + want or PAGE_WORD.get(cat, "?") not in hl[0]:
                    bad.append("help line %r is not the documentation page of category %s (%s)" % (hl, cat, want))
                if not msg.endswith("   = help: %s\n" % want):
                    bad.append("the message does not end with the help line")
            else:
                bad.append("no excerpt / help line rendered although the file is readable")
            if bad:
                problems.append({"config": name, "package": pkg, "analyzer": an, "file": f, "line": line, "col": col, "message": msg[:600], "defects": bad})
            if (f, line, col, code) not in seen and hm:
                seen.add((f, line, col, code))
        # full-text comparison with the model's rendering
        mdl = [x for x in m["diags"] if x["code"].startswith(c07.PREF)]
        texts = model_messages(ctx, mdl, disk)
        want_text = {}
        for x, t in zip(mdl, texts):
            want_text[(x["file"], x["line"], x["col"], x["code"])] = t
        for pkg, an, f, line, col, msg in raws:
            hm = HEAD.match(msg.split("\n")[0])
            if not hm or not hm.group(1).startswith(c07.PREF):
                continue
            k = (f, line, col, hm.group(1))
            if k in want_text:
                if want_text[k] == msg:
                    text_equal += 1
                else:
                    problems.append({"config": name, "file": f, "line": line, "col": col, "code": k[3], "what": "message text differs from the model's rendering",
                                     "implementation": msg[:700], "model": (want_text[k] or "(model: slice panic)")[:700]})
            else:
                problems.append({"config": name, "file": f, "line": line, "col": col, "code": k[3], "what": "diagnostic (with this column) not predicted by the model"})
        got = {(f, line, col, HEAD.match(msg.split("\n")[0]).group(1)) for pkg, an, f, line, col, msg in raws if HEAD.match(msg.split("\n")[0])}
        for k in want_text:
            if k not in got:
                problems.append({"config": name, "file": k[0], "line": k[1], "col": k[2], "code": k[3], "what": "diagnostic predicted by the model is not reported"})
        if name == "scan-tests":
            sample_pool = [x for x in r["diags"]]
    # (C) self-suppression on a stratified sample: per world and code, up to 2 diagnostics on distinct lines
    rc, out, err = lib.sh([ctx.ggx, "stmts", "-dir", root0], env=ctx.env)
    finfo = {x["File"]: x for x in json.loads(out or "[]")}
    comments, used, per = [], set(), {}
    rng.shuffle(sample_pool)
    for x in sample_pool:
        wid = x["file"].split("/")[0]
        fi = finfo.get(x["file"])
        cont = fi is not None and x["line"] not in {s["Start"] for s in (fi["Stmts"] or [])} and x["line"] not in {s["Start"] for s in (fi["Decls"] or [])}
        k = (wid, x["code"], cont)
        if per.get(k, 0) >= 2 or (x["file"], x["line"]) in used or fi is None or fi["CommentEnd"].get(str(x["line"]), False):
            continue
        per[k] = per.get(k, 0) + 1
        used.add((x["file"], x["line"]))
        comments.append({"file": x["file"], "kind": "inline/own-code" + ("/continuation-line" if cont else ""), "line": x["line"], "text": "// @ignore " + x["code"], "tokens": [x["code"]], "codes_form": "exact",
                         "target": [x["file"], x["line"], x["code"]]})
    shutil.rmtree(d, ignore_errors=True)
    cs, files1, res, newline = c07.evaluate(ctx, files0, fixed_comments=comments)
    removed_total = 0
    for name, r in res.items():
        kept, removed = c07.expected_from_text(r["base"]["diags"], cs, newline)
        removed_total += len(removed)
        # every targeted diagnostic must be among the removed ones
        tg = {tuple(c["target"]) for c in cs}
        base_keys = {(x["file"], x["line"], x["code"]) for x in r["base"]["diags"]}
        still = [k for k in tg if k in base_keys and k in {(x["file"], x["line"], x["code"]) for x in r["var"]["diags"]}]
        if r["text_missing"] or r["text_extra"] or r["impl_only"] or r["model_only"] or still or r["var"]["crashed"]:
            problems.append({"config": name, "what": "appending `// @ignore CODE` to the lines of the sampled diagnostics does not remove exactly those diagnostics",
                             "still_reported": still[:10], "gone_but_should_stay": r["text_missing"][:10], "new_or_should_be_gone": r["text_extra"][:10],
                             "implementation_vs_model": {"impl_only": r["impl_only"][:10], "model_only": r["model_only"][:10]},
                             "comments": [c07.strip(c) for c in cs if (tuple(c["target"]) in still) or any(tuple(c["target"])[:2] == tuple(k[:2]) for k in r["text_missing"] + r["text_extra"])][:6]})
    # (D) exit status in text mode
    d2 = lib.scratch_dir()
    root2 = os.path.join(d2, "m")
    worlds.write_sources(root2, files0)
    exit_runs = []
    pats = []
    for wid in wids[:3]:
        pats += [["./%s/m/..." % wid], ["./%s/u/..." % wid], ["./%s/d/..." % wid, "./%s/ok/..." % wid], ["./%s/..." % wid]]
    pats += [["./..."]]
    for pat in pats:
        for extra in ([], ["--config.exclude-checks=ALL"]):
            r = lib.run_binary(ctx, root2, flags=extra, patterns=pat, json_mode=False, timeout=600)
            printed = len(re.findall(r"^\S+\.go:\d+:\d+: ", r["stderr"] + "\n" + r["stdout"], flags=re.M))
            exit_runs.append({"patterns": pat, "flags": extra, "rc": r["rc"], "diagnostics_printed": printed})
            if (r["rc"] != 0) != (printed > 0) or r["crashed"]:
                problems.append({"what": "text mode: exit status %d with %d diagnostics printed" % (r["rc"], printed), "patterns": pat, "flags": extra, "stderr_tail": r["stderr"][-400:]})
    # (E) the other driver and other working directories: under `go vet -vettool` the tool runs with the PACKAGE directory as working
    # directory; the stand-alone binary may be started inside an excluded directory.  No diagnostic may lie in an excluded file.
    ex_cfg = cfgs[2][1]
    vfl = ["-config.scan-tests=true", "-config.exclude-paths=" + ",".join(ex_cfg[1])]
    rc, out, err = lib.sh(["go", "vet", "-vettool=" + ctx.gg] + vfl + ["./x0000/...", "./x0001/..."], cwd=root2, env=ctx.env, timeout=1200)
    vet_positions = 0
    for line in (err + "\n" + out).split("\n"):
        mm = re.match(r"^(\S+?\.go):(\d+):(\d+): error: \[(\w+)\]", line.strip())
        if mm:
            vet_positions += 1
            f = mm.group(1)
            absf = f if f.startswith("/") else os.path.normpath(os.path.join(root2, f))
            if any(pth in absf for pth in ex_cfg[1]):
                problems.append({"what": "go vet -vettool: a diagnostic lies in a file excluded by exclude-paths", "file": os.path.relpath(absf, root2), "line": int(mm.group(2)), "code": mm.group(4),
                                 "exclude_paths": ex_cfg[1]})
    if lib.crash_in(err + out):
        problems.append({"what": "go vet -vettool failed", "stderr_tail": err[-500:]})
    gen_dirs = sorted({os.path.dirname(k) for k in files0 if "/gen/" in "/" + k})
    for gd in gen_dirs[:2]:
        r = lib.run_binary(ctx, os.path.join(root2, gd), flags=["--config.scan-tests=true", "--config.exclude-paths=" + ",".join(ex_cfg[1])], patterns=["./..."], timeout=600)
        for x in r["diags"]:
            absf = os.path.normpath(os.path.join(root2, gd, x["file"]))
            if any(pth in absf for pth in ex_cfg[1]):
                problems.append({"what": "stand-alone binary started inside an excluded directory: a diagnostic lies in an excluded file", "file": os.path.relpath(absf, root2), "line": x["line"], "code": x["code"]})
    # (F) a diagnostic on the LAST line of its file (with and without a final newline) is rendered like every other one
    last = {"ll/lib/lib.go": "package lib\n\n// T is annotated.\n// @immutable\n// @constructor NewT\ntype T struct{ F int }\n\nfunc NewT() *T { return &T{} }\n\n// I is an interface.\ntype I interface{ M() }\n",
            "ll/a/a.go": "package a\n\nimport \"w/ll/lib\"\n\nvar X = lib.T{F: 1}\n",
            "ll/b/b.go": "package b\n\nimport \"w/ll/lib\"\n\nvar _ = lib.NewT\n\n// @implements lib.I\ntype B struct{}",
            "ll/c/c.go": "package c\n\nimport \"w/ll/lib\"\n\nfunc f(t *lib.T) { t.F = 1 }"}
    d3 = lib.scratch_dir()
    root3 = os.path.join(d3, "m")
    worlds.write_sources(root3, last)
    for rel, text in last.items():      # write_sources may normalise the final newline: keep the bytes as given
        open(os.path.join(root3, rel), "w").write(text)
    r = lib.run_binary(ctx, root3, timeout=600)
    last_seen = 0
    for pkg, an, f, line, col, msg in raw_diags(r["stdout"], root3):
        last_seen += 1
        cat = re.sub(r"\d+$", "", (HEAD.match(msg.split("\n")[0]) or [None, "?"])[1])
        if not msg.endswith("   = help: %s\n" % urls.get(cat)):
            problems.append({"what": "a diagnostic on the last line of its file is rendered without excerpt / help line", "file": f, "line": line, "message": msg[:300]})
    if last_seen != 3 or r["crashed"]:
        problems.append({"what": "last-line module: %d diagnostics instead of 3 (CTOR01, IMPL03, IMM01 on the last lines of a.go, b.go, c.go)" % last_seen, "stderr_tail": r["stderr"][-300:]})
    shutil.rmtree(d3, ignore_errors=True)
    shutil.rmtree(d2, ignore_errors=True)
    if problems:
        found = True
        wid = None
        for p in problems:
            if p.get("file"):
                wid = p["file"].split("/")[0]
                break
        rep.violation({"property": "C17", "kind": "well-formedness", "problems": problems[:12], "number_of_problems": len(problems), "world": wid,
                       "files": {k: v for k, v in files0.items() if wid and k.startswith(wid + "/")},
                       "what": "a diagnostic is not well-formed / not documented / not suppressible by its own code / the exit status disagrees with the output"})
    lib.obligation_gate(rep, ctx, "C17", found)
    rep.cov["evaluations"] = checked + len(comments) * 2 + len(exit_runs)
    rep.cov["distinct_nontrivial"] = len(per_code) * 0 + sum(1 for _ in per_code) + len(comments) + sum(1 for e in exit_runs if e["diagnostics_printed"] > 0)
    rep.cov["rule"] = ("%d generated worlds (all 16 codes) plus two worlds with excluded files; default, scan-tests, and scan-tests with two exclude-paths entries. Every -json diagnostic: header shape, code in the regenerated table, no other code in the message, "
                       "analyzer of the category, file of the reporting package and not excluded, single help line = the category's page; for IMM/CTOR/TONL/PKGO the full message text must equal the "
                       "model's rendering of (file content, line, column, code, short message). Self-suppression: up to 2 diagnostics per (world, code, first line of a statement or a continuation line) get `// @ignore CODE` appended, all at once; the "
                       "re-run must lose exactly those (TONL01/PKGO01 may move) by the C07 text oracle and the model. Text mode: %d runs over package patterns with and without diagnostics "
                       "(exclude-checks=ALL); the exclude-paths configuration also through go vet -vettool (tool started in the package directory) and by the stand-alone binary started inside an excluded directory; a module whose three diagnostics sit on the last line of their files (with / without final newline). non-trivial = distinct codes seen + suppressed samples + text-mode runs that printed diagnostics" % (n, len(exit_runs)))
    rep.cov["diagnostics_checked"] = checked
    rep.cov["codes_seen"] = per_code
    rep.cov["messages_equal_to_model_rendering"] = text_equal
    rep.cov["self_suppression_samples"] = len(comments)
    rep.cov["diagnostics_removed_by_own_code"] = removed_total
    rep.cov["text_mode_runs"] = exit_runs[:6]
    rep.cov["samples"] = [{"file": c["file"], "line": c["line"], "comment": c["text"]} for c in comments[:3]] or ["(none)"]
    rep.assumptions = ["lines that already end in a // comment are not used for the self-suppression step (DESIGN 5.1)", "exit status is the multichecker driver's (library model: non-zero iff a diagnostic was printed)"]
    return rep.finish()


def replay(ctx, d):
    print(json.dumps({k: v for k, v in d.items() if k != "files"}, indent=1)[:6000])
    return 0
