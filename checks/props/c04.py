"""C04 — see DESIGN.md section 5 (C04). Correspondence through the shared generated-worlds run (checks/l1.py)."""
import l1

WHAT = "the PKGO diagnostics of the binary on this program differ from the ones the proved model requires (the model = the declarative specification of C04 on the fragment)"
ASSUME = ["supported fragment: non-generic defined types, direct imports, one candidate statement per line",
          "go/parser and go/types facts are inputs (serialised verbatim by ggx skel)"]


def run(ctx):
    return l1.run(ctx, "C04", ("PKGO",), WHAT, ASSUME)


def replay(ctx, d):
    return l1.replay(ctx, d)
