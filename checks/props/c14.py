"""C14 — excluded files are inert: no diagnostics in them, no influence from them.
Correspondence: worlds whose excluded files (by path entry, by directory, in-package and external _test.go) carry
annotations, @ignore comments and violations that would matter; under scan-tests x exclude-paths configurations:
(a) implementation = model; (b) no diagnostic lies in an excluded file; (c) the diagnostics of the other files are the
same when every comment of the excluded files is blanked (metamorphic, on the implementation itself)."""
import concurrent.futures, os, re, shutil
import lib, worlds, worldgen

CONFIGS = [(False, ["testdata"]), (True, ["testdata"]), (False, []), (True, []), (True, ["zz_generated", "/gen/"]), (False, ["zz_generated"]),
           (True, ["/gen/"]), (False, ["zz_generated", "/gen/", "uses_"]), (True, ["_extra_"]), (False, ["nomatch", " "]),
           # entries one of which is a substring of the other: each still counts on its own
           (True, ["/gen/", "gen"]), (False, ["uses_", "uses", "zz_generated_never", "zz_gen"])]


VET_CONFIGS = [(True, ["zz_generated", "/gen/"]), (False, ["zz_generated", "/gen/", "uses_"])]


def skipped(cfg, absname):
    scan, paths = cfg
    return any(p in absname for p in paths) or (not scan and absname.endswith("_test.go"))


def blank_comments(text):
    """replace every // comment by an ordinary one of the same length (positions and lines unchanged), keep site markers"""
    out = []
    for line in text.split("\n"):
        i = line.find("//")
        if i >= 0 and '"' not in line[:i]:
            line = line[:i] + "//" + re.sub(r"[^\s]", "x", line[i + 2:])
        out.append(line)
    return "\n".join(out)


def run(ctx):
    rep = lib.Report(ctx, "C14")
    n = 8 if ctx.tier != "thorough" else 80
    d = lib.scratch_dir()
    root = os.path.join(d, "m")
    wl, sites, stats = worlds.generate(ctx, n, "c14", root, gen=worldgen.c14_world)
    dump = os.path.join(d, "dump.sx")
    rc, err = worlds.skel(ctx, root, dump)
    allfiles = [os.path.relpath(os.path.join(dp, f), root) for dp, _, fs in os.walk(root) for f in fs if f.endswith(".go")]
    found = False
    nontrivial = set()
    evaluations = 0

    def one(cfg):
        flags = worlds.cfg_flags((cfg[0], cfg[1], []))
        r = lib.run_binary(ctx, root, flags=flags)
        m = worlds.model_analyze(ctx, dump, (cfg[0], cfg[1], []), root)
        # the same module with the comments of the excluded files blanked
        d2 = lib.scratch_dir()
        root2 = os.path.join(d2, "m")
        shutil.copytree(root, root2)
        nblank = 0
        for rel in allfiles:
            # the decision is taken on the ORIGINAL absolute name (the copy lives elsewhere): keep names equal by mapping
            if skipped(cfg, os.path.join(root, rel)):
                p2 = os.path.join(root2, rel)
                txt = blank_comments(open(p2).read())
                open(p2, "w").write(txt)
                nblank += 1
        r2 = lib.run_binary(ctx, root2, flags=flags)
        shutil.rmtree(d2, ignore_errors=True)
        # the same configuration through go vet (unitchecker starts the tool in each package's own directory) and from
        # inside an excluded directory: exclusion is decided on the file name, not on where the tool was started
        other = {}
        if cfg in VET_CONFIGS:
            fl = ["-config.scan-tests=%s" % ("true" if cfg[0] else "false"), "-config.exclude-paths=" + ",".join(cfg[1]), "-config.exclude-checks="]
            rc, out, err = lib.sh(["go", "vet", "-vettool=" + ctx.gg] + fl + ["./..."], cwd=root, env=ctx.env, timeout=1800)
            vk = set()
            for line in (err + "\n" + out).split("\n"):
                mm = re.match(r"^(\S+?\.go):(\d+):(\d+): error: \[(\w+)\]", line.strip())
                if mm:
                    f = mm.group(1)
                    f = os.path.relpath(f, root) if f.startswith("/") else os.path.normpath(f)
                    vk.add((f, int(mm.group(2)), mm.group(4)))
            other["go vet -vettool"] = (vk, lib.crash_in(err + "\n" + out))
            sub = os.path.join(root, "w0000", "gen")
            if os.path.isdir(sub):
                rs = lib.run_binary(ctx, sub, flags=flags, patterns=["."])
                sk = {(os.path.normpath(os.path.join("w0000/gen", x["file"])), x["line"], x["code"]) for x in rs["diags"]}
                other["started inside w0000/gen"] = (sk, rs["crashed"])
        return r, m, r2, nblank, other
    with concurrent.futures.ThreadPoolExecutor(max_workers=lib.NCPU) as ex:
        results = list(ex.map(one, CONFIGS))
    for cfg, (r, m, r2, nblank, other) in zip(CONFIGS, results):
        evaluations += len(allfiles)
        a_only, m_only = worlds.compare(r["diags"], m["diags"], worlds.MODELLED)
        inside = [(x["file"], x["line"], x["code"]) for x in r["diags"] if skipped(cfg, os.path.join(root, x["file"]))]
        tonl_in_tests = [(x["file"], x["line"], x["code"]) for x in r["diags"] if x["file"].endswith("_test.go") and x["code"].startswith("TONL")]
        k1, k2 = worlds.keyset(r["diags"]), worlds.keyset(r2["diags"])
        influence = sorted(k1 ^ k2)
        if nblank and r["diags"]:
            nontrivial.add((cfg[0], tuple(cfg[1])))
        drv = []
        for dn, (dk, dcrash) in other.items():
            want = k1 if dn.startswith("go vet") else {x for x in k1 if x[0].startswith("w0000/gen/")}
            if dk != want or dcrash:
                drv.append({"driver": dn, "only_there": sorted(dk - want)[:8], "only_in_the_reference_run": sorted(want - dk)[:8]})
        if drv:
            influence = influence + [tuple(x) for dd in drv for x in dd["only_there"] + dd["only_in_the_reference_run"]]
        if a_only or m_only or inside or influence or tonl_in_tests or r["crashed"]:
            found = True
            if len(rep.violations) < 4:
                bad = (inside + tonl_in_tests + influence + a_only + m_only)
                wid = bad[0][0].split("/")[0] if bad else None
                files = {k: open(os.path.join(root, k)).read() for k in allfiles if wid and k.startswith(wid + "/")}
                rep.violation({"property": "C14", "kind": "excluded-files", "config": [cfg[0], cfg[1], []],
                               "diagnostics_located_in_excluded_files": inside[:10], "tonl_diagnostics_in_test_files": tonl_in_tests[:10],
                               "changed_when_comments_of_excluded_files_are_blanked": influence[:10],
                               "implementation_vs_model": {"impl_only": a_only[:10], "model_only": m_only[:10]}, "other_drivers_or_working_directories": drv,
                               "world": wid, "files": files,
                               "what": "excluded files are not inert under this configuration"})
    # repeated runs on a module of 48 independent packages whose only violations sit in files that the configuration excludes: a
    # pass that sees another configuration than the one given (a racy initialisation) prints diagnostics from excluded files
    import stressgen
    sd = lib.scratch_dir()
    sroot = os.path.join(sd, "m")
    stressgen.write(sroot, stressgen.excluded_stress(48))
    junk = ",".join("zz_no_such_entry_%04d" % i for i in range(3000))
    stress_runs = 0
    for i in range(16 if ctx.tier != "thorough" else 80):
        fl = [] if i % 2 == 0 else ["--config.exclude-paths=" + junk + ",testdata"]
        r = lib.run_binary(ctx, sroot, flags=fl, timeout=600)
        stress_runs += 1
        if r["diags"] or r["crashed"]:
            found = True
            rep.violation({"property": "C14", "kind": "stress", "run": i, "flags": ["(default configuration)"] if not fl else ["--config.exclude-paths=<3000 entries that match nothing>,testdata"],
                           "diagnostics_in_excluded_files": [[x["file"], x["line"], x["code"]] for x in r["diags"]][:8], "crashed": r["crashed"], "stderr_tail": r["stderr"][-400:],
                           "module": "checks/stressgen.excluded_stress(48)",
                           "what": "a diagnostic lies in a file that the configuration excludes (schedule-dependent: the module's packages are analysed by concurrent passes)"})
            break
    shutil.rmtree(sd, ignore_errors=True)
    rep.cov["stress_runs"] = stress_runs
    lib.obligation_gate(rep, ctx, "C14", found)
    rep.cov["evaluations"] = evaluations
    rep.cov["distinct_nontrivial"] = len(nontrivial)
    rep.cov["rule"] = ("%d worlds with: a file excluded by a path entry inside the declaring package (zz_generated.go: @immutable/@constructor/@testonly/@packageonly items used elsewhere, violations), "
                       "a package in an excluded directory (/gen/), an in-package _test.go declaring an @immutable type, an external test package, plus the usual user packages; %d configurations "
                       "of scan-tests x exclude-paths (empty, default, several entries, an entry matching an ordinary file, blanks). Per configuration: implementation = model; no diagnostic in an "
                       "excluded file; no TONL in _test.go; same diagnostics when the comments of all excluded files are blanked; for two configurations also go vet -vettool (tool started in each package's directory) and a run started inside an excluded directory give the same verdicts. plus 16 repeated runs on a module of 48 packages whose only violations sit in files excluded by default (stressgen.excluded_stress), alternating the default configuration and a 3000-entry list. evaluations = files x configurations; non-trivial = configurations "
                       "that exclude at least one file while diagnostics remain" % (n, len(CONFIGS)))
    rep.cov["files"] = len(allfiles)
    rep.cov["samples"] = [{"config": [c[0], c[1]], "excluded_files": sum(1 for f in allfiles if skipped(c, os.path.join(root, f))), "diagnostics": len(r[0]["diags"])} for c, r in zip(CONFIGS, results)]
    rep.assumptions = ["exclude-paths entries are substring matches on the absolute file name (the scratch directory's own path is digits only)"]
    return rep.finish()


def replay(ctx, d):
    import l1, json
    if d.get("kind") == "stress":
        print(json.dumps(d, indent=1)[:4000])
        print("(schedule-dependent: re-run `checks/check.sh C14 quick`; the module is regenerated by checks/stressgen.excluded_stress)")
        return 0
    d = dict(d)
    d["kind"] = "world"
    return l1.replay(ctx, d)
