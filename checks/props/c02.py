"""C02 — see DESIGN.md section 5 (C02). Correspondence through the shared generated-worlds run (checks/l1.py)."""
import l1

WHAT = "the CTOR diagnostics of the binary on this program differ from the ones the proved model requires (the model = the declarative specification of C02 on the fragment)"
ASSUME = ["supported fragment: non-generic defined types, direct imports, one candidate statement per line",
          "go/parser and go/types facts are inputs (serialised verbatim by ggx skel)"]


def run(ctx):
    return l1.run(ctx, "C02", ("CTOR",), WHAT, ASSUME)


def replay(ctx, d):
    return l1.replay(ctx, d)
