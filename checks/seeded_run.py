#!/usr/bin/env python3
"""Runs the registered quick check of the property a seeded change breaks (and optionally others) with the change
applied to /repo, then undoes it.  Records in seeded/<id>/meta.json which checks raise a VIOLATION.
usage: seeded_run.py <seeded id> [property ids to run ...]"""
import json, os, subprocess, sys
VERIF = os.path.dirname(os.path.dirname(os.path.abspath(__file__)))


def main():
    name = sys.argv[1]
    d = os.path.join(VERIF, "seeded", name)
    props = sys.argv[2:] or [name.split("-")[0]]
    meta_p = os.path.join(d, "meta.json")
    meta = json.load(open(meta_p)) if os.path.exists(meta_p) else {}
    assert subprocess.run("git -C /repo status --porcelain", shell=True, capture_output=True, text=True).stdout.strip() == "", "/repo not clean"
    subprocess.run("git -C /repo apply %s" % os.path.join(d, "patch.diff"), shell=True, check=True)
    det = meta.get("detected_by", {})
    # evidence files must come from clean-tree runs: keep what is there and put it back afterwards
    import shutil, tempfile
    keep = tempfile.mkdtemp(prefix="evkeep")
    for p in props:
        ev = os.path.join(VERIF, "evidence", p + ".json")
        if os.path.exists(ev):
            shutil.copy(ev, os.path.join(keep, p + ".json"))
    try:
        for p in props:
            r = subprocess.run("python3 checks/check.py %s quick" % p, shell=True, cwd=VERIF, capture_output=True, text=True)
            lines = [l for l in r.stdout.split("\n") if l.startswith("VIOLATION")]
            det[p] = {"rc": r.returncode, "violation_lines": lines[:3]}
            print(name, p, "rc=%d" % r.returncode, lines[:1])
            sys.stdout.flush()
    finally:
        subprocess.run("git -C /repo checkout -- . && git -C /repo clean -fdq src cmd", shell=True)
        for p in props:
            k = os.path.join(keep, p + ".json")
            if os.path.exists(k):
                shutil.copy(k, os.path.join(VERIF, "evidence", p + ".json"))
        shutil.rmtree(keep, ignore_errors=True)
    meta["detected_by"] = det
    json.dump(meta, open(meta_p, "w"), indent=1)


if __name__ == "__main__":
    main()
