#!/usr/bin/env python3
"""Re-run a replay file: prints what the implementation and the model/reference say on the recorded input."""
import importlib, json, os, sys
sys.path.insert(0, os.path.dirname(os.path.abspath(__file__)))
import lib


def main():
    d = json.load(open(sys.argv[1]))
    pid = d["property"]
    ctx = lib.prepare()
    mod = importlib.import_module("props." + pid.lower())
    if hasattr(mod, "replay"):
        return mod.replay(ctx, d)
    print(json.dumps(d, indent=1))
    print("(no executable replay for this kind of record; the record itself names the failing theorem or correspondence)")
    return 0


if __name__ == "__main__":
    sys.exit(main())
