#!/bin/bash
# Run once in /verif after a fresh restore, offline: builds the harness, the Coq development (full .vo build)
# and the extracted OCaml driver from files on disk, for the repository's current tree.
set -e
cd "$(dirname "$0")/.."
python3 - <<'PY'
import sys, os, shutil
sys.path.insert(0, "checks")
import lib
# regenerate Extracted.v for the pristine tree so that the base build is the one every check reuses
env = lib.go_env()
os.makedirs(lib.CACHE, exist_ok=True)
tmp = os.path.join(lib.CACHE, "setup")
os.makedirs(tmp, exist_ok=True)
mod = open("harness/go.mod").read().replace("=> /repo", "=> " + lib.REPO)
open(os.path.join(tmp, "harness.mod"), "w").write(mod)
shutil.copy(os.path.join(lib.REPO, "go.sum"), os.path.join(tmp, "harness.sum"))
lib.sh(["go", "build", "-modfile", os.path.join(tmp, "harness.mod"), "-o", os.path.join(tmp, "ggx"), "./cmd/ggx"], cwd="harness", env=env, check=True)
lib.sh([os.path.join(tmp, "ggx"), "extract-data", "-repo", lib.REPO, "-o", os.path.join(tmp, "Extracted.v")], env=env, check=True)
new = open(os.path.join(tmp, "Extracted.v")).read()
cur = open("coq/theories/Extracted.v").read() if os.path.exists("coq/theories/Extracted.v") else ""
if new != cur:
    open("coq/theories/Extracted.v", "w").write(new)
ctx = lib.prepare()
print("setup: cache", ctx.cache, "coqdir", ctx.coqdir, "modelrun", ctx.modelrun)
if ctx.build_error:
    print(ctx.build_error)
    sys.exit(1)
for f in (ctx.gg, ctx.ggx, ctx.modelrun):
    if not os.path.exists(f):
        print("setup: missing", f)
        print(open(os.path.join(ctx.cache, "coq_build.log")).read()[-3000:])
        sys.exit(1)
# on the pristine tree the whole development must build (a full .vo build, no -k): a setup that leaves a proof file unbuilt fails here
rc, out, err = lib.sh("timeout 3000 make -j%d 2>&1" % lib.NCPU, cwd="coq", timeout=3100)
if rc != 0:
    print("setup: the Coq development does not build")
    print((out + err)[-3000:])
    sys.exit(1)
bad = lib.hygiene_scan(ctx.coqdir)
if bad:
    print("setup: forbidden constructs", bad)
    sys.exit(1)
PY
