"""Seeded generator of small multi-package Go programs ("worlds") for the correspondence between the real
analyzers and the Coq model.  A world is an IR: packages -> files -> declarations; every declaration is a list
of source lines, candidate sites carry a marker /*@<site id>:<tag>*/.  The IR is rendered with layout options,
so one IR can be rendered differently for the metamorphic properties (C12, C13).

The generator does NOT decide what should be reported: that is the model's job.  It only has to produce programs
that compile and that exercise every site kind x placement x annotation mix; the distribution it produced is
reported in the evidence."""
import os, zlib

NEST = ["if", "for", "switch", "select", "closure", "defer", "go", "block", "ifelse", "range"]


def nest(kind, stmt_lines):
    body = ["\t" + l for l in stmt_lines]
    if kind == "if":
        return ["if true {"] + body + ["}"]
    if kind == "ifelse":
        return ["if false {", "\t_ = 0", "} else {"] + body + ["}"]
    if kind == "for":
        return ["for i := 0; i < 1; i++ {"] + body + ["}"]
    if kind == "range":
        return ["for range []int{1} {"] + body + ["}"]
    if kind == "switch":
        return ["switch {", "case true:"] + body + ["}"]
    if kind == "select":
        return ["select {", "default:"] + body + ["}"]
    if kind == "closure":
        return ["func() {"] + body + ["}()"]
    if kind == "defer":
        return ["defer func() {"] + body + ["}()"]
    if kind == "go":
        return ["go func() {"] + body + ["}()"]
    if kind == "block":
        return ["{"] + body + ["}"]
    raise ValueError(kind)


class Decl:
    def __init__(self, did, lines, doc=None):
        self.id = did
        self.lines = lines
        self.doc = doc or []


class World:
    def __init__(self, wid, root):
        self.wid = wid
        self.root = root
        self.pkgs = {}
        self.meta = {}

    def add_pkg(self, d, name=None):
        if d not in self.pkgs:
            self.pkgs[d] = {"name": name or d, "files": {}}

    def add_file(self, d, fname, imports):
        if fname not in self.pkgs[d]["files"]:
            self.pkgs[d]["files"][fname] = {"imports": list(imports), "decls": []}

    def add(self, d, fname, decl):
        self.pkgs[d]["files"][fname]["decls"].append(decl)

    def decl_ids(self, d):
        return {x.id for f in self.pkgs[d]["files"].values() for x in f["decls"]}


PAREN_OK = ("ptralias-write", "ptralias-inc", "ptralias-method", "ptralias-closure", "ctor-new", "ctor-new-ptr", "ctor-var", "ctor-var-ptr", "ctor-var-blank", "ctor-var-two", "tonl-var", "tonl-var-ptr", "tonl-closure-param",
            "tonl-local-struct", "pkgo-type-var", "pkgo-type-conv", "imm-nested-sel")


def site_statements(sp):
    """(tag, line) ; variables in scope: t *T, tv T, u *U, h *H, s *Secret"""
    if sp.get("mode") == "paren":
        plain = dict(sp)
        plain.update({"mode": "direct", "T": "d.T", "H": "d.H", "Secret": "d.Secret", "PT": "*d.T", "PH": "*d.H"})
        a = site_statements(plain)
        b = _site_statements(sp)
        return [(tb, lb) if tb in PAREN_OK else (ta, la) for (ta, la), (tb, lb) in zip(a, b)]
    return _site_statements(sp)


def _site_statements(sp):
    T, U, H, S, q = sp["T"], sp["U"], sp["H"], sp["Secret"], sp["q"]
    return [
        ("imm-assign", "t.F = 1"), ("imm-assign-val", "tv.F = 2"), ("imm-compound", "t.F += 3"), ("imm-compound2", "tv.F *= 2"),
        ("imm-incdec", "t.F++"), ("imm-incdec2", "tv.F--"), ("imm-index", "t.Xs[0] = 4"), ("imm-mapindex", "t.Mp[\"k\"] = 4"),
        ("imm-mutable", "t.Mut = 5"), ("imm-mutable-inc", "t.Mut++"), ("imm-mutable-index", "t.MutXs[0] = 1"),
        ("imm-read", "_ = t.F"), ("imm-other-type", "u.G = 6"), ("imm-other-inc", "u.G++"),
        ("imm-multi", "t.F, u.G = 7, 8"), ("imm-multi2", "u.G, t.F = 7, 8"),
        ("imm-nested-sel", "w# := struct{ p *%s }{t}; @@w#.p.F = 9" % T),
        ("imm-local-copy", "c# := *t; @@c#.F = 10; _ = c#"), ("imm-define", "f# := t.F; _ = f#"),
        ("ctor-lit", "_ = %s{}" % T), ("ctor-lit-fields", "_ = %s{F: 1}" % T), ("ctor-addr", "_ = &%s{}" % T),
        ("ctor-elided", "_ = []%s{{}, {F: 2}}" % T), ("ctor-elided-ptr", "_ = []*%s{{}}" % T),
        ("ctor-map-elided", "_ = map[string]%s{\"a\": {}}" % T), ("ctor-new", "_ = new(%s)" % T), ("ctor-new-ptr", "_ = new(*%s)" % T),
        ("ctor-var", "var v# %s; _ = v#" % T), ("ctor-var-ptr", "var vp# *%s; _ = vp#" % T), ("ctor-var-blank", "var _ %s" % T),
        ("ctor-var-two", "var va#, vb# %s; _, _ = va#, vb#" % T), ("ctor-var-init", "var vi# = %s{}; _ = vi#" % T),
        ("ctor-other-type", "_ = %s{}" % U), ("ctor-other-new", "_ = new(%s)" % U), ("ctor-call-ctor", "_ = %sNewT()" % q),
        ("tonl-func", "_ = %sMock()" % q), ("tonl-func-plain", "_ = %sPlainFn()" % q),
        ("tonl-method", "h.Reset()"), ("tonl-method-plain", "h.Plain()"),
        ("tonl-lit", "_ = %s{}" % H), ("tonl-lit2", "_ = &%s{N: 1}" % H),
        ("tonl-var", "var hv# %s; _ = hv#" % H), ("tonl-var-ptr", "var hp# *%s; _ = hp#" % H),
        ("tonl-closure-param", "_ = func(x *%s) int { return 0 }" % H),
        ("tonl-local-struct", "type ls# struct{ f %s }; _ = ls#{}" % H),
        ("tonl-shadow", "if Mock := func() int { return 1 }; Mock() > 0 {}"),
        # chained expressions: two uses that begin at the same source position
        ("tonl-chain-func-method", "%sMockH().Reset()" % q), ("tonl-chain-lit-method", "_ = %s{}.Fire()" % H), ("tonl-chain-plain", "_ = %sGetH().Fire()" % q),
        ("pkgo-chain-func-method", "_ = %sInternalS().Open()" % q), ("pkgo-chain-lit-method", "_ = %s{}.Look()" % S),
        ("imm-promoted-assign", "t.Rev = 1"), ("imm-promoted-inc", "t.Rev++"), ("imm-promoted-compound", "tv.Rev += 2"), ("imm-promoted-index", "t.Tags[0] = 1"),
        ("imm-promoted-explicit", "t.Meta.Rev = 3"), ("imm-embedding-outer", "ob# := struct{ %s }{tv}; @@ob#.F = 4" % spl0(sp, "T")),
        # a selector broken after the dot: the expression starts on the first line, the selected name stands on the second
        # (without a qualifier - own package, dot import - there is no dot to break after: the plain call, same site id)
        ("pkgo-func-broken-dot", ("_ = %s\n\t@2@Internal()" % q) if q else "_ = Internal()"), ("pkgo-method-broken-dot", "_ = s.\n\t@2@Open()"),
        ("tonl-func-broken-dot", ("_ = %s\n\t@2@Mock()" % q) if q else "_ = Mock()"),
        ("tonl-promoted-method", "hx# := struct{ *%s }{h}; @@hx#.Reset()" % spl0(sp, "H")), ("tonl-promoted-value-method", "hy# := struct{ %s }{*h}; @@_ = hy#.Fire()" % spl0(sp, "H")),
        ("pkgo-promoted-method", "bx# := struct{ *%s }{s}; @@_ = bx#.Open()" % spl0(sp, "Secret")),
        ("pkgo-promoted-method-value", "by# := struct{ *%s }{s}; @@gy# := by#.Open; _ = gy#" % spl0(sp, "Secret")),
        ("pkgo-func", "_ = %sInternal()" % q), ("pkgo-func-bare", "_ = %sBareOnly()" % q), ("pkgo-func-path", "_ = %sByPath()" % q),
        ("pkgo-func-free", "_ = %sFree()" % q), ("pkgo-method", "_ = s.Open()"), ("pkgo-method-value", "g# := s.Open; _ = g#"),
        ("pkgo-method-free", "_ = s.Peek()"), ("pkgo-method-samename", "_ = h.Open()"), ("pkgo-type-var", "var sv# %s; _ = sv#" % S), ("pkgo-type-lit", "_ = %s{}" % S),
        ("pkgo-type-conv", "_ = (*%s)(nil)" % S),
        ("hidden-elided", "_ = %sHiddenList{{}, {V: 1}}" % q), ("hidden-elided-ptr", "_ = %sHiddenPtrs{{}}" % q),
        ("hidden-alias-lit", "_ = %sHiddenAlias{}" % q), ("hidden-alias-var", "var hz# %sHiddenAlias; _ = hz#" % q),
        ("hidden-alias-new", "_ = new(%sHiddenAlias)" % q), ("hidden-write", "%sGetHidden().V = 3" % q), ("hidden-inc", "%sGetHidden().V++" % q),
        ("ptralias-write", "var pa# %s = t; @@pa#.F = 12" % sp["PT"]), ("ptralias-inc", "var pb# %s = t; @@pb#.F++" % sp["PT"]),
        ("ptralias-method", "var ph# %s = h; @@ph#.Reset()" % sp["PH"]), ("ptralias-closure", "_ = func(x %s) { @@x.F = 13 }" % sp["PT"]),
        ("ctor-multiline-lit", "_ = []%s{\n\t@2@{},\n\t@3@{F: 2}}" % T), ("tonl-multiline-call", "_ = %sMock() +\n\t@2@%sMock()" % (q, q)),
        ("tonl-else-if", "if %sMock() > 5 {\n\t@2@_ = %sMock()\n} else if @3@%sMock() > 1 {\n\t_ = 0\n}" % (q, q, q)),
        ("sibling-h-method", "getH().Reset()"), ("sibling-t-write", "getT().F = 11"), ("sibling-h-elided", "_ = hlist{{}, {N: 2}}"),
        ("sibling-s-method", "_ = getS().Open()"),
        # a file WITHOUT imports reaches the annotated type through an alias / a container type declared in a sibling file
        ("sibling-t-lit", "_ = sibT{}"), ("sibling-t-new", "_ = new(sibT)"), ("sibling-t-var", "var sv# sibT; _ = sv#"),
        ("sibling-t-elided", "_ = sibTs{{}, {F: 1}}"), ("sibling-t-alias-write", "var sw# *sibT = getT(); @@sw#.F = 12"),
        ("sibling-s-var", "var ss# *sibS; _ = ss#"),
    ]


T_DOCS = [
    ["// T is a value.", "// @immutable", "// @constructor NewT, MakeT"],
    ["// @immutable", "// @constructor NewT,MakeT,"],
    ["// @constructor NewT", "// @immutable trailing words", "// @constructor MakeT"],
    ["// @immutable"],
    ["// @constructor   NewT ,  MakeT   because reasons"],
    ["// T without annotations."],
    ["//@immutable", "//   @constructor NewT"],
    ["// @immutable (see also @constructor below)", "// @constructor NewT, MakeT"],
]


def gen_decl_package(W, rng, full=False):
    tdoc = T_DOCS[0] if full else rng.choice(T_DOCS)
    allow_name = "nobody" if full else rng.choice(["ok", "ok, other", "other,ok", "nobody"])
    allow_path = rng.choice(["%s/u" % W.root, "%s/bypath" % W.root, "x/y"]) if not full else "x/y"
    W.meta.update({"tdoc": tdoc, "allow_name": allow_name, "allow_path": allow_path})
    pick = (lambda opts: opts[0]) if full else rng.choice
    W.add_pkg("d")
    W.add_file("d", "types.go", [])
    W.add_file("d", "funcs.go", [])
    W.add("d", "types.go", Decl("T", ["type T struct {", "\tF   int", "\tXs  []int", "\tMp  map[string]int", "\t// Mut may change.", "\t// @mutable",
                                      "\tMut int", "\t// @mutable", "\tMutXs []int", "\tMeta", "}"], doc=tdoc))
    W.add("d", "types.go", Decl("Meta", ["type Meta struct {", "\tRev  int", "\tTags []int", "}"]))
    W.add("d", "types.go", Decl("U", ["type U struct{ G int }"], doc=["// U is ordinary."]))
    W.add("d", "types.go", Decl("H", ["type H struct{ N int }"], doc=pick([["// H helps tests.", "// @testonly"], ["// @testonly"], ["// H is ordinary now."]])))
    W.add("d", "types.go", Decl("Secret", ["type Secret struct{ V int }"],
                                doc=pick([["// @packageonly " + allow_name], ["// @packageonly"], ["// @packageonly " + allow_name, "// @packageonly " + allow_path], ["// Secret is open."]])))
    W.add("d", "funcs.go", Decl("NewT", ["func NewT() *T {", "\t/*@" + W.wid + "d-ctor-lit:exempt*/ t := &T{}", "\t/*@" + W.wid + "d-ctor-write:exempt*/ t.F = 1", "\tt.Xs = nil", "\treturn t", "}"]))
    W.add("d", "funcs.go", Decl("MakeT", ["func MakeT() T {", "\t/*@" + W.wid + "d-ctor-var:exempt*/ var t T", "\t/*@" + W.wid + "d-ctor-inc:exempt*/ t.F++", "\treturn t", "}"]))
    W.add("d", "funcs.go", Decl("Getters", ["func GetT() *T { return NewT() }", "func GetU() *U { return &U{} }", "func GetH() *H { return nil }", "func GetS() *Secret { return nil }"]))
    W.add("d", "funcs.go", Decl("Mock", ["func Mock() int { return 1 }"], doc=pick([["// Mock is for tests.", "// @testonly"], ["// @testonly extra words"], ["// Mock is ordinary."]])))
    W.add("d", "funcs.go", Decl("PlainFn", ["func PlainFn() int { return 2 }"]))
    W.add("d", "funcs.go", Decl("MockH", ["func MockH() *H { return &H{} }"], doc=pick([["// @testonly"], ["// MockH is ordinary."]])))
    W.add("d", "funcs.go", Decl("H.Fire", ["func (h H) Fire() int { return h.N }"], doc=pick([["// @testonly"], ["// Fire fires."]])))
    W.add("d", "funcs.go", Decl("InternalS", ["func InternalS() *Secret { return nil }"], doc=pick([["// @packageonly " + allow_name], ["// InternalS is open."]])))
    W.add("d", "funcs.go", Decl("Secret.Look", ["func (s Secret) Look() int { return s.V }"], doc=pick([["// @packageonly " + allow_name], ["// @packageonly"], ["// Look is open."]])))
    W.add("d", "funcs.go", Decl("H.Reset", ["func (h *H) Reset() { h.N = 0 }"], doc=pick([["// @testonly"], ["// Reset resets."]])))
    W.add("d", "funcs.go", Decl("H.Plain", ["func (h *H) Plain() {}"]))
    W.add("d", "funcs.go", Decl("Internal", ["func Internal() int { return 3 }"], doc=["// @packageonly " + allow_name]))
    W.add("d", "funcs.go", Decl("BareOnly", ["func BareOnly() int { return 4 }"], doc=["// @packageonly"]))
    W.add("d", "funcs.go", Decl("ByPath", ["func ByPath() int { return 5 }"],
                                doc=pick([["// @packageonly " + allow_path], ["// @packageonly " + allow_path + " , " + allow_name.split(",")[0].strip()]])))
    W.add("d", "funcs.go", Decl("Free", ["func Free() int { return 6 }"]))
    W.add("d", "funcs.go", Decl("Secret.Open", ["func (s *Secret) Open() int { return s.V }"],
                                doc=pick([["// @packageonly " + allow_name], ["// @packageonly"], ["// Open is open."]])))
    W.add("d", "funcs.go", Decl("Secret.Peek", ["func (s *Secret) Peek() int { return s.V }"]))
    # the same method name on another type, annotated differently: annotations are per (receiver type, method)
    W.add("d", "funcs.go", Decl("H.Open", ["func (h *H) Open() int { return h.N }"], doc=pick([["// @packageonly x/y"], ["// @packageonly " + allow_name, "// @packageonly x/y"], ["// Open is open."]])))
    W.add("d", "funcs.go", Decl("T.Set", ["func (r *T) Set(o *U) {", "\t/*@" + W.wid + "d-method-write:imm-assign*/ r.F = 5", "\t/*@" + W.wid + "d-recv-overwrite:recv*/ *r = T{}",
                                          "\t{", "\t\tr := o", "\t\t/*@" + W.wid + "d-shadow-overwrite:shadow*/ *r = U{}", "\t}", "}"]))
    W.add("d", "funcs.go", Decl("T.Val", ["func (r T) Val() int {", "\t/*@" + W.wid + "d-valrecv-write:imm-assign*/ r.F = 6", "\treturn r.F", "}"]))
    W.add("d", "funcs.go", Decl("T.Inc", ["func (r *T) Inc() {", "\t/*@" + W.wid + "d-recv-self:recv*/ *r = *r", "}"]))
    W.add("d", "types.go", Decl("TAlias", ["type TAlias = T", "type TPtrAlias = *T"]))
    W.add("d", "funcs.go", Decl("TAlias.ResetA", ["func (r *TAlias) ResetA() {", "\t/*@" + W.wid + "d-aliasrecv-overwrite:recv*/ *r = T{}", "\t/*@" + W.wid + "d-aliasrecv-write:imm-assign*/ r.F = 7", "}"]))
    W.add("d", "funcs.go", Decl("TAlias.ParenR", ["func (r *(T)) ParenR() {", "\t/*@" + W.wid + "d-parenrecv-overwrite:recv*/ *r = T{}", "}"]))
    # an unexported annotated type that importers can still instantiate and mutate without naming it
    W.add("d", "types.go", Decl("hidden", ["type hidden struct{ V int }"], doc=pick([["// @constructor newHidden", "// @immutable"], ["// @constructor newHidden"], ["// @immutable"], ["// hidden is plain."]])))
    W.add("d", "types.go", Decl("HiddenList", ["type HiddenList []hidden", "type HiddenPtrs []*hidden", "type HiddenAlias = hidden"]))
    W.add("d", "funcs.go", Decl("newHidden", ["func newHidden() *hidden { return &hidden{} }", "func GetHidden() *hidden { return newHidden() }"]))
    # a second annotated type whose constructor also touches the FIRST type: the exemption is per (function, type)
    W.add("d", "types.go", Decl("V", ["type V struct{ G int }"], doc=pick([["// @immutable", "// @constructor NewV"], ["// @constructor NewV"], ["// @immutable"]])))
    W.add("d", "funcs.go", Decl("NewV", ["func NewV(t *T, hd *hidden) *V {", "	/*@" + W.wid + "d-newv-own:exempt*/ v := &V{}", "	/*@" + W.wid + "d-newv-own-write:exempt*/ v.G = 1",
                                         "	/*@" + W.wid + "d-newv-foreign-write:imm-assign*/ t.F = 2", "	/*@" + W.wid + "d-newv-foreign-inc:imm-incdec*/ t.F++",
                                         "	/*@" + W.wid + "d-newv-foreign-lit:ctor-lit*/ _ = T{}", "	/*@" + W.wid + "d-newv-hidden-write:imm-assign*/ hd.V = 3",
                                         "	func() {", "		/*@" + W.wid + "d-newv-closure-write:imm-assign*/ t.Xs[0] = 4", "	}()", "	return v", "}"]))
    # parenthesised type groups: a member's own doc belongs to that member only; the group's doc to members without one
    W.add("d", "types.go", Decl("group1", ["type (", "	// GA is annotated.", "	// @immutable", "	// @constructor NewGA", "	// @testonly", "	GA struct{ F int }", "",
                                           "	GB struct{ F int }", "", "	// GC has a plain doc.", "	GC struct{ F int }", ")"]))
    W.add("d", "types.go", Decl("group2", ["type (", "	GD struct{ F int }", "", "	// @packageonly nobody", "	GE struct{ F int }", ")"],
                                doc=pick([["// the whole group is annotated", "// @immutable"], ["// @constructor NewGD"], ["// plain group doc"]])))
    W.add("d", "funcs.go", Decl("groupuse", ["func NewGA() *GA { return &GA{} }", "func NewGD() *GD { return &GD{} }",
                                             "func GroupUse(a *GA, b *GB, c *GC, dd *GD, e *GE) {", "	/*@" + W.wid + "d-grp-a:imm-assign*/ a.F = 1", "	/*@" + W.wid + "d-grp-b:imm-assign*/ b.F = 1",
                                             "	/*@" + W.wid + "d-grp-c:imm-assign*/ c.F = 1", "	/*@" + W.wid + "d-grp-d:imm-assign*/ dd.F = 1", "	/*@" + W.wid + "d-grp-e:imm-assign*/ e.F = 1",
                                             "	/*@" + W.wid + "d-grp-lit-a:ctor-lit*/ _ = GA{}", "	/*@" + W.wid + "d-grp-lit-b:ctor-lit*/ _ = GB{}", "	/*@" + W.wid + "d-grp-lit-d:ctor-lit*/ _ = GD{}",
                                             "	/*@" + W.wid + "d-grp-lit-e:ctor-lit*/ _ = GE{}", "}"]))
    # an unannotated method that shares its name with a @testonly function of the package
    W.add("d", "funcs.go", Decl("U.Mock", ["func (u *U) Mock() int {", "\t/*@" + W.wid + "d-method-named-like-testonly:tonl-func*/ return Mock()", "}"]))


def spelling(W, mode):
    root = W.root
    d = {"mode": mode}
    if mode == "direct":
        d.update({"q": "d.", "T": "d.T", "U": "d.U", "H": "d.H", "Secret": "d.Secret", "PT": "*d.T", "PH": "*d.H", "imports": ['"%s/d"' % root]})
    elif mode == "import-alias":
        d.update({"q": "dd.", "T": "dd.T", "U": "dd.U", "H": "dd.H", "Secret": "dd.Secret", "PT": "*dd.T", "PH": "*dd.H", "imports": ['dd "%s/d"' % root]})
    elif mode == "third-alias":
        d.update({"q": "d.", "T": "m.AT", "U": "d.U", "H": "m.AH", "Secret": "m.ASecret", "PT": "m.PT", "PH": "m.PH", "imports": ['"%s/d"' % root, '"%s/m"' % root]})
    elif mode == "local-alias":
        d.update({"q": "d.", "T": "LT", "U": "d.U", "H": "LH", "Secret": "LSecret", "PT": "LPT", "PH": "LPH", "imports": ['"%s/d"' % root], "local_aliases": True})
    elif mode == "paren":
        d.update({"q": "d.", "T": "(d.T)", "U": "d.U", "H": "(d.H)", "Secret": "(d.Secret)", "PT": "(*d.T)", "PH": "(*(d.H))", "imports": ['"%s/d"' % root]})
    elif mode == "self":
        d.update({"q": "", "T": "T", "U": "U", "H": "H", "Secret": "Secret", "PT": "*T", "PH": "*H", "imports": []})
    elif mode == "dot":
        # a dot import: the exported names of d are plain identifiers of the importing file
        d.update({"q": "", "T": "T", "U": "U", "H": "H", "Secret": "Secret", "PT": "*T", "PH": "*H", "imports": ['. "%s/d"' % root], "dot": True})
    else:
        raise ValueError(mode)
    return d


FKINDS = ["func", "func", "func", "ctorname", "method", "pkgvar", "testonlyfn"]


def spl0(sp, k):
    """the spelling of a type without parentheses (type declarations)"""
    return {"T": "d.T", "Secret": "d.Secret", "H": "d.H"}[k] if sp.get("mode") == "paren" else sp[k]


def add_user_package(W, rng, dname, pkgname, sp, nfuncs, sid_prefix, test_file=False, nfiles=1, stats=None):
    W.add_pkg(dname, pkgname)
    fnames = ["%s%d.go" % (dname, i) for i in range(nfiles)]
    if test_file:
        fnames.append("%s_test.go" % dname)
    same_names = dname == "u" and "e" in W.pkgs
    for fn in fnames:
        W.add_file(dname, fn, sp["imports"] + (['"%s/e"' % W.root] if same_names else []))
    stmts = site_statements(sp)
    q = sp["q"]
    # helpers through which a file WITHOUT imports reaches the declaring package
    W.add(dname, fnames[0], Decl("siblings", ["func getH() *%s { return %sGetH() }" % (sp["H"], q), "func getT() *%s { return %sGetT() }" % (sp["T"], q),
                                              "func getS() *%s { return %sGetS() }" % (sp["Secret"], q), "type hlist []%s" % sp["H"],
                                              "type sibT = %s" % spl0(sp, "T"), "type sibTs []%s" % spl0(sp, "T"), "type sibS = %s" % spl0(sp, "Secret")]))
    noimp = "%s_noimp.go" % dname
    W.add_file(dname, noimp, [])
    sib = [x for x in stmts if x[0].startswith("sibling-")]
    nb = []
    for tag, line in sib:
        if rng.random() < 0.7:
            sid = "%s%sn%d" % (W.wid, sid_prefix, len(nb))
            mk = "/*@%s:%s*/ " % (sid, tag)
            line = line.replace("#", "n%d" % len(nb))
            nb.append(line.replace("@@", mk) if "@@" in line else mk + line)
            if stats is not None:
                stats["tags"][tag] = stats["tags"].get(tag, 0) + 1
    W.add(dname, noimp, Decl("%sNoImp" % dname.capitalize(), ["func %sNoImp() {" % dname.capitalize()] + ["\t" + l for l in nb] + ["}"]))
    prelude = ["t := %sGetT()" % q, "tv := *t", "u := %sGetU()" % q, "h := %sGetH()" % q, "s := %sGetS()" % q, "_, _, _, _, _ = t, tv, u, h, s"]
    k = 0
    cap = dname.capitalize()
    for fi in range(nfuncs):
        fk = rng.choice(FKINDS)
        fn = rng.choice(fnames)
        body = list(prelude)
        for _ in range(rng.randint(3, 8)):
            tag, line = rng.choice(stmts)
            sid = "%s%s%d" % (W.wid, sid_prefix, k)
            k += 1
            mk = "/*@%s:%s*/ " % (sid, tag)
            line = line.replace("#", str(k))
            lines = [line.replace("@@", mk) if "@@" in line else mk + line]
            if "\n" in lines[0]:
                # a statement over several lines: further markers @2@, @3@ get their own site ids
                lines = lines[0].split("\n")
                for j in range(len(lines)):
                    for x in ("2", "3"):
                        lines[j] = lines[j].replace("@%s@" % x, "/*@%sx%s:%s*/ " % (sid, x, tag))
            depth = rng.choice([0, 0, 1, 1, 2, 3])
            nests = []
            for _ in range(depth):
                nk = rng.choice(NEST)
                nests.append(nk)
                lines = nest(nk, lines)
            if stats is not None:
                stats["tags"][tag] = stats["tags"].get(tag, 0) + 1
                stats["depth"][depth] = stats["depth"].get(depth, 0) + 1
                for nk in nests:
                    stats["nest"][nk] = stats["nest"].get(nk, 0) + 1
                stats["place"][fk + ("/test" if fn.endswith("_test.go") else "") + ("/own-pkg" if dname == "d" else "")] = \
                    stats["place"].get(fk + ("/test" if fn.endswith("_test.go") else "") + ("/own-pkg" if dname == "d" else ""), 0) + 1
            body += lines
        name = "%sF%d" % (cap, fi)
        doc = []
        pickx = rng.random()
        if fk == "ctorname" and dname != "d" and not sp.get("dot") and W.meta.get("ctor_names", True):
            # (a dot import puts NewT / MakeT of d into the file scope: a function of that name cannot be declared beside it)
            cand = [n for n in ("NewT", "MakeT") if n not in W.decl_ids(dname)]
            if cand:
                name = cand[int(pickx * len(cand))]
        if fk == "method":
            rt = "%sRecv%d" % (cap, fi)
            W.add(dname, fn, Decl(rt, ["type %s struct{}" % rt]))
            head, tail, name = "func (rc *%s) M() {" % rt, ["}"], rt + ".M"
        elif fk == "pkgvar":
            head, tail = "var %s = func() int {" % name, ["\treturn 0", "}()"]
            body = [l for l in body]
        else:
            if fk == "testonlyfn":
                doc = ["// @testonly"]
            head, tail = "func %s() {" % name, ["}"]
        if fk == "pkgvar":
            body = [l.replace("defer func() {", "func() {").replace("go func() {", "func() {") for l in body]
        W.add(dname, fn, Decl(name, [head] + ["\t" + l for l in body] + tail, doc=doc))
    spl = dict(sp)
    if sp.get("mode") == "paren":
        spl.update({"T": "d.T"})
    for tag, line in [("pkg-var-lit", "var %sG1 = %s{}" % (cap, spl["T"])), ("pkg-var-zero", "var %sG2 %s" % (cap, sp["T"])),
                      ("pkg-var-ptr", "var %sG3 *%s" % (cap, sp["T"])), ("pkg-var-h", "var %sG4 %s" % (cap, sp["H"])),
                      ("pkg-var-secret", "var %sG5 *%s" % (cap, sp["Secret"])),
                      ("pkg-field", "type %sBox struct{ f %s; g *%s }" % (cap, sp["H"], sp["Secret"])),
                      ("pkg-sig", "func %sSig(a %s, b *%s) *%s { return nil }" % (cap, sp["H"], sp["Secret"], sp["H"])),
                      # annotated types as EMBEDDED fields: the identifier names the field and uses the type
                      ("pkg-embed-secret", "type %sEmbS struct{ *%s }" % (cap, spl0(sp, "Secret"))), ("pkg-embed-h", "type %sEmbH struct{ %s; n int }" % (cap, spl0(sp, "H"))),
                      ("pkg-embed-t", "type %sEmbT struct{ %s }" % (cap, spl0(sp, "T")))]:
        if rng.random() < 0.6:
            sid = "%s%s%d" % (W.wid, sid_prefix, k)
            k += 1
            if stats is not None:
                stats["tags"][tag] = stats["tags"].get(tag, 0) + 1
            W.add(dname, rng.choice(fnames), Decl("pkglvl-" + sid, ["/*@%s:%s*/ " % (sid, tag) + line]))
    if same_names:
        # in every file: uses of e.Secret / e.H next to the uses of d's types of the same names (once-per-file reports are per
        # (package, type), not per bare name)
        for fi, fn in enumerate(fnames):
            sid = "%s%se%d" % (W.wid, sid_prefix, fi)
            W.add(dname, fn, Decl("samename-" + sid, ["/*@%sa:pkg-samename-secret*/ var %sE%da *e.Secret" % (sid, dname.capitalize(), fi),
                                                      "/*@%sb:pkg-samename-h*/ var %sE%db e.H" % (sid, dname.capitalize(), fi)]))
    if sp.get("local_aliases"):
        f0 = fnames[0]
        for a, b in (("LT", "d.T"), ("LH", "d.H"), ("LSecret", "d.Secret"), ("LPT", "*d.T"), ("LPH", "*d.H")):
            if a not in W.decl_ids(dname):
                W.add(dname, f0, Decl(a, ["type %s = %s" % (a, b)]))
    return k


def new_stats():
    return {"tags": {}, "depth": {}, "nest": {}, "place": {}, "spelling": {}, "tdoc": {}}


def add_impl_package(W):
    """three @implements annotations that are wrong in the three ways (IMPL01, IMPL02, IMPL03) and one that is right"""
    W.add_pkg("impl")
    W.add_file("impl", "impl.go", ['"%s/d"' % W.root])
    W.add("d", "types.go", Decl("Shape", ["type Shape interface {", "\tArea() int", "\tName() string", "}"]))
    W.add("impl", "impl.go", Decl("Sq1", ["type Sq1 struct{} /*@%simpl1:impl01*/" % W.wid], doc=["// @implements nosuch.Shape"]))
    W.add("impl", "impl.go", Decl("Sq2", ["type Sq2 struct{} /*@%simpl2:impl02*/" % W.wid], doc=["// @implements d.Missing"]))
    W.add("impl", "impl.go", Decl("Sq3", ["type Sq3 struct{} /*@%simpl3:impl03*/" % W.wid, "func (Sq3) Area() int { return 1 }"], doc=["// @implements d.Shape"]))
    W.add("impl", "impl.go", Decl("Sq4", ["type Sq4 struct{} /*@%simpl4:impl-ok*/" % W.wid, "func (Sq4) Area() int { return 1 }", "func (Sq4) Name() string { return \"\" }"],
                                  doc=["// @implements d.Shape"]))


def add_impl_multifile(W):
    """three files of one package bind the same import name differently (or not at all); each carries a package-qualified
    @implements that must be resolved against ITS OWN file's imports"""
    root = W.root
    for pn, meth in (("p1", "One() int"), ("p2", "Two() string")):
        W.add_pkg(pn)
        W.add_file(pn, pn + ".go", [])
        W.add(pn, pn + ".go", Decl("I", ["type I interface{ %s }" % meth, "const Anchor = 0"]))
    W.add_pkg("mf")
    W.add_file("mf", "a.go", ['dep "%s/p1"' % root])
    W.add_file("mf", "b.go", ['dep "%s/p2"' % root])
    W.add_file("mf", "c.go", [])
    W.add("mf", "a.go", Decl("D1", ["type D1 struct{} /*@%smf1:impl-ok*/" % W.wid, "func (D1) One() int { return 1 }"], doc=["// @implements dep.I"]))
    W.add("mf", "b.go", Decl("D2", ["type D2 struct{} /*@%smf2:impl-ok*/" % W.wid, "func (D2) Two() string { return \"\" }"], doc=["// @implements dep.I"]))
    W.add("mf", "c.go", Decl("D3", ["type D3 struct{} /*@%smf3:impl01*/" % W.wid], doc=["// @implements dep.I"]))
    W.pkgs["mf"]["no_move"] = True


def add_testvariant_tree(W):
    root, wid = W.root, W.wid
    # a package that exists in two type-checked instances when tests are loaded: annotations declared in its in-package
    # test file, used by its external test package, while another package imports the plain instance
    W.add_pkg("tv/a", "a")
    W.add_file("tv/a", "a.go", [])
    W.add("tv/a", "a.go", Decl("plain", ["type Plain struct{ P int }", "const Anchor = 0"]))
    W.add_file("tv/a", "export_test.go", [])
    W.add("tv/a", "export_test.go", Decl("Hid", ["type Hid struct{ F int }"], doc=["// @immutable", "// @constructor NewHid"]))
    W.add("tv/a", "export_test.go", Decl("NewHid", ["func NewHid() *Hid { return &Hid{} }"]))
    W.add("tv/a", "export_test.go", Decl("Guarded", ["func Guarded() int { return 1 }"], doc=["// @packageonly nobody"]))
    W.pkgs["tv/a"]["no_move"] = True
    W.add_pkg("tv/aext", "a_test")
    W.pkgs["tv/aext"]["dir"] = "tv/a"
    W.pkgs["tv/aext"]["no_move"] = True
    W.add_file("tv/aext", "a_ext_test.go", ['"%s/tv/a"' % root])
    W.add("tv/aext", "a_ext_test.go", Decl("extuse", ["func extuse(h *a.Hid) {", "\t/*@%stv0:tv-write*/ h.F = 1" % wid, "\t/*@%stv1:tv-lit*/ _ = a.Hid{}" % wid,
                                                      "\t/*@%stv2:tv-pkgo*/ _ = a.Guarded()" % wid, "}"]))
    W.add_pkg("tv/b", "b")
    W.add_file("tv/b", "b.go", ['"%s/tv/a"' % root])
    W.add("tv/b", "b.go", Decl("b", ["var B = a.Plain{}"]))
    W.pkgs["tv/b"]["no_move"] = True


def full_world(rng, wid, modroot="w", stats=None, full_annotations=False, spelling_mode=None, with_impl=False, ctor_names=True):
    W = World(wid, "%s/%s" % (modroot, wid))
    W.meta["ctor_names"] = ctor_names
    gen_decl_package(W, rng, full=full_annotations)
    W.add_pkg("m")
    W.add_file("m", "m.go", ['"%s/d"' % W.root])
    for a, b in (("AT", "d.T"), ("AH", "d.H"), ("ASecret", "d.Secret"), ("PT", "*d.T"), ("PH", "*d.H")):
        W.add("m", "m.go", Decl(a, ["type %s = %s" % (a, b)]))
    W.add("m", "m.go", Decl("Anchor", ["const Anchor = 0"]))
    W.add_pkg("e")
    W.add_file("e", "e.go", [])
    W.add("e", "e.go", Decl("Secret", ["type Secret struct{ W int }"], doc=["// Secret of e: another type of the same name.", "// @packageonly nobody"]))
    W.add("e", "e.go", Decl("H", ["type H struct{ M int }"], doc=["// @testonly"]))
    W.add("e", "e.go", Decl("Anchor", ["const Anchor = 0"]))
    drawn = rng.choice(["direct", "direct", "import-alias", "third-alias", "local-alias", "dot"])
    mode = spelling_mode or drawn
    sp = spelling(W, mode)
    W.meta["spelling"] = mode
    if stats is not None:
        stats["spelling"][mode] = stats["spelling"].get(mode, 0) + 1
        stats["tdoc"][" | ".join(W.meta["tdoc"])] = stats["tdoc"].get(" | ".join(W.meta["tdoc"]), 0) + 1
    add_user_package(W, rng, "u", "u", sp, rng.randint(4, 7), "u", test_file=rng.random() < 0.5, nfiles=rng.choice([1, 2, 3]), stats=stats)
    add_user_package(W, rng, "ok", "ok", spelling(W, "direct"), 2, "k", stats=stats)
    if rng.random() < 0.5:
        add_user_package(W, rng, "bypath", rng.choice(["bypath", "other"]), spelling(W, "direct"), 2, "b", stats=stats)
    add_user_package(W, rng, "d", "d", spelling(W, "self"), 3, "s", test_file=rng.random() < 0.3, stats=stats)
    if with_impl:
        add_impl_package(W)
        add_impl_multifile(W)
    add_testvariant_tree(W)
    return W


KEYWORDS = ["implements", "constructor", "immutable", "testonly", "mutable", "packageonly", "ignore"]


def near_miss(rng, line, stats=None):
    """turn an annotation line into something that mentions the keyword without being an annotation"""
    import re
    m = re.match(r"^(\s*)//\s*@(\w+)(.*)$", line)
    if not m or m.group(2) not in KEYWORDS:
        return [line]
    ind, kw, rest = m.group(1), m.group(2), m.group(3)
    kind = rng.choice(["mid-sentence", "capitalised", "upper", "longer-word", "block-comment", "split", "prefixed-word", "commented-out", "quoted", "double-slash", "triple-slash", "slash-blank-slash",
                       "block-multiline", "block-multiline-tab", "othercase-then-lower", "uppercase-then-lower",
                       "foreign-tag-then-keyword", "deprecated-tag-then-keyword", "detached-banner"])
    if stats is not None:
        stats.setdefault("near_miss", {})
        stats["near_miss"][kind] = stats["near_miss"].get(kind, 0) + 1
    out = {
        "mid-sentence": ind + "// see the @" + kw + rest + " note",
        "capitalised": ind + "// @" + kw.capitalize() + rest,
        "upper": ind + "// @" + kw.upper() + rest,
        "longer-word": ind + "// @" + kw + "s" + rest,
        "block-comment": ind + "/* @" + kw + rest + " */",
        "split": ind + "// @ " + kw + rest,
        "prefixed-word": ind + "// x@" + kw + rest if False else ind + "// not@" + kw + rest,
        "commented-out": ind + "// TODO: re-enable: // @" + kw + rest,
        "quoted": ind + "// the line \"// @" + kw + rest + "\" used to be here",
        "double-slash": ind + "// // @" + kw + rest,
        "triple-slash": ind + "/// @" + kw + rest,
        "slash-blank-slash": ind + "// / @" + kw + rest,
        # a block doc comment one of whose inner lines, taken alone, would be an annotation line
        "block-multiline": ind + "/*\n" + ind + "// @" + kw + rest + "\n" + ind + "*/",
        "block-multiline-tab": ind + "/* the old form was\n" + ind + "\t// @" + kw + rest + "\n" + ind + "   and is gone */",
        # the keyword in another case where the grammar wants it, and in the right case only later in the line
        "othercase-then-lower": ind + "// @" + kw.capitalize() + rest + " was the old tag; \"@" + kw + rest + "\" is not used any more",
        "uppercase-then-lower": ind + "// @" + kw.upper() + rest + " (now spelled @" + kw + ")",
        # a line that opens with another tool's @tag and mentions the keyword later
        "foreign-tag-then-keyword": ind + "// @Description written as a @" + kw + rest + " helper for the tests",
        "deprecated-tag-then-keyword": ind + "// @deprecated prefer the @" + kw + rest + " form",
        # a free-standing banner that begins with the keyword, detached from the declaration by a blank line
        "detached-banner": ind + "// @" + kw + rest + " and friends are the markers we may want here one day\n",
    }[kind]
    return out.split("\n")


def nearmiss_world(rng, wid, modroot="w", stats=None):
    """a fully annotated world in which every annotation is replaced by a near-miss or moved to an inert placement"""
    W = full_world(rng, wid, modroot, stats=stats, full_annotations=True, with_impl=True)
    for pk in W.pkgs.values():
        for f in pk["files"].values():
            for dec in f["decls"]:
                newdoc = []
                trailing = []
                for l in dec.doc:
                    if "@" in l and rng.random() < 0.25:
                        # inert placement: a trailing comment on the declaration's first line, or a detached comment
                        if rng.random() < 0.5 and not dec.lines[0].rstrip().endswith("{"):
                            trailing.append(l.strip())
                        else:
                            newdoc = [l, ""] + newdoc
                        if stats is not None:
                            stats.setdefault("near_miss", {})
                            stats["near_miss"]["inert-placement"] = stats["near_miss"].get("inert-placement", 0) + 1
                    else:
                        newdoc += near_miss(rng, l, stats)
                dec.doc = newdoc
                if trailing:
                    dec.lines = [dec.lines[0] + " " + trailing[0]] + dec.lines[1:]
                dec.lines = [x for l in dec.lines for x in (near_miss(rng, l, stats) if l.strip().startswith("//") else [l])]
    # annotations on local declarations
    W.add("u", sorted(W.pkgs["u"]["files"])[0], Decl("localAnnotated", ["func localAnnotated() {", "\t// @immutable", "\t// @constructor nope", "\ttype lt struct{ F int }",
                                                                       "\tv := lt{}", "\tv.F = 1", "\t_ = v", "}"]))
    W.add("u", sorted(W.pkgs["u"]["files"])[0], Decl("localInClosure", ["var localInClosure = func() int {", "\t// @immutable", "\t// @constructor nope", "\t// @testonly", "\ttype acc struct{ F int }",
                                                                         "\tv := acc{}", "\tv.F = 1", "\tv.F++", "\treturn v.F", "}()"]))
    return W


def c14_world(rng, wid, modroot="w", stats=None):
    """a world whose excluded files (by path entry, by directory, _test.go in-package and external) carry annotations,
    @ignore comments and violations that WOULD matter if they were read"""
    W = full_world(rng, wid, modroot, stats=stats, full_annotations=True)
    root = W.root
    # an excluded-by-name file inside the declaring package
    W.add_file("d", "zz_generated.go", [])
    W.add("d", "zz_generated.go", Decl("GenT", ["type GenT struct{ F int }"], doc=["// @immutable", "// @constructor NewGenT"]))
    W.add("d", "zz_generated.go", Decl("NewGenT", ["func NewGenT() *GenT { return &GenT{} }"]))
    W.add("d", "zz_generated.go", Decl("GenMock", ["func GenMock() int { return 1 }"], doc=["// @testonly"]))
    W.add("d", "zz_generated.go", Decl("GenInternal", ["func GenInternal() int { return 2 }"], doc=["// @packageonly nobody"]))
    W.add("d", "zz_generated.go", Decl("GenWrites", ["func GenWrites(t *T) {", "/*@%sg0:imm-assign*/ \tt.F = 1" % wid, "/*@%sg1:ctor-lit*/ \t_ = T{}" % wid, "}"]))
    # a package in an excluded directory
    W.add_pkg("gen")
    W.add_file("gen", "g.go", ['"%s/d"' % root])
    W.add("gen", "g.go", Decl("G", ["func G(t *d.T) {", "/*@%sg2:imm-assign*/ \tt.F = 9" % wid, "/*@%sg3:ctor-lit*/ \t_ = d.T{}" % wid, "/*@%sg4:tonl-func*/ \t_ = d.Mock()" % wid, "}"]))
    W.add("gen", "g.go", Decl("GenLocal", ["type GenLocal struct{ V int }"], doc=["// @immutable"]))
    # users of the excluded file's items, in ordinary files
    W.add_file("u", "uses_gen.go", ['"%s/d"' % root])
    W.add("u", "uses_gen.go", Decl("UsesGen", ["func UsesGen() {", "\tg := d.NewGenT()", "/*@%sg5:imm-assign*/ \tg.F = 3" % wid, "/*@%sg6:ctor-lit*/ \t_ = d.GenT{}" % wid,
                                               "/*@%sg7:tonl-func*/ \t_ = d.GenMock()" % wid, "/*@%sg8:pkgo-func*/ \t_ = d.GenInternal()" % wid, "}"]))
    # an @ignore in an excluded file must not leak; an annotated type declared in an in-package test file
    W.add_file("u", "u_extra_test.go", ['"%s/d"' % root])
    W.add("u", "u_extra_test.go", Decl("TT", ["type TT struct{ F int }"], doc=["// @immutable"]))
    W.add("u", "u_extra_test.go", Decl("useTT", ["func useTT(tt *TT, t *d.T) {", "/*@%sg9:imm-assign*/ \ttt.F = 1" % wid, "/*@%sg10:imm-assign*/ \tt.F = 2" % wid,
                                                 "/*@%sg11:tonl-func*/ \t_ = d.Mock()" % wid, "}"]))
    # an external test package
    W.add_pkg("uext", "u_test")
    W.pkgs["uext"]["dir"] = "u"
    W.add_file("uext", "u_ext_test.go", ['"%s/d"' % root])
    W.add("uext", "u_ext_test.go", Decl("extUse", ["func extUse(t *d.T) {", "/*@%sg12:imm-assign*/ \tt.F = 4" % wid, "/*@%sg13:ctor-lit*/ \t_ = d.T{}" % wid,
                                                   "/*@%sg14:tonl-func*/ \t_ = d.Mock()" % wid, "/*@%sg15:pkgo-func*/ \t_ = d.Internal()" % wid, "}"]))
    return W


# ------------------------------------------------------------------------------------------------
# rendering

ANCHORS = {"unsafe": "Sizeof(0)", "e": "Anchor", "d": "Free", "m": "Anchor", "p1": "Anchor", "p2": "Anchor", "api": "GetT", "a": "Anchor"}


def render(W, outdir, rng=None, layout=None, edit=None):
    """writes the world under outdir/<wid>/...; returns ({site id: (relative file, line, tag)}, [relative files]).
    layout: {"permute": bool, "move": bool, "blank": bool}; edit(relfile, lines) -> lines may rewrite a file."""
    layout = layout or {}
    sites, files = {}, []
    for d, pk in W.pkgs.items():
        d = pk.get("dir", d)
        pdir = os.path.join(outdir, W.wid, d)
        os.makedirs(pdir, exist_ok=True)
        fmap = {fn: list(f["decls"]) for fn, f in pk["files"].items()}
        normal = [fn for fn in sorted(fmap) if not fn.endswith("_test.go")]
        all_imps = set()
        for f in pk["files"].values():
            all_imps |= set(f["imports"])
        if layout.get("swapfiles") and len(normal) >= 2:
            # the files of the package exchange their whole contents (imports and declarations): file order changes
            rev = dict(zip(normal, reversed(normal)))
            pk = dict(pk)
            pk["files"] = {rev.get(fn, fn): f for fn, f in pk["files"].items()}
            fmap = {fn: list(f["decls"]) for fn, f in pk["files"].items()}
        if layout.get("move") and rng is not None and len(normal) >= 2 and not pk.get("no_move"):
            for fn in normal:
                for dec in list(fmap[fn]):
                    if rng.random() < 0.35:
                        fmap[fn].remove(dec)
                        fmap[rng.choice(normal)].append(dec)
        for fn in sorted(pk["files"]):
            f = pk["files"][fn]
            decls = list(fmap[fn])
            if layout.get("permute") and rng is not None:
                rng.shuffle(decls)
            lines = ["package %s" % pk["name"], ""]
            imps = sorted(all_imps if (layout.get("move") and not pk.get("no_move")) else set(f["imports"]))
            if imps:
                lines += ["import ("] + ["\t" + i for i in imps] + [")", ""]
                for i in imps:
                    path = i.split(" ")[-1].strip('"')
                    alias = i.split(" ")[0] if " " in i else path.split("/")[-1]
                    lines.append("var _ = %s%s" % ("" if alias == "." else alias + ".", ANCHORS[path.split("/")[-1]]))
                lines.append("")
            for dec in decls:
                if layout.get("blank") and rng is not None:
                    for _ in range(rng.randint(0, 3)):
                        lines.append(rng.choice(["", "// an ordinary comment", "// mentions @immutable mid-sentence", "/* a block comment */", ""]))
                    lines.append("")
                if layout.get("unrelated_ignores") and rng is not None and rng.random() < 0.25 and not dec.doc:
                    # an @ignore of an unknown code: creates a scoped marker without changing any verdict
                    lines.append(rng.choice(["// @ignore X9", "// @ignore X9", "// @ignore IMM01", "// @ignore CTOR", "// @ignore TONL02, PKGO"]))
                lines += dec.doc
                pkg_ign = layout.get("pkg_ignores") and dec.id.startswith("pkglvl-") and len(dec.lines) == 1 and zlib.crc32(dec.id.encode()) % 3 == 0
                for l in dec.lines:
                    if pkg_ign:
                        # a trailing @ignore on a one-line top-level declaration (the same declarations in every rendering of the IR)
                        l = l + " // @ignore ALL"
                    lines.append(l)
                    if layout.get("blank") and rng is not None and rng.random() < 0.08 and l.rstrip().endswith(("{", "}", ";")) and "/*@" not in l:
                        lines.append("\t// interleaved ordinary comment")
                lines.append("")
            rel = os.path.join(W.wid, d, fn)
            if layout.get("rename"):
                import re as _re
                ren = {"t": "alpha9", "tv": "beta9", "u": "gamma9", "h": "delta9", "s": "eps9", "rc": "recv9", "r": "rho9", "o": "omi9", "x": "xi9", "i": "iota9"}
                hdr = 0
                for j, l in enumerate(lines):
                    if l.startswith(("package ", "import ", "\t\"", ")", "var _ =")) or l.strip().startswith("//") or (l.strip().startswith('"') and l.strip().endswith('"')):
                        continue
                    parts = _re.split(r"(/\*@.*?\*/)", l)
                    for pi in range(0, len(parts), 2):
                        parts[pi] = _re.sub(r"(?<![\w.\"/])(" + "|".join(ren) + r")(?![\w\"/])", lambda m: ren[m.group(1)], parts[pi])
                    lines[j] = "".join(parts)
            if edit is not None:
                lines = edit(rel, lines)
            for i, l in enumerate(lines, 1):
                p = l.find("/*@")
                if p >= 0:
                    tag = l[p + 3:l.index("*/", p)]
                    sites[tag.split(":")[0]] = (rel, i, tag.split(":", 1)[1] if ":" in tag else "")
            with open(os.path.join(pdir, fn), "w") as fh:
                fh.write("\n".join(lines) + "\n")
            files.append(rel)
    return sites, files


def write_module(outdir, modroot="w"):
    os.makedirs(outdir, exist_ok=True)
    with open(os.path.join(outdir, "go.mod"), "w") as f:
        f.write("module %s\n\ngo 1.25\n" % modroot)
