"""Worlds for C06 / C11: the usual world (declaring package d, aliases m, users) plus an import DAG of depth >= 2 in which
annotated values flow through an intermediate package's API into a package that does NOT import the declaring package,
two packages of the same name at different paths that are both on an allow-list by name, and annotation values that
sweep the grammar (empty lists, duplicate lines, 50-name lists, paths with dots / dashes / slashes)."""
import worldgen
from worldgen import Decl


def dag_world(rng, wid, modroot="w", stats=None, **kw):
    W = worldgen.full_world(rng, wid, modroot, stats=stats, full_annotations=True, with_impl=True)
    root = W.root
    # grammar sweep on items of the declaring package
    names = ", ".join("N%d" % i for i in range(50))
    W.add("d", "types.go", Decl("Wide", ["type Wide struct{ F int }"], doc=["// @constructor " + names, "// @constructor NewWide,NewWide", "// @constructor NewWide", "// @immutable", "// @immutable"]))
    W.add("d", "funcs.go", Decl("NewWide", ["func NewWide() *Wide { return &Wide{} }", "func N49() *Wide { w := &Wide{}; w.F = 1; return w }"]))
    W.add("d", "funcs.go", Decl("Paths", ["func Paths() int { return 7 }"], doc=["// @packageonly a-b.c/d_e , x.y/z-1,client", "// @packageonly", "// @packageonly %s/v1/client" % root]))
    W.add("d", "funcs.go", Decl("ByName", ["func ByName() int { return 8 }"], doc=["// @packageonly client"]))
    W.add("d", "funcs.go", Decl("EmptyList", ["func EmptyList() int { return 9 }"], doc=["// @packageonly ,", "// @constructor"]))
    # the intermediate package re-exports annotated things through its API
    W.add_pkg("api")
    W.add_file("api", "api.go", ['"%s/d"' % root])
    W.add("api", "api.go", Decl("api", ["type Wrap struct {", "\tT *d.T", "\tH d.H", "\tS *d.Secret", "}", "type AT = d.T", "type AH = d.H",
                                        "func GetT() *d.T { return d.GetT() }", "func GetH() *d.H { return d.GetH() }", "func GetS() *d.Secret { return d.GetS() }",
                                        "func GetWide() *d.Wide { return d.NewWide() }", "func NewWrap() *Wrap { return &Wrap{T: d.GetT()} }"]))
    # a package that reaches the annotated types only through api: it does not import d
    W.add_pkg("far")
    W.add_file("far", "far.go", ['"%s/api"' % root])
    W.add("far", "far.go", Decl("Far", ["func Far() {", "\t/*@%sfar0:far-write*/ api.GetT().F = 1" % wid, "\tw := api.NewWrap()", "\t/*@%sfar1:far-inc*/ w.T.F++" % wid,
                                        "\t/*@%sfar2:far-method*/ api.GetH().Reset()" % wid, "\t/*@%sfar3:far-lit*/ _ = api.AT{}" % wid, "\t/*@%sfar4:far-var*/ var x api.AH; _ = x" % wid,
                                        "\t/*@%sfar5:far-pkgo*/ _ = api.GetS().Open()" % wid, "\t/*@%sfar6:far-wide*/ api.GetWide().F = 2" % wid, "}"]))
    W.pkgs["far"]["no_move"] = True
    # ... and one that imports both
    W.add_pkg("near")
    # "unsafe" is the one import for which no driver under go vet has a fact file; it sorts before the module's packages
    W.add_file("near", "near.go", ['"unsafe"', '"%s/api"' % root, '"%s/d"' % root])
    W.add("near", "near.go", Decl("Near", ["func Near() {", "\t/*@%snear0:near-write*/ api.GetT().F = 1" % wid, "\t/*@%snear1:near-method*/ api.GetH().Reset()" % wid,
                                           "\t/*@%snear2:near-lit*/ _ = api.AT{}" % wid, "\t/*@%snear3:near-wide*/ _ = d.Wide{}" % wid, "\t/*@%snear4:near-paths*/ _ = d.Paths()" % wid,
                                           "\t/*@%snear5:near-byname*/ _ = d.ByName()" % wid, "\t/*@%snear6:near-emptylist*/ _ = d.EmptyList()" % wid, "}"]))
    W.pkgs["near"]["no_move"] = True
    # two packages of the same name
    for v in ("v1", "v2"):
        pd = "%s/client" % v
        W.add_pkg(pd, "client")
        W.add_file(pd, "client.go", ['"%s/d"' % root])
        W.add(pd, "client.go", Decl("Use", ["func Use() {", "\t/*@%s%s0:client-byname*/ _ = d.ByName()" % (wid, v), "\t/*@%s%s1:client-paths*/ _ = d.Paths()" % (wid, v),
                                            "\t/*@%s%s2:client-internal*/ _ = d.Internal()" % (wid, v), "}"]))
        W.pkgs[pd]["no_move"] = True
    # (the package with two type-checked instances, tv/a, is part of every full world: worldgen.add_testvariant_tree)
    return W
