#!/bin/bash
# checks/replay.sh <replay file>: re-runs the recorded input against the implementation and the model
cd "$(dirname "$0")/.."
exec python3 checks/replay.py "$@"
