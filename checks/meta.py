"""Metamorphic machinery shared by C12 (layout) and C13 (spelling): one IR rendered several ways, diagnostics of the real
binary compared by site id (unkeyed codes) and by (using package, type) for the once-per-file codes."""
import os, random, re, shutil
import lib, worlds, worldgen

KEYED = ("TONL01", "PKGO01")


def keyed_name(d):
    m = re.search(r"type (\w+) is marked @testonly", d["message"]) or re.search(r"\] (\w+) type is @packageonly", d["message"])
    return m.group(1) if m else "?"


def normalise(diags, sites):
    by_pos = {(f, l): sid for sid, (f, l, tag) in sites.items()}
    unkeyed, keyed, unmarked = set(), set(), []
    for d in diags:
        if d["code"] in KEYED:
            keyed.add(("/".join(d["file"].split("/")[:2]), d["code"], keyed_name(d)))
            continue
        sid = by_pos.get((d["file"], d["line"]))
        if sid is None:
            unmarked.append((d["file"], d["line"], d["code"]))
        else:
            unkeyed.add((sid, d["code"]))
    return unkeyed, keyed, unmarked


def render_set(ctx, seeds, variants, gen_kw_of_variant, layout_of_variant, n, salt):
    """returns {variant: (root, sites)}; world i is generated from the same seed in every variant"""
    out = {}
    base = lib.scratch_dir()
    for v in variants:
        root = os.path.join(base, "v%s" % v, "m")
        worldgen.write_module(root, "w")
        sites = {}
        for i in range(n):
            rng = random.Random("%s/%s/%d" % (ctx.seed, salt, i))
            W = worldgen.full_world(rng, "w%04d" % i, "w", **gen_kw_of_variant(v, i))
            lrng = random.Random("%s/%s/%d/%s" % (ctx.seed, salt, i, v))
            s, _ = worldgen.render(W, root, lrng, layout=layout_of_variant(v, i))
            sites.update(s)
        out[v] = (root, sites)
    return out, base


def gofmt(ctx, root):
    exe = os.path.join(lib.GO125, "gofmt")
    if os.path.exists(exe):
        lib.sh([exe, "-w", root], env=ctx.env)
        return True
    return False


def reread_sites(root):
    sites = {}
    for dp, _, fs in os.walk(root):
        for f in fs:
            if f.endswith(".go"):
                rel = os.path.relpath(os.path.join(dp, f), root)
                for i, l in enumerate(open(os.path.join(dp, f)).read().split("\n"), 1):
                    p = l.find("/*@")
                    if p >= 0:
                        e = l.index("*/", p)
                        tag = l[p + 3:e]
                        # gofmt puts a marker that led a declaration (or followed a `;`) on its own line / at the end of
                        # the previous line: the marked statement is then on the next line
                        midline = tag.split(":", 1)[-1] in ("imm-nested-sel", "imm-local-copy", "ptralias-write", "ptralias-inc", "ptralias-method", "ptralias-closure",
                                                             "sibling-t-alias-write", "pkgo-promoted-method", "pkgo-promoted-method-value",
                                                             "tonl-promoted-method", "tonl-promoted-value-method", "tonl-promoted-explicit", "imm-embedding-outer")
                        alone = not l[:p].strip() and not l[e + 2:].strip()
                        line = i + 1 if (alone or (midline and not l[e + 2:].strip())) else i
                        sites[tag.split(":")[0]] = (rel, line, tag.split(":", 1)[1] if ":" in tag else "")
    return sites


def world_sources(root, wid):
    return {os.path.relpath(os.path.join(dp, f), root): open(os.path.join(dp, f)).read()
            for dp, _, fs in os.walk(os.path.join(root, wid)) for f in fs}
