#!/bin/bash
# checks/check.sh <property id> <quick|thorough>
cd "$(dirname "$0")/.."
exec python3 checks/check.py "$@"
