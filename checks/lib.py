#!/usr/bin/env python3
"""Shared machinery of the checks: build cache keyed by the repository's tree hash, the Coq obligation
runner, evidence / replay / known-findings handling.  See DESIGN.md section 2.3 for the verdict logic."""
import fcntl, glob, hashlib, json, os, random, re, shutil, subprocess, sys, tempfile, time

VERIF = os.path.dirname(os.path.dirname(os.path.abspath(__file__)))
REPO = os.environ.get("VERIF_REPO", "/repo")
CACHE = os.path.join(VERIF, ".cache")
GO125 = "/root/go/pkg/mod/golang.org/toolchain@v0.0.1-go1.25.0.linux-amd64/bin"
NCPU = os.cpu_count() or 4


def go_env():
    env = dict(os.environ)
    if os.path.isdir(GO125):
        env["PATH"] = GO125 + ":" + env.get("PATH", "")
        env["GOTOOLCHAIN"] = "local"
    else:
        env.pop("GOTOOLCHAIN", None)
    env["GOFLAGS"] = "-mod=mod"
    env["GOPROXY"] = "off"
    env.pop("GOSUMDB", None)
    env.pop("GOGREEMENT_ENV_ONLY", None)
    for k in list(env):
        if k.startswith("GOGREEMENT_"):
            env.pop(k)
    return env


def sh(cmd, cwd=None, env=None, timeout=1200, inp=None, check=False):
    """Run a command, return (rc, stdout, stderr)."""
    # own session: on a timeout the whole process group goes (go vet starts one tool process per package)
    p = subprocess.Popen(cmd, cwd=cwd, env=env, stdin=subprocess.PIPE if inp is not None else subprocess.DEVNULL, stdout=subprocess.PIPE, stderr=subprocess.PIPE,
                         text=True, shell=isinstance(cmd, str), start_new_session=True)
    try:
        out, err = p.communicate(inp, timeout=timeout)
        rc = p.returncode
    except subprocess.TimeoutExpired:
        import signal
        try:
            os.killpg(p.pid, signal.SIGKILL)
        except OSError:
            pass
        try:
            out, _ = p.communicate(timeout=20)
        except Exception:
            out = ""
        rc, out, err = 124, out or "", "TIMEOUT"
    if check and rc != 0:
        raise RuntimeError("command failed (%s): %s\n%s\n%s" % (rc, cmd, out[-2000:], err[-4000:]))
    return rc, out, err


def tree_hash(repo):
    h = hashlib.sha256()
    files = []
    for root, dirs, fs in os.walk(repo):
        dirs[:] = [d for d in dirs if d not in (".git", "testdata", "book", "node_modules")]
        for f in fs:
            if (f.endswith(".go") and not f.endswith("_test.go")) or f in ("go.mod", "go.sum"):
                files.append(os.path.join(root, f))
    for f in sorted(files):
        h.update(os.path.relpath(f, repo).encode())
        h.update(b"\0")
        with open(f, "rb") as fh:
            h.update(fh.read())
        h.update(b"\0")
    # the framework's own sources are part of the key too (harness, coq, ocaml)
    for pat in ("harness/cmd/ggx/*.go", "harness/go.mod", "coq/_CoqProject", "coq/theories/**/*.v", "ocaml/*.ml"):
        for f in sorted(glob.glob(os.path.join(VERIF, pat), recursive=True)):
            if f.endswith("theories/Extracted.v"):
                continue
            h.update(os.path.relpath(f, VERIF).encode())
            with open(f, "rb") as fh:
                h.update(fh.read())
    return h.hexdigest()[:20]


class Ctx:
    pass


def _build_coq(coqdir, log):
    """Full .vo build (never -vos/-vok); keeps going so that one failed obligation does not hide the others."""
    rc, out, err = sh("coq_makefile -f _CoqProject -o Makefile > /dev/null && timeout 3000 make -k -j%d 2>&1" % NCPU, cwd=coqdir, timeout=3100)
    with open(log, "w") as f:
        f.write(out + err)
    return rc


def _build_ocaml(coqdir, ocamldir, log):
    os.makedirs(ocamldir, exist_ok=True)
    rc, out, err = sh("timeout 600 coqc -Q %s/theories GG %s/theories/Extract.v 2>&1" % (coqdir, coqdir), cwd=ocamldir)
    lg = out + err
    if rc == 0:
        shutil.copy(os.path.join(VERIF, "ocaml", "main.ml"), os.path.join(ocamldir, "main.ml"))
        rc, out, err = sh("ocamlfind ocamlopt -O2 -w -a -package str,unix -linkpkg model.mli model.ml main.ml -o modelrun 2>&1", cwd=ocamldir)
        lg += out + err
    with open(log, "w") as f:
        f.write(lg)
    return rc


FORBIDDEN = re.compile(r"\b(Admitted|admit|Axiom|Axioms|Parameter|Parameters|Conjecture|Hypothesis|Variable)\b|Unset\s+Guard|bypass_check|Admit\s+Obligations|type-in-type|impredicative-set")


def hygiene_scan(coqdir):
    """No Admitted/admit/Axiom/Parameter/Conjecture, no switched-off kernel checks, anywhere in the development.
    Variable/Hypothesis are allowed inside sections only (checked by nesting)."""
    bad = []
    for f in sorted(glob.glob(os.path.join(coqdir, "theories", "**", "*.v"), recursive=True)):
        depth = 0
        txt = open(f, encoding="utf8", errors="replace").read()
        txt = re.sub(r'"(?:[^"]|"")*"', lambda m: '""' + "\n" * m.group(0).count("\n"), txt)
        txt = re.sub(r"\(\*.*?\*\)", lambda m: "\n" * m.group(0).count("\n"), txt, flags=re.S)
        for ln, line in enumerate(txt.split("\n"), 1):
            if re.match(r"\s*Section\s+\w+", line):
                depth += 1
            if re.match(r"\s*End\s+\w+", line) and depth > 0:
                depth -= 1
            for m in FORBIDDEN.finditer(line):
                w = m.group(0)
                if w in ("Variable", "Hypothesis") and depth > 0:
                    continue
                bad.append("%s:%d: %s" % (os.path.relpath(f, coqdir), ln, w))
    return bad


def prepare(need_coq=True):
    """Build (or reuse) everything that depends on the repository's current working tree."""
    os.makedirs(CACHE, exist_ok=True)
    ctx = Ctx()
    ctx.repo = REPO
    ctx.t0 = time.time()
    ctx.tier = os.environ.get("VERIF_TIER", "quick")
    ctx.seed = int(os.environ.get("VERIF_SEED", "20260926"))
    lock = open(os.path.join(CACHE, "lock"), "w")
    fcntl.flock(lock, fcntl.LOCK_EX)
    try:
        h = tree_hash(REPO)
        d = os.path.join(CACHE, h)
        ctx.cache = d
        ctx.hash = h
        ok_marker = os.path.join(d, "OK")
        if not os.path.exists(ok_marker):
            if os.path.isdir(d):
                shutil.rmtree(d)
            os.makedirs(d)
            env = go_env()
            # 1. the real binary
            rc, out, err = sh(["go", "build", "-o", os.path.join(d, "gogreement"), "./cmd/gogreement"], cwd=REPO, env=env)
            ctx.build_error = None
            if rc != 0:
                open(os.path.join(d, "build_error.txt"), "w").write(out + err)
            # 2. the harness, linked against this tree
            mod = open(os.path.join(VERIF, "harness", "go.mod")).read().replace("=> /repo", "=> " + REPO)
            open(os.path.join(d, "harness.mod"), "w").write(mod)
            shutil.copy(os.path.join(REPO, "go.sum"), os.path.join(d, "harness.sum"))
            rc2, out2, err2 = sh(["go", "build", "-modfile", os.path.join(d, "harness.mod"), "-o", os.path.join(d, "ggx"), "./cmd/ggx"],
                                 cwd=os.path.join(VERIF, "harness"), env=env)
            if rc2 != 0:
                open(os.path.join(d, "build_error.txt"), "a").write(out2 + err2)
            # 3. the data translator
            if rc2 == 0:
                rc3, out3, err3 = sh([os.path.join(d, "ggx"), "extract-data", "-repo", REPO, "-o", os.path.join(d, "Extracted.v")], env=env)
                if rc3 != 0:
                    open(os.path.join(d, "build_error.txt"), "a").write(out3 + err3)
            # 4. Coq + OCaml: reuse /verif/coq when Extracted.v is unchanged, else rebuild a copy
            base = os.path.join(VERIF, "coq")
            ex_new = os.path.join(d, "Extracted.v")
            ex_old = os.path.join(base, "theories", "Extracted.v")
            same = os.path.exists(ex_new) and os.path.exists(ex_old) and open(ex_new).read() == open(ex_old).read()
            if same:
                _build_coq(base, os.path.join(d, "coq_build.log"))
                if not os.path.exists(os.path.join(VERIF, "ocaml", "_build", "modelrun")) or \
                        os.path.getmtime(os.path.join(VERIF, "ocaml", "_build", "modelrun")) < max(
                            [os.path.getmtime(f) for f in glob.glob(os.path.join(base, "theories", "**", "*.v"), recursive=True)] +
                            [os.path.getmtime(os.path.join(VERIF, "ocaml", "main.ml"))]):
                    _build_ocaml(base, os.path.join(VERIF, "ocaml", "_build"), os.path.join(d, "ocaml_build.log"))
                open(os.path.join(d, "coqdir"), "w").write(base)
                open(os.path.join(d, "modelrun_path"), "w").write(os.path.join(VERIF, "ocaml", "_build", "modelrun"))
            else:
                cd = os.path.join(d, "coq")
                shutil.copytree(base, cd, ignore=shutil.ignore_patterns("*.vo", "*.vok", "*.vos", "*.glob", "*.aux", ".*.aux", "Makefile*", ".Makefile*", "*.d"))
                if os.path.exists(ex_new):
                    shutil.copy(ex_new, os.path.join(cd, "theories", "Extracted.v"))
                _build_coq(cd, os.path.join(d, "coq_build.log"))
                _build_ocaml(cd, os.path.join(d, "ocaml"), os.path.join(d, "ocaml_build.log"))
                open(os.path.join(d, "coqdir"), "w").write(cd)
                mr = os.path.join(d, "ocaml", "modelrun")
                if not os.path.exists(mr):
                    # the model itself no longer compiles against the new tables: fall back to the baseline
                    # model for the search, the obligation failure is reported by coq_property
                    mr = os.path.join(VERIF, "ocaml", "_build", "modelrun")
                open(os.path.join(d, "modelrun_path"), "w").write(mr)
            open(os.path.join(d, "extracted_same"), "w").write("1" if same else "0")
            open(ok_marker, "w").write(time.strftime("%F %T"))
            # keep only the two most recent tree hashes
            ds = sorted([x for x in glob.glob(os.path.join(CACHE, "*")) if os.path.isdir(x)], key=os.path.getmtime)
            for old in ds[:-2]:
                if old != d:
                    shutil.rmtree(old, ignore_errors=True)
        ctx.gg = os.path.join(d, "gogreement")
        ctx.ggx = os.path.join(d, "ggx")
        ctx.coqdir = open(os.path.join(d, "coqdir")).read().strip()
        ctx.modelrun = open(os.path.join(d, "modelrun_path")).read().strip()
        ctx.extracted_same = open(os.path.join(d, "extracted_same")).read().strip() == "1"
        be = os.path.join(d, "build_error.txt")
        ctx.build_error = open(be).read() if os.path.exists(be) else None
    finally:
        fcntl.flock(lock, fcntl.LOCK_UN)
        lock.close()
    ctx.env = go_env()
    return ctx


# ------------------------------------------------------------------------------------------------
# Coq obligations of one property

def coq_property(ctx, pid):
    """Re-check theories/Properties/<pid>.v against the current build; parse Print Assumptions."""
    coqdir = ctx.coqdir
    src = os.path.join(coqdir, "theories", "Properties", pid + ".v")
    res = {"file": src, "ok": False, "theorems": [], "closed": 0, "axioms": [], "failed_theorem": None, "log": ""}
    if not os.path.exists(src):
        res["log"] = "missing " + src
        return res
    txt = open(src).read()
    res["theorems"] = re.findall(r"^\s*Theorem\s+(\w+)", txt, flags=re.M)
    examples = re.findall(r"^\s*Example\s+(\w+)", txt, flags=re.M)
    res["examples"] = examples
    bad = hygiene_scan(coqdir)
    if bad:
        res["log"] = "forbidden constructs: " + "; ".join(bad[:10])
        res["hygiene"] = bad
        return res
    # dependencies must have been built by prepare (make -k); compile the property file itself here, into a private
    # output file and under the build lock (another check may be rebuilding the shared .vo files)
    outdir = os.path.join(ctx.cache, "props", str(os.getpid()))
    os.makedirs(outdir, exist_ok=True)
    outvo = os.path.join(outdir, "%s.vo" % pid)
    cmd = ("timeout 900 coqc -q -Q theories GG -w -notation-overridden,-deprecated-hint-without-locality,-deprecated-syntactic-definition,-ambiguous-paths "
           "-o %s theories/Properties/%s.v 2>&1" % (outvo, pid))
    for attempt in (1, 2):
        lock = open(os.path.join(CACHE, "lock"), "w")
        fcntl.flock(lock, fcntl.LOCK_EX)
        try:
            rc, out, err = sh(cmd, cwd=coqdir, timeout=1000)
        finally:
            fcntl.flock(lock, fcntl.LOCK_UN)
            lock.close()
        log = out + err
        if rc == 0 and log.count("Closed under the global context") > 0:
            break
        time.sleep(2)
    shutil.rmtree(outdir, ignore_errors=True)
    res["log"] = log[-6000:]
    res["closed"] = log.count("Closed under the global context")
    ax = re.findall(r"^Axioms:\n((?:.+\n)+)", log, flags=re.M)
    res["axioms"] = sorted(set(a.strip() for blk in ax for a in blk.split("\n") if a.strip() and ":" in a))
    n_print = len(re.findall(r"^\s*Print Assumptions", txt, flags=re.M))
    res["print_assumptions"] = n_print
    if rc != 0:
        m = re.search(r'line (\d+), characters', log)
        if m:
            ln = int(m.group(1))
            last = None
            for i, line in enumerate(txt.split("\n"), 1):
                mm = re.match(r"\s*(Theorem|Example|Lemma)\s+(\w+)", line)
                if mm and i <= ln:
                    last = mm.group(2)
            res["failed_theorem"] = last
        else:
            res["failed_theorem"] = "(a dependency of %s.v failed to build; see %s/coq_build.log)" % (pid, ctx.cache)
        return res
    res["ok"] = (n_print >= len(res["theorems"])) and (res["closed"] + (1 if res["axioms"] else 0) >= 1) and \
                (res["closed"] == n_print or bool(res["axioms"]))
    return res


# ------------------------------------------------------------------------------------------------
# evidence, replays, known findings

def load_known():
    p = os.path.join(VERIF, "known_findings.jsonl")
    out = []
    if os.path.exists(p):
        for line in open(p):
            line = line.strip()
            if line and not line.startswith("#"):
                out.append(json.loads(line))
    return out


def write_replay(pid, obj):
    os.makedirs(os.path.join(VERIF, "replays"), exist_ok=True)
    s = json.dumps(obj, indent=1, sort_keys=True, default=str)
    name = "%s-%s.json" % (pid, hashlib.sha1(s.encode()).hexdigest()[:10])
    path = os.path.join(VERIF, "replays", name)
    open(path, "w").write(s)
    return path


TRUSTED_BASE = [
    "Coq 8.16.1 kernel + vm_compute (no native_compute); coqchk re-check in the thorough tier",
    "axioms: none (every Print Assumptions says 'Closed under the global context')",
    "translator ggx extract-data (go/packages, go/ast, go/constant, regexp/syntax) -> theories/Extracted.v, regenerated on this run",
    "extraction: ExtrOcamlBasic + ExtrOcamlString only (bool option unit list prod sumbool; ascii->char, string->char list); no Extract Constant of our own; ocaml/main.ml line driver",
    "correspondence check: ggx drives the real code through its public API / the built binary; compared observables only",
    "modelled, not verified: go/parser, go/types, regexp, encoding/gob, flag, strings/strconv, bufio.Scanner, x/tools drivers, Go runtime",
]


class Report:
    """Collects what a check run covered and decides its exit status."""

    def __init__(self, ctx, pid):
        self.ctx, self.pid = ctx, pid
        self.violations = []      # (replay_path, suffix)
        self.known_hits = []
        self.cov = {"evaluations": 0, "distinct_nontrivial": 0, "rule": "", "samples": [], "obligations": 0, "discharged": 0,
                    "checker_cmd": "", "trusted_base": list(TRUSTED_BASE)}
        self.assumptions = []
        self.notes = {}

    def obligations(self, cq):
        n = len(cq["theorems"])
        self.cov["obligations"] += n
        if cq["ok"]:
            self.cov["discharged"] += n
        self.cov["checker_cmd"] = "coq_makefile + make (full .vo) in %s; coqc theories/Properties/%s.v; Print Assumptions under every theorem" % (self.ctx.coqdir, self.pid)
        self.cov["theorems"] = cq["theorems"]
        self.cov["examples_nonvacuity"] = cq.get("examples", [])
        self.cov["print_assumptions_closed"] = cq["closed"]
        self.cov["axioms_reported"] = cq["axioms"]
        if not cq["ok"]:
            self.cov["coq_log_tail"] = cq["log"][-1500:]
        self.cov["extracted_v_unchanged_since_setup"] = self.ctx.extracted_same

    def violation(self, replay_obj, suffix=""):
        path = write_replay(self.pid, replay_obj)
        self.violations.append((path, suffix))
        return path

    def known(self, what):
        self.known_hits.append(what)

    def finish(self):
        ctx = self.ctx
        ev = {
            "property_id": self.pid,
            "tier": "thorough" if ctx.tier == "thorough" else "quick",
            "seed": ctx.seed,
            "level": "proof",
            "coverage": self.cov,
            "assumptions": self.assumptions,
            "wall_s": round(time.time() - ctx.t0, 2),
            "violations": len(self.violations),
            "known_findings_hit": self.known_hits,
            "repo_tree_hash": ctx.hash,
        }
        ev.update(self.notes)
        os.makedirs(os.path.join(VERIF, "evidence"), exist_ok=True)
        with open(os.path.join(VERIF, "evidence", self.pid + ".json"), "w") as f:
            json.dump(ev, f, indent=1, default=str)
        for w in self.known_hits:
            print("KNOWN-FINDING: property=%s %s" % (self.pid, w))
        for path, suffix in self.violations:
            print("VIOLATION property=%s replay=%s%s" % (self.pid, path, (" " + suffix) if suffix else ""))
        sys.stdout.flush()
        return 1 if self.violations else 0


def coqchk_property(ctx, pid):
    """thorough tier: the independent checker re-checks the compiled property file and everything it depends on"""
    cmd = "timeout 2400 coqchk -silent -o -Q theories GG GG.Properties.%s 2>&1" % pid
    lock = open(os.path.join(CACHE, "lock"), "w")
    fcntl.flock(lock, fcntl.LOCK_SH)
    try:
        rc, out, err = sh(cmd, cwd=ctx.coqdir, timeout=2500)
    finally:
        fcntl.flock(lock, fcntl.LOCK_UN)
        lock.close()
    log = out + err
    m = re.search(r"\* Axioms:(.*?)\n\s*\n\* Constants/Inductives relying on type-in-type:(.*?)\n\s*\n\* Constants/Inductives relying on unsafe \(co\)fixpoints:(.*?)\n\s*\n\* Inductives whose positivity is assumed:(.*?)(\n\s*\n|$)", log, flags=re.S)
    res = {"ran": True, "exit_status": rc, "axioms": None, "type_in_type": None, "unsafe_fixpoints": None, "assumed_positivity": None}
    if m:
        res.update({"axioms": m.group(1).strip(), "type_in_type": m.group(2).strip(), "unsafe_fixpoints": m.group(3).strip(), "assumed_positivity": m.group(4).strip()})
    res["ok"] = rc == 0 and m is not None and all(res[k] == "<none>" for k in ("axioms", "type_in_type", "unsafe_fixpoints", "assumed_positivity"))
    if not res["ok"]:
        res["log_tail"] = log[-1500:]
    return res


def obligation_gate(rep, ctx, pid, found_input):
    """Verdict step A of DESIGN 2.3: if the Coq obligations of the property do not all check and the
    correspondence search found no failing input, report the violation naming the theorem."""
    cq = coq_property(ctx, pid)
    rep.obligations(cq)
    if ctx.build_error:
        rep.violation({"property": pid, "kind": "build", "what": "the repository or the harness no longer builds against it",
                       "log": ctx.build_error[-3000:]}, "no-failing-input-found")
        return cq
    if ctx.tier == "thorough" and cq["ok"]:
        ck = coqchk_property(ctx, pid)
        rep.cov["coqchk"] = ck
        if not ck["ok"]:
            cq["ok"] = False
            cq["failed_theorem"] = "(coqchk does not accept Properties/%s.vo or reports axioms / switched-off checks)" % pid
            cq["log"] = ck.get("log_tail", "")
            rep.cov["discharged"] = 0
    if not cq["ok"] and not found_input:
        rep.violation({"property": pid, "kind": "proof-obligation",
                       "theorem": cq["failed_theorem"], "file": cq["file"],
                       "what": "a theorem of Properties/%s.v no longer checks against the model regenerated from the current source" % pid,
                       "coq_log_tail": cq["log"][-3000:], "hygiene": cq.get("hygiene")},
                      "no-failing-input-found")
    return cq


def run_lines(cmd, lines, env=None, shards=None):
    """Feed lines to `cmd` (one output line per input line), sharded over the cores; returns the output lines in order."""
    import threading
    n = min(shards or NCPU, max(1, len(lines)))
    outs = [None] * n

    def work(i):
        ch = lines[i::n]
        if not ch:
            outs[i] = []
            return
        p = subprocess.run(cmd, input="\n".join(ch) + "\n", capture_output=True, text=True, env=env)
        o = p.stdout.split("\n")
        if o and o[-1] == "":
            o.pop()
        if len(o) < len(ch):
            o += ["CRASH rc=%s %s" % (p.returncode, p.stderr[-300:].replace("\n", " "))] * (len(ch) - len(o))
        outs[i] = o
    ths = [threading.Thread(target=work, args=(i,)) for i in range(n)]
    for t in ths:
        t.start()
    for t in ths:
        t.join()
    res = [None] * len(lines)
    for i in range(n):
        for k, idx in enumerate(range(i, len(lines), n)):
            res[idx] = outs[i][k]
    return res


def run_pair(ctx, go_suite, ml_suite, lines):
    """the implementation (through ggx) and the extracted model on the same case lines"""
    import threading
    r = [None, None]
    t1 = threading.Thread(target=lambda: r.__setitem__(0, run_lines([ctx.ggx, go_suite], lines, env=ctx.env, shards=NCPU // 2 or 1)))
    t2 = threading.Thread(target=lambda: r.__setitem__(1, run_lines([ctx.modelrun, ml_suite], lines, shards=NCPU // 2 or 1)))
    t1.start(); t2.start(); t1.join(); t2.join()
    return r[0], r[1]


# ------------------------------------------------------------------------------------------------
# the real binary on a scratch module

_scratch_n = [0]


def scratch_dir(tag="m"):
    """A fresh directory under /tmp whose path consists of /tmp/vq<digits>... only (exclude-paths are
    substring matches on absolute file names, so the path must not contain letters that could match)."""
    _scratch_n[0] += 1
    d = "/tmp/vq%d%s%d" % (os.getpid(), "0", _scratch_n[0])
    if os.path.exists(d):
        shutil.rmtree(d)
    os.makedirs(d)
    import atexit
    atexit.register(lambda: shutil.rmtree(d, ignore_errors=True))
    return d


CODE_RE = re.compile(r"^error: \[([A-Za-z0-9]+)\]")


def parse_json_diags(out, root):
    """multichecker -json output -> sorted list of dicts (file relative to root, line, col, code, analyzer, message)"""
    res = {}
    errors = []
    try:
        d = json.loads(out) if out.strip() else {}
    except Exception as e:
        return [], ["unparsable json: %s" % e]
    for pkg, v in d.items():
        for an, ds in v.items():
            if isinstance(ds, dict):
                errors.append("%s/%s: %s" % (pkg, an, ds.get("error")))
                continue
            for x in ds:
                posn = x.get("posn", "")
                m = re.match(r"^(.*):(\d+):(\d+)$", posn) or re.match(r"^(.*):(\d+)()$", posn) or re.match(r"^()(\d+)()$", posn) or \
                    re.match(r"^()(\d+):(\d+)$", posn)    # no column / no file name behind //line directives without them
                if not m:
                    errors.append("bad posn " + posn)
                    continue
                f = os.path.relpath(m.group(1), root) if m.group(1).startswith("/") else m.group(1)
                cm = CODE_RE.match(x.get("message", ""))
                code = cm.group(1) if cm else "?"
                key = (f, int(m.group(2)), int(m.group(3) or 0), code, an, x.get("message", ""))
                res[key] = {"file": f, "line": int(m.group(2)), "col": int(m.group(3) or 0), "code": code, "analyzer": an,
                            "message": x.get("message", "")}
    return [res[k] for k in sorted(res)], errors


# a Go panic / fatal error / driver-internal error, recognised at the START of a line only: in text mode stderr also carries
# source excerpts (prefixed by a line number and a bar), whose text may contain any of these words
CRASH_RE = re.compile(r"^(?:panic: |fatal error: |goroutine \d+ \[running\]|(?:[\w./-]+: )?internal error: )", re.M)


def crash_in(text):
    return bool(CRASH_RE.search(text or ""))


def run_binary(ctx, moddir, flags=(), env=None, patterns=("./...",), json_mode=True, timeout=300):
    e = dict(ctx.env)
    if env:
        e.update(env)
    cmd = [ctx.gg] + (["-json"] if json_mode else []) + list(flags) + list(patterns)
    rc, out, err = sh(cmd, cwd=moddir, env=e, timeout=timeout)
    crashed = crash_in(err) or rc in (2, 124) and "flag" not in err[:200]
    if json_mode:
        diags, errors = parse_json_diags(out, moddir)
    else:
        diags, errors = [], []
    return {"rc": rc, "stdout": out, "stderr": err, "diags": diags, "errors": errors, "crashed": crashed}


def rng_for(ctx, salt):
    return random.Random("%d/%s" % (ctx.seed, salt))
