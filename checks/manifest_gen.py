#!/usr/bin/env python3
"""Regenerates /verif/MANIFEST.json from the table below (single source of truth for the per-property texts)."""
import json, os

VERIF = os.path.dirname(os.path.dirname(os.path.abspath(__file__)))

COMMON_NOTE = ("Trusted base: Coq 8.16.1 kernel + vm_compute (no native_compute), no axioms (Print Assumptions: closed under the global context "
               "for every property theorem); the data translator `ggx extract-data`; extraction with ExtrOcamlBasic+ExtrOcamlString only and the OCaml "
               "line driver; the correspondence check (differential, bounded by its generators); go/parser, go/types, regexp, flag, strings, gob, "
               "x/tools drivers and the Go runtime are modelled or taken as inputs, not verified. ")

CHECKS = {
    "C16": dict(
        text=("Theorem (Coq, all histories, no bound): for every sequence of scoped/global suppressions whose ranges start at a real position, "
              "Contains(run ops) c p = existsb covers ops — the list scan with inclusive bounds and the token set {ALL, category(c), c}; plus order "
              "independence, empty/uninitialised never suppress, no panic, and by-computation obligations on the code table regenerated from codes.go "
              "(unique keys, = the documented table, the ALL token). Tied to the code by an exhaustive differential run of util.IgnoreSet's public API "
              "against the extracted model and the reference (all histories of length <= 2 over 114 ops x 56 queries, length 3 in the thorough tier, random longer ones)."),
        note="Hypothesis of the theorem: scoped ranges start at token.Pos >= 1 (shown necessary by a refuting Example; every caller passes a real position).",
        technique="Coq proof by invariant over operation histories + exhaustive model/implementation correspondence"),
    "C19": dict(
        text=("Theorems (Coq, every line, every column, every file content): a line within the display limit is shown unchanged with the caret at the reported column; "
              "for a longer line and 1 <= col <= len the excerpt exists, the byte under the caret IS the byte at the reported column, the caret lies inside the excerpt and "
              "the excerpt is at most limit+3 bytes; the caret padding has display_col-1 characters with a tab exactly where the excerpt has one; the context window is exactly "
              "lines max 1 (n-2) .. min len (n+1) with their own texts; unreadable / too-short files give no excerpt; no input makes a slice expression fail. The display limit and "
              "window sizes are extracted from reporter.go on every run. Tied to the code by comparing the full message text of reporting.Reporter.ReportViolation (public API, synthetic Pass) "
              "with the extracted model over all columns of lines around every regime boundary (thorough: every length 0..600 x every column)."),
        note="Byte-level statements (as the code is); visual width of multi-byte runes not claimed; lines below bufio.Scanner's 64 KiB limit; theorem (2) for 1 <= col <= len.",
        technique="Coq proof (linear arithmetic over the slicing model) + exhaustive-by-column message correspondence"),
    "C18": dict(
        text=("Theorems (Coq, every command line, every environment with GOGREEMENT_ENV_ONLY unset): resolve = for each option the flag if given, else the variable if set "
              "(even to the empty string), else the default — including the round trip of list values through the flag default string (parse_list (join (parse_list s)) = parse_list s, "
              "proved for all strings); parse_list = split on commas, trim, drop empties, upper-case iff check list; the boolean variable is true exactly for lower(trim s) in "
              "{1,t,true,yes,on}; no environment value makes resolution fail. Names, defaults and upper-casing switches are extracted from config.go on every run and must equal the "
              "documented ones. Tied to the code by the in-process public API over the full flag x env grid (+ random combinations, fuzzed bytes) and by runs of the real binary in a "
              "fresh process on a probe module whose planted violations reveal each option."),
        note="ASCII values (Go trims/cases by Unicode; non-ASCII inputs are exercised but outside the theorem). strconv.ParseBool and the flag package (every occurrence parsed, last wins, bare = true) are library models.",
        technique="Coq proof (string lemmas, idempotence of list parsing) + grid correspondence in-process and through the real binary"),
    "C01": dict(
        text=("Theorem (Coq, every package tree, every facts set, every suppression function): an IMM diagnostic is reported iff some statement of some top-level declaration of a non-excluded "
              "file is one of the six write forms (x.f = v, x.f[i] = v, x.f op= v, x.f++/--, *r = v, *r++ with r the receiver object) on a type that resolves through aliases and one pointer to a "
              "defined type carrying @immutable in the package or a direct import, the field not @mutable, the enclosing declaration not a @constructor function of the type in the type's own "
              "package, and the diagnostic not suppressed (imm_reports, proved equivalent to the executable per-node check; the stateful walk proved equal to a per-node check under the declaration's "
              "context, so placement/nesting is irrelevant); index lookups proved to mean the annotations. The model is run against the real binary on every generated world (whole-module runs, "
              "compared by file/line/code under two configurations). END TO END (C01_whole_analysis): in the result of the whole per-package analysis - annotation reader, @ignore reader, IgnoreSet, all five checkers - the diagnostics with a code of this checker are exactly the output characterised above, under the facts (own annotations, then those of the direct imports) and the suppression (the package's @ignore comments, exclude-checks) that the analysis assembles itself; the five code sets are disjoint. The well-formedness hypothesis follows from the boolean x_wf_package evaluated on every serialised package (C01_wf_checked)."),
        note="Fragment: non-generic defined types, direct imports, one candidate per line; go/parser + go/types facts are inputs serialised verbatim by `ggx skel`; well-formedness (no FuncDecl nested in a declaration) evaluated by the model on every serialised package.",
        technique="Coq proof (walk = per-node relation from the property text) + model/implementation correspondence on generated multi-package programs"),
    "C02": dict(
        text=("Theorem (Coq): a CTOR diagnostic is reported iff some node of some top-level declaration of a non-excluded file is a composite literal (CTOR01; T{}, &T{}, elided elements via the "
              "recorded type), a one-argument new(e) (CTOR02), or a non-blank name of a var spec without initialiser whose type is the defined type itself (CTOR03), of a type with a non-empty "
              "@constructor list in the package or a direct import, outside those functions of the type's own package (a package-level declaration is in no function), and not suppressed. Same "
              "correspondence as C01. END TO END (C02_whole_analysis): in the result of the whole per-package analysis - annotation reader, @ignore reader, IgnoreSet, all five checkers - the diagnostics with a code of this checker are exactly the output characterised above, under the facts (own annotations, then those of the direct imports) and the suppression (the package's @ignore comments, exclude-checks) that the analysis assembles itself; the five code sets are disjoint."),
        note="Fragment: non-generic defined types, direct imports, one candidate per line; go/parser + go/types facts are inputs serialised verbatim by `ggx skel`; well-formedness (no FuncDecl nested in a declaration) evaluated by the model on every serialised package.",
        technique="Coq proof (walk = per-node relation from the property text) + model/implementation correspondence on generated multi-package programs"),
    "C03": dict(
        text=("Theorems (Coq): per file the TONL diagnostics are nothing for *_test.go, else the candidates in walk order filtered by ignore-first-then-once-per-(package,type): reported iff "
              "unsuppressed and (no key, or the FIRST unsuppressed candidate of its key) — proved for every candidate list; only the root of a declaration can be pruned and the body of a "
              "@testonly function/method yields nothing; the candidate nodes are characterised exactly (call of a function object that resolves to an annotated package-level function, pkg.F, method call judged by the receiver type of the selected method - also a promoted one - through aliases and one pointer, composite literal / typed spec / field of an annotated type - C03_candidate_nodes), so a bare callee counts only if it resolves to the annotated function (name sharing never reported); the three indices "
              "mean the annotations, same package and direct imports alike. Same correspondence as C01. END TO END (C03_whole_analysis): in the result of the whole per-package analysis - annotation reader, @ignore reader, IgnoreSet, all five checkers - the diagnostics with a code of this checker are exactly the output characterised above, under the facts (own annotations, then those of the direct imports) and the suppression (the package's @ignore comments, exclude-checks) that the analysis assembles itself; the five code sets are disjoint."),
        note="Fragment: non-generic defined types, direct imports, one candidate per line; go/parser + go/types facts are inputs serialised verbatim by `ggx skel`; well-formedness (no FuncDecl nested in a declaration) evaluated by the model on every serialised package. The receiver field of a non-@testonly method on a @testonly type is left unspecified (DESIGN 5.1); dot-imported names and promoted methods (fix aeb7f31) are generated and compared.",
        technique="Coq proof (first-unsuppressed-use characterisation of the dedup fold, pruning lemma) + model/implementation correspondence"),
    "C04": dict(
        text=("Theorems (Coq): the attachment list of an item is the union of all its @packageonly lists (own + direct-import facts); a reference is a candidate iff the item is declared in another "
              "package, annotated, and neither the using package's path nor its name is in the union (proved with the exact message for functions, types and methods, and with the exact set of nodes that are looked at: selectors whose object lives in another package, and plain identifiers - not the selected identifier of a selector - whatever package their object lives in: the analysed one, never denied, or one brought in by a dot import); "
              "references from the declaring package are never candidates; per file ignore-first, PKGO01 once per (package,type), PKGO02/03 each (same dedup theorem as C03). Same correspondence as C01. END TO END (C04_whole_analysis): in the result of the whole per-package analysis - annotation reader, @ignore reader, IgnoreSet, all five checkers - the diagnostics with a code of this checker are exactly the output characterised above, under the facts (own annotations, then those of the direct imports) and the suppression (the package's @ignore comments, exclude-checks) that the analysis assembles itself; the five code sets are disjoint."),
        note="Fragment: non-generic defined types, direct imports, one candidate per line; go/parser + go/types facts are inputs serialised verbatim by `ggx skel`; well-formedness (no FuncDecl nested in a declaration) evaluated by the model on every serialised package. Fields of @packageonly structs and promoted methods are left unspecified (DESIGN 5.1); dot-imported names are generated and compared since fix 8110a7d.",
        technique="Coq proof (union/denied characterisation, dedup theorem) + model/implementation correspondence"),
    "C05": dict(
        text=("Theorems (Coq): IMPL01 iff a qualifier is given and no import of that file binds it under its explicit alias or the imported package's declared name (proved from the four-priority "
              "lookup plus the bound-name guard, every import having a known package name); otherwise IMPL02 iff the resolved package - the current one or a direct import - has no interface of "
              "that name; otherwise IMPL03 iff some method of the interface has no counterpart of the same name with a matching signature in the method set of T (of *T with &), and the listed "
              "methods are exactly those, in the interface's order (last-wins map = the unique method, names being unique); a correct annotation is silent; at most one code per annotation; the "
              "signature comparison is an equivalence that sees through aliases, compares basic types by kind, counts pointers, accepts an exact copy and needs equal arities. Method sets and "
              "interface completion are go/types inputs serialised verbatim. Tied to the code on generated interface/type pairs: binary = model by (file, line, column, code, message) and "
              "binary = Go's own verdict (import scoping, scope lookup, NewMethodSet + Identical, cross-checked with types.Implements) including the names of the missing methods. END TO END (C05_whole_analysis): in the result of the whole per-package analysis - annotation reader, @ignore reader, IgnoreSet, all five checkers - the diagnostics with a code of this checker are exactly the output characterised above, under the facts (own annotations, then those of the direct imports) and the suppression (the package's @ignore comments, exclude-checks) that the analysis assembles itself; the five code sets are disjoint. The input conditions of these theorems (method identities unique per method set, import names known) follow from the boolean x_impl_inputs_ok, evaluated on every serialised package (C05_inputs_checked)."),
        note="Fragment: non-generic types and interfaces; no @implements on an alias declaration. Methods are identified by (package of an unexported name, name) as Go does (fix 1e9bd0c). types.Identical is a library model - equality of normal forms (aliases removed at every depth, basic types by kind), proved to be exactly that (identical a b = true <-> norm a = norm b) - exercised against go/types on every generated pair.",
        technique="Coq proof (resolution, three-phase characterisation, signature-matching laws) + correspondence with the model and with Go's type checker as independent oracle"),
    "C06": dict(
        text=("Theorems (Coq): the analysis of a package reads the facts of its direct imports and nothing else (two fact stores that answer alike for every direct import path give the same "
              "diagnostics, texts and exported fact); the exported fact is a function of the package and the configuration alone; every index answers by membership of the annotation in the "
              "facts of the declaring package wherever they come from; every field of every fact struct is exported and of a gob-encodable type (regenerated from annotation.go) and a value "
              "with only exported fields survives the gob round trip (library model); the five checkers require the three readers and declare one fact type each (regenerated from "
              "analyzer.go); every order of per-package actions that respects the import graph, over any universe of packages, yields the driver-independent result, which is the same in "
              "every universe offering the package the same direct imports. PARTIAL for gob/unitchecker plumbing. Tied to the code by running the same worlds (import DAG of depth >= 2 with "
              "annotated values flowing through an intermediate API into a package that does not import the declaring one, two packages of one name on an allow-list, grammar-sweeping annotation "
              "values) through the standalone binary, go vet -vettool, in-process checker.Analyze parallel / sequential / with SanityCheck, and the model: identical (file, line, column, "
              "code, message); plus single-package runs against the ./... run."),
        note="gob and the unitchecker fact files are foreign code: exercised by the runs, modelled only by the exported-field rule.",
        technique="Coq proof (locality, schedule/universe independence by invariant over the action order, gob view) + five-driver and model correspondence through the real code"),
    "C11": dict(
        text=("Theorems (Coq): for every universe of packages with distinct paths and every order of the per-package actions that respects the import graph - sequential or not, whatever the "
              "listing order - the run yields for each package the same result value (diagnostics AND message texts), namely the driver-independent one; results do not depend on unrelated "
              "packages in the run; the configuration cell behaves as write-once under a constant writer; obligation on the source regenerated on every run: every package-level variable of "
              "the non-test code is never assigned after initialisation and only read-only methods are called on it (compiled regexes, Aho-Corasick Contains - not Match -, sync.Once.Do), "
              "except the configuration cell assigned once inside configOnce.Do. PARTIAL: freedom from data races is a fact about the Go memory model that no executable model exhibits; it is "
              "sampled by a -race build. Tied to the code by byte comparison of the normalised -json output (package, analyzer, position, full text) of repeated parallel runs, the sequential "
              "driver, permuted and reversed package lists, single-world runs, on DAG worlds, a hot module (16 packages x 60 annotated declarations analysed concurrently) and a package that "
              "exists in two type-checked instances (test variants); and by the race detector. PARSE ORDER (C11_suppression_is_file_local): the markers a file's @ignore comments give rise to lie inside that file's range of positions, ranges of different files are disjoint, hence the suppression decision at a position of file g is the decision under g's own comments and the project-wide exclusion - the other files, and the order in which the concurrently parsed files were given their ranges, do not occur in it (input conditions x_ranges_ok, x_pos_ok evaluated on every serialised package). Every diagnostic of the four AST checkers stands at a node of a declaration of a kept file g (C17_positioned_at_a_node_of_a_kept_file) and whether it is suppressed is decided by g's own comments and exclude-checks (C11_a_diagnostic_is_decided_by_its_own_file)."),
        note="The race detector samples schedules; the theorem covers logical non-interference (no action reads anything but its declared inputs).",
        technique="Coq proof (schedule independence by invariant; shared-state obligation on the regenerated inventory) + byte-level output comparison across schedules and a -race build"),
    "C07": dict(
        text=("Theorems (Coq): a comment before the package clause covers the whole file; otherwise the scope ends at the end of the first declaration that ends after the comment when the comment "
              "stands before it, else at the end of the node the stateful pruned walk settles on, which is the FIRST node in source order that starts after the comment (proved for every tree whose "
              "nodes after the comment are met in position order - a boolean hypothesis evaluated on every serialised comment); inline detection is sound and complete for 'some node begins before "
              "the comment and starts or ends on its line'; one more marker with codes C over [s,e] suppresses (c,p) iff s<=p<=e and C holds ALL, c's category or c (codes are upper-cased by the "
              "parser), everything else decided as before; for report-time checkers the new output is the FILTER of the old one; for TONL01/PKGO01 the reported use of a key is the first "
              "unsuppressed one, for every suppression function. Tied to the code by generated worlds with @ignore comments inserted at the property's placements, stratified over placement x line "
              "shape x code category x code-list class: binary = model by (file,line,code), and binary(with comments) = binary(without) minus the matching diagnostics inside the documented scope "
              "computed from go/parser positions (an oracle independent of the model). END TO END (C07_whole_analysis_one_more_comment): one more @ignore comment anywhere in the comment list of a non-excluded file gives the same annotations and exactly the diagnostics of the original analysis re-decided under 'covered by the new marker, or suppressed as before' (the marker order is irrelevant: the decision is an existsb over the history); for IMPL / IMM / CTOR codes a diagnostic is in the new result iff it was in the old one and is not covered (C07_whole_analysis_report_time_effect). ACROSS FILES: the scope of a comment lies inside its own file's range of positions, so for every IMPL / IMM / CTOR diagnostic positioned outside that range membership in the result is unchanged (C07_other_files_unchanged), and the TONL / PKGO lists of every other file are literally the same (C07_other_files_once_per_file_unchanged)."),
        note="A stand-alone comment that is the last thing of its block, precedes a case clause or sits inside a multi-line expression, and files with //line directives, are left unspecified (DESIGN 5.1).",
        technique="Coq proof (pruned-walk = first node after the comment; marker = filter; first-unsuppressed-use) + model and text-oracle correspondence through the real binary"),
    "C17": dict(
        text=("Theorems (Coq): every diagnostic of the five checkers carries a code of the table regenerated from codes.go, of the category of the checker that produced it (per-checker code "
              "lemmas + by-computation obligations on the table); the rendered message is `error: [CODE] message` first and, whenever an excerpt is rendered, ends with the help line of the "
              "code's category, whose URL (regenerated from codes.go) is the category's documentation page; every diagnostic stems from a kept file of the package (C14); `// @ignore CODE` "
              "parses to exactly [CODE] for all 16 codes; one more marker [CODE] over the diagnostic's line suppresses it and leaves every diagnostic on another line, or with another table "
              "code, decided as before. Tied to the code on every diagnostic of generated worlds (all 16 codes, two configurations): header shape, table membership, analyzer of the category "
              "(names regenerated from analyzer.go), file of the reporting package and not excluded, help line; FULL message text byte-equal to the model's rendering for all five categories; "
              "a stratified sample re-run with `// @ignore CODE` appended (C07 text oracle + model); text-mode exit status vs printed diagnostics. Position: every diagnostic of the four AST checkers stands at the position of a NODE of a top-level declaration of a kept file - the node itself, one of its operands or a declared name - hence inside that file's own range of positions (C17_positioned_at_a_node_of_a_kept_file, by a fold invariant over the walk)."),
        note="Lines already ending in a // comment are skipped for the suppression step. Exit status: multichecker's (library behaviour, observed).",
        technique="Coq proof (code lemmas per checker, message shape, own-code marker) + per-diagnostic and full-text correspondence through the real binary"),
    "C10": dict(
        text=("Theorems (Coq, every package tree, facts set and configuration): Go's partial operations that the analyzers perform are explicit outcomes of the model and are never taken - "
              "token.File.LineStart in the @ignore reader is only asked for the physical line of a position at or after the file's first line start (input condition x_lines_ok, evaluated on "
              "every serialised package), so the per-package analysis always returns a normal result; the suppression look-up never indexes outside the marker list - for every analysed package, since the IgnoreSet operations its own @ignore comments give rise to start at positions >= 1 (derived from the checked input condition x_pos_ok); the excerpt renderer never "
              "slices out of range for any content, line, column (0 and negative included), code and message; termination is structural (fuelled regex loops). PARTIAL: panics inside go/types, "
              "x/tools or the runtime and panic sites the model does not mirror are reachable only by the runs: outcome correspondence (ok/crash/timeout/exit status/analyzer error) of "
              "multichecker -json and text under two configurations and of go vet -vettool on guard-targeted worlds (aliases and blank type names, grouped/generic/local declarations, unnamed "
              "receivers, universe types at every site, initialisers first in the file, dot imports, every form of //line directive, empty and comment-only files, 70 KB lines, CRLF, @ignore at "
              "odd places) and on real corpora (yaml.v3, go-spew, go-difflib, testify, the repository's source) with annotations and @ignore comments injected on random declarations and lines; "
              "the model is run on the same inputs and must predict a normal result."),
        note="Partial by nature: a theorem about the model cannot exhibit a Go runtime panic outside the mirrored sites; the runs sample inputs. Wall-clock bound 900 s per run. Diagnostic-level model/implementation differences on these inputs are counted in the evidence, not reported (generics, //line files are outside the C01-C05 fragments).",
        technique="Coq proof (modelled partial operations never fail; structural termination) + outcome correspondence over guard-targeted programs and annotation-injected corpora, three drivers"),
    "C15": dict(
        text=("Theorems (Coq, EVERY comment text - any bytes, line breaks included): each of the seven parsers equals an executable recogniser written from the documentation. Flags "
              "(@immutable, @testonly, @mutable): blanks, //, blanks, the keyword, then nothing or at least one blank followed by text without a line break - also in declarative form "
              "(exists w1 w2 rest, s = w1 ++ // ++ w2 ++ keyword ++ rest ...). @implements: after the common head at least one blank, an optional &, an identifier, optionally a dot and "
              "a second identifier, all by maximal munch, then the free-text tail; the three fields are exactly those pieces (captures proved equal to the texts). @constructor, @packageonly, "
              "@ignore: an item, any number of 'blanks , blanks item', optionally 'blanks ,', taken as far as possible such that the free-text tail follows (longest chain first, with the "
              "trailing comma before without), then split on commas / trim / drop empties / upper-case for @ignore; the list is always followed by the tail. Proved through lemmas about "
              "the backtracking matcher (class star = greedy with give-back, determinism under head-rejecting continuations, literals, anchors, star over a deterministic body) and tied to the "
              "source by by-computation obligations: the expressions regenerated on this run with Go's own regexp/syntax ARE those shapes. The matcher is a library model of package regexp, "
              "compared with Go's regexp on arbitrary bytes with submatch indices; the readers' attachment rules (incl. grouped declarations) are compared exhaustively on bounded token sequences."),
        note="Comment strings at the API level are valid UTF-8 single lines; the theorems hold for all byte strings. Go's regexp is a library model (Regex.v). Maximality of the chosen list end among ALL well-formed list prefixes is proved only as 'first in the matcher's documented try order'.",
        technique="Coq proof (each parser = documented recogniser, for all strings; matcher lemmas) + obligations on the regenerated regex ASTs + exhaustive bounded and fuzzed reader/regex correspondence"),
    "C08": dict(
        text=("Theorems (Coq, every package tree, facts, suppression function and exclusion list): with a project-wide exclusion the suppression decision is 'excluded or suppressed as before' "
              "(from the C16 history theorem); each checker's output under it equals the FILTER of its unrestricted output — for report-time filtering (IMM, CTOR) and for detection-time "
              "filtering before the once-per-file dedup (TONL01, PKGO01: proved via 'all keyed candidates carry one code'); excluded iff the list holds ALL, the category or the code; ALL excludes "
              "everything, other tokens nothing; the configuration reaches the analysis only as that global suppression; END TO END (C08_whole_analysis): the whole per-package analysis under exclude-checks = S is the analysis without it with exactly the matched diagnostics filtered out - same exported annotations, same order, failure exactly where the unrestricted run fails. Tied to the code by runs of the real binary under every single token, "
              "category pairs, random subsets in any case/spacing by flag and env, each compared with the filtered unrestricted run and with the model."),
        note="ASCII tokens. IMPL codes are compared with the model like the others (the @implements model is part of x_analyze) and metamorphically against the filtered baseline.",
        technique="Coq proof (exclusion commutes with both filtering disciplines) + metamorphic and model correspondence through the real binary"),
    "C14": dict(
        text=("Theorems (Coq): a file is skipped iff its name contains an exclude-paths entry or (scan-tests off and it ends in _test.go) - with substring/suffix proved to mean what they say; the "
              "analysis of a package equals the analysis of the package with its excluded files removed, and more generally depends on the files only through the kept ones (annotations, @ignore "
              "comments and statements of excluded files are irrelevant); every diagnostic of the four checkers stems from a kept file; _test.go files never receive TONL; obligation on the source "
              "regenerated each run: Config.FilterFiles is the ONLY place that ranges over pass.Files. Tied to the code by worlds whose excluded files carry annotations/ignores/violations that "
              "would matter, under 10 scan-tests x exclude-paths configurations: implementation = model, no diagnostic inside an excluded file, and identical diagnostics when the comments of all "
              "excluded files are blanked."),
        note="exclude-paths entries are substring matches on absolute file names (scratch paths are digits only).",
        technique="Coq proof (file filter characterisation, analysis factors through kept files) + model and metamorphic correspondence through the real binary"),
    "C09": dict(
        text=("Theorems (Coq, every package tree, every configuration): if no doc line of a top-level type declaration (group or spec) or function of the non-excluded files is recognised by one "
              "of the parsers (the regexes regenerated from the source), nothing is collected - whatever trailing, local, free or field comments say; and if neither the package nor its direct "
              "imports carry annotations the four AST checkers return nothing for every tree and suppression state. Tied to the code by the real binary on the whole Go standard library and the "
              "repository's dependencies under two configurations (zero diagnostics, exit 0), and by generated worlds where every annotation is a near-miss or in an inert placement "
              "(implementation and model: zero diagnostics, no annotation collected)."),
        note="Corpora are inputs to the correspondence, not to the theorem; their doc lines are read by the real reader only. The silence theorem covers all five checkers (the @implements checker is part of x_analyze). By the grammar theorems of C15 a line is unrecognised as soon as it lacks the head blanks // blanks @keyword - e.g. every line without an @ sign (C09_no_at_sign_no_annotation).",
        technique="Coq proof (unrecognised lines => empty annotations => empty indices => no diagnostics) + corpus runs through the real binary + near-miss worlds"),
    "C12": dict(
        text=("Theorems (Coq): the IMM and CTOR diagnostics of a package are, up to order, a function of the MULTISET of top-level declarations of its non-excluded files (Permutation in, "
              "Permutation out: reordering declarations and moving them between files cannot matter); for the once-per-file checkers a key (package,type) is reported iff SOME candidate with "
              "that key is unsuppressed and an unkeyed candidate iff it is unsuppressed - functions of the candidate SET, not of its order; candidates are contributed declaration by declaration. "
              "Positions are opaque to the four AST checkers: relabelling every position of the files by ANY function relabels the diagnostics (same codes, same messages, the same "
              "uses reported for the once-per-file codes) and changes nothing else, given that suppression answers alike at relabelled positions - blank lines, ordinary comments and "
              "gofmt are such relabellings. END TO END (C12_whole_analysis_relayout): for ANY strictly monotone map of positions that sends line starts to line starts (re-indentation, alignment, tabs/blanks, CRLF/LF, another FileSet base) the whole analysis - annotation reader, @ignore reader and its scopes, IgnoreSet, @implements, the four checkers - returns the same annotations and diagnostics at the relabelled positions, no side condition on suppression. Layout changes that add or remove lines, and local renaming, are covered by the correspondence: one IR rendered 8 ways (permute, move, swap files, blank+comments, gofmt, rename, all composed) through "
              "the real binary, compared by site id / (package,type), each rendering also against the model."),
        note="The theorems cover reordering, moving and position relabelling (checker side); the @ignore reader under relabelling and renaming invariance are exercised, not proved (DESIGN 5, C12).",
        technique="Coq proof (permutation invariance, order-independence of the dedup) + metamorphic correspondence through the real binary"),
    "C13": dict(
        text=("Theorems (Coq): type identity on the fragment = equality after removing every alias name at every depth; everything the checkers ask of a recorded type (ExtractTypeInfo, "
              "ExtractTypeName, the direct-named test of CTOR03) is a function of that identity, hence rewriting the type recorded at EVERY node of EVERY file by ANY identity-preserving "
              "function leaves the IMM / CTOR candidates and the TONL / PKGO diagnostics literally unchanged, for every program, facts set and suppression function "
              "(C13_respelling_changes_nothing, by induction over the trees); the resolution of a recorded type to a defined type sees through any stack of aliases around the single pointer strip (alias of T, pointer to alias, alias of "
              "pointer, aliases of aliases), value or pointer alike; an alias type NAME is judged by @packageonly as its target. That renamed imports and parentheses leave TypeOf/ObjectOf "
              "unchanged is an input fact exercised by the runs: the same IR with the types spelled 6 ways (direct, renamed import, alias in a third package, local alias - incl. aliases of "
              "pointer types -, parenthesised, dot import) through the real binary, compared by site id / (package,type), each rendering also against the model."),
        note="Pointers of depth >= 2 and generics are outside the fragment.",
        technique="Coq proof (invariance of the four checkers under every identity-preserving respelling of the recorded types, by tree induction) + metamorphic correspondence through the real binary"),
}

PENDING_REASON = "check under construction in this round (designed in DESIGN.md section 5); not yet claimed"


def main():
    props = [json.loads(l) for l in open(os.path.join(VERIF, "properties.jsonl"))]
    ids = [p["id"] for p in props]
    m = {
        "version": 1,
        "setup_cmd": "checks/setup.sh",
        "hooks": {
            "guard": "verif",
            "enable": "no hooks are needed: every check drives the public API or the built binary (the build tag `verif` is reserved and unused)",
            "baseline_off_cmd": "cd /repo && GOFLAGS=-mod=mod GOPROXY=off go test -json -vet=off -count=1 -timeout 25m ./...",
            "source_commits": [],
            "add_only": True,
        },
        "engines": [
            {"name": "coq", "path": "coq/", "serves_properties": ids,
             "kind_free_text": "Coq 8.16.1 development: executable Gallina model, theorems in theories/Properties, Extracted.v regenerated from /repo on every run"},
            {"name": "ggx", "path": "harness/cmd/ggx", "serves_properties": ids,
             "kind_free_text": "Go harness linked against /repo: data translator (extract-data) and drivers of the real code for the correspondence"},
            {"name": "modelrun", "path": "ocaml/", "serves_properties": ids,
             "kind_free_text": "OCaml program extracted from the Coq model (ExtrOcamlBasic+ExtrOcamlString) plus a line driver"},
        ],
        "checks": [],
        "notes": "See DESIGN.md. known_findings.jsonl lists repaired defects (fix: commits in /repo) and recorded findings.",
        "not_applicable": [],
    }
    for pid in ids:
        if pid in CHECKS:
            c = CHECKS[pid]
            m["checks"].append({
                "property_id": pid,
                "quick_cmd": "checks/check.sh %s quick" % pid,
                "thorough_cmd": "checks/check.sh %s thorough" % pid,
                "evidence_file": "evidence/%s.json" % pid,
                "replay_cmd_template": "checks/replay.sh {path}",
                "engine": "coq",
                "level_claimed": {"category": "proof", "text": c["text"], "design_ref": "DESIGN.md section 5 (%s)" % pid},
                "level_note": COMMON_NOTE + c["note"],
                "technique": c["technique"],
            })
        else:
            m["not_applicable"].append({"property_id": pid, "reason": PENDING_REASON})
    with open(os.path.join(VERIF, "MANIFEST.json"), "w") as f:
        json.dump(m, f, indent=1)
    print("MANIFEST.json:", len(m["checks"]), "checks,", len(m["not_applicable"]), "not claimed")


if __name__ == "__main__":
    main()
