"""Modules that make the concurrent parts of one stand-alone run overlap: many independent packages analysed by the five
checkers in parallel goroutines, each with many @ignore markers / annotation comments.  A schedule-dependent defect (a
lazily built index, a shared matcher used through a non-thread-safe call, a racy once) shows on such a module within a
few runs; one run takes a fraction of a second."""


def ignore_stress(npk=40, nmark=50):
    """every package: violations of the four AST checker families INSIDE the span of nmark @ignore markers of an unknown
    code (so nothing is suppressed and every checker's first look-up walks the whole marker list).
    Returns (files, expected diagnostics per package)"""
    files = {"lib/lib.go": "package lib\n\n// T is annotated.\n// @immutable\n// @constructor NewT\ntype T struct{ F int }\n\nfunc NewT() *T { return &T{} }\n\n"
                           "// @testonly\nfunc Mock() int { return 1 }\n\n// @packageonly nobody\nfunc Internal() int { return 2 }\n"}
    for p in range(npk):
        ls = ["package s%d" % p, "", 'import "w/lib"', "", "func use(t *lib.T) {"]
        for i in range(nmark):
            ls += ["\t// @ignore X9", "\t_ = %d" % i]
            if i == nmark // 2:
                ls += ["\tt.F = 1", "\t_ = lib.T{}", "\t_ = lib.Mock()", "\t_ = lib.Internal()"]
        ls += ["}", ""]
        files["s%d/s.go" % p] = "\n".join(ls) + "\n"
    return files, ("IMM01", "CTOR01", "TONL02", "PKGO02")


def annotation_stress(npk=12, ntypes=120):
    """every package: ntypes @immutable types, each written once outside any constructor: ntypes IMM01 per package, provided
    every annotation line is read"""
    files = {}
    for p in range(npk):
        ls = ["package a%d" % p, ""]
        for i in range(ntypes):
            ls += ["// T%d is annotated." % i, "// @immutable", "type T%d struct{ F int }" % i, ""]
        ls += ["func use() {"]
        for i in range(ntypes):
            ls += ["\tvar t%d *T%d" % (i, i), "\tt%d.F = %d" % (i, i)]
        ls += ["}", ""]
        files["a%d/a.go" % p] = "\n".join(ls) + "\n"
    return files, npk * ntypes


def excluded_stress(npk=48):
    """every package: one ordinary file without violations and one file that the DEFAULT configuration excludes (its name
    contains `testdata`) full of violations and annotations: a run must print nothing, however its passes are scheduled"""
    files = {"lib/lib.go": "package lib\n\n// T is annotated.\n// @immutable\n// @constructor NewT\ntype T struct{ F int }\n\nfunc NewT() *T { return &T{} }\n\n"
                           "// @testonly\nfunc Mock() int { return 1 }\n\n// @packageonly nobody\nfunc Internal() int { return 2 }\n"}
    for p in range(npk):
        files["e%d/ok.go" % p] = "package e%d\n\nimport \"w/lib\"\n\nvar _ = lib.NewT\n" % p
        files["e%d/testdata_fixtures.go" % p] = ("package e%d\n\nimport \"w/lib\"\n\n// Local is annotated in an excluded file.\n// @immutable\ntype Local struct{ F int }\n\n"
                                                "func fixtures(t *lib.T, l *Local) {\n\tt.F = 1\n\t_ = lib.T{}\n\t_ = lib.Mock()\n\t_ = lib.Internal()\n\tl.F = 2\n}\n" % p)
    return files


def write(root, files, modroot="w"):
    import os
    os.makedirs(root, exist_ok=True)
    open(os.path.join(root, "go.mod"), "w").write("module %s\n\ngo 1.25\n" % modroot)
    for rel, text in files.items():
        p = os.path.join(root, rel)
        os.makedirs(os.path.dirname(p), exist_ok=True)
        open(p, "w").write(text)
