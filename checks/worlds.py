"""Running the real binary and the Coq model on generated worlds; shared by the L1 properties."""
import binascii, json, os, random, shutil, time
import lib, worldgen

HX = lambda s: binascii.hexlify(s.encode() if isinstance(s, str) else s).decode() or "."
UN = lambda h: "" if h in (".", "") else binascii.unhexlify(h).decode("utf8", "replace")


def cfg_flags(cfg):
    """cfg = (scan, [paths], [checks]) -> command-line flags of the binary"""
    scan, paths, checks = cfg
    return ["--config.scan-tests=%s" % ("true" if scan else "false"), "--config.exclude-paths=" + ",".join(paths),
            "--config.exclude-checks=" + ",".join(checks)]


def model_analyze(ctx, dump, cfg, root):
    scan, paths, checks = cfg
    rc, out, err = lib.sh([ctx.modelrun, "analyze", dump, "1" if scan else "0", ",".join(HX(p) for p in paths) or "-",
                           ",".join(HX(c) for c in checks) or "-"], timeout=1800)
    diags, panics, annots = {}, [], {}
    wf = [0, 0]
    hyp = [0, 0]
    lines_ok = [0, 0]
    impl_ok = [0, 0]
    for line in out.split("\n"):
        f = line.split(" ")
        if f[0] == "D":
            fn = UN(f[2])
            rel = os.path.relpath(fn, root) if fn.startswith("/") else fn
            key = (rel, int(f[3]), int(f[4]), f[5], f[6] if len(f) > 6 else "")
            diags[key] = {"file": rel, "line": int(f[3]), "col": int(f[4]), "code": f[5], "message": UN(f[6]) if len(f) > 6 else "", "pkg": UN(f[1])}
        elif f[0] == "P":
            panics.append((f[1], UN(f[2]) if len(f) > 2 else ""))
        elif f[0] == "H":
            hyp[0] += int(f[1])
            hyp[1] += int(f[2])
        elif f[0] == "L":
            lines_ok[0] += 1
            lines_ok[1] += int(f[2])
        elif f[0] == "T":
            impl_ok[0] += 1
            impl_ok[1] += int(f[2])
        elif f[0] == "W":
            wf[0] += 1
            wf[1] += int(f[2])
        elif f[0] == "A":
            annots[UN(f[1])] = UN(f[2]) if len(f) > 2 else ""
    return {"diags": [diags[k] for k in sorted(diags)], "panics": panics, "annots": annots, "rc": rc, "stderr": err[-2000:],
            "packages": wf[0], "packages_wf": wf[1], "packages_lines_ok": lines_ok[1], "packages_impl_inputs_ok": impl_ok[1], "ignore_comments_in_decls": hyp[0], "ignore_comments_meeting_hypotheses": hyp[1]}


def skel(ctx, root, dump, tests=True):
    rc, out, err = lib.sh([ctx.ggx, "skel", "-dir", root, "-o", dump] + (["-tests"] if tests else []) + ["./..."], cwd=root, env=ctx.env, timeout=1800)
    return rc, err


def keyset(diags, with_col=False):
    if with_col:
        return {(d["file"], d["line"], d["col"], d["code"]) for d in diags}
    return {(d["file"], d["line"], d["code"]) for d in diags}


MODELLED = ("IMM", "CTOR", "TONL", "PKGO", "IMPL")


def compare(impl, model, prefixes=MODELLED):
    a = {k for k in keyset(impl) if k[2].startswith(prefixes)}
    b = {k for k in keyset(model) if k[2].startswith(prefixes)}
    return sorted(a - b), sorted(b - a)


def generate(ctx, n, salt, out, gen=None, layout=None, **kw):
    """n worlds under module `out` (one go.mod); returns (worlds, sites, stats)"""
    rng = lib.rng_for(ctx, salt)
    worldgen.write_module(out, "w")
    stats = worldgen.new_stats()
    worlds, sites = [], {}
    for i in range(n):
        wid = "w%04d" % i
        W = (gen or worldgen.full_world)(rng, wid, "w", stats=stats, **kw)
        s, files = worldgen.render(W, out, rng, layout=layout)
        worlds.append(W)
        sites.update(s)
    return worlds, sites, stats


def base_run(ctx, n=None):
    """The shared generated-worlds run of C01-C04 (default configuration + scan-tests), cached per tree hash / seed / tier."""
    n = n or (120 if ctx.tier != "thorough" else 1500)
    import hashlib
    gh = hashlib.sha1(open(worldgen.__file__.replace(".pyc", ".py"), "rb").read() + open(__file__.replace(".pyc", ".py"), "rb").read()).hexdigest()[:8]
    cache = os.path.join(ctx.cache, "base-%d-%s-%d-%s.json" % (ctx.seed, ctx.tier, n, gh))
    if os.path.exists(cache):
        return json.load(open(cache))
    d = lib.scratch_dir()
    root = os.path.join(d, "m")
    t0 = time.time()
    worlds, sites, stats = generate(ctx, n, "base", root)
    res = {"n": n, "sites": {k: list(v) for k, v in sites.items()}, "stats": stats, "configs": {}}
    dump = os.path.join(d, "dump.sx")
    rc, err = skel(ctx, root, dump)
    res["skel_rc"] = rc
    res["skel_err"] = err[-3000:]
    for name, cfg in (("default", (False, ["testdata"], [])), ("scan-tests", (True, [], []))):
        r = lib.run_binary(ctx, root, flags=cfg_flags(cfg), timeout=1800)
        m = model_analyze(ctx, dump, cfg, root)
        res["configs"][name] = {"cfg": cfg, "impl": r["diags"], "impl_errors": r["errors"][:20], "impl_rc": r["rc"], "impl_crashed": r["crashed"],
                                "impl_stderr": r["stderr"][-3000:], "model": m["diags"], "model_panics": m["panics"], "model_rc": m["rc"],
                                "packages": m["packages"], "packages_wf": m["packages_wf"],
                                "model_stderr": m["stderr"]}
    res["wall_s"] = round(time.time() - t0, 1)
    # keep the sources of the worlds for replays: packed as {relative file: text}
    src = {}
    for dp, _, fs in os.walk(root):
        for f in fs:
            p = os.path.join(dp, f)
            src[os.path.relpath(p, root)] = open(p).read()
    res["sources"] = src
    json.dump(res, open(cache, "w"))
    return res


def world_files(res, wid):
    return {k: v for k, v in res["sources"].items() if k.startswith(wid + "/")}


def write_sources(root, files, modroot="w"):
    worldgen.write_module(root, modroot)
    for rel, text in files.items():
        p = os.path.join(root, rel)
        os.makedirs(os.path.dirname(p), exist_ok=True)
        open(p, "w").write(text)


def run_sources(ctx, files, cfg, modroot="w"):
    """implementation and model on an explicit set of files; returns (impl diags, model diags, details)"""
    d = lib.scratch_dir()
    root = os.path.join(d, "m")
    write_sources(root, files, modroot)
    dump = os.path.join(d, "dump.sx")
    rc, err = skel(ctx, root, dump)
    r = lib.run_binary(ctx, root, flags=cfg_flags(cfg))
    m = model_analyze(ctx, dump, cfg, root)
    shutil.rmtree(d, ignore_errors=True)
    return r, m, {"skel_rc": rc, "skel_err": err[-1500:]}
