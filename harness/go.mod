module verif/harness

go 1.25

require (
	github.com/a14e/gogreement v0.0.0
	golang.org/x/tools v0.38.0
)

require (
	github.com/cloudflare/ahocorasick v0.0.0-20240916140611-054963ec9396 // indirect
	golang.org/x/mod v0.29.0 // indirect
	golang.org/x/sync v0.17.0 // indirect
)

replace github.com/a14e/gogreement => /repo
