package main

// unit-ignoreset: drives the real util.IgnoreSet through its public API.
// Input: one case per line:  <op> <op> ... | <code>:<pos> <code>:<pos> ...
//   op = A:<codes>:<start>:<end>  (scoped Add)   |  G:<codes>  (AddModuleIgnore)   |  N (nil receiver: must be alone)
//   codes = comma separated, may be empty
// Output: one line per case, one character per query: 1 = suppressed, 0 = not, P = panic.

import (
	"bufio"
	"fmt"
	"go/token"
	"os"
	"strconv"
	"strings"

	"github.com/a14e/gogreement/src/util"
)

func init() { cmds["unit-ignoreset"] = cmdUnitIgnoreSet }

type fakeAnn struct {
	codes      []string
	start, end token.Pos
}

func (a fakeAnn) GetCodes() []string     { return a.codes }
func (a fakeAnn) GetStartPos() token.Pos { return a.start }
func (a fakeAnn) GetEndPos() token.Pos   { return a.end }

func splitCodes(s string) []string {
	if s == "" {
		return []string{}
	}
	return strings.Split(s, ",")
}

func cmdUnitIgnoreSet(args []string) int {
	in := bufio.NewScanner(os.Stdin)
	in.Buffer(make([]byte, 1<<20), 1<<26)
	out := bufio.NewWriter(os.Stdout)
	defer out.Flush()
	for in.Scan() {
		line := in.Text()
		parts := strings.SplitN(line, "|", 2)
		if len(parts) != 2 {
			fmt.Fprintln(out, "E")
			continue
		}
		var set *util.IgnoreSet
		isNil := false
		ops := strings.Fields(parts[0])
		panicked := false
		func() {
			defer func() {
				if r := recover(); r != nil {
					panicked = true
				}
			}()
			if len(ops) == 1 && ops[0] == "N" {
				isNil = true
				return
			}
			set = &util.IgnoreSet{}
			for _, o := range ops {
				f := strings.Split(o, ":")
				switch f[0] {
				case "A":
					s, _ := strconv.Atoi(f[2])
					e, _ := strconv.Atoi(f[3])
					set.Add(fakeAnn{splitCodes(f[1]), token.Pos(s), token.Pos(e)})
				case "G":
					set.AddModuleIgnore(splitCodes(f[1]))
				}
			}
		}()
		_ = isNil
		var sb strings.Builder
		for _, q := range strings.Fields(parts[1]) {
			i := strings.LastIndex(q, ":")
			p, _ := strconv.Atoi(q[i+1:])
			if panicked {
				sb.WriteByte('P')
				continue
			}
			func() {
				defer func() {
					if r := recover(); r != nil {
						sb.WriteByte('P')
					}
				}()
				if set.Contains(q[:i], token.Pos(p)) {
					sb.WriteByte('1')
				} else {
					sb.WriteByte('0')
				}
			}()
		}
		fmt.Fprintln(out, sb.String())
	}
	return 0
}
