package main

// unit-reporter: drives reporting.Reporter.ReportViolation (public API) on synthetic files.
// Input: one case per line:  <hex content | -> <line> <col> <code> <hex msg>
//   "-" = the file cannot be read. The FileSet carries a synthetic line table, so any (line, col) can be
//   reported whatever the content that ReadFile returns (shorter-than-expected files included).
// Output: one line per case: M <hex message> | P <hex panic text>

import (
	"bufio"
	"encoding/hex"
	"errors"
	"fmt"
	"go/token"
	"os"
	"strconv"
	"strings"

	"golang.org/x/tools/go/analysis"

	"github.com/a14e/gogreement/src/reporting"
)

func init() { cmds["unit-reporter"] = cmdUnitReporter }

type fakeViolation struct {
	code, msg string
	pos       token.Pos
}

func (v fakeViolation) GetCode() string    { return v.code }
func (v fakeViolation) GetPos() token.Pos  { return v.pos }
func (v fakeViolation) GetMessage() string { return v.msg }

const lineStride = 1 << 20

func cmdUnitReporter(args []string) int {
	in := bufio.NewScanner(os.Stdin)
	in.Buffer(make([]byte, 1<<20), 1<<28)
	out := bufio.NewWriter(os.Stdout)
	defer out.Flush()
	for in.Scan() {
		f := strings.Fields(in.Text())
		if len(f) != 5 {
			fmt.Fprintln(out, "E")
			continue
		}
		var content []byte
		readable := f[0] != "-"
		if readable && f[0] != "." {
			content, _ = hex.DecodeString(f[0])
		}
		line, _ := strconv.Atoi(f[1])
		col, _ := strconv.Atoi(f[2])
		msgb, _ := hex.DecodeString(f[4])
		if f[4] == "." {
			msgb = nil
		}
		fset := token.NewFileSet()
		nlines := line + 4
		tf := fset.AddFile("synthetic.go", -1, nlines*lineStride)
		lines := make([]int, nlines)
		for i := range lines {
			lines[i] = i * lineStride
		}
		tf.SetLines(lines)
		pos := tf.Pos((line-1)*lineStride + col - 1)
		var got string
		pass := &analysis.Pass{
			Fset: fset,
			ReadFile: func(name string) ([]byte, error) {
				if !readable {
					return nil, errors.New("unreadable")
				}
				return content, nil
			},
			Report: func(d analysis.Diagnostic) { got = d.Message },
		}
		func() {
			defer func() {
				if r := recover(); r != nil {
					fmt.Fprintln(out, "P", hex.EncodeToString([]byte(fmt.Sprint(r))))
					got = "\x00panic"
				}
			}()
			reporting.NewReporter(pass, nil).ReportViolation(fakeViolation{f[3], string(msgb), pos})
		}()
		if got != "\x00panic" {
			fmt.Fprintln(out, "M", hex.EncodeToString([]byte(got)))
		}
	}
	return 0
}
