package main

// annots: runs annotations.ReadAllAnnotations and ignore.ReadIgnoreAnnotations (public API) on packages loaded
// with go/packages and prints, per package, a canonical summary in the same format as the model's driver:
//   A <hex pkg id> <hex summary>      annotations
//   I <hex pkg id> <hex summary>      ignore markers  codes:start:end;...  (positions as token.Pos)

import (
	"encoding/hex"
	"fmt"
	"os"
	"path/filepath"
	"sort"
	"strings"

	"golang.org/x/tools/go/analysis"
	"golang.org/x/tools/go/packages"

	"github.com/a14e/gogreement/src/annotations"
	"github.com/a14e/gogreement/src/config"
	"github.com/a14e/gogreement/src/ignore"
)

func init() { cmds["annots"] = cmdAnnots }

func kindName(k annotations.TestOnlyKind) string {
	switch k {
	case annotations.TestOnlyOnType:
		return "type"
	case annotations.TestOnlyOnFunc:
		return "func"
	case annotations.TestOnlyOnMethod:
		return "method"
	}
	return "?"
}

func annSummary(a annotations.PackageAnnotations) string {
	var parts []string
	for _, x := range a.ImplementsAnnotations {
		amp := ""
		if x.IsPointer {
			amp = "&"
		}
		parts = append(parts, fmt.Sprintf("impl:%s:%s%s.%s:%s:%v", x.OnType, amp, x.PackageName, x.InterfaceName, x.PackageFullPath, x.PackageNotFound))
	}
	for _, x := range a.ConstructorAnnotations {
		parts = append(parts, fmt.Sprintf("ctor:%s:%s", x.OnType, strings.Join(x.ConstructorNames, ",")))
	}
	for _, x := range a.ImmutableAnnotations {
		parts = append(parts, "imm:"+x.OnType)
	}
	for _, x := range a.TestonlyAnnotations {
		parts = append(parts, fmt.Sprintf("tonl:%s:%s:%s", kindName(x.Kind), x.ObjectName, x.ReceiverType))
	}
	for _, x := range a.MutableAnnotations {
		parts = append(parts, fmt.Sprintf("mut:%s:%s", x.OnType, x.FieldName))
	}
	for _, x := range a.PackageOnlyAnnotations {
		parts = append(parts, fmt.Sprintf("pkgo:%s:%s:%s:%s", kindName(x.Kind), x.ObjectName, x.ReceiverType, strings.Join(x.AllowedPackages, ",")))
	}
	return strings.Join(parts, ";")
}

func cmdAnnots(args []string) int {
	dir := "."
	scan := false
	var paths, checks []string
	var patterns []string
	for i := 0; i < len(args); i++ {
		switch args[i] {
		case "-dir":
			i++
			dir = args[i]
		case "-scan":
			scan = true
		case "-paths":
			i++
			if args[i] != "" {
				paths = strings.Split(args[i], ",")
			}
		case "-checks":
			i++
			if args[i] != "" {
				checks = strings.Split(args[i], ",")
			}
		default:
			patterns = append(patterns, args[i])
		}
	}
	if len(patterns) == 0 {
		patterns = []string{"./..."}
	}
	cfg := config.New(scan, paths, checks)
	lcfg := &packages.Config{
		Mode: packages.NeedName | packages.NeedFiles | packages.NeedCompiledGoFiles | packages.NeedSyntax |
			packages.NeedTypes | packages.NeedTypesInfo | packages.NeedImports | packages.NeedDeps,
		Dir: dir,
	}
	pkgs, err := packages.Load(lcfg, patterns...)
	if err != nil {
		fmt.Fprintln(os.Stderr, "annots: load:", err)
		return 1
	}
	sort.Slice(pkgs, func(i, j int) bool { return pkgs[i].ID < pkgs[j].ID })
	rc := 0
	for _, p := range pkgs {
		if len(p.Errors) > 0 {
			fmt.Fprintf(os.Stderr, "annots: package %s has errors: %v\n", p.ID, p.Errors)
			rc = 3
			continue
		}
		pass := &analysis.Pass{Fset: p.Fset, Files: p.Syntax, Pkg: p.Types, TypesInfo: p.TypesInfo}
		func() {
			defer func() {
				if r := recover(); r != nil {
					fmt.Printf("P %s %s\n", hex.EncodeToString([]byte(p.ID)), hex.EncodeToString([]byte(fmt.Sprint(r))))
				}
			}()
			a := annotations.ReadAllAnnotations(cfg, pass)
			fmt.Printf("A %s %s\n", hex.EncodeToString([]byte(p.ID)), hex.EncodeToString([]byte(annSummary(a))))
			is := ignore.ReadIgnoreAnnotations(cfg, pass)
			var ms []string
			for _, m := range is.Markers {
				a, b := p.Fset.PositionFor(m.StartPos, false), p.Fset.PositionFor(m.EndPos, false)
				ms = append(ms, fmt.Sprintf("%s:%s:%d:%d:%d:%d", strings.Join(m.Codes, ","), filepath.Base(a.Filename), a.Line, a.Column, b.Line, b.Column))
			}
			fmt.Printf("I %s %s\n", hex.EncodeToString([]byte(p.ID)), hex.EncodeToString([]byte(strings.Join(ms, ";"))))
		}()
	}
	return rc
}
