package main

// unit-config: drives config.FromEnv / CreateFlagSet / ParseFlagsFromFlagSet (public API) in-process.
// Input: one case per line, blank-separated tokens:
//   E:<NAME>=<hex value>   set an environment variable ("." = empty value)
//   F:<flag>=<hex value>   command-line flag -<flag>=<value>
//   B:<flag>               bare boolean flag -<flag>
// Output: S=<0|1> P=<hex,hex,...> C=<hex,...>   or   FLAGERR (the flag package rejected the command line)

import (
	"bufio"
	"encoding/hex"
	"flag"
	"fmt"
	"io"
	"os"
	"strings"

	"github.com/a14e/gogreement/src/config"
)

func init() { cmds["unit-config"] = cmdUnitConfig }

func unhex(s string) string {
	if s == "." || s == "" {
		return ""
	}
	b, _ := hex.DecodeString(s)
	return string(b)
}

func hexList(l []string) string {
	parts := make([]string, len(l))
	for i, s := range l {
		if s == "" {
			parts[i] = "."
		} else {
			parts[i] = hex.EncodeToString([]byte(s))
		}
	}
	return strings.Join(parts, ",")
}

func cmdUnitConfig(args []string) int {
	in := bufio.NewScanner(os.Stdin)
	in.Buffer(make([]byte, 1<<20), 1<<26)
	out := bufio.NewWriter(os.Stdout)
	defer out.Flush()
	for in.Scan() {
		for _, kv := range os.Environ() {
			if strings.HasPrefix(kv, "GOGREEMENT_") {
				os.Unsetenv(kv[:strings.Index(kv, "=")])
			}
		}
		var fargs []string
		for _, tok := range strings.Fields(in.Text()) {
			switch {
			case strings.HasPrefix(tok, "E:"):
				i := strings.Index(tok, "=")
				os.Setenv(tok[2:i], unhex(tok[i+1:]))
			case strings.HasPrefix(tok, "F:"):
				i := strings.Index(tok, "=")
				fargs = append(fargs, "-"+tok[2:i]+"="+unhex(tok[i+1:]))
			case strings.HasPrefix(tok, "B:"):
				fargs = append(fargs, "-"+tok[2:])
			}
		}
		res := ""
		func() {
			defer func() {
				if r := recover(); r != nil {
					res = "PANIC " + hex.EncodeToString([]byte(fmt.Sprint(r)))
				}
			}()
			fs := config.CreateFlagSet()
			fs.Init("gogreement", flag.ContinueOnError)
			fs.SetOutput(io.Discard)
			if err := fs.Parse(fargs); err != nil {
				res = "FLAGERR"
				return
			}
			cfg := config.ParseFlagsFromFlagSet(fs)
			s := 0
			if cfg.ScanTests {
				s = 1
			}
			res = fmt.Sprintf("S=%d P=%s C=%s", s, hexList(cfg.ExcludePaths), hexList(cfg.ExcludeChecks))
		}()
		fmt.Fprintln(out, res)
	}
	return 0
}
