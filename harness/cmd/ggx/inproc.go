package main

// inproc: the analyzers of /repo run in this process through the public driver API
// golang.org/x/tools/go/analysis/checker.Analyze, sequentially or in parallel, with or without the fact sanity check
// (gob round trip of every exported fact).  Output: JSON in the shape of multichecker -json
// {package id: {analyzer: [{posn, message}]}} (root actions only, like multichecker), plus an "errors" list.
//
// The configuration singleton of the analyzers is per process: flags are passed through the environment variables the
// tool itself reads (GOGREEMENT_*), one configuration per invocation.

import (
	"encoding/json"
	"flag"
	"fmt"
	"os"
	"sort"

	"github.com/a14e/gogreement/src/analyzer"
	"golang.org/x/tools/go/analysis/checker"
	"golang.org/x/tools/go/packages"
)

func init() { cmds["inproc"] = cmdInproc }

func cmdInproc(args []string) (rc int) {
	fs := flag.NewFlagSet("inproc", flag.ExitOnError)
	dir := fs.String("dir", ".", "module directory")
	seq := fs.Bool("seq", false, "Sequential")
	sanity := fs.Bool("sanity", false, "SanityCheck")
	tests := fs.Bool("tests", true, "load test variants")
	fs.Parse(args)
	pats := fs.Args()
	if len(pats) == 0 {
		pats = []string{"./..."}
	}
	type diag struct {
		Posn    string `json:"posn"`
		Message string `json:"message"`
	}
	out := map[string]map[string][]diag{}
	var errs []string
	defer func() {
		if r := recover(); r != nil {
			errs = append(errs, fmt.Sprintf("panic: %v", r))
			rc = 2
		}
		b, _ := json.Marshal(map[string]any{"diags": out, "errors": errs})
		os.Stdout.Write(b)
	}()
	cfg := &packages.Config{Mode: packages.LoadAllSyntax, Dir: *dir, Tests: *tests}
	pkgs, err := packages.Load(cfg, pats...)
	if err != nil {
		errs = append(errs, err.Error())
		return 1
	}
	sort.Slice(pkgs, func(i, j int) bool { return pkgs[i].ID < pkgs[j].ID })
	g, err := checker.Analyze(analyzer.AllAnalyzers(), pkgs, &checker.Options{Sequential: *seq, SanityCheck: *sanity})
	if err != nil {
		errs = append(errs, err.Error())
		return 1
	}
	for _, act := range g.Roots {
		if act.Err != nil {
			errs = append(errs, fmt.Sprintf("%s: %v", act, act.Err))
			continue
		}
		for _, d := range act.Diagnostics {
			m := out[act.Package.ID]
			if m == nil {
				m = map[string][]diag{}
				out[act.Package.ID] = m
			}
			m[act.Analyzer.Name] = append(m[act.Analyzer.Name], diag{Posn: act.Package.Fset.Position(d.Pos).String(), Message: d.Message})
		}
	}
	return 0
}
