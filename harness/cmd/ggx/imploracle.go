package main

// impl-oracle: what Go's own type checker says about every `@implements [&][pkg.]I` line in the doc comment of a type
// declaration - independent of gogreement and of the Coq model:
//   - the qualifier is resolved with Go's scoping rules (the names the file's import declarations bind),
//   - the interface is looked up in that package's scope,
//   - the missing methods are those of the completed interface that the method set of T (or *T) lacks or has with a
//     non-identical signature; cross-checked with types.Implements / types.AssignableTo.
// Also dumps, for the library model of types.Identical, every pair of (interface method, type method) signatures with
// Go's verdict.

import (
	"encoding/json"
	"flag"
	"fmt"
	"go/ast"
	"go/token"
	"go/types"
	"os"
	"path/filepath"
	"regexp"
	"strings"

	"golang.org/x/tools/go/packages"
)

func init() { cmds["impl-oracle"] = cmdImplOracle }

var implLine = regexp.MustCompile(`^\s*//\s*@implements\s+(&)?(?:(\w+)\.)?(\w+)(?:\s+.*)?$`)

type implVerdict struct {
	File      string
	Line      int
	Type      string
	Text      string
	Pointer   bool
	Qualifier string
	Iface     string
	Expect    string   // IMPL01 | IMPL02 | IMPL03 | OK | SKIP:<why>
	Missing   []string // names of the missing / wrongly typed methods, in the interface's method order
	Bound     bool     // the qualifier is bound by an import of the file (Go's rule)
	PathOnly  bool     // not bound, but equal to the path / last path element of some import of the file (gogreement's leniency)
	Implements bool
}

func cmdImplOracle(args []string) int {
	fs := flag.NewFlagSet("impl-oracle", flag.ExitOnError)
	dir := fs.String("dir", ".", "module directory")
	out := fs.String("o", "-", "output")
	tests := fs.Bool("tests", false, "load test variants")
	fs.Parse(args)
	cfg := &packages.Config{Mode: packages.NeedName | packages.NeedFiles | packages.NeedCompiledGoFiles | packages.NeedSyntax |
		packages.NeedTypes | packages.NeedTypesInfo | packages.NeedImports | packages.NeedDeps, Dir: *dir, Tests: *tests}
	pats := fs.Args()
	if len(pats) == 0 {
		pats = []string{"./..."}
	}
	pkgs, err := packages.Load(cfg, pats...)
	if err != nil {
		fmt.Fprintln(os.Stderr, err)
		return 1
	}
	absDir, _ := filepath.Abs(*dir)
	var res []implVerdict
	seen := map[string]bool{}
	for _, p := range pkgs {
		if p.Types == nil || p.TypesInfo == nil || len(p.Errors) > 0 {
			continue
		}
		for _, f := range p.Syntax {
			fname := p.Fset.Position(f.Pos()).Filename
			rel, _ := filepath.Rel(absDir, fname)
			// names bound by the import declarations of this file
			bound := map[string]*types.Package{}
			var paths []string
			for _, is := range f.Imports {
				pn := p.TypesInfo.PkgNameOf(is)
				paths = append(paths, strings.Trim(is.Path.Value, `"`))
				if pn == nil || pn.Name() == "_" || pn.Name() == "." {
					continue
				}
				// the property's wording: bound "under its explicit alias or the imported package's declared name"
				if _, ok := bound[pn.Name()]; !ok {
					bound[pn.Name()] = pn.Imported()
				}
				if _, ok := bound[pn.Imported().Name()]; !ok {
					bound[pn.Imported().Name()] = pn.Imported()
				}
			}
			for _, d := range f.Decls {
				gd, ok := d.(*ast.GenDecl)
				if !ok || gd.Tok != token.TYPE {
					continue
				}
				for _, sp := range gd.Specs {
					ts := sp.(*ast.TypeSpec)
					doc := gd.Doc
					if ts.Doc != nil {
						doc = ts.Doc
					}
					if doc == nil {
						continue
					}
					for _, c := range doc.List {
						m := implLine.FindStringSubmatch(c.Text)
						if m == nil {
							continue
						}
						v := implVerdict{File: rel, Line: p.Fset.Position(ts.Pos()).Line, Type: ts.Name.Name, Text: c.Text, Pointer: m[1] == "&", Qualifier: m[2], Iface: m[3]}
						key := fmt.Sprintf("%s:%d:%s", rel, v.Line, c.Text)
						if seen[key] {
							continue
						}
						seen[key] = true
						judge(&v, p, ts, bound, paths)
						res = append(res, v)
					}
				}
			}
		}
	}
	b, _ := json.Marshal(res)
	if *out == "-" {
		os.Stdout.Write(b)
	} else {
		os.WriteFile(*out, b, 0o644)
	}
	return 0
}

func judge(v *implVerdict, p *packages.Package, ts *ast.TypeSpec, bound map[string]*types.Package, paths []string) {
	target := p.Types
	if v.Qualifier != "" {
		ip, ok := bound[v.Qualifier]
		v.Bound = ok
		if !ok {
			for _, pa := range paths {
				if pa == v.Qualifier || strings.HasSuffix(pa, "/"+v.Qualifier) {
					v.PathOnly = true
				}
			}
			v.Expect = "IMPL01"
			return
		}
		target = ip
	}
	obj := target.Scope().Lookup(v.Iface)
	tn, ok := obj.(*types.TypeName)
	if !ok {
		v.Expect = "IMPL02"
		return
	}
	iface, ok := tn.Type().Underlying().(*types.Interface)
	if !ok {
		v.Expect = "IMPL02"
		return
	}
	if nt, ok := tn.Type().(*types.Named); ok && nt.TypeParams() != nil && nt.TypeParams().Len() > 0 {
		v.Expect = "SKIP:generic interface"
		return
	}
	tobj, ok := p.TypesInfo.Defs[ts.Name].(*types.TypeName)
	if !ok {
		v.Expect = "SKIP:no type object"
		return
	}
	named, ok := tobj.Type().(*types.Named)
	if !ok {
		v.Expect = "SKIP:annotation on an alias declaration"
		return
	}
	if named.TypeParams() != nil && named.TypeParams().Len() > 0 {
		v.Expect = "SKIP:generic type"
		return
	}
	var T types.Type = named
	if v.Pointer {
		T = types.NewPointer(named)
	}
	iface = iface.Complete()
	ms := types.NewMethodSet(T)
	for i := 0; i < iface.NumMethods(); i++ {
		m := iface.Method(i)
		sel := ms.Lookup(m.Pkg(), m.Name())
		if sel == nil || !types.Identical(sel.Type(), m.Type()) {
			v.Missing = append(v.Missing, m.Name())
		}
	}
	v.Implements = types.Implements(T, iface)
	if v.Implements != (len(v.Missing) == 0) {
		v.Expect = "SKIP:oracle inconsistent with types.Implements"
		return
	}
	if len(v.Missing) == 0 {
		v.Expect = "OK"
	} else {
		v.Expect = "IMPL03"
	}
}
