package main

import (
	"fmt"
	"go/ast"
	"go/token"
	"go/types"
	"sort"
	"strings"

	"golang.org/x/tools/go/packages"
)

// ---------------------------------------------------------------------------------------------
// config: defaults, environment variable names, flag names, upper-casing switches

func extractConfig(x *xpkgs, e *emitter) {
	p := x.pkg("src/config")
	var flags, envList, flagUpper []string
	var envBool, boolExtra, envOnly []string
	defScan := "false"
	defPaths, defChecks := []string{}, []string{}
	okDefaults := false
	if p == nil {
		e.unsupported("config: package not found")
	} else {
		// flags registered in CreateFlagSet: fs.Bool("name", ...), fs.String("name", ...)
		if fd := findFunc(p, "CreateFlagSet"); fd != nil {
			ast.Inspect(fd, func(n ast.Node) bool {
				call, ok := n.(*ast.CallExpr)
				if !ok || len(call.Args) < 1 {
					return true
				}
				sel, ok := call.Fun.(*ast.SelectorExpr)
				if !ok {
					return true
				}
				if sel.Sel.Name == "Bool" || sel.Sel.Name == "String" {
					if recv, ok := sel.X.(*ast.Ident); ok && recv.Name == "fs" {
						if s, ok := constStr(p, call.Args[0]); ok {
							flags = append(flags, "("+coqStr(s)+", "+coqStr(strings.ToLower(sel.Sel.Name))+")")
						}
					}
				}
				return true
			})
		} else {
			e.unsupported("config: CreateFlagSet not found")
		}
		// FromEnv: defaults and env names
		if fd := findFunc(p, "FromEnv"); fd != nil {
			okDefaults = true
			seen := map[string]bool{}
			for _, st := range fd.Body.List {
				as, ok := st.(*ast.AssignStmt)
				if ok && as.Tok == token.DEFINE && len(as.Lhs) == 1 && len(as.Rhs) == 1 {
					name := as.Lhs[0].(*ast.Ident).Name
					switch name {
					case "scanTests":
						if id, ok := as.Rhs[0].(*ast.Ident); ok && (id.Name == "false" || id.Name == "true") {
							defScan = id.Name
							seen[name] = true
						}
					case "excludePaths", "excludeChecks":
						if cl, ok := as.Rhs[0].(*ast.CompositeLit); ok {
							var vs []string
							good := true
							for _, el := range cl.Elts {
								s, ok := constStr(p, el)
								if !ok {
									good = false
								}
								vs = append(vs, s)
							}
							if good {
								seen[name] = true
								if name == "excludePaths" {
									defPaths = vs
								} else {
									defChecks = vs
								}
							}
						}
					}
				}
			}
			if !(seen["scanTests"] && seen["excludePaths"] && seen["excludeChecks"]) {
				okDefaults = false
			}
			ast.Inspect(fd, func(n ast.Node) bool {
				call, ok := n.(*ast.CallExpr)
				if !ok {
					return true
				}
				switch f := call.Fun.(type) {
				case *ast.Ident:
					if f.Name == "parseEnvValue" && len(call.Args) == 3 {
						name, ok1 := constStr(p, call.Args[0])
						up, ok2 := call.Args[1].(*ast.Ident)
						if ok1 && ok2 {
							envList = append(envList, "("+coqStr(name)+", "+up.Name+")")
						}
					}
				case *ast.SelectorExpr:
					if f.Sel.Name == "Getenv" && len(call.Args) == 1 {
						if name, ok := constStr(p, call.Args[0]); ok {
							envBool = append(envBool, name)
						}
					}
				}
				return true
			})
		} else {
			e.unsupported("config: FromEnv not found")
		}
		if !okDefaults {
			e.unsupported("config: defaults of FromEnv not recognised")
		}
		// ParseFlagsFromFlagSet: Lookup("flag") ... parseStringList(v, upper) ; GOGREEMENT_ENV_ONLY
		if fd := findFunc(p, "ParseFlagsFromFlagSet"); fd != nil {
			lookups := map[string]string{} // variable holding the *flag.Flag -> flag name
			strVars := map[string]string{} // string variable -> flag var
			ast.Inspect(fd, func(n ast.Node) bool {
				switch s := n.(type) {
				case *ast.AssignStmt:
					if len(s.Lhs) == 1 && len(s.Rhs) == 1 {
						lhs, ok := s.Lhs[0].(*ast.Ident)
						if !ok {
							return true
						}
						if call, ok := s.Rhs[0].(*ast.CallExpr); ok {
							if sel, ok := call.Fun.(*ast.SelectorExpr); ok {
								if sel.Sel.Name == "Lookup" && len(call.Args) == 1 {
									if name, ok := constStr(p, call.Args[0]); ok {
										lookups[lhs.Name] = name
									}
								}
								if sel.Sel.Name == "String" && len(call.Args) == 0 {
									// X.Value.String()
									if inner, ok := sel.X.(*ast.SelectorExpr); ok {
										if fv, ok := inner.X.(*ast.Ident); ok {
											strVars[lhs.Name] = fv.Name
										}
									}
								}
							}
						}
					}
				case *ast.CallExpr:
					if sel, ok := s.Fun.(*ast.SelectorExpr); ok && sel.Sel.Name == "Getenv" && len(s.Args) == 1 {
						if name, ok := constStr(p, s.Args[0]); ok {
							envOnly = append(envOnly, name)
						}
					}
				}
				return true
			})
			ast.Inspect(fd, func(n ast.Node) bool {
				call, ok := n.(*ast.CallExpr)
				if !ok {
					return true
				}
				if id, ok := call.Fun.(*ast.Ident); ok && id.Name == "parseStringList" && len(call.Args) == 2 {
					v, ok1 := call.Args[0].(*ast.Ident)
					up, ok2 := call.Args[1].(*ast.Ident)
					if ok1 && ok2 {
						if fv, ok := strVars[v.Name]; ok {
							if fn, ok := lookups[fv]; ok {
								flagUpper = append(flagUpper, "("+coqStr(fn)+", "+up.Name+")")
							}
						}
					}
				}
				return true
			})
		} else {
			e.unsupported("config: ParseFlagsFromFlagSet not found")
		}
		// parseBool: the extra spellings compared with ==
		if fd := findFunc(p, "parseBool"); fd != nil {
			ast.Inspect(fd, func(n ast.Node) bool {
				be, ok := n.(*ast.BinaryExpr)
				if ok && be.Op == token.EQL {
					if s, ok := constStr(p, be.Y); ok {
						boolExtra = append(boolExtra, s)
					}
				}
				return true
			})
		} else {
			e.unsupported("config: parseBool not found")
		}
	}
	e.def("cfg_flags", "list (string * string)", coqList(flags))
	e.def("cfg_flag_upper", "list (string * bool)", coqList(flagUpper))
	e.def("cfg_env_bool", "list string", coqStrList(envBool))
	e.def("cfg_env_list", "list (string * bool)", coqList(envList))
	e.def("cfg_env_only", "list string", coqStrList(envOnly))
	e.def("cfg_default_scan_tests", "bool", defScan)
	e.def("cfg_default_exclude_paths", "list string", coqStrList(defPaths))
	e.def("cfg_default_exclude_checks", "list string", coqStrList(defChecks))
	e.def("cfg_bool_extra", "list string", coqStrList(boolExtra))
}

// ---------------------------------------------------------------------------------------------
// fact structs: every field of PackageAnnotations and of the annotation structs it holds

func extractFacts(x *xpkgs, e *emitter) {
	p := x.pkg("src/annotations")
	var rows []string
	var factTypes []string
	if p == nil {
		e.unsupported("annotations: package not found")
	} else {
		seen := map[string]bool{}
		var visit func(name string)
		visit = func(name string) {
			if seen[name] {
				return
			}
			seen[name] = true
			obj := p.Types.Scope().Lookup(name)
			if obj == nil {
				e.unsupported("facts: type " + name + " not found")
				return
			}
			st, ok := obj.Type().Underlying().(*types.Struct)
			if !ok {
				return
			}
			var fields []string
			var next []string
			for i := 0; i < st.NumFields(); i++ {
				f := st.Field(i)
				kind, elem := encKind(f.Type(), p.Types)
				if elem != "" {
					next = append(next, elem)
				}
				fields = append(fields, fmt.Sprintf("(%s, %s, %s)", coqStr(f.Name()), coqBool(f.Exported()), coqStr(kind)))
			}
			rows = append(rows, "("+coqStr(name)+", "+coqList(fields)+")")
			for _, n := range next {
				visit(n)
			}
		}
		visit("PackageAnnotations")
		// the six wrapper fact types must be defined as PackageAnnotations
		names := p.Types.Scope().Names()
		for _, n := range names {
			if !strings.HasSuffix(n, "Fact") {
				continue
			}
			obj := p.Types.Scope().Lookup(n)
			if tn, ok := obj.(*types.TypeName); ok {
				if named, ok := tn.Type().(*types.Named); ok {
					base := p.Types.Scope().Lookup("PackageAnnotations")
					same := base != nil && types.Identical(named.Underlying(), base.Type().Underlying())
					factTypes = append(factTypes, "("+coqStr(n)+", "+coqBool(same)+")")
				}
			}
		}
	}
	e.def("fact_structs", "list (string * list (string * bool * string))", coqList(rows))
	e.def("fact_types", "list (string * bool)", coqList(factTypes))
}

// encKind classifies a field type for the gob view: "string", "bool", "int" (incl. token.Pos and
// named integer kinds), "list:<kind>", "struct:<Name>" (a struct of this package), or "other:<printed>".
// The second result names a struct of this package that has to be visited.
func encKind(t types.Type, pkg *types.Package) (string, string) {
	switch u := t.(type) {
	case *types.Basic:
		switch {
		case u.Kind() == types.String:
			return "string", ""
		case u.Kind() == types.Bool:
			return "bool", ""
		case u.Info()&types.IsInteger != 0:
			return "int", ""
		}
	case *types.Slice:
		k, n := encKind(u.Elem(), pkg)
		return "list:" + k, n
	case *types.Named:
		if _, ok := u.Underlying().(*types.Struct); ok {
			if u.Obj().Pkg() == pkg {
				return "struct:" + u.Obj().Name(), u.Obj().Name()
			}
			return "other:" + t.String(), ""
		}
		if b, ok := u.Underlying().(*types.Basic); ok {
			return encKind(b, pkg)
		}
	}
	return "other:" + t.String(), ""
}

// ---------------------------------------------------------------------------------------------
// analyzer wiring

func extractAnalyzers(x *xpkgs, e *emitter) {
	p := x.pkg("src/analyzer")
	var rows []string
	var all []string
	if p == nil {
		e.unsupported("analyzer: package not found")
	} else {
		for _, f := range p.Syntax {
			for _, d := range f.Decls {
				gd, ok := d.(*ast.GenDecl)
				if !ok || gd.Tok != token.VAR {
					continue
				}
				for _, s := range gd.Specs {
					vs := s.(*ast.ValueSpec)
					for i, n := range vs.Names {
						if i >= len(vs.Values) {
							continue
						}
						ue, ok := vs.Values[i].(*ast.UnaryExpr)
						if !ok || ue.Op != token.AND {
							continue
						}
						cl, ok := ue.X.(*ast.CompositeLit)
						if !ok {
							continue
						}
						if tv := p.TypesInfo.TypeOf(cl); tv == nil || tv.String() != "golang.org/x/tools/go/analysis.Analyzer" {
							continue
						}
						name, run := "", ""
						var req, facts []string
						hasResult := false
						for _, el := range cl.Elts {
							kv := el.(*ast.KeyValueExpr)
							switch kv.Key.(*ast.Ident).Name {
							case "Name":
								name, _ = constStr(p, kv.Value)
							case "Run":
								if id, ok := kv.Value.(*ast.Ident); ok {
									run = id.Name
								}
							case "ResultType":
								hasResult = true
							case "Requires":
								if l, ok := kv.Value.(*ast.CompositeLit); ok {
									for _, r := range l.Elts {
										if id, ok := r.(*ast.Ident); ok {
											req = append(req, id.Name)
										}
									}
								}
							case "FactTypes":
								if l, ok := kv.Value.(*ast.CompositeLit); ok {
									for _, r := range l.Elts {
										if tv := p.TypesInfo.TypeOf(r); tv != nil {
											s := tv.String()
											s = s[strings.LastIndex(s, ".")+1:]
											facts = append(facts, s)
										}
									}
								}
							}
						}
						rows = append(rows, fmt.Sprintf("(%s, %s, %s, %s, %s, %s)", coqStr(n.Name), coqStr(name), coqStr(run),
							coqStrList(req), coqStrList(facts), coqBool(hasResult)))
					}
				}
			}
		}
		if fd := findFunc(p, "AllAnalyzers"); fd != nil {
			ast.Inspect(fd, func(n ast.Node) bool {
				if cl, ok := n.(*ast.CompositeLit); ok {
					for _, el := range cl.Elts {
						if id, ok := el.(*ast.Ident); ok {
							all = append(all, id.Name)
						}
					}
					return false
				}
				return true
			})
		} else {
			e.unsupported("analyzer: AllAnalyzers not found")
		}
	}
	e.def("analyzers", "list (string * string * string * list string * list string * bool)", coqList(rows))
	e.def("all_analyzers", "list string", coqStrList(all))
}

// ---------------------------------------------------------------------------------------------
// shared state: every package-level variable of the non-test code with its writers and the
// methods called on it

type sharedVar struct {
	pkg, name string
	typ       string
	writes    map[string]bool
	methods   map[string]bool
}

func extractSharedState(x *xpkgs, e *emitter) {
	var paths []string
	for k := range x.byPath {
		paths = append(paths, k)
	}
	sort.Strings(paths)
	vars := map[types.Object]*sharedVar{}
	var order []types.Object
	for _, path := range paths {
		p := x.byPath[path]
		if strings.Contains(path, "/testutil") {
			continue
		}
		sc := p.Types.Scope()
		for _, n := range sc.Names() {
			if v, ok := sc.Lookup(n).(*types.Var); ok {
				vars[v] = &sharedVar{pkg: strings.TrimPrefix(path, modPath+"/"), name: n, typ: v.Type().String(),
					writes: map[string]bool{}, methods: map[string]bool{}}
				order = append(order, v)
			}
		}
	}
	for _, path := range paths {
		p := x.byPath[path]
		for _, f := range p.Syntax {
			scanSharedUses(p, f, vars)
		}
	}
	var rows []string
	for _, o := range order {
		v := vars[o]
		rows = append(rows, fmt.Sprintf("(%s, %s, %s, %s, %s)", coqStr(v.pkg), coqStr(v.name), coqStr(v.typ),
			coqStrList(sortedKeys(v.writes)), coqStrList(sortedKeys(v.methods))))
	}
	e.def("shared_state", "list (string * string * string * list string * list string)", coqList(rows))
}

func sortedKeys(m map[string]bool) []string {
	var ks []string
	for k := range m {
		ks = append(ks, k)
	}
	sort.Strings(ks)
	return ks
}

func scanSharedUses(p *packages.Package, f *ast.File, vars map[types.Object]*sharedVar) {
	var stack []ast.Node
	encl := func() string {
		name := "<package-level>"
		inOnce := false
		for _, n := range stack {
			switch d := n.(type) {
			case *ast.FuncDecl:
				name = d.Name.Name
			case *ast.CallExpr:
				if sel, ok := d.Fun.(*ast.SelectorExpr); ok && sel.Sel.Name == "Do" {
					if tv := p.TypesInfo.TypeOf(sel.X); tv != nil && strings.HasSuffix(tv.String(), "sync.Once") {
						if id, ok := sel.X.(*ast.Ident); ok {
							name += ":once(" + id.Name + ")"
							inOnce = true
						}
					}
				}
			}
		}
		_ = inOnce
		return name
	}
	ast.Inspect(f, func(n ast.Node) bool {
		if n == nil {
			stack = stack[:len(stack)-1]
			return true
		}
		stack = append(stack, n)
		id, ok := n.(*ast.Ident)
		if !ok {
			return true
		}
		obj := p.TypesInfo.Uses[id]
		v := vars[obj]
		if v == nil {
			return true
		}
		// walk up: find the largest "access path" expression rooted at id
		var cur ast.Node = id
		for i := len(stack) - 2; i >= 0; i-- {
			par := stack[i]
			switch pe := par.(type) {
			case *ast.SelectorExpr:
				if pe.X == cur {
					// method call?
					if i-1 >= 0 {
						if call, ok := stack[i-1].(*ast.CallExpr); ok && call.Fun == pe {
							if sel := p.TypesInfo.Selections[pe]; sel != nil && sel.Kind() == types.MethodVal {
								v.methods[pe.Sel.Name] = true
								return true
							}
						}
					}
					cur = pe
					continue
				}
				if pe.Sel == cur { // pkg.Var
					cur = pe
					continue
				}
			case *ast.IndexExpr:
				if pe.X == cur {
					cur = pe
					continue
				}
			case *ast.ParenExpr:
				cur = pe
				continue
			case *ast.StarExpr:
				cur = pe
				continue
			case *ast.AssignStmt:
				for _, l := range pe.Lhs {
					if l == cur {
						v.writes["assign@"+encl()] = true
					}
				}
			case *ast.IncDecStmt:
				if pe.X == cur {
					v.writes["incdec@"+encl()] = true
				}
			case *ast.UnaryExpr:
				if pe.Op == token.AND && pe.X == cur {
					v.writes["addr@"+encl()] = true
				}
			case *ast.RangeStmt:
				if pe.Key == cur || pe.Value == cur {
					v.writes["range-assign@"+encl()] = true
				}
			}
			break
		}
		return true
	})
}

// ---------------------------------------------------------------------------------------------
// every place that ranges over / indexes pass.Files

func extractFileLoops(x *xpkgs, e *emitter) {
	var paths []string
	for k := range x.byPath {
		paths = append(paths, k)
	}
	sort.Strings(paths)
	set := map[string]bool{}
	for _, path := range paths {
		if strings.Contains(path, "/testutil") {
			continue
		}
		p := x.byPath[path]
		for _, f := range p.Syntax {
			for _, d := range f.Decls {
				fd, ok := d.(*ast.FuncDecl)
				if !ok {
					continue
				}
				ast.Inspect(fd, func(n ast.Node) bool {
					sel, ok := n.(*ast.SelectorExpr)
					if !ok || sel.Sel.Name != "Files" {
						return true
					}
					if tv := p.TypesInfo.TypeOf(sel.X); tv != nil && strings.HasSuffix(tv.String(), "analysis.Pass") {
						recv := ""
						if fd.Recv != nil && len(fd.Recv.List) > 0 {
							t := fd.Recv.List[0].Type
							if st, ok := t.(*ast.StarExpr); ok {
								t = st.X
							}
							if id, ok := t.(*ast.Ident); ok {
								recv = id.Name + "."
							}
						}
						set[strings.TrimPrefix(path, modPath+"/")+":"+recv+fd.Name.Name] = true
					}
					return true
				})
			}
		}
	}
	e.def("file_loops", "list string", coqStrList(sortedKeys(set)))
}
