package main

// unit-regex: Go's regexp on the seven annotation regexes, as extracted from the repository's source.
// Input: one case per line: <which 0..6> <hex string>. Output: submatch indices "a,b,c,..." or "-" (no match).
// Validates the library model Model/Regex.v (leftmost-first backtracking semantics on bytes).

import (
	"bufio"
	"fmt"
	"go/ast"
	"os"
	"regexp"
	"strconv"
	"strings"
)

func init() { cmds["unit-regex"] = cmdUnitRegex }

func cmdUnitRegex(args []string) int {
	repo := "/repo"
	if len(args) >= 2 && args[0] == "-repo" {
		repo = args[1]
	}
	x, err := loadRepo(repo)
	if err != nil {
		fmt.Fprintln(os.Stderr, "unit-regex:", err)
		return 1
	}
	var res []*regexp.Regexp
	for _, rv := range regexVars {
		p := x.pkg(rv.pkg)
		var re *regexp.Regexp
		if p != nil {
			if call, ok := findVarInit(p, rv.name).(*ast.CallExpr); ok && len(call.Args) == 1 {
				if s, ok := constStr(p, call.Args[0]); ok {
					re, _ = regexp.Compile(s)
				}
			}
		}
		res = append(res, re)
	}
	in := bufio.NewScanner(os.Stdin)
	in.Buffer(make([]byte, 1<<20), 1<<26)
	out := bufio.NewWriter(os.Stdout)
	defer out.Flush()
	for in.Scan() {
		f := strings.Fields(in.Text())
		if len(f) != 2 {
			fmt.Fprintln(out, "E")
			continue
		}
		w, _ := strconv.Atoi(f[0])
		s := unhex(f[1])
		if w < 0 || w >= len(res) || res[w] == nil {
			fmt.Fprintln(out, "U")
			continue
		}
		m := res[w].FindStringSubmatchIndex(s)
		if m == nil {
			fmt.Fprintln(out, "-")
			continue
		}
		parts := make([]string, len(m))
		for i, v := range m {
			parts[i] = strconv.Itoa(v)
		}
		fmt.Fprintln(out, strings.Join(parts, ","))
	}
	return 0
}
