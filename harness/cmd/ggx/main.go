// ggx: harness for the Coq verification of a14e/gogreement.
// Subcommands are registered in the cmds map by the other files of this package.
package main

import (
	"fmt"
	"os"
	"sort"
)

var cmds = map[string]func(args []string) int{}

func main() {
	if len(os.Args) < 2 {
		usage()
		os.Exit(2)
	}
	f, ok := cmds[os.Args[1]]
	if !ok {
		usage()
		os.Exit(2)
	}
	os.Exit(f(os.Args[2:]))
}

func usage() {
	names := make([]string, 0, len(cmds))
	for k := range cmds {
		names = append(names, k)
	}
	sort.Strings(names)
	fmt.Fprintln(os.Stderr, "usage: ggx <cmd> [args]; commands:", names)
}
