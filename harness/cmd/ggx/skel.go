package main

// skel: loads packages with go/packages and serialises, for the Coq model, what the analyzers consult:
// the syntax trees (one switch on the node type for the attributes, nesting from ast.Inspect) and the
// go/types facts looked up verbatim (TypeOf, ObjectOf, Defs). No semantic decisions are taken here.
//
// Output: S-expressions, one (pkg ...) form per package, in dependency order.

import (
	"bufio"
	"fmt"
	"go/ast"
	"go/token"
	"go/types"
	"os"
	"path/filepath"
	"sort"
	"strconv"
	"strings"

	"golang.org/x/tools/go/packages"
)

func init() { cmds["skel"] = cmdSkel }

type skelWriter struct {
	w      *bufio.Writer
	fset   *token.FileSet
	info   *types.Info
	objIDs map[types.Object]int
	sel    map[*ast.Ident]bool // identifiers that are the Sel of a selector expression (a fact about the syntax tree)
}

func sq(s string) string {
	var b strings.Builder
	b.WriteByte('"')
	for i := 0; i < len(s); i++ {
		c := s[i]
		if c == '"' || c == '\\' || c < 32 || c > 126 {
			fmt.Fprintf(&b, "\\%02x", c)
		} else {
			b.WriteByte(c)
		}
	}
	b.WriteByte('"')
	return b.String()
}

func (s *skelWriter) ty(t types.Type) string {
	if t == nil {
		return "_"
	}
	return s.tyDepth(t, 0)
}

func (s *skelWriter) tyDepth(t types.Type, depth int) string {
	if depth > 50 {
		return "(O \"deep\")"
	}
	switch u := t.(type) {
	case *types.Named:
		pk := "_"
		if u.Obj().Pkg() != nil {
			pk = sq(u.Obj().Pkg().Path())
		}
		return "(N " + pk + " " + sq(u.Obj().Name()) + ")"
	case *types.Alias:
		return "(A " + sq(u.Obj().Name()) + " " + s.tyDepth(u.Rhs(), depth+1) + ")"
	case *types.Pointer:
		return "(P " + s.tyDepth(u.Elem(), depth+1) + ")"
	}
	return "(O " + sq(fmt.Sprintf("%T", t)) + ")"
}

func (s *skelWriter) obj(o types.Object) string {
	if o == nil {
		return "_"
	}
	id, ok := s.objIDs[o]
	if !ok {
		id = len(s.objIDs) + 1
		s.objIDs[o] = id
	}
	kind := "other"
	isMethod := 0
	recv := "_"
	isAlias := 0
	otype := "_"
	imported := ""
	switch v := o.(type) {
	case *types.TypeName:
		kind = "type"
		if v.IsAlias() {
			isAlias = 1
		}
		otype = s.ty(v.Type())
	case *types.Func:
		kind = "func"
		if sig, ok := v.Type().(*types.Signature); ok && sig.Recv() != nil {
			isMethod = 1
			recv = s.ty(sig.Recv().Type())
		}
	case *types.Var:
		kind = "var"
	case *types.PkgName:
		kind = "pkgname"
		imported = v.Imported().Path()
	}
	pk := "_"
	if o.Pkg() != nil {
		pk = sq(o.Pkg().Path())
	}
	return fmt.Sprintf("(o %s %d %s %s %d %s %d %s %s)", kind, id, pk, sq(o.Name()), isMethod, recv, isAlias, otype, sq(imported))
}


// ---- rich type terms for method signatures (the @implements model) ----

func (s *skelWriter) rty(t types.Type, depth int) string {
	if t == nil {
		return "(O \"nil\")"
	}
	if depth > 40 {
		return "(O " + sq(t.String()) + ")"
	}
	switch u := t.(type) {
	case *types.Basic:
		kind := u.Name()
		if int(u.Kind()) >= 0 && int(u.Kind()) < len(types.Typ) && types.Typ[u.Kind()] != nil {
			kind = types.Typ[u.Kind()].Name()
		}
		return "(B " + sq(kind) + " " + sq(u.Name()) + ")"
	case *types.Named:
		if u.TypeArgs() != nil && u.TypeArgs().Len() > 0 {
			return "(O " + sq(u.String()) + ")"
		}
		pk := "_"
		if u.Obj().Pkg() != nil {
			pk = sq(u.Obj().Pkg().Path())
		}
		return "(N " + pk + " " + sq(u.Obj().Name()) + ")"
	case *types.Alias:
		return "(A " + sq(u.String()) + " " + s.rty(u.Rhs(), depth+1) + ")"
	case *types.Pointer:
		return "(P " + s.rty(u.Elem(), depth+1) + ")"
	case *types.Slice:
		return "(S " + s.rty(u.Elem(), depth+1) + " " + sq(u.String()) + ")"
	case *types.Array:
		return fmt.Sprintf("(R %d %s %s)", u.Len(), s.rty(u.Elem(), depth+1), sq(u.String()))
	case *types.Map:
		return "(M " + s.rty(u.Key(), depth+1) + " " + s.rty(u.Elem(), depth+1) + " " + sq(u.String()) + ")"
	case *types.Chan:
		return fmt.Sprintf("(C %s %s %s)", sq(fmt.Sprint(int(u.Dir()))), s.rty(u.Elem(), depth+1), sq(u.String()))
	case *types.Signature:
		if u.TypeParams() != nil && u.TypeParams().Len() > 0 {
			return "(O " + sq(u.String()) + ")"
		}
		return "(F " + s.rsig(u, depth+1) + " " + sq(u.String()) + ")"
	case *types.Struct:
		var b strings.Builder
		b.WriteString("(T (")
		for i := 0; i < u.NumFields(); i++ {
			f := u.Field(i)
			e := 0
			if f.Embedded() {
				e = 1
			}
			// the identity of a field name includes its package when it is not exported
			nm := f.Name()
			if !f.Exported() && f.Pkg() != nil {
				nm = f.Pkg().Path() + "." + nm
			}
			fmt.Fprintf(&b, "(f %s %d %s %s)", sq(nm), e, s.rty(f.Type(), depth+1), sq(u.Tag(i)))
		}
		b.WriteString(") " + sq(u.String()) + ")")
		return b.String()
	case *types.Interface:
		c := u.Complete()
		if c.NumEmbeddeds() > 0 && !c.IsMethodSet() {
			return "(O " + sq(u.String()) + ")"
		}
		var b strings.Builder
		b.WriteString("(I (")
		for i := 0; i < c.NumMethods(); i++ {
			m := c.Method(i)
			nm := m.Name()
			if !m.Exported() && m.Pkg() != nil {
				nm = m.Pkg().Path() + "." + nm
			}
			sg, _ := m.Type().(*types.Signature)
			fmt.Fprintf(&b, "(m %s %s)", sq(nm), s.rty(sg, depth+1))
		}
		b.WriteString(") " + sq(u.String()) + ")")
		return b.String()
	}
	return "(O " + sq(t.String()) + ")"
}

// (sig variadic (TY...) (TY...))
func (s *skelWriter) rsig(sg *types.Signature, depth int) string {
	var b strings.Builder
	v := 0
	if sg.Variadic() {
		v = 1
	}
	fmt.Fprintf(&b, "(sig %d (", v)
	for i := 0; sg.Params() != nil && i < sg.Params().Len(); i++ {
		b.WriteString(s.rty(sg.Params().At(i).Type(), depth+1))
	}
	b.WriteString(") (")
	for i := 0; sg.Results() != nil && i < sg.Results().Len(); i++ {
		b.WriteString(s.rty(sg.Results().At(i).Type(), depth+1))
	}
	b.WriteString("))")
	return b.String()
}

// the type table the @implements checker can see: every interface type name of the package and of its direct imports
// (scope order), and the method set of *T for every defined non-generic type T of the package with, per method, whether
// the method set of T has it.  Computed by go/types; no decisions here.
func (s *skelWriter) writeTypeTable(pkg *types.Package) {
	s.w.WriteString(" (types")
	scan := append([]*types.Package{pkg}, pkg.Imports()...)
	for _, p := range scan {
		sc := p.Scope()
		for _, name := range sc.Names() {
			tn, ok := sc.Lookup(name).(*types.TypeName)
			if !ok {
				continue
			}
			iface, ok := tn.Type().Underlying().(*types.Interface)
			if !ok {
				continue
			}
			if nt, ok := tn.Type().(*types.Named); ok && nt.TypeParams() != nil && nt.TypeParams().Len() > 0 {
				continue
			}
			iface = iface.Complete()
			fmt.Fprintf(s.w, "\n (iface %s %s", sq(p.Path()), sq(name))
			for i := 0; i < iface.NumMethods(); i++ {
				m := iface.Method(i)
				fmt.Fprintf(s.w, " (m %s %s %s)", sq(m.Name()), s.rsig(m.Type().(*types.Signature), 0), sq(namePkg(m)))
			}
			s.w.WriteString(")")
		}
	}
	sc := pkg.Scope()
	for _, name := range sc.Names() {
		tn, ok := sc.Lookup(name).(*types.TypeName)
		if !ok {
			continue
		}
		named, ok := tn.Type().(*types.Named)
		if !ok {
			continue
		}
		if named.TypeParams() != nil && named.TypeParams().Len() > 0 {
			fmt.Fprintf(s.w, "\n (generic %s)", sq(name))
			continue
		}
		ms := types.NewMethodSet(types.NewPointer(named))
		vs := types.NewMethodSet(named)
		fmt.Fprintf(s.w, "\n (tdecl %s", sq(name))
		for i := 0; i < ms.Len(); i++ {
			m := ms.At(i).Obj().(*types.Func)
			inv := 0
			if vs.Lookup(m.Pkg(), m.Name()) != nil {
				inv = 1
			}
			fmt.Fprintf(s.w, " (m %s %s %d %s)", sq(m.Name()), s.rsig(m.Type().(*types.Signature), 0), inv, sq(namePkg(m)))
		}
		s.w.WriteString(")")
	}
	s.w.WriteString(")")
}

type nodeAttrs struct {
	kind             string
	name, tok, str2  string
	n, m             int
	flag             bool
	ty, obj          string
	str3             string // "_" or quoted
	roleOfGroup      string
	childGroupsRoles map[*ast.CommentGroup]string
}

func (s *skelWriter) attrsOf(n ast.Node, roles map[*ast.CommentGroup]string) nodeAttrs {
	a := nodeAttrs{kind: "Other", ty: "_", obj: "_", str3: "_"}
	switch v := n.(type) {
	case *ast.FuncDecl:
		a.kind = "FuncDecl"
		a.name = v.Name.Name
		if v.Doc != nil {
			roles[v.Doc] = "doc"
		}
		if v.Recv != nil && len(v.Recv.List) > 0 {
			a.flag = true
			rf := v.Recv.List[0]
			a.ty = s.ty(s.info.TypeOf(rf.Type))
			if len(rf.Names) > 0 {
				a.str3 = sq(rf.Names[0].Name)
				a.obj = s.obj(s.info.Defs[rf.Names[0]])
			}
		}
	case *ast.GenDecl:
		a.kind = "GenDecl"
		a.tok = v.Tok.String()
		if v.Doc != nil {
			roles[v.Doc] = "doc"
		}
	case *ast.TypeSpec:
		a.kind = "TypeSpec"
		a.name = v.Name.Name
		if v.Doc != nil {
			roles[v.Doc] = "doc"
			a.flag = true
		}
		if v.Comment != nil {
			roles[v.Comment] = "comment"
		}
	case *ast.ValueSpec:
		a.kind = "ValueSpec"
		a.n = len(v.Names)
		a.m = len(v.Values)
		if v.Doc != nil {
			roles[v.Doc] = "doc"
		}
		if v.Comment != nil {
			roles[v.Comment] = "comment"
		}
		if v.Type != nil {
			a.flag = true
			a.ty = s.ty(s.info.TypeOf(v.Type))
		}
	case *ast.ImportSpec:
		if v.Doc != nil {
			roles[v.Doc] = "doc"
		}
		if v.Comment != nil {
			roles[v.Comment] = "comment"
		}
	case *ast.StructType:
		a.kind = "StructType"
	case *ast.FieldList:
		a.kind = "FieldList"
	case *ast.Field:
		a.kind = "Field"
		a.n = len(v.Names)
		if v.Doc != nil {
			roles[v.Doc] = "doc"
		}
		if v.Comment != nil {
			roles[v.Comment] = "comment"
		}
		if v.Type != nil {
			a.flag = true
			a.ty = s.ty(s.info.TypeOf(v.Type))
		}
	case *ast.AssignStmt:
		a.kind = "AssignStmt"
		a.tok = v.Tok.String()
		a.n = len(v.Lhs)
		a.m = len(v.Rhs)
	case *ast.IncDecStmt:
		a.kind = "IncDecStmt"
		a.tok = v.Tok.String()
	case *ast.SelectorExpr:
		a.kind = "SelectorExpr"
		if s.sel == nil {
			s.sel = map[*ast.Ident]bool{}
		}
		s.sel[v.Sel] = true
		a.name = v.Sel.Name
		a.ty = s.ty(s.info.TypeOf(v.X))
		a.obj = s.obj(s.used(v.Sel))
	case *ast.IndexExpr:
		a.kind = "IndexExpr"
	case *ast.StarExpr:
		a.kind = "StarExpr"
	case *ast.Ident:
		a.kind = "Ident"
		a.flag = s.sel[v]
		a.name = v.Name
		a.ty = s.ty(s.info.TypeOf(v))
		a.obj = s.obj(s.used(v))
	case *ast.CompositeLit:
		a.kind = "CompositeLit"
		a.ty = s.ty(s.info.TypeOf(v))
	case *ast.CallExpr:
		a.kind = "CallExpr"
		a.n = len(v.Args)
		if len(v.Args) > 0 {
			a.ty = s.ty(s.info.TypeOf(v.Args[0]))
		}
	case *ast.CommentGroup:
		a.kind = "CommentGroup"
		a.tok = roles[v]
	case *ast.Comment:
		a.kind = "Comment"
		a.name = v.Text
	default:
		a.name = strings.TrimPrefix(fmt.Sprintf("%T", n), "*ast.")
	}
	return a
}

// writeNode prints (n Kind pos end "name" "tok" n m flag TY OBJ "str2" STR3 children...)
func (s *skelWriter) writeNode(root ast.Node) {
	roles := map[*ast.CommentGroup]string{}
	var depth int
	ast.Inspect(root, func(n ast.Node) bool {
		if n == nil {
			s.w.WriteString(")")
			depth--
			return true
		}
		depth++
		a := s.attrsOf(n, roles)
		fl := 0
		if a.flag {
			fl = 1
		}
		fmt.Fprintf(s.w, "(n %s %d %d %s %s %d %d %d %s %s %s %s", a.kind, int(n.Pos()), int(n.End()), sq(a.name), sq(a.tok), a.n, a.m, fl, a.ty, a.obj, sq(a.str2), a.str3)
		return true
	})
}

func cmdSkel(args []string) int {
	dir := "."
	tests := false
	out := ""
	var patterns []string
	for i := 0; i < len(args); i++ {
		switch args[i] {
		case "-dir":
			i++
			dir = args[i]
		case "-tests":
			tests = true
		case "-o":
			i++
			out = args[i]
		default:
			patterns = append(patterns, args[i])
		}
	}
	if len(patterns) == 0 {
		patterns = []string{"./..."}
	}
	cfg := &packages.Config{
		Mode: packages.NeedName | packages.NeedFiles | packages.NeedCompiledGoFiles | packages.NeedSyntax |
			packages.NeedTypes | packages.NeedTypesInfo | packages.NeedImports | packages.NeedDeps | packages.NeedTypesSizes,
		Dir:   dir,
		Tests: tests,
	}
	absDir, _ := filepath.Abs(dir)
	if r, err := filepath.EvalSymlinks(absDir); err == nil {
		absDir = r
	}
	pkgs, err := packages.Load(cfg, patterns...)
	if err != nil {
		fmt.Fprintln(os.Stderr, "skel: load:", err)
		return 1
	}
	var w *bufio.Writer
	if out == "" {
		w = bufio.NewWriter(os.Stdout)
	} else {
		f, err := os.Create(out)
		if err != nil {
			fmt.Fprintln(os.Stderr, err)
			return 1
		}
		defer f.Close()
		w = bufio.NewWriterSize(f, 1<<20)
	}
	defer w.Flush()

	// dependency order over the packages that have syntax
	var order []*packages.Package
	seen := map[string]bool{}
	var visit func(p *packages.Package)
	visit = func(p *packages.Package) {
		if seen[p.ID] {
			return
		}
		seen[p.ID] = true
		var keys []string
		for k := range p.Imports {
			keys = append(keys, k)
		}
		sort.Strings(keys)
		for _, k := range keys {
			visit(p.Imports[k])
		}
		order = append(order, p)
	}
	sort.Slice(pkgs, func(i, j int) bool { return pkgs[i].ID < pkgs[j].ID })
	for _, p := range pkgs {
		visit(p)
	}
	objIDs := map[types.Object]int{}
	rc := 0
	for _, p := range order {
		if len(p.Syntax) == 0 || p.Types == nil || p.TypesInfo == nil {
			continue
		}
		// only the packages whose sources live under the directory asked for (not the standard library,
		// not the synthesized test main)
		inside := len(p.GoFiles) > 0
		for _, gf := range p.GoFiles {
			if !strings.HasPrefix(gf, absDir+string(os.PathSeparator)) {
				inside = false
			}
		}
		if !inside {
			continue
		}
		if len(p.Errors) > 0 {
			fmt.Fprintf(os.Stderr, "skel: package %s has errors: %v\n", p.ID, p.Errors)
			rc = 3
			continue
		}
		s := &skelWriter{w: w, fset: p.Fset, info: p.TypesInfo, objIDs: objIDs}
		fmt.Fprintf(w, "(pkg %s %s %s (imports", sq(p.ID), sq(p.Types.Path()), sq(p.Types.Name()))
		// pass.Pkg.Imports(): the direct imports in the order go/types records them, with the ID of the variant loaded
		for _, imp := range p.Types.Imports() {
			id := imp.Path()
			if ip, ok := p.Imports[imp.Path()]; ok {
				id = ip.ID
			}
			fmt.Fprintf(w, " (%s %s)", sq(imp.Path()), sq(id))
		}
		w.WriteString(") (files")
		for _, f := range p.Syntax {
			tf := p.Fset.File(f.Pos())
			fmt.Fprintf(w, "\n (file %s %d %d %d (lines", sq(p.Fset.Position(f.Pos()).Filename), int(f.Package), int(f.End()), tf.Base())
			for _, off := range tf.Lines() {
				w.WriteString(" " + strconv.Itoa(tf.Base()+off))
			}
			w.WriteString(") (imports")
			for _, is := range f.Imports {
				alias := ""
				if is.Name != nil {
					alias = is.Name.Name
				}
				path := strings.Trim(is.Path.Value, `"`)
				pkgname := ""
				if pn := p.TypesInfo.PkgNameOf(is); pn != nil {
					pkgname = pn.Imported().Name()
				}
				fmt.Fprintf(w, " (%s %s %s)", sq(alias), sq(path), sq(pkgname))
			}
			w.WriteString(") (comments")
			for _, cg := range f.Comments {
				w.WriteString(" (")
				for _, c := range cg.List {
					fmt.Fprintf(w, "(%s %d %d)", sq(c.Text), int(c.Pos()), int(c.End()))
				}
				w.WriteString(")")
			}
			w.WriteString(") (decls")
			for _, d := range f.Decls {
				w.WriteString("\n  ")
				s.writeNode(d)
			}
			w.WriteString("))")
		}
		w.WriteString(")")
		// the type table is only needed when the package can carry an @implements annotation at all
		hasImpl := false
		for _, f := range p.Syntax {
			for _, cg := range f.Comments {
				for _, c := range cg.List {
					if strings.Contains(c.Text, "@implements") {
						hasImpl = true
					}
				}
			}
		}
		if hasImpl {
			s.writeTypeTable(p.Types)
		}
		w.WriteString(")\n")
	}
	return rc
}

// namePkg: the package that qualifies an unexported method name (types.Id); "" for an exported one
func namePkg(m *types.Func) string {
	if m.Exported() || m.Pkg() == nil {
		return ""
	}
	return m.Pkg().Path()
}

// used: the object an identifier refers to, as the checkers look it up - Uses first (the name of an embedded field both
// defines the field and uses the type), then ObjectOf
func (s *skelWriter) used(id *ast.Ident) types.Object {
	if o := s.info.Uses[id]; o != nil {
		return o
	}
	return s.info.ObjectOf(id)
}
