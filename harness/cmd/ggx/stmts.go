package main

// stmts: a go/parser + go/scanner view of source files that the C07/C17 oracles need and that is independent of both
// gogreement and the Coq model: per file the package-clause line, the line extents of the top-level declarations, of
// every statement that is an element of a statement list (BlockStmt.List, CaseClause.Body, CommClause.Body), and the
// set of lines that hold at least one code token (with whether the line's last token is a comment).

import (
	"encoding/json"
	"flag"
	"fmt"
	"go/ast"
	"go/parser"
	"go/scanner"
	"go/token"
	"os"
	"path/filepath"
	"strings"
)

func init() { cmds["stmts"] = cmdStmts }

type stmtInfo struct {
	Start, End       int // lines of the first and of the last byte
	StartCol         int
	EndLine, EndCol  int // position of End() (one past the last byte)
	Kind             string
	First            bool // first element of its list
	Last             bool
	StartsLine       bool // the node's first token is the first token of its line
}

type fileInfo struct {
	File        string
	PackageLine int
	Decls       []stmtInfo
	Stmts       []stmtInfo
	CodeLines   map[int]int // line -> number of code tokens on it
	CommentEnd  map[int]bool
	Lines       int
}

func cmdStmts(args []string) int {
	fs := flag.NewFlagSet("stmts", flag.ExitOnError)
	dir := fs.String("dir", ".", "root directory")
	out := fs.String("o", "-", "output file")
	fs.Parse(args)
	var res []fileInfo
	filepath.Walk(*dir, func(p string, fi os.FileInfo, err error) error {
		if err != nil || fi.IsDir() || !strings.HasSuffix(p, ".go") {
			return nil
		}
		src, err := os.ReadFile(p)
		if err != nil {
			return nil
		}
		fset := token.NewFileSet()
		f, err := parser.ParseFile(fset, p, src, parser.ParseComments|parser.SkipObjectResolution)
		if err != nil {
			return nil
		}
		rel, _ := filepath.Rel(*dir, p)
		info := fileInfo{File: rel, CodeLines: map[int]int{}, CommentEnd: map[int]bool{}}
		line := func(pos token.Pos) int { return fset.PositionFor(pos, false).Line }
		info.PackageLine = line(f.Package)
		info.Lines = fset.File(f.Pos()).LineCount()
		// first code token of every line
		firstTok := map[int]int{}
		{
			var sc scanner.Scanner
			tf := fset.AddFile(p+"#scan0", -1, len(src))
			sc.Init(tf, src, nil, scanner.ScanComments)
			for {
				pos, tok, lit := sc.Scan()
				if tok == token.EOF {
					break
				}
				if tok == token.COMMENT || (tok == token.SEMICOLON && lit == "\n") {
					continue
				}
				pp := tf.PositionFor(pos, false)
				if _, ok := firstTok[pp.Line]; !ok {
					firstTok[pp.Line] = pp.Column
				}
			}
		}
		mk := func(n ast.Node, first, last bool) stmtInfo {
			sp := fset.PositionFor(n.Pos(), false)
			ep := fset.PositionFor(n.End(), false)
			return stmtInfo{Start: sp.Line, StartCol: sp.Column, End: line(n.End() - 1), EndLine: ep.Line, EndCol: ep.Column,
				Kind: fmt.Sprintf("%T", n), First: first, Last: last, StartsLine: firstTok[sp.Line] == sp.Column}
		}
		for _, d := range f.Decls {
			info.Decls = append(info.Decls, mk(d, false, false))
		}
		addList := func(l []ast.Stmt) {
			for i, s := range l {
				info.Stmts = append(info.Stmts, mk(s, i == 0, i == len(l)-1))
			}
		}
		ast.Inspect(f, func(n ast.Node) bool {
			switch v := n.(type) {
			case *ast.BlockStmt:
				addList(v.List)
			case *ast.CaseClause:
				addList(v.Body)
			case *ast.CommClause:
				addList(v.Body)
			}
			return true
		})
		var sc scanner.Scanner
		tf := fset.AddFile(p+"#scan", -1, len(src))
		sc.Init(tf, src, nil, scanner.ScanComments)
		for {
			pos, tok, lit := sc.Scan()
			if tok == token.EOF {
				break
			}
			ln := tf.PositionFor(pos, false).Line
			if tok == token.COMMENT {
				if strings.HasPrefix(lit, "//") {
					info.CommentEnd[ln] = true
				}
				continue
			}
			if tok == token.SEMICOLON && lit == "\n" {
				continue
			}
			info.CodeLines[ln]++
			info.CommentEnd[ln] = false
			// the later lines of a multi-line token (raw string) are not eligible for a trailing comment
			if n := strings.Count(lit, "\n"); n > 0 {
				for k := 0; k < n; k++ {
					info.CommentEnd[ln+k] = true
				}
			}
		}
		res = append(res, info)
		return nil
	})
	b, _ := json.Marshal(res)
	if *out == "-" {
		os.Stdout.Write(b)
	} else {
		os.WriteFile(*out, b, 0o644)
	}
	return 0
}
