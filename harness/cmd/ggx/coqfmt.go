package main

import (
	"fmt"
	"strings"
)

// coqStr renders a Go string as a Coq term of type string.
// Printable ASCII goes into a literal; anything else is spelled byte by byte.
func coqStr(s string) string {
	plain := true
	for i := 0; i < len(s); i++ {
		if s[i] < 32 || s[i] > 126 {
			plain = false
			break
		}
	}
	if plain {
		return "\"" + strings.ReplaceAll(s, "\"", "\"\"") + "\""
	}
	var b strings.Builder
	b.WriteString("(bytes_to_string [")
	for i := 0; i < len(s); i++ {
		if i > 0 {
			b.WriteString(";")
		}
		fmt.Fprintf(&b, "%d", s[i])
	}
	b.WriteString("]%N)")
	return b.String()
}

func coqList(items []string) string {
	return "[" + strings.Join(items, "; ") + "]"
}

func coqStrList(ss []string) string {
	items := make([]string, len(ss))
	for i, s := range ss {
		items[i] = coqStr(s)
	}
	return coqList(items)
}

func coqBool(b bool) string {
	if b {
		return "true"
	}
	return "false"
}
