(* reporting.Reporter (src/reporting/reporter.go): truncation, caret column, context window, message text.
   Go slice expressions are explicit partial operations: [substr] answers None where Go would panic. *)
From Coq Require Import List String Ascii ZArith Bool DecimalString.
From GG Require Import Base.Strs.
Import ListNotations.
Local Open Scope Z_scope.

(* s[lo:hi] *)
Definition substr (s : string) (lo hi : Z) : option string :=
  if (0 <=? lo) && (lo <=? hi) && (hi <=? slen s)
  then Some (String.substring (Z.to_nat lo) (Z.to_nat (hi - lo)) s)
  else None.

Definition dots : string := "..."%string.

Definition clamp_pos0 (len pos : Z) : Z :=
  let p0 := pos - 1 in
  let p0 := if p0 <? 0 then 0 else p0 in
  if p0 >=? len then len - 1 else p0.

(* truncateString(s, maxLen, pos) *)
Definition truncate (s : string) (maxLen pos : Z) : option string :=
  let len := slen s in
  if len <=? maxLen then Some s
  else if maxLen <=? 3 then substr s 0 maxLen
  else
    let pos0 := clamp_pos0 len pos in
    if pos0 <? maxLen - 3 then
      option_map (fun h => (h ++ dots)%string) (substr s 0 (maxLen - 3))
    else if pos0 >=? len - maxLen + 3 then
      option_map (fun tl => (dots ++ tl)%string) (substr s (len - maxLen + 3) len)
    else
      let before := (maxLen - 3) / 2 in
      let after := (maxLen - 3) - before in
      let start := if pos0 - before <? 0 then 0 else pos0 - before in
      let stop := if pos0 + after >? len then len else pos0 + after in
      option_map (fun m => (dots ++ m ++ dots)%string) (substr s start stop).

(* calculateDisplayColumn(line, pos, maxLen) *)
Definition display_col (s : string) (pos maxLen : Z) : Z :=
  let len := slen s in
  if len <=? maxLen then pos
  else
    if pos - 1 <? 0 then 1
    else
      let pos0 := if pos - 1 >=? len then len - 1 else pos - 1 in
      if pos0 <? maxLen - 3 then pos
      else if pos0 >=? len - maxLen + 3 then 4 + (pos0 - (len - maxLen + 3))
      else 4 + (maxLen - 3) / 2.

(* the padding in front of the caret: display_col-1 characters, a tab wherever the excerpt has one *)
Fixpoint caret_pad (n : nat) (excerpt : string) : string :=
  match n with
  | O => EmptyString
  | S n' =>
      match excerpt with
      | String a r => String (if Ascii.eqb a "009"%char then "009"%char else " "%char) (caret_pad n' r)
      | EmptyString => String " "%char (caret_pad n' EmptyString)
      end
  end.

(* readSourceLines(lines, lineNum, before, after): (line number, text) pairs; [lines = None] = unreadable *)
Fixpoint take_numbered (ls : list string) (first : Z) (count : nat) {struct count} : list (Z * string) :=
  match count, ls with
  | S c, l :: r => (first, l) :: take_numbered r (first + 1) c
  | _, _ => []
  end.

Definition window (lines : option (list string)) (n before after : Z) : list (Z * string) :=
  match lines with
  | None => []
  | Some [] => []                                   (* getFileLines returns nil for a file without lines *)
  | Some ls =>
      let len := Z.of_nat (List.length ls) in
      let start := if n - before - 1 <? 0 then 0 else n - before - 1 in
      let stop := if n + after - 1 >=? len then len - 1 else n + after - 1 in
      if start >=? len then []
      else take_numbered (skipn (Z.to_nat start) ls) (start + 1) (Z.to_nat (stop - start + 1))
  end.

(* bufio.Scanner with ScanLines over the file content (lines shorter than the 64 KiB token limit):
   split at \n, drop one trailing \r of each line, no final empty line *)
Definition strip_cr (s : string) : string :=
  match rev_string s with
  | String a r => if Ascii.eqb a "013"%char then rev_string r else s
  | EmptyString => s
  end.

Definition scan_lines (content : string) : list string :=
  let parts := split_on "010"%char content in
  let parts := match rev parts with
               | EmptyString :: r => rev r
               | _ => parts
               end in
  map strip_cr parts.

Definition dec (z : Z) : string := NilZero.string_of_int (Z.to_int z).

Fixpoint spaces (n : nat) : string := match n with O => EmptyString | S k => String " "%char (spaces k) end.

(* fmt.Sprintf("%*d", w, n): right-aligned in width w *)
Definition pad_left (w : nat) (s : string) : string := (spaces (w - String.length s) ++ s)%string.

Definition nl : string := String "010"%char EmptyString.

Inductive outcome := Msg (m : string) | PanicSlice.

Fixpoint render_lines (w : nat) (maxLen line col : Z) (ls : list (Z * string)) : option string :=
  match ls with
  | [] => Some EmptyString
  | (num, text) :: r =>
      match truncate text maxLen col, render_lines w maxLen line col r with
      | Some t, Some rest =>
          let row := (pad_left w (dec num) ++ " | " ++ t ++ nl)%string in
          let caret := if num =? line
                       then (spaces w ++ " | " ++ caret_pad (Z.to_nat (display_col text col maxLen - 1)) t ++ "^" ++ nl)%string
                       else EmptyString in
          Some (row ++ caret ++ rest)%string
      | _, _ => None
      end
  end.

Definition header (code msg : string) : string := ("error: [" ++ code ++ "] " ++ msg ++ nl)%string.

(* formatPrettyError *)
Definition format_message (maxLen before after : Z) (url : string -> string)
           (content : option string) (line col : Z) (code msg : string) : outcome :=
  let header := header code msg in
  let ls := window (option_map scan_lines content) line before after in
  match ls with
  | [] => Msg header
  | _ =>
      let maxnum := fold_left (fun m p => if fst p >? m then fst p else m) ls 0 in
      let w := String.length (dec maxnum) in
      match render_lines w maxLen line col ls with
      | None => PanicSlice
      | Some body =>
          Msg (header ++ spaces w ++ " |" ++ nl ++ body ++ spaces w ++ " |" ++ nl ++ "   = help: " ++ url code ++ nl)%string
      end
  end.
