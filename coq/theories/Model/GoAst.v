(* A neutral mirror of what the analyzers consult in go/ast and go/types: a generic tree
   [Node kind pos end attrs children] (children in ast.Walk order, comment groups included where ast.Walk
   visits them) with go/types facts attached by the serializer (ggx skel) verbatim. *)
From Coq Require Import List String ZArith Bool.
From GG Require Import Base.Strs Model.GoTypes.
Import ListNotations.
Local Open Scope Z_scope.

(* types.Type, as far as the checkers look: defined types, aliases, one level of pointer *)
Inductive ty : Type :=
| TNamed (pkg : option string) (name : string)      (* *types.Named; pkg = None for universe types (error) *)
| TAlias (name : string) (rhs : ty)                 (* *types.Alias with its right-hand side *)
| TPtr (elem : ty)                                  (* *types.Pointer *)
| TOther (descr : string).                          (* everything else *)

Fixpoint unalias (t : ty) : ty := match t with TAlias _ r => unalias r | _ => t end.

(* util.ExtractTypeInfo: unalias, strip one pointer, unalias, a defined type with a package *)
Definition type_info (t : option ty) : option (string * string) :=
  match t with
  | None => None
  | Some t0 =>
      let t1 := unalias t0 in
      let t2 := match t1 with TPtr e => unalias e | _ => t1 end in
      match t2 with
      | TNamed (Some p) n => Some (p, n)
      | _ => None
      end
  end.

(* util.ExtractTypeName: as above, the name only, universe types included *)
Definition type_name (t : option ty) : string :=
  match t with
  | None => EmptyString
  | Some t0 =>
      let t1 := unalias t0 in
      let t2 := match t1 with TPtr e => unalias e | _ => t1 end in
      match t2 with TNamed _ n => n | _ => EmptyString end
  end.

Definition is_pointer (t : ty) : bool := match unalias t with TPtr _ => true | _ => false end.

(* constructor.checkVarDeclaration: unalias, pointer => skip, must be a defined type itself *)
Definition named_direct (t : option ty) : option (string * string) :=
  match t with
  | None => None
  | Some t0 => match unalias t0 with TNamed (Some p) n => Some (p, n) | _ => None end
  end.

(* types.Object *)
Inductive okind := OTypeName | OFunc | OVar | OPkgName | OOtherObj.
Record obj := {
  o_kind : okind;
  o_id : Z;                      (* identity of the object within the load (pointer identity in go/types) *)
  o_pkg : option string;         (* obj.Pkg().Path() *)
  o_name : string;
  o_is_method : bool;            (* *types.Func whose signature has a receiver *)
  o_recv : option ty;            (* that receiver's type *)
  o_is_alias : bool;             (* TypeName.IsAlias() *)
  o_type : option ty;            (* TypeName: obj.Type() *)
  o_imported : string            (* PkgName: Imported().Path() *)
}.

Inductive kind :=
| KFuncDecl | KGenDecl | KTypeSpec | KValueSpec | KStructType | KFieldList | KField
| KAssignStmt | KIncDecStmt | KSelectorExpr | KIndexExpr | KStarExpr | KIdent | KCompositeLit | KCallExpr
| KCommentGroup | KComment | KOther.

Definition kind_eqb (a b : kind) : bool :=
  match a, b with
  | KFuncDecl, KFuncDecl | KGenDecl, KGenDecl | KTypeSpec, KTypeSpec | KValueSpec, KValueSpec
  | KStructType, KStructType | KFieldList, KFieldList | KField, KField | KAssignStmt, KAssignStmt
  | KIncDecStmt, KIncDecStmt | KSelectorExpr, KSelectorExpr | KIndexExpr, KIndexExpr | KStarExpr, KStarExpr
  | KIdent, KIdent | KCompositeLit, KCompositeLit | KCallExpr, KCallExpr | KCommentGroup, KCommentGroup
  | KComment, KComment | KOther, KOther => true
  | _, _ => false
  end.

Record attrs := {
  a_name : string;       (* FuncDecl/TypeSpec: Name; Ident: Name; SelectorExpr: Sel.Name; Comment: Text; Other: the Go node type *)
  a_tok : string;        (* AssignStmt / IncDecStmt / GenDecl: Tok *)
  a_n : nat;             (* AssignStmt: len(Lhs); CallExpr: len(Args); ValueSpec / Field: len(Names) *)
  a_m : nat;             (* ValueSpec: len(Values) *)
  a_flag : bool;         (* FuncDecl: Recv != nil && len(Recv.List) > 0; ValueSpec / Field: Type != nil; TypeSpec: own Doc != nil;
                            Ident: it is the Sel of a selector expression *)
  a_ty : option ty;      (* SelectorExpr: TypeOf(X); CompositeLit / Ident: TypeOf(node); CallExpr: TypeOf(Args[0]);
                            ValueSpec / Field: TypeOf(Type); FuncDecl: TypeOf(Recv.List[0].Type) *)
  a_obj : option obj;    (* Ident: Uses[ident], else ObjectOf(ident) (the name of an embedded field: the type it uses); SelectorExpr: the same for Sel; FuncDecl: Defs[Recv.List[0].Names[0]] *)
  a_str2 : string;       (* FuncDecl: ExtractReceiverType(Recv.List[0].Type) *)
  a_str3 : option string (* FuncDecl: Recv.List[0].Names[0].Name when the receiver is named *)
}.

Inductive node : Type := Node (k : kind) (pos end_ : Z) (a : attrs) (cs : list node).

Definition n_kind (n : node) := let 'Node k _ _ _ _ := n in k.
Definition n_pos (n : node) := let 'Node _ p _ _ _ := n in p.
Definition n_end (n : node) := let 'Node _ _ e _ _ := n in e.
Definition n_attrs (n : node) := let 'Node _ _ _ a _ := n in a.
Definition n_children (n : node) := let 'Node _ _ _ _ cs := n in cs.

(* induction over trees: the hypothesis is available for every child *)
Section NodeInd.
Variable P : node -> Prop.
Hypothesis Hnode : forall k p e a cs, Forall P cs -> P (Node k p e a cs).
Fixpoint node_ind' (n : node) : P n :=
  match n with
  | Node k p e a cs =>
      Hnode k p e a cs
        ((fix G (l : list node) : Forall P l :=
            match l with [] => Forall_nil P | c :: r => Forall_cons c (node_ind' c) (G r) end) cs)
  end.
End NodeInd.

(* ast.Inspect with a callback that always answers true: pre-order *)
Fixpoint preorder (n : node) : list node :=
  let 'Node _ _ _ _ cs := n in
  n :: (fix go (l : list node) : list node := match l with [] => [] | c :: r => preorder c ++ go r end) cs.

Definition preorder_list (l : list node) : list node := flat_map preorder l.

Lemma preorder_unfold n : preorder n = n :: preorder_list (n_children n).
Proof. destruct n as [k p e a cs]. reflexivity. Qed.

(* ast.Inspect with pruning: the callback's answer decides whether the children are visited *)
Fixpoint preorder_pruned (keep : node -> bool) (n : node) : list node :=
  let 'Node _ _ _ _ cs := n in
  n :: (if keep n
        then (fix go (l : list node) : list node :=
                match l with [] => [] | c :: r => preorder_pruned keep c ++ go r end) cs
        else []).

Definition non_comment (n : node) : bool :=
  negb (kind_eqb (n_kind n) KCommentGroup).

Record comment := { c_text : string; c_pos : Z; c_end : Z }.

Record import_spec := {
  i_alias : string;        (* explicit name, "" when absent *)
  i_path : string;         (* the unquoted import path *)
  i_pkgname : string       (* the imported package's declared name ("" when unknown) *)
}.

Record file := {
  f_name : string;                        (* Fset.Position(file.Pos()).Filename *)
  f_package : Z;                          (* file.Package *)
  f_end : Z;                              (* file.End() *)
  f_decls : list node;
  f_comments : list (list comment);       (* file.Comments *)
  f_imports : list import_spec;
  f_lines : list Z                        (* token.Pos of the first byte of every physical line *)
}.

Record package := {
  p_path : string;
  p_name : string;
  p_files : list file;
  p_imports : list string;                (* pass.Pkg.Imports(): paths of the direct imports, in order *)
  p_types : typetable                     (* interfaces of the package and of its direct imports, defined types of the package *)
}.

(* physical line of a position (PositionFor(pos, false).Line): number of line starts <= pos *)
Definition line_of (f : file) (p : Z) : Z :=
  Z.of_nat (List.length (filter (fun s => s <=? p) (f_lines f))).

(* token.File.LineStart(line): None where Go panics ("invalid line number") *)
Definition line_start (f : file) (line : Z) : option Z :=
  if (1 <=? line) && (line <=? Z.of_nat (List.length (f_lines f)))
  then nth_error (f_lines f) (Z.to_nat (line - 1)) else None.
