(* encoding/gob, as far as facts need it: a value is sent field by field; unexported fields are not sent, zero values
   are omitted and decode as the zero value (nil and empty slices are both "no elements"). Library model. *)
From Coq Require Import List String ZArith Bool.
Import ListNotations.

Inductive gval : Type :=
| GStr (s : string)
| GBool (b : bool)
| GInt (z : Z)
| GList (l : list gval)
| GStruct (fields : list (string * bool * gval)).      (* field name, exported, value *)

(* the zero value of the same shape (what a decoder starts from) *)
Fixpoint gzero (v : gval) : gval :=
  match v with
  | GStr _ => GStr EmptyString
  | GBool _ => GBool false
  | GInt _ => GInt 0%Z
  | GList _ => GList []
  | GStruct fs => GStruct (map (fun (f : string * bool * gval) => let '(n, e, x) := f in (n, e, gzero x)) fs)
  end.

(* encode then decode into a zero value: exported fields survive, unexported ones come back as zero *)
Fixpoint roundtrip (v : gval) : gval :=
  match v with
  | GList l => GList (map roundtrip l)
  | GStruct fs => GStruct (map (fun (f : string * bool * gval) => let '(n, e, x) := f in if e then (n, e, roundtrip x) else (n, e, gzero x)) fs)
  | _ => v
  end.

Fixpoint all_exported (v : gval) : bool :=
  match v with
  | GList l => forallb all_exported l
  | GStruct fs => forallb (fun (f : string * bool * gval) => let '(_, e, x) := f in e && all_exported x) fs
  | _ => true
  end.
