(* The drivers, as far as the properties C06/C11 need them: packages are analysed one action per package, an action
   reads the facts (annotations) that the actions of its direct imports exported, in any order that respects the
   import graph, alone or together with other packages.  go/analysis' checker (in-process, parallel or sequential),
   unitchecker (one process per package, facts on disk) and any listing order of the packages are instances. *)
From Coq Require Import List String ZArith Bool.
From GG Require Import Base.Strs Model.Config Model.GoTypes Model.GoAst Model.Annots Model.Analyze Extracted Exec.
Import ListNotations.

Section Driver.
Variable cfg : config.

(* the store of exported facts: package path -> annotations (absent: not analysed, or its analysis failed) *)
Definition store := list (string * annots).

Definition lookup (s : store) (path : string) : option annots :=
  match find (fun pa => String.eqb (fst pa) path) s with Some pa => Some (snd pa) | None => None end.

(* one action: analyse p against the current store; its own fact is added (ExportPackageFact) *)
Definition step (acc : store * list (string * aresult)) (p : package) : store * list (string * aresult) :=
  let '(s, out) := acc in
  let r := x_analyze cfg p s in
  match r with
  | AOk own _ => ((p_path p, own) :: s, (out ++ [(p_path p, r)])%list)
  | APanic _ => (s, (out ++ [(p_path p, r)])%list)
  end.

Definition run_schedule (order : list package) : store * list (string * aresult) := fold_left step order ([], []).

(* what the analysis of p is, independently of any driver: p against the facts of its direct imports that are part of
   the universe of loaded packages (a fact is a function of the exporting package alone) *)
Definition fact_of (q : package) : option annots :=
  match x_ignore_ops cfg q with Some _ => Some (x_read_all cfg q) | None => None end.

Definition universe_facts (universe : list package) : store :=
  flat_map (fun q => match fact_of q with Some a => [(p_path q, a)] | None => [] end) universe.

Definition spec_result (universe : list package) (p : package) : aresult := x_analyze cfg p (universe_facts universe).

(* a schedule is valid for a universe when it lists packages of the universe, each once, every package after those of
   its direct imports that belong to the universe; paths identify packages *)
Fixpoint valid_schedule (universe done : list package) (order : list package) : Prop :=
  match order with
  | [] => True
  | p :: r =>
      In p universe /\ ~ In (p_path p) (map p_path done) /\
      (forall q, In q universe -> In (p_path q) (p_imports p) -> In q done) /\
      valid_schedule universe (p :: done) r
  end.

End Driver.
