(* PackageAnnotations and the reader annotations.ReadAllAnnotations over GoAst. *)
From Coq Require Import List String ZArith Bool.
From GG Require Import Base.Strs Model.GoAst Model.Config Model.RegexSyntax Model.Regex Model.Annot.
Import ListNotations.
Local Open Scope string_scope.

Record impl_ann := { ia_type : string; ia_pos : Z; ia_iface : string; ia_pkgname : string; ia_ptr : bool;
                     ia_fullpath : string; ia_notfound : bool }.
Record ctor_ann := { ca_type : string; ca_pos : Z; ca_names : list string }.
Record imm_ann := { ima_type : string; ima_pos : Z }.
Inductive akind := AKType | AKFunc | AKMethod.
Record tonl_ann := { ta_kind : akind; ta_name : string; ta_pos : Z; ta_recv : string }.
Record mut_ann := { ma_type : string; ma_field : string; ma_pos : Z }.
Record pkgo_ann := { pa_kind : akind; pa_name : string; pa_pos : Z; pa_recv : string; pa_allowed : list string }.

Record annots := {
  an_impl : list impl_ann; an_ctor : list ctor_ann; an_imm : list imm_ann;
  an_tonl : list tonl_ann; an_mut : list mut_ann; an_pkgo : list pkgo_ann
}.

Definition no_annots : annots :=
  {| an_impl := []; an_ctor := []; an_imm := []; an_tonl := []; an_mut := []; an_pkgo := [] |}.

Definition annots_app (a b : annots) : annots :=
  {| an_impl := an_impl a ++ an_impl b; an_ctor := an_ctor a ++ an_ctor b; an_imm := an_imm a ++ an_imm b;
     an_tonl := an_tonl a ++ an_tonl b; an_mut := an_mut a ++ an_mut b; an_pkgo := an_pkgo a ++ an_pkgo b |}.

Definition annots_empty (a : annots) : bool :=
  match an_impl a, an_ctor a, an_imm a, an_tonl a, an_mut a, an_pkgo a with
  | [], [], [], [], [], [] => true
  | _, _, _, _, _, _ => false
  end.

(* ---------- util.ImportMap.Find ---------- *)
(* matchesPathComponentWithSlash: fullPath ends with "/" ++ shortName (the index expression
   fullPath[startPos-1] is guarded by the length test, see ImportMapProofs) *)
Definition path_component_match (full short : string) : bool := has_suffix ("/" ++ short) full.

Definition import_find (imps : list import_spec) (short : string) : option import_spec :=
  if String.eqb short "" then None else
  match find (fun i => negb (String.eqb (i_alias i) "") && String.eqb (i_alias i) short) imps with
  | Some i => Some i
  | None =>
    match find (fun i => negb (String.eqb (i_pkgname i) "") && String.eqb (i_pkgname i) short) imps with
    | Some i => Some i
    | None =>
      match find (fun i => String.eqb (i_path i) short) imps with
      | Some i => Some i
      | None => find (fun i => path_component_match (i_path i) short) imps
      end
    end
  end.

(* parseImplementsAnnotation: (PackageFullPath, PackageNotFound) of a qualifier *)
Definition resolve_qualifier (cur_pkg : string) (imps : list import_spec) (pk : string) : string * bool :=
  if String.eqb pk "" then (cur_pkg, false)
  else match import_find imps pk with
       | Some i =>
           (* a match on the path alone does not bind the qualifier when the package name is known *)
           if negb (String.eqb (i_pkgname i) "") && negb (String.eqb (i_alias i) pk) && negb (String.eqb (i_pkgname i) pk)
           then ("", true) else (i_path i, false)
       | None => ("", true)
       end.

(* ---------- doc comments ---------- *)
(* the Doc comment group of a declaration: its first child, when that is a comment group in the Doc role *)
Definition doc_lines (n : node) : option (list string) :=
  match n_children n with
  | Node KCommentGroup _ _ a cs :: _ =>
      if String.eqb (a_tok a) "doc" then Some (map (fun c => a_name (n_attrs c)) cs) else None
  | _ => None
  end.

Definition plain_children (n : node) : list node := filter non_comment (n_children n).

(* annotations.ExtractReceiverType on the receiver's type expression *)
Definition recv_type_expr (fd : node) : option node :=
  if a_flag (n_attrs fd) then
    match filter (fun c => kind_eqb (n_kind c) KFieldList) (n_children fd) with
    | fl :: _ =>
        match n_children fl with
        | fld :: _ => nth_error (plain_children fld) (a_n (n_attrs fld))
        | [] => None
        end
    | [] => None
    end
  else None.

Definition extract_receiver_type (e : node) : string :=
  match n_kind e with
  | KIdent => a_name (n_attrs e)
  | KStarExpr => match n_children e with
                 | x :: _ => match n_kind x with KIdent => a_name (n_attrs x) | _ => "" end
                 | [] => ""
                 end
  | _ => ""
  end.

Definition func_recv_type (fd : node) : string :=
  match recv_type_expr fd with Some e => extract_receiver_type e | None => "" end.

Section Reader.
Variables re_impl re_ctor re_imm re_tonl re_mut re_pkgo : re.
Variable keywords : list string.           (* the Aho-Corasick pre-filter: some keyword is a substring *)

Definition prefilter (text : string) : bool := existsb (fun k => str_contains text k) keywords.

(* readFieldAnnotationsForType *)
Definition field_mutables (type_name : string) (spec : node) : list mut_ann :=
  match filter (fun c => kind_eqb (n_kind c) KStructType) (n_children spec) with
  | st :: _ =>
      match n_children st with
      | fl :: _ =>
          flat_map (fun fld =>
            if Nat.eqb (a_n (n_attrs fld)) 0 then [] else
            match doc_lines fld with
            | None => []
            | Some docs =>
                flat_map (fun nm =>
                  flat_map (fun text =>
                    if prefilter text && str_contains text "@mutable" && parse_mutable re_mut text
                    then [{| ma_type := type_name; ma_field := a_name (n_attrs nm); ma_pos := n_pos nm |}]
                    else []) docs)
                  (firstn (a_n (n_attrs fld)) (plain_children fld))
            end) (n_children fl)
      | [] => []
      end
  | [] => []
  end.

Definition type_line (cur_pkg : string) (imps : list import_spec) (spec : node) (text : string) : annots :=
  if negb (prefilter text) then no_annots else
  let tn := a_name (n_attrs spec) in
  let pos := n_pos spec in
  let a1 := if str_contains text "@implements" then
              match parse_implements re_impl text with
              | Some (ptr, pk, iface) =>
                  let '(full, nf) := resolve_qualifier cur_pkg imps pk in
                  [{| ia_type := tn; ia_pos := pos; ia_iface := iface; ia_pkgname := pk; ia_ptr := ptr;
                      ia_fullpath := full; ia_notfound := nf |}]
              | None => []
              end else [] in
  let a2 := if str_contains text "@constructor" then
              match parse_constructor re_ctor text with
              | Some names => [{| ca_type := tn; ca_pos := pos; ca_names := names |}]
              | None => []
              end else [] in
  let imm := str_contains text "@immutable" && parse_immutable re_imm text in
  let a3 := if imm then [{| ima_type := tn; ima_pos := pos |}] else [] in
  let a3m := if imm then field_mutables tn spec else [] in
  let a4 := if str_contains text "@testonly" && parse_testonly re_tonl text
            then [{| ta_kind := AKType; ta_name := tn; ta_pos := pos; ta_recv := "" |}] else [] in
  let a5 := if str_contains text "@packageonly" then
              match parse_packageonly re_pkgo text with
              | Some l => [{| pa_kind := AKType; pa_name := tn; pa_pos := pos; pa_recv := ""; pa_allowed := cur_pkg :: l |}]
              | None => []
              end else [] in
  {| an_impl := a1; an_ctor := a2; an_imm := a3; an_tonl := a4; an_mut := a3m; an_pkgo := a5 |}.

Definition func_line (cur_pkg : string) (fd : node) (text : string) : annots :=
  if negb (prefilter text) then no_annots else
  let fnm := a_name (n_attrs fd) in
  let pos := n_pos fd in
  let '(k, rt) := if a_flag (n_attrs fd) then (AKMethod, func_recv_type fd) else (AKFunc, "") in
  let a4 := if str_contains text "@testonly" && parse_testonly re_tonl text
            then [{| ta_kind := k; ta_name := fnm; ta_pos := pos; ta_recv := rt |}] else [] in
  let a5 := if str_contains text "@packageonly" then
              match parse_packageonly re_pkgo text with
              | Some l => [{| pa_kind := k; pa_name := fnm; pa_pos := pos; pa_recv := rt; pa_allowed := cur_pkg :: l |}]
              | None => []
              end else [] in
  {| an_impl := []; an_ctor := []; an_imm := []; an_tonl := a4; an_mut := []; an_pkgo := a5 |}.

Definition concat_annots (l : list annots) : annots := fold_right annots_app no_annots l.

Definition type_decl_annots (cur_pkg : string) (imps : list import_spec) (d : node) : annots :=
  if kind_eqb (n_kind d) KGenDecl && String.eqb (a_tok (n_attrs d)) "type" then
    concat_annots
      (map (fun spec =>
              if kind_eqb (n_kind spec) KTypeSpec then
                let doc := match (if a_flag (n_attrs spec) then doc_lines spec else None) with
                           | Some l => Some l
                           | None => doc_lines d
                           end in
                match doc with
                | None => no_annots
                | Some lines => concat_annots (map (type_line cur_pkg imps spec) lines)
                end
              else no_annots) (n_children d))
  else no_annots.

Definition func_decl_annots (cur_pkg : string) (d : node) : annots :=
  if kind_eqb (n_kind d) KFuncDecl then
    match doc_lines d with
    | None => no_annots
    | Some lines => concat_annots (map (func_line cur_pkg d) lines)
    end
  else no_annots.

Definition file_annots (cur_pkg : string) (f : file) : annots :=
  annots_app (concat_annots (map (type_decl_annots cur_pkg (f_imports f)) (f_decls f)))
             (concat_annots (map (func_decl_annots cur_pkg) (f_decls f))).

(* Config.FilterFiles *)
Definition kept_files (cfg : config) (p : package) : list file :=
  filter (fun f => negb (should_skip cfg (f_name f))) (p_files p).

(* annotations.ReadAllAnnotations *)
Definition read_all (cfg : config) (p : package) : annots :=
  concat_annots (map (file_annots (p_path p)) (kept_files cfg p)).

End Reader.
