(* config.FromEnv / CreateFlagSet / ParseFlagsFromFlagSet (src/config/config.go) and file filtering.
   strconv.ParseBool and the flag package's value parsing are library models. *)
From Coq Require Import List String Ascii Bool.
From GG Require Import Base.Strs.
Import ListNotations.
Local Open Scope string_scope.

Record config := { scan_tests : bool; exclude_paths : list string; exclude_checks : list string }.

(* parseStringList *)
Definition nonempty (s : string) : bool := negb (String.eqb s "").
Definition parse_list (up : bool) (s : string) : list string :=
  if String.eqb s "" then []
  else filter nonempty (map (fun p => if up then upper (trim p) else trim p) (split_on ","%char s)).

(* strconv.ParseBool *)
Definition go_parse_bool (s : string) : option bool :=
  if str_mem s ["1"; "t"; "T"; "TRUE"; "true"; "True"] then Some true
  else if str_mem s ["0"; "f"; "F"; "FALSE"; "false"; "False"] then Some false
  else None.

(* parseBool *)
Definition parse_bool (extra : list string) (s : string) : bool :=
  let s' := lower (trim s) in
  match go_parse_bool s' with
  | Some b => b
  | None => str_mem s' extra
  end.

(* names and defaults, instantiated from Extracted.v *)
Record cfg_params := {
  env_scan : string; env_paths : string; env_checks : string; env_only : string;
  up_env_paths : bool; up_env_checks : bool;
  flag_scan : string; flag_paths : string; flag_checks : string;
  up_flag_paths : bool; up_flag_checks : bool;
  def_scan : bool; def_paths : list string; def_checks : list string;
  bool_extra : list string
}.

Definition env := list (string * string).          (* the process environment: later bindings do not occur twice *)
Fixpoint lookup (k : string) (e : list (string * string)) : option string :=
  match e with [] => None | (k', v) :: r => if String.eqb k k' then Some v else lookup k r end.

Section WithParams.
Variable P : cfg_params.

(* FromEnv: the boolean uses Getenv != "", the lists use LookupEnv *)
Definition from_env (e : env) : config :=
  {| scan_tests := match lookup (env_scan P) e with
                   | Some v => if String.eqb v "" then def_scan P else parse_bool (bool_extra P) v
                   | None => def_scan P
                   end;
     exclude_paths := match lookup (env_paths P) e with
                      | Some v => parse_list (up_env_paths P) v
                      | None => def_paths P
                      end;
     exclude_checks := match lookup (env_checks P) e with
                       | Some v => parse_list (up_env_checks P) v
                       | None => def_checks P
                       end |}.

(* command line: (flag name, value) in order; a bare boolean flag has value None; the last occurrence wins *)
Definition flags := list (string * option string).
Fixpoint last_flag (k : string) (f : flags) (acc : option (option string)) : option (option string) :=
  match f with
  | [] => acc
  | (k', v) :: r => last_flag k r (if String.eqb k k' then Some v else acc)
  end.

Inductive cfg_result := CfgOk (c : config) | FlagError.

(* the flag package on the boolean flag: every occurrence is parsed by strconv.ParseBool when it is met
   (an ill-formed one stops the program), a bare occurrence means true, the last one wins.
   None = rejected command line; Some None = flag absent *)
Fixpoint bool_flag (k : string) (f : flags) (acc : option bool) : option (option bool) :=
  match f with
  | [] => Some acc
  | (k', v) :: r =>
      if String.eqb k k' then
        match v with
        | None => bool_flag k r (Some true)
        | Some s => match go_parse_bool s with
                    | Some b => bool_flag k r (Some b)
                    | None => None
                    end
        end
      else bool_flag k r acc
  end.

(* CreateFlagSet registers the flags with FromEnv's values as defaults (lists joined by ","), the flag
   package overwrites what is given, ParseFlagsFromFlagSet parses the strings again. *)
Definition resolve (f : flags) (e : env) : cfg_result :=
  let d := from_env e in
  let only := match lookup (env_only P) e with Some v => negb (String.eqb v "") | None => false end in
  let scan_r : option bool :=
    match bool_flag (flag_scan P) f None with
    | None => None
    | Some None => Some (scan_tests d)
    | Some (Some b) => Some b
    end in
  let paths_s := match last_flag (flag_paths P) f None with
                 | Some (Some v) => v
                 | _ => join "," (exclude_paths d) end in
  let checks_s := match last_flag (flag_checks P) f None with
                  | Some (Some v) => v
                  | _ => join "," (exclude_checks d) end in
  match scan_r with
  | None => FlagError
  | Some sc =>
      if only then CfgOk d
      else CfgOk {| scan_tests := sc;
                    exclude_paths := parse_list (up_flag_paths P) paths_s;
                    exclude_checks := parse_list (up_flag_checks P) checks_s |}
  end.

(* the property's right-hand side: flag if given, else environment if set, else default *)
Definition spec_scan (f : flags) (e : env) : option bool :=
  match bool_flag (flag_scan P) f None with
  | None => None
  | Some (Some b) => Some b
  | Some None => match lookup (env_scan P) e with
                 | Some v => if String.eqb v "" then Some (def_scan P) else Some (parse_bool (bool_extra P) v)
                 | None => Some (def_scan P)
                 end
  end.

Definition spec_list (fname ename : string) (upf upe : bool) (dflt : list string) (f : flags) (e : env) : list string :=
  match last_flag fname f None with
  | Some (Some v) => parse_list upf v
  | _ => match lookup ename e with
         | Some v => parse_list upe v
         | None => dflt
         end
  end.

End WithParams.

(* Config.ShouldSkipFile on a file name *)
Definition should_skip (c : config) (filename : string) : bool :=
  existsb (fun ex => str_contains filename ex) (exclude_paths c)
  || (negb (scan_tests c) && has_suffix "_test.go" filename).
