(* The seven comment-line parsers of annotations/annotation.go and ignore/ignore.go:
   regex match + post-processing (split on commas, trim, drop empties, upper-case for @ignore). *)
From Coq Require Import List Ascii String Bool.
From GG Require Import Base.Strs Model.RegexSyntax Model.Regex.
Import ListNotations.
Local Open Scope string_scope.

Definition nonempty_s (s : string) : bool := negb (String.eqb s "").

(* strings.Split(x, ",") -> TrimSpace each -> keep the non-empty ones *)
Definition split_items (s : string) : list string :=
  filter nonempty_s (map trim (split_on ","%char s)).

Section WithRegexes.
Variables re_impl re_ctor re_imm re_tonl re_mut re_pkgo re_ign : re.

(* parseImplementsAnnotation: (IsPointer, PackageName, InterfaceName) *)
Definition parse_implements (text : string) : option (bool * string * string) :=
  match re_find re_impl text with
  | None => None
  | Some c => Some (String.eqb (group c 1 text) "&", group c 2 text, group c 3 text)
  end.

(* parseConstructorAnnotation: the constructor names; nil when none remains *)
Definition parse_constructor (text : string) : option (list string) :=
  match re_find re_ctor text with
  | None => None
  | Some c =>
      let names := trim (group c 1 text) in
      if String.eqb names "" then None
      else match split_items names with [] => None | l => Some l end
  end.

Definition parse_flag (r : re) (text : string) : bool :=
  match re_find r text with Some _ => true | None => false end.
Definition parse_immutable := parse_flag re_imm.
Definition parse_testonly := parse_flag re_tonl.
Definition parse_mutable := parse_flag re_mut.

(* parsePackageOnlyAnnotation: the listed packages (the caller prepends the current package path) *)
Definition parse_packageonly (text : string) : option (list string) :=
  match re_find re_pkgo text with
  | None => None
  | Some c =>
      let pk := trim (group c 1 text) in
      if String.eqb pk "" then Some [] else Some (split_items pk)
  end.

(* parseIgnoreAnnotation: the codes, upper-cased; nil when none *)
Definition parse_ignore (text : string) : option (list string) :=
  match re_find re_ign text with
  | None => None
  | Some c =>
      let cs := trim (group c 1 text) in
      if String.eqb cs "" then None
      else match map upper (split_items cs) with [] => None | l => Some l end
  end.

End WithRegexes.
