(* go/types, as far as @implements needs it: type terms of method signatures (serialised verbatim by ggx skel),
   and a library model of types.Identical on them: equality of canonical forms after deep unaliasing.  The method
   sets themselves (types.NewMethodSet, interface completion) are inputs. *)
From Coq Require Import List String Ascii ZArith Bool DecimalString.
From GG Require Import Base.Strs.
Import ListNotations.
Local Open Scope string_scope.

Inductive tyt : Type :=
| YBasic (kind name : string)                       (* types.Typ[b.Kind()].Name() and b.Name(): "uint8"/"byte" *)
| YNamed (pkg : option string) (name : string)      (* defined type without type arguments *)
| YPtr (t : tyt)
| YSlice (t : tyt) (pr : string)                    (* pr = t.String(), what the fallback of the converters prints *)
| YArray (n : Z) (t : tyt) (pr : string)
| YMap (k v : tyt) (pr : string)
| YChan (dir : string) (t : tyt) (pr : string)
| YFunc (ps rs : list tyt) (variadic : bool) (pr : string)
| YStruct (meta : list (string * bool * string)) (ts : list tyt) (pr : string)   (* (field name, embedded, tag), field types *)
| YIface (names : list string) (sigs : list tyt) (pr : string)                  (* complete method set, sorted as go/types does *)
| YAlias (pr : string) (rhs : tyt)
| YOpaque (pr : string).                            (* type parameters, generic instances, tuples: outside the fragment *)

(* normal form: aliases vanish at every depth, basic types keep their kind only, the printed strings are dropped *)
Fixpoint norm (t : tyt) : tyt :=
  match t with
  | YBasic k _ => YBasic k ""
  | YNamed p n => YNamed p n
  | YPtr e => YPtr (norm e)
  | YSlice e _ => YSlice (norm e) ""
  | YArray n e _ => YArray n (norm e) ""
  | YMap k v _ => YMap (norm k) (norm v) ""
  | YChan d e _ => YChan d (norm e) ""
  | YFunc ps rs v _ => YFunc (map norm ps) (map norm rs) v ""
  | YStruct meta ts _ => YStruct meta (map norm ts) ""
  | YIface names sigs _ => YIface names (map norm sigs) ""
  | YAlias _ r => norm r
  | YOpaque pr => YOpaque pr
  end.

Definition opt_str_eqb (a b : option string) : bool :=
  match a, b with Some x, Some y => String.eqb x y | None, None => true | _, _ => false end.

Definition meta_eqb (a b : string * bool * string) : bool :=
  let '(n1, e1, t1) := a in let '(n2, e2, t2) := b in String.eqb n1 n2 && Bool.eqb e1 e2 && String.eqb t1 t2.

Fixpoint list_eqb {A} (eqb : A -> A -> bool) (a b : list A) : bool :=
  match a, b with
  | [], [] => true
  | x :: r, y :: s => eqb x y && list_eqb eqb r s
  | _, _ => false
  end.

(* structural equality of type terms *)
Fixpoint tyt_eqb (a b : tyt) : bool :=
  let fix leqb (l1 l2 : list tyt) : bool :=
    match l1, l2 with
    | [], [] => true
    | x :: r, y :: s => tyt_eqb x y && leqb r s
    | _, _ => false
    end in
  match a, b with
  | YBasic k1 n1, YBasic k2 n2 => String.eqb k1 k2 && String.eqb n1 n2
  | YNamed p1 n1, YNamed p2 n2 => opt_str_eqb p1 p2 && String.eqb n1 n2
  | YPtr x, YPtr y => tyt_eqb x y
  | YSlice x p1, YSlice y p2 => tyt_eqb x y && String.eqb p1 p2
  | YArray n1 x p1, YArray n2 y p2 => Z.eqb n1 n2 && tyt_eqb x y && String.eqb p1 p2
  | YMap k1 v1 p1, YMap k2 v2 p2 => tyt_eqb k1 k2 && tyt_eqb v1 v2 && String.eqb p1 p2
  | YChan d1 x p1, YChan d2 y p2 => String.eqb d1 d2 && tyt_eqb x y && String.eqb p1 p2
  | YFunc ps1 rs1 v1 p1, YFunc ps2 rs2 v2 p2 => leqb ps1 ps2 && leqb rs1 rs2 && Bool.eqb v1 v2 && String.eqb p1 p2
  | YStruct m1 ts1 p1, YStruct m2 ts2 p2 => list_eqb meta_eqb m1 m2 && leqb ts1 ts2 && String.eqb p1 p2
  | YIface n1 s1 p1, YIface n2 s2 p2 => list_eqb String.eqb n1 n2 && leqb s1 s2 && String.eqb p1 p2
  | YAlias p1 x, YAlias p2 y => String.eqb p1 p2 && tyt_eqb x y
  | YOpaque p1, YOpaque p2 => String.eqb p1 p2
  | _, _ => false
  end.

(* types.Identical: equal normal forms *)
Definition identical (a b : tyt) : bool := tyt_eqb (norm a) (norm b).

Record sig := { s_params : list tyt; s_results : list tyt; s_variadic : bool }.

(* types.Identical on signatures: parameter and result types pairwise, same variadicity *)
Fixpoint identical_list (a b : list tyt) : bool :=
  match a, b with
  | [], [] => true
  | x :: r, y :: s => identical x y && identical_list r s
  | _, _ => false
  end.

Definition sig_identical (a b : sig) : bool :=
  Bool.eqb (s_variadic a) (s_variadic b) && identical_list (s_params a) (s_params b) && identical_list (s_results a) (s_results b).

(* what t.String() prints for the types that take the converters' fallback *)
Definition printed (t : tyt) : string :=
  match t with
  | YBasic _ n => n
  | YNamed _ n => n
  | YPtr _ => ""
  | YSlice _ p | YArray _ _ p | YMap _ _ p | YChan _ _ p | YFunc _ _ _ p | YStruct _ _ p | YIface _ _ p | YAlias p _ | YOpaque p => p
  end.

(* implements.convertTypesToInterfaceType / convertTypesToMethodType: (TypeName, TypePackage, IsPointer) *)
Fixpoint convert (t : tyt) : string * string * bool :=
  match t with
  | YPtr e => let '(n, p, _) := convert e in (n, p, true)
  | YNamed p n => (n, match p with Some x => x | None => "" end, false)
  | YBasic _ n => (n, "", false)
  | _ => (printed t, "", false)
  end.

Record shown := { sh_name : string; sh_pkg : string; sh_ptr : bool; sh_variadic : bool; sh_ty : tyt }.

(* extractTypesFromTuple: the last parameter of a variadic signature is shown (and compared) as its element type *)
Fixpoint tuple_types (l : list tyt) (variadic : bool) : list shown :=
  match l with
  | [] => []
  | [t] =>
      if variadic then
        match t with
        | YSlice e _ => let '(n, p, b) := convert e in [{| sh_name := n; sh_pkg := p; sh_ptr := b; sh_variadic := true; sh_ty := e |}]
        | _ => let '(n, p, b) := convert t in [{| sh_name := n; sh_pkg := p; sh_ptr := b; sh_variadic := true; sh_ty := t |}]
        end
      else let '(n, p, b) := convert t in [{| sh_name := n; sh_pkg := p; sh_ptr := b; sh_variadic := false; sh_ty := t |}]
  | t :: r => let '(n, p, b) := convert t in {| sh_name := n; sh_pkg := p; sh_ptr := b; sh_variadic := false; sh_ty := t |} :: tuple_types r variadic
  end.

(* implements.typesMatch when both sides come from go/types *)
Definition shown_match (a b : shown) : bool := Bool.eqb (sh_variadic a) (sh_variadic b) && identical (sh_ty a) (sh_ty b).

Fixpoint shown_list_match (a b : list shown) : bool :=
  match a, b with
  | [], [] => true
  | x :: r, y :: s => shown_match x y && shown_list_match r s
  | _, _ => false
  end.

(* implements.signaturesMatch *)
Definition signatures_match (t i : sig) : bool :=
  Nat.eqb (List.length (s_params t)) (List.length (s_params i)) &&
  Nat.eqb (List.length (s_results t)) (List.length (s_results i)) &&
  shown_list_match (tuple_types (s_params t) (s_variadic t)) (tuple_types (s_params i) (s_variadic i)) &&
  shown_list_match (tuple_types (s_results t) false) (tuple_types (s_results i) false).

(* implements.formatType / formatTypeList / formatMethodSignature *)
Definition format_type (s : shown) : string :=
  (if sh_variadic s then "..." else "") ++ (if sh_ptr s then "*" else "") ++
  (if String.eqb (sh_pkg s) "" then "" else last_elem (sh_pkg s) ++ ".") ++ sh_name s.

Definition format_type_list (l : list shown) : string := join ", " (map format_type l).

Definition format_method_signature (name : string) (s : sig) : string :=
  let ins := format_type_list (tuple_types (s_params s) (s_variadic s)) in
  let outs := format_type_list (tuple_types (s_results s) false) in
  name ++ "(" ++ ins ++ ")" ++
  (if String.eqb outs "" then ""
   else if Nat.ltb 1 (List.length (s_results s)) then " (" ++ outs ++ ")" else " " ++ outs).

(* the type table of a package: what LoadInterfaces / LoadTypes can find *)
(* im_pkg / tm_pkg: the package an UNEXPORTED method name belongs to ("" for an exported name): Go identifies a method by
   (that package, name) - types.Id *)
Record imethod := { im_name : string; im_sig : sig; im_pkg : string }.
Record tmethod := { tm_name : string; tm_sig : sig; tm_value : bool; tm_pkg : string }.     (* tm_value: in the method set of T itself *)
Definition tm_id (m : tmethod) : string * string := (tm_pkg m, tm_name m).
Definition im_id (m : imethod) : string * string := (im_pkg m, im_name m).
Record iface_decl := { id_pkg : string; id_name : string; id_methods : list imethod }.
Record type_decl := { td_name : string; td_methods : list tmethod }.       (* method set of *T, as types.NewMethodSet lists it *)
Record typetable := { tt_ifaces : list iface_decl; tt_types : list type_decl }.
Definition empty_typetable : typetable := {| tt_ifaces := []; tt_types := [] |}.
