(* util.IgnoreSet (src/util/ignoreset.go), transcribed field by field.
   Partial operations of Go are explicit: [Markers[idx]] is [nth_error] and a miss is [Panic]. *)
From Coq Require Import List String ZArith Bool.
From GG Require Import Base.Strs Model.Codes.
Import ListNotations.
Local Open Scope Z_scope.

Record marker := { m_codes : list string; m_start : Z; m_end : Z }.

Record iset := {
  markers : list marker;                  (* Markers *)
  index : list (string * list nat);       (* CodeIndex: code -> marker indices, insertion order *)
  module_ign : list string;               (* moduleIgnores *)
  minp : Z; maxp : Z;                     (* MinPos / MaxPos, 0 = token.NoPos *)
  inited : bool                           (* Initialized *)
}.

(* &IgnoreSet{} *)
Definition zero : iset :=
  {| markers := []; index := []; module_ign := []; minp := 0; maxp := 0; inited := false |}.

Definition ensure_init (s : iset) : iset :=
  if inited s then s else
  {| markers := []; index := []; module_ign := module_ign s; minp := 0; maxp := 0; inited := true |}.

Fixpoint idx_get (c : string) (ix : list (string * list nat)) : list nat :=
  match ix with [] => [] | (k, v) :: r => if String.eqb c k then v else idx_get c r end.

Fixpoint idx_app (c : string) (i : nat) (ix : list (string * list nat)) : list (string * list nat) :=
  match ix with
  | [] => [(c, [i])]
  | (k, v) :: r => if String.eqb c k then (k, (v ++ [i])%list) :: r else (k, v) :: idx_app c i r
  end.

Definition add (s0 : iset) (cs : list string) (st en : Z) : iset :=
  let s := ensure_init s0 in
  let i := List.length (markers s) in
  {| markers := markers s ++ [{| m_codes := cs; m_start := st; m_end := en |}];
     index := fold_left (fun ix c => idx_app c i ix) cs (index s);
     module_ign := module_ign s;
     minp := if (minp s =? 0) || (st <? minp s) then st else minp s;
     maxp := if (maxp s =? 0) || (en >? maxp s) then en else maxp s;
     inited := true |}.

Definition add_module (s0 : iset) (cs : list string) : iset :=
  let s := ensure_init s0 in
  {| markers := markers s; index := index s; module_ign := module_ign s ++ cs;
     minp := minp s; maxp := maxp s; inited := true |}.

Inductive res := Ok (b : bool) | Panic.

Definition covers_idx (s : iset) (pos : Z) (i : nat) : res :=
  match nth_error (markers s) i with
  | Some m => Ok ((m_start m <=? pos) && (pos <=? m_end m))
  | None => Panic
  end.

Fixpoint scan_idx (s : iset) (pos : Z) (l : list nat) : res :=
  match l with
  | [] => Ok false
  | i :: r => match covers_idx s pos i with
              | Panic => Panic
              | Ok true => Ok true
              | Ok false => scan_idx s pos r
              end
  end.

Fixpoint scan_codes (s : iset) (pos : Z) (cl : list string) : res :=
  match cl with
  | [] => Ok false
  | c :: r => match scan_idx s pos (idx_get c (index s)) with
              | Panic => Panic
              | Ok true => Ok true
              | Ok false => scan_codes s pos r
              end
  end.

Section WithTable.
Variable all : string.
Variable t : table.

(* Contains on a non-nil receiver *)
Definition contains (s : iset) (code : string) (pos : Z) : res :=
  if negb (inited s) then Ok false else
  if negb (Nat.eqb (List.length (module_ign s)) 0)
     && existsb (fun c => str_mem c (module_ign s)) (check_list all t code) then Ok true else
  if (minp s =? 0) || (pos <? minp s) || (pos >? maxp s) then Ok false else
  scan_codes s pos (check_list all t code).

(* --- histories --- *)
Inductive op := OpAdd (cs : list string) (st en : Z) | OpGlobal (cs : list string).

Definition step (s : iset) (o : op) : iset :=
  match o with OpAdd cs st en => add s cs st en | OpGlobal cs => add_module s cs end.

Definition run (ops : list op) : iset := fold_left step ops zero.

(* a nil *IgnoreSet: Add / AddModuleIgnore are not callable on it in the code base
   (ensureInitialized dereferences), Contains answers false *)
Definition contains_nil (code : string) (pos : Z) : res := Ok false.

(* --- the list-scan reference: the property's right-hand side --- *)
Definition overlaps (cs toks : list string) : bool := existsb (fun tk => str_mem tk cs) toks.

Definition covers (code : string) (pos : Z) (o : op) : bool :=
  match o with
  | OpAdd cs st en => (st <=? pos) && (pos <=? en) && overlaps cs (check_list all t code)
  | OpGlobal cs => overlaps cs (check_list all t code)
  end.

Definition spec (ops : list op) (code : string) (pos : Z) : bool := existsb (covers code pos) ops.

End WithTable.
