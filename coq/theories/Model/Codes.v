(* codes.GetCodesForCheck, codes.GetDocumentationURL over an arbitrary code table.
   The table, the URL arms and the "ALL" token come from Extracted.v. *)
From Coq Require Import List String Bool.
From GG Require Import Base.Strs.
Import ListNotations.
Local Open Scope string_scope.

Definition table := list (string * list (string * string)).   (* category -> [(code, description)] *)

Definition cat_codes (row : string * list (string * string)) : list string := map fst (snd row).
Definition categories (t : table) : list string := map fst t.
Definition all_codes (t : table) : list string := flat_map cat_codes t.

Definition is_cat (t : table) (c : string) : bool := str_mem c (categories t).

Fixpoint cat_of (t : table) (c : string) : option string :=
  match t with
  | [] => None
  | row :: r => if str_mem c (cat_codes row) then Some (fst row) else cat_of r c
  end.

(* The reverse map codeToCheckList is filled first with category -> [ALL; category] and then with
   code -> [ALL; category; code]; later writes win.  For a table whose keys are unique
   ([table_wf]) Go's map iteration order cannot matter, and the lookup is: *)
Definition check_list (all : string) (t : table) (c : string) : list string :=
  match cat_of t c with
  | Some k => [all; k; c]
  | None => if is_cat t c then [all; c] else [all; c]     (* known category / unknown code *)
  end.

(* no duplicates among categories, among codes, and no code equal to a category:
   exactly what makes the construction of the reverse map independent of map iteration order *)
Fixpoint nodupb (l : list string) : bool :=
  match l with [] => true | x :: r => negb (str_mem x r) && nodupb r end.
Definition table_wf (t : table) : bool := nodupb (categories t ++ all_codes t).

(* GetDocumentationURL: first arm whose prefix matches, else the default *)
Fixpoint doc_url (arms : list (string * string)) (dflt : string) (c : string) : string :=
  match arms with
  | [] => dflt
  | (p, u) :: r => if has_prefix p c then u else doc_url r dflt c
  end.
