(* The per-package analysis: indices (indexing.go), the @ignore reader (ignore.go), the four AST checkers
   (immutable, constructor, testonly, packageonly) and report-time filtering, over GoAst. *)
From Coq Require Import List String ZArith Bool.
From GG Require Import Base.Strs Model.Codes Model.IgnoreSet Model.Config Model.GoAst Model.RegexSyntax
                       Model.Regex Model.Annot Model.Annots.
Import ListNotations.
Local Open Scope string_scope.
Local Open Scope Z_scope.

Record diag := { d_pos : Z; d_code : string; d_msg : string }.

(* facts: own annotations first, then those of the direct imports (indexing.iterOverPackages) *)
Definition facts := list (string * annots).

Definition facts_for (fs : facts) (pkg : string) : list annots :=
  map snd (filter (fun pa => String.eqb (fst pa) pkg) fs).

(* ---------- indices ---------- *)
Definition imm_index_empty (fs : facts) : bool := forallb (fun pa => match an_imm (snd pa) with [] => true | _ => false end) fs.
Definition imm_contains (fs : facts) (pkg tn : string) : bool :=
  existsb (fun a => existsb (fun i => String.eqb (ima_type i) tn) (an_imm a)) (facts_for fs pkg).

Definition ctor_index_empty (fs : facts) : bool :=
  forallb (fun pa => forallb (fun c => match ca_names c with [] => true | _ => false end) (an_ctor (snd pa))) fs.
Definition ctor_names (fs : facts) (pkg tn : string) : list string :=      (* GetAssociated *)
  flat_map (fun a => flat_map (fun c => if String.eqb (ca_type c) tn then ca_names c else []) (an_ctor a)) (facts_for fs pkg).
Definition ctor_has_type (fs : facts) (pkg tn : string) : bool := match ctor_names fs pkg tn with [] => false | _ => true end.
Definition ctor_match (fs : facts) (pkg fn tn : string) : bool := str_mem fn (ctor_names fs pkg tn).

Definition mut_match (fs : facts) (pkg field tn : string) : bool :=
  existsb (fun a => existsb (fun m => String.eqb (ma_type m) tn && String.eqb (ma_field m) field) (an_mut a)) (facts_for fs pkg).

Definition akind_eqb (a b : akind) : bool :=
  match a, b with AKType, AKType | AKFunc, AKFunc | AKMethod, AKMethod => true | _, _ => false end.

Definition tonl_has (k : akind) (fs : facts) : bool :=
  existsb (fun pa => existsb (fun t => akind_eqb (ta_kind t) k) (an_tonl (snd pa))) fs.
Definition tonl_type (fs : facts) (pkg tn : string) : bool :=
  existsb (fun a => existsb (fun t => akind_eqb (ta_kind t) AKType && String.eqb (ta_name t) tn) (an_tonl a)) (facts_for fs pkg).
Definition tonl_func (fs : facts) (pkg fn : string) : bool :=
  existsb (fun a => existsb (fun t => akind_eqb (ta_kind t) AKFunc && String.eqb (ta_name t) fn) (an_tonl a)) (facts_for fs pkg).
Definition tonl_method (fs : facts) (pkg mn recv : string) : bool :=
  existsb (fun a => existsb (fun t => akind_eqb (ta_kind t) AKMethod && String.eqb (ta_name t) mn && String.eqb (ta_recv t) recv) (an_tonl a))
          (facts_for fs pkg).

Definition pkgo_index_empty (fs : facts) : bool := forallb (fun pa => match an_pkgo (snd pa) with [] => true | _ => false end) fs.
(* the attachment list of an item: the union (concatenation) of all its allow-lists *)
Definition pkgo_attach (fs : facts) (k : akind) (pkg recv name : string) : list string :=
  flat_map (fun a => flat_map (fun p =>
      if akind_eqb (pa_kind p) k && String.eqb (pa_name p) name && (match k with AKMethod => String.eqb (pa_recv p) recv | _ => true end)
      then pa_allowed p else []) (an_pkgo a)) (facts_for fs pkg).

(* fmt's %v of a []string and %q of an identifier *)
Definition fmt_list (l : list string) : string := "[" ++ join " " l ++ "]".
Definition fmt_q (s : string) : string := """" ++ s ++ """".

(* ---------- the @ignore reader ---------- *)
Section IgnoreReader.
Variable re_ign : re.
Variable kw_ign : list string.

Fixpoint first_index {A} (p : A -> bool) (l : list A) (i : nat) : nat :=
  match l with [] => i | x :: r => if p x then i else first_index p r (S i) end.

(* the pruned ast.Inspect of findInlineNode: is there code on the comment's line before the comment
   (a node that begins before the comment and starts or ends on the comment's line) *)
Fixpoint has_code_on_line (f : file) (cpos cline : Z) (n : node) : bool :=
  let 'Node _ p e _ cs := n in
  if p >=? cpos then false
  else if (line_of f p =? cline) || (line_of f e =? cline) then true
  else (fix go (l : list node) : bool := match l with [] => false | c :: r => has_code_on_line f cpos cline c || go r end) cs.

Inductive scope_res := Inline (s e : Z) | NotInline | LinePanic.

Definition find_inline (f : file) (c : comment) : scope_res :=
  let cpos := c_pos c in
  let cline := line_of f cpos in
  let decls := f_decls f in
  let idx := first_index (fun d => n_end d >? cpos) decls 0 in
  let trailing_prev :=
    match idx with
    | O => false
    | S j => match nth_error decls j with Some d => line_of f (n_end d) =? cline | None => false end
    end in
  if trailing_prev then
    match line_start f cline with Some ls => Inline ls (c_end c) | None => LinePanic end
  else
    match nth_error decls idx with
    | None => NotInline
    | Some d =>
        if cpos <? n_pos d then NotInline
        else if has_code_on_line f cpos cline d then
          match line_start f cline with Some ls => Inline ls (c_end c) | None => LinePanic end
        else NotInline
    end.

(* the stateful ast.Inspect of findNextNodeAfterComment: (pos, end) of the node it settles on *)
Fixpoint next_visit (cpos : Z) (n : node) (best : option (Z * Z)) : option (Z * Z) :=
  let 'Node _ p e _ cs := n in
  let descend := (fix go (l : list node) (b : option (Z * Z)) : option (Z * Z) :=
                    match l with [] => b | c :: r => go r (next_visit cpos c b) end) in
  if p <=? cpos then descend cs best
  else match best with
       | None => Some (p, e)
       | Some (bp, _) => if p <? bp then Some (p, e) else descend cs best
       end.

Definition find_next_end (f : file) (cpos : Z) : Z :=
  let decls := f_decls f in
  let idx := first_index (fun d => n_end d >? cpos) decls 0 in
  match nth_error decls idx with
  | None => 0
  | Some d =>
      if cpos <? n_pos d then n_end d
      else match next_visit cpos d None with Some (_, e) => e | None => 0 end
  end.

Definition comment_scope (f : file) (c : comment) : option (Z * Z) :=     (* None = panic *)
  if c_pos c <? f_package f then Some (c_pos c, f_end f)
  else match find_inline f c with
       | LinePanic => None
       | Inline s e => Some (s, e)
       | NotInline =>
           let e := find_next_end f (c_pos c) in
           Some (c_pos c, if e =? 0 then c_end c else e)
       end.

Definition is_ignore_comment (text : string) : bool :=
  existsb (fun k => str_contains text k) kw_ign && str_contains text "@ignore".

(* ReadIgnoreAnnotations: the history of IgnoreSet operations it performs; None = panic *)
Fixpoint ignore_ops_comments (f : file) (cs : list comment) : option (list op) :=
  match cs with
  | [] => Some []
  | c :: r =>
      match ignore_ops_comments f r with
      | None => None
      | Some rest =>
          if is_ignore_comment (c_text c) then
            match comment_scope f c with
            | None => None
            | Some (s, e) =>
                match parse_ignore re_ign (c_text c) with
                | Some codes => Some (OpAdd codes s e :: rest)
                | None => Some rest
                end
            end
          else Some rest
      end
  end.

Fixpoint ignore_ops_files (fs : list file) : option (list op) :=
  match fs with
  | [] => Some []
  | f :: r =>
      match ignore_ops_comments f (List.concat (f_comments f)), ignore_ops_files r with
      | Some a, Some b => Some (a ++ b)%list
      | _, _ => None
      end
  end.

Definition ignore_ops (cfg : config) (p : package) : option (list op) :=
  match ignore_ops_files (filter (fun f => negb (should_skip cfg (f_name f))) (p_files p)) with
  | None => None
  | Some ops => Some (match exclude_checks cfg with [] => ops | cs => OpGlobal cs :: ops end)
  end.

End IgnoreReader.

(* ---------- the checkers ---------- *)
Section Checkers.
Variable fs : facts.              (* own annotations :: facts of the direct imports *)
Variable cur_pkg : string.
Variable cur_name : string.
Variable suppressed : string -> Z -> bool.     (* IgnoreSet.Contains of this package *)

(* --- immutable --- *)
Record recv_info := { ri_name : string; ri_type : string; ri_pkg : string; ri_obj : Z }.
Record imm_state := { is_fn : string; is_recv : option recv_info }.

Definition obj_id (o : option obj) : Z := match o with Some x => o_id x | None => 0 end.

Definition extract_recv_info (fd : node) : option recv_info :=
  let a := n_attrs fd in
  if a_flag a then
    match a_str3 a with
    | None => None
    | Some nm =>
        match type_info (a_ty a) with
        | Some (p, t) => Some {| ri_name := nm; ri_type := t; ri_pkg := p; ri_obj := obj_id (a_obj a) |}
        | None => None
        end
    end
  else None.

Definition in_ctor (st : imm_state) (pkg tn : string) : bool :=
  String.eqb cur_pkg pkg && ctor_match fs pkg (is_fn st) tn.

Definition imm_msg (tn reason : string) : string := "immutability violation in type " ++ fmt_q tn ++ ": " ++ reason.

(* the common test of the four field checks: Some (type name) when a write to sel's field is a violation *)
Definition imm_field_target (st : imm_state) (sel : node) : option string :=
  match type_info (a_ty (n_attrs sel)) with
  | Some (p, t) =>
      if imm_contains fs p t && negb (in_ctor st p t) && negb (mut_match fs p (a_name (n_attrs sel)) t)
      then Some t else None
  | None => None
  end.

Definition imm_recv_target (st : imm_state) (star : node) : option string :=
  match is_recv st, n_children star with
  | Some ri, x :: _ =>
      match n_kind x with
      | KIdent =>
          if String.eqb (a_name (n_attrs x)) (ri_name ri) && (obj_id (a_obj (n_attrs x)) =? ri_obj ri)
             && imm_contains fs (ri_pkg ri) (ri_type ri) && negb (in_ctor st (ri_pkg ri) (ri_type ri))
          then Some (ri_type ri) else None
      | _ => None
      end
  | _, _ => None
  end.

Definition imm_check_lhs (st : imm_state) (e : node) : list diag :=
  match n_kind e with
  | KSelectorExpr =>
      match imm_field_target st e with
      | Some t => [{| d_pos := n_pos e; d_code := "IMM01";
                      d_msg := imm_msg t ("cannot assign to field " ++ fmt_q (a_name (n_attrs e)) ++ " of immutable type") |}]
      | None => []
      end
  | KIndexExpr =>
      match n_children e with
      | x :: _ =>
          match n_kind x with
          | KSelectorExpr =>
              match imm_field_target st x with
              | Some t => [{| d_pos := n_pos e; d_code := "IMM04";
                              d_msg := imm_msg t ("cannot modify element of field " ++ fmt_q (a_name (n_attrs x)) ++ " of immutable type") |}]
              | None => []
              end
          | _ => []
          end
      | [] => []
      end
  | KStarExpr =>
      match imm_recv_target st e with
      | Some t => [{| d_pos := n_pos e; d_code := "IMM01"; d_msg := imm_msg t "cannot reassign immutable receiver (outside constructor)" |}]
      | None => []
      end
  | _ => []
  end.

Definition imm_check_compound (st : imm_state) (tok : string) (e : node) : list diag :=
  match n_kind e with
  | KSelectorExpr =>
      match imm_field_target st e with
      | Some t => [{| d_pos := n_pos e; d_code := "IMM02";
                      d_msg := imm_msg t ("cannot use " ++ tok ++ " on field " ++ fmt_q (a_name (n_attrs e)) ++ " of immutable type (outside constructor)") |}]
      | None => []
      end
  | _ => []
  end.

Definition imm_check_node (st : imm_state) (n : node) : list diag :=
  match n_kind n with
  | KAssignStmt =>
      let lhs := firstn (a_n (n_attrs n)) (n_children n) in
      if String.eqb (a_tok (n_attrs n)) "=" then flat_map (imm_check_lhs st) lhs
      else flat_map (imm_check_compound st (a_tok (n_attrs n))) lhs
  | KIncDecStmt =>
      match n_children n with
      | x :: _ =>
          match n_kind x with
          | KSelectorExpr =>
              match imm_field_target st x with
              | Some t => [{| d_pos := n_pos n; d_code := "IMM03";
                              d_msg := imm_msg t ("cannot use " ++ a_tok (n_attrs n) ++ " on field " ++ fmt_q (a_name (n_attrs x)) ++ " of immutable type (outside constructor)") |}]
              | None => []
              end
          | KStarExpr =>
              match imm_recv_target st x with
              | Some t => [{| d_pos := n_pos x; d_code := "IMM03";
                              d_msg := imm_msg t ("cannot use " ++ a_tok (n_attrs n) ++ " on immutable receiver (outside constructor)") |}]
              | None => []
              end
          | _ => []
          end
      | [] => []
      end
  | _ => []
  end.

Definition imm_step (acc : imm_state * list diag) (n : node) : imm_state * list diag :=
  let '(st, out) := acc in
  match n_kind n with
  | KFuncDecl => ({| is_fn := a_name (n_attrs n); is_recv := extract_recv_info n |}, out)
  | _ => (st, (out ++ imm_check_node st n)%list)
  end.

Definition imm_decl (d : node) : list diag :=
  snd (fold_left imm_step (preorder d) ({| is_fn := ""; is_recv := None |}, [])).

Definition imm_candidates (files : list file) : list diag :=
  if imm_index_empty fs then [] else flat_map (fun f => flat_map imm_decl (f_decls f)) files.

(* --- constructor --- *)
Definition ctor_viol (fn : string) (t : option (string * string)) (pos : Z) (code reason : string) : list diag :=
  match t with
  | Some (p, tn) =>
      if ctor_has_type fs p tn && negb (String.eqb cur_pkg p && ctor_match fs p fn tn)
      then [{| d_pos := pos; d_code := code;
               d_msg := "[" ++ code ++ "] " ++ reason ++ " (allowed: " ++ fmt_list (ctor_names fs p tn) ++ ")" |}]
      else []
  | None => []
  end.

Definition ctor_check_node (fn : string) (n : node) : list diag :=
  match n_kind n with
  | KCompositeLit => ctor_viol fn (type_info (a_ty (n_attrs n))) (n_pos n) "CTOR01" "type instantiation must be in constructor"
  | KCallExpr =>
      match n_children n with
      | f :: _ =>
          match n_kind f with
          | KIdent =>
              if String.eqb (a_name (n_attrs f)) "new" && Nat.eqb (a_n (n_attrs n)) 1
              then ctor_viol fn (type_info (a_ty (n_attrs n))) (n_pos n) "CTOR02" "type instantiation with new() must be in constructor"
              else []
          | _ => []
          end
      | [] => []
      end
  | KGenDecl =>
      if String.eqb (a_tok (n_attrs n)) "var" then
        flat_map (fun spec =>
          if kind_eqb (n_kind spec) KValueSpec && Nat.eqb (a_m (n_attrs spec)) 0 then
            flat_map (fun nm =>
              if String.eqb (a_name (n_attrs nm)) "_" then []
              else ctor_viol fn (named_direct (a_ty (n_attrs nm))) (n_pos nm) "CTOR03"
                             "zero-initialized variable declaration must be in constructor")
              (firstn (a_n (n_attrs spec)) (plain_children spec))
          else []) (n_children n)
      else []
  | _ => []
  end.

Definition ctor_step (acc : string * list diag) (n : node) : string * list diag :=
  let '(fn, out) := acc in
  match n_kind n with
  | KFuncDecl => (a_name (n_attrs n), out)
  | _ => (fn, (out ++ ctor_check_node fn n)%list)
  end.

Definition ctor_decl (d : node) : list diag := snd (fold_left ctor_step (preorder d) ("", [])).

Definition ctor_candidates (files : list file) : list diag :=
  if ctor_index_empty fs then [] else flat_map (fun f => flat_map ctor_decl (f_decls f)) files.

(* --- testonly --- *)
Definition in_testonly_context (fd : node) : bool :=
  if a_flag (n_attrs fd) then tonl_method fs cur_pkg (a_name (n_attrs fd)) (func_recv_type fd)
  else tonl_func fs cur_pkg (a_name (n_attrs fd)).

Definition tonl_keep (n : node) : bool :=
  match n_kind n with KFuncDecl => negb (in_testonly_context n) | _ => true end.

(* a candidate: the diagnostic and, for TONL01, the dedup key (package path, type name) *)
Definition tonl_type_cand (t : option ty) (pos : Z) : list (diag * option (string * string)) :=
  match type_info t with
  | Some (p, tn) =>
      if tonl_type fs p tn
      then [({| d_pos := pos; d_code := "TONL01";
                d_msg := "[TONL01] type " ++ tn ++ " is marked @testonly and can only be used in test files" |}, Some (p, tn))]
      else []
  | None => []
  end.

Definition tonl_func_diag (pos : Z) (fn : string) : list (diag * option (string * string)) :=
  [({| d_pos := pos; d_code := "TONL02";
       d_msg := "[TONL02] function " ++ fn ++ " is marked @testonly and can only be called in test files" |}, None)].

(* the receiver type that decides a method call x.m(): the receiver of the SELECTED METHOD (TypesInfo.Selections: also a method
   promoted through an embedded field), else - no method object, e.g. a call of a func-typed field - the type of x *)
Definition method_recv_type (f : node) : option ty :=
  match a_obj (n_attrs f) with
  | Some o => match o_kind o with OFunc => if o_is_method o then o_recv o else a_ty (n_attrs f) | _ => a_ty (n_attrs f) end
  | None => a_ty (n_attrs f)
  end.

Definition tonl_cands (n : node) : list (diag * option (string * string)) :=
  match n_kind n with
  | KCallExpr =>
      match n_children n with
      | f :: _ =>
          match n_kind f with
          | KIdent =>
              match a_obj (n_attrs f) with
              | Some o =>
                  match o_kind o, o_pkg o with
                  | OFunc, Some p =>
                      if negb (o_is_method o) && tonl_func fs p (o_name o) then tonl_func_diag (n_pos n) (o_name o) else []
                  | _, _ => []
                  end
              | None => []
              end
          | KSelectorExpr =>
              let mn := a_name (n_attrs f) in
              let via_pkg :=
                match n_children f with
                | x :: _ =>
                    match n_kind x, a_obj (n_attrs x) with
                    | KIdent, Some o => match o_kind o with OPkgName => Some (o_imported o) | _ => None end
                    | _, _ => None
                    end
                | [] => None
                end in
              match via_pkg with
              | Some p => if tonl_func fs p mn then tonl_func_diag (n_pos n) mn else []
              | None =>
                  match type_info (method_recv_type f) with
                  | Some (p, tn) =>
                      if tonl_method fs p mn tn
                      then [({| d_pos := n_pos n; d_code := "TONL03";
                                d_msg := "[TONL03] method " ++ mn ++ " on " ++ tn ++ " is marked @testonly and can only be called in test files" |}, None)]
                      else []
                  | None => []
                  end
              end
          | _ => []
          end
      | [] => []
      end
  | KCompositeLit => tonl_type_cand (a_ty (n_attrs n)) (n_pos n)
  | KValueSpec => if a_flag (n_attrs n) then tonl_type_cand (a_ty (n_attrs n)) (n_pos n) else []
  | KField => tonl_type_cand (a_ty (n_attrs n)) (n_pos n)
  | _ => []
  end.

Definition key_eqb (a b : string * string) : bool := String.eqb (fst a) (fst b) && String.eqb (snd a) (snd b).

(* ignore first, then once-per-file-and-type: the filter that is applied while detecting *)
Definition dedup_step (acc : list (string * string) * list diag) (c : diag * option (string * string))
  : list (string * string) * list diag :=
  let '(seen, out) := acc in
  let '(d, key) := c in
  if suppressed (d_code d) (d_pos d) then (seen, out)
  else match key with
       | None => (seen, (out ++ [d])%list)
       | Some k => if existsb (key_eqb k) seen then (seen, out) else (k :: seen, (out ++ [d])%list)
       end.

Definition dedup_report (cands : list (diag * option (string * string))) : list diag :=
  snd (fold_left dedup_step cands ([], [])).

Definition tonl_file (f : file) : list diag :=
  if has_suffix "_test.go" (f_name f) then []
  else dedup_report (flat_map tonl_cands (flat_map (preorder_pruned tonl_keep) (f_decls f))).

Definition tonl_diags (files : list file) : list diag :=
  if negb (tonl_has AKType fs) && negb (tonl_has AKFunc fs) && negb (tonl_has AKMethod fs) then []
  else flat_map tonl_file files.

(* --- packageonly --- *)
Definition pkgo_allowed (att : list string) : bool := str_mem cur_pkg att || str_mem cur_name att.

Definition pkgo_type_cand (p tn : string) (pos : Z) : list (diag * option (string * string)) :=
  let att := pkgo_attach fs AKType p "" tn in
  match att with
  | [] => []
  | _ =>
      if negb (String.eqb p cur_pkg) && negb (pkgo_allowed att)
      then [({| d_pos := pos; d_code := "PKGO01";
                d_msg := tn ++ " type is @packageonly and cannot be used from " ++ cur_pkg ++ ". Allowed packages: " ++ fmt_list att |}, Some (p, tn))]
      else []
  end.

Definition pkgo_func_cand (p fn : string) (pos : Z) : list (diag * option (string * string)) :=
  let att := pkgo_attach fs AKFunc p "" fn in
  match att with
  | [] => []
  | _ =>
      if negb (String.eqb p cur_pkg) && negb (pkgo_allowed att)
      then [({| d_pos := pos; d_code := "PKGO02";
                d_msg := fn ++ " function is @packageonly and cannot be used from " ++ cur_pkg ++ ". Allowed packages: " ++ fmt_list att |}, None)]
      else []
  end.

Definition pkgo_method_cand (p recv mn : string) (pos : Z) : list (diag * option (string * string)) :=
  let att := pkgo_attach fs AKMethod p recv mn in
  match att with
  | [] => []
  | _ =>
      if negb (String.eqb p cur_pkg) && negb (pkgo_allowed att)
      then [({| d_pos := pos; d_code := "PKGO03";
                d_msg := recv ++ "." ++ mn ++ " method is @packageonly and cannot be used from " ++ cur_pkg ++ ". Allowed packages: " ++ fmt_list att |}, None)]
      else []
  end.

Definition pkgo_obj_cand (o : obj) (declared_in : string) (pos : Z) : list (diag * option (string * string)) :=
  match o_kind o with
  | OTypeName =>
      match (if o_is_alias o then named_direct (o_type o) else None) with
      | Some (tp, tn) => pkgo_type_cand tp tn pos
      | None => pkgo_type_cand declared_in (o_name o) pos
      end
  | OFunc =>
      if o_is_method o then pkgo_method_cand declared_in (type_name (o_recv o)) (o_name o) pos
      else pkgo_func_cand declared_in (o_name o) pos
  | _ => []
  end.

Definition pkgo_cands (n : node) : list (diag * option (string * string)) :=
  match n_kind n with
  | KSelectorExpr =>
      match a_obj (n_attrs n) with
      | Some o =>
          match o_pkg o with
          | Some p => if String.eqb p cur_pkg then [] else pkgo_obj_cand o p (n_pos n)
          | None => []
          end
      | None => []
      end
  | KIdent =>
      (* a plain identifier: an object of this package or a name brought in by a dot import;
         the selected identifier of pkg.Name is judged with its selector expression *)
      if a_flag (n_attrs n) then [] else
      match a_obj (n_attrs n) with
      | Some o =>
          match o_pkg o with
          | Some p => pkgo_obj_cand o p (n_pos n)
          | None => []
          end
      | None => []
      end
  | _ => []
  end.

Definition pkgo_file (f : file) : list diag :=
  dedup_report (flat_map pkgo_cands (preorder_list (f_decls f))).

Definition pkgo_diags (files : list file) : list diag :=
  if pkgo_index_empty fs then [] else flat_map pkgo_file files.

(* --- report-time filtering (reporting.Reporter.ReportViolation) --- *)
Definition report_filter (ds : list diag) : list diag :=
  filter (fun d => negb (suppressed (d_code d) (d_pos d))) ds.

End Checkers.
