(* The regular-expression syntax tree the translator emits (from Go's regexp/syntax after Simplify). *)
From Coq Require Import List NArith.
Import ListNotations.

Inductive re : Type :=
| REps                                   (* empty match *)
| RCls (ranges : list (N * N))           (* character class: inclusive rune ranges *)
| RAnyNL                                 (* any character except newline *)
| RAny                                   (* any character *)
| RCat (a b : re)
| RAlt (a b : re)
| RStar (a : re)
| RPlus (a : re)
| ROpt (a : re)
| RGrp (n : nat) (a : re)                (* capture group n *)
| RBot                                   (* beginning of text *)
| REot                                   (* end of text *)
| RUnsupported.                          (* anything the translator does not understand *)
