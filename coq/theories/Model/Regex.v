(* Go's regexp (RE2 syntax, leftmost-first = backtracking-order semantics, bytes) as a continuation-passing
   matcher with captures over the syntax tree the translator emits. Library model of package regexp,
   validated differentially against regexp.FindStringSubmatch by the harness (suite unit-regex). *)
From Coq Require Import List Ascii String NArith Arith Bool.
From GG Require Import Model.RegexSyntax.
Import ListNotations.

Definition in_cls (c : list (N * N)) (a : ascii) : bool :=
  existsb (fun r => (fst r <=? N_of_ascii a)%N && (N_of_ascii a <=? snd r)%N) c.

Definition caps := list (nat * (nat * nat)).   (* group -> (start, end), latest first *)
Definition K := list ascii -> nat -> caps -> option caps.

Definition star_loop (step : list ascii -> nat -> caps -> K -> option caps) (k : K) :=
  fix loop (n : nat) (s : list ascii) (i : nat) (c : caps) {struct n} : option caps :=
    match n with
    | O => k s i c
    | S n' =>
        match step s i c (fun s' i' c' => if Nat.eqb i' i then None else loop n' s' i' c') with
        | Some r => Some r
        | None => k s i c
        end
    end.

Fixpoint m (r : re) (s : list ascii) (i : nat) (c : caps) (k : K) {struct r} : option caps :=
  match r with
  | REps => k s i c
  | RCls cl => match s with x :: xs => if in_cls cl x then k xs (S i) c else None | [] => None end
  | RAnyNL => match s with x :: xs => if (N_of_ascii x =? 10)%N then None else k xs (S i) c | [] => None end
  | RAny => match s with x :: xs => k xs (S i) c | [] => None end
  | RCat a b => m a s i c (fun s' i' c' => m b s' i' c' k)
  | RAlt a b => match m a s i c k with Some r => Some r | None => m b s i c k end
  | RStar a => star_loop (m a) k (S (List.length s)) s i c
  | RPlus a => m a s i c (fun s0 i0 c0 => star_loop (m a) k (S (List.length s0)) s0 i0 c0)
  | ROpt a => match m a s i c k with Some r => Some r | None => k s i c end
  | RGrp n a => m a s i c (fun s' i' c' => k s' i' ((n, (i, i')) :: c'))
  | RBot => if Nat.eqb i 0 then k s i c else None
  | REot => match s with [] => k s i c | _ => None end
  | RUnsupported => None
  end.

(* unanchored search: the leftmost start position that matches *)
Fixpoint search (r : re) (s : list ascii) (i : nat) (fuel : nat) : option caps :=
  match m r s i [] (fun _ _ c => Some c) with
  | Some c => Some c
  | None => match fuel, s with
            | S f, _ :: xs => search r xs (S i) f
            | _, _ => None
            end
  end.

Definition re_find (r : re) (s : string) : option caps :=
  let l := list_ascii_of_string s in search r l 0 (List.length l).

Fixpoint cap_get (n : nat) (c : caps) : option (nat * nat) :=
  match c with [] => None | (k, v) :: r => if Nat.eqb k n then Some v else cap_get n r end.

(* FindStringSubmatch(s)[n]; "" for a group that did not take part *)
Definition group (c : caps) (n : nat) (s : string) : string :=
  match cap_get n c with
  | Some (a, b) => String.substring a (b - a) s
  | None => EmptyString
  end.

(* all classes of the expression are within ASCII: byte-wise matching = rune-wise matching there *)
Fixpoint re_ascii (r : re) : bool :=
  match r with
  | RCls cl => forallb (fun p => (snd p <? 128)%N) cl
  | RCat a b | RAlt a b => re_ascii a && re_ascii b
  | RStar a | RPlus a | ROpt a | RGrp _ a => re_ascii a
  | RUnsupported => false
  | _ => true
  end.
