(* The @implements checker: LoadInterfaces / LoadTypes results as lookups in the package's type table,
   FindMissingPackages / FindMissingInterfaces / FindMissingMethods, checkImplementation, and the messages. *)
From Coq Require Import List String Ascii ZArith Bool.
From GG Require Import Base.Strs Model.GoTypes Model.GoAst Model.Annots Model.Analyze.
Import ListNotations.
Local Open Scope string_scope.

Section Impl.
Variable tt : typetable.
Variable cur_pkg : string.
Variable imports : list string.            (* pass.Pkg.Imports(): paths of the direct imports *)

(* LoadInterfaces: the packages scanned are the current one and the direct imports (those that some annotation names) *)
Definition scanned (pkg : string) : bool := String.eqb pkg cur_pkg || str_mem pkg imports.

Definition find_iface (pkg name : string) : option iface_decl :=
  if scanned pkg then find (fun d => String.eqb (id_pkg d) pkg && String.eqb (id_name d) name) (tt_ifaces tt) else None.

(* LoadTypes: defined types of the current package *)
Definition find_type (name : string) : option type_decl := find (fun d => String.eqb (td_name d) name) (tt_types tt).

(* checkImplementation: typeMethods is a map keyed by (package of an unexported name, name), filled in order (a later
   method of the same identity wins) *)
Definition eligible (require_ptr : bool) (m : tmethod) : bool := require_ptr || tm_value m.

Definition lookup_method (td : type_decl) (require_ptr : bool) (pkg name : string) : option tmethod :=
  find (fun m => eligible require_ptr m && (String.eqb (tm_pkg m) pkg && String.eqb (tm_name m) name)) (rev (td_methods td)).

Definition method_ok (td : type_decl) (require_ptr : bool) (im : imethod) : bool :=
  match lookup_method td require_ptr (im_pkg im) (im_name im) with
  | Some tm => signatures_match (tm_sig tm) (im_sig im)
  | None => false
  end.

Definition missing_methods (td : type_decl) (d : iface_decl) (require_ptr : bool) : list imethod :=
  filter (fun im => negb (method_ok td require_ptr im)) (id_methods d).

Definition nl1 : string := String "010"%char EmptyString.

Definition pkg_prefix (a : impl_ann) : string := if String.eqb (ia_pkgname a) "" then "" else ia_pkgname a ++ ".".

Definition impl01 (a : impl_ann) : list diag :=
  if ia_notfound a
  then [{| d_pos := ia_pos a; d_code := "IMPL01";
           d_msg := "package " ++ fmt_q (ia_pkgname a) ++ " referenced in @implements annotation on type " ++ fmt_q (ia_type a) ++ " is not imported" |}]
  else [].

Definition impl02 (a : impl_ann) : list diag :=
  if ia_notfound a then [] else
  match find_iface (ia_fullpath a) (ia_iface a) with
  | Some _ => []
  | None => [{| d_pos := ia_pos a; d_code := "IMPL02";
                d_msg := "interface " ++ fmt_q (pkg_prefix a ++ ia_iface a) ++ " not found for type " ++ fmt_q (ia_type a) |}]
  end.

Definition impl03 (a : impl_ann) : list diag :=
  if ia_notfound a then [] else
  match find_iface (ia_fullpath a) (ia_iface a), find_type (ia_type a) with
  | Some d, Some td =>
      match missing_methods td d (ia_ptr a) with
      | [] => []
      | ms => [{| d_pos := ia_pos a; d_code := "IMPL03";
                  d_msg := "type " ++ fmt_q (ia_type a) ++ " does not implement interface " ++ fmt_q (pkg_prefix a ++ ia_iface a) ++ nl1 ++
                           "missing methods:" ++ nl1 ++ join nl1 (map (fun m => "  " ++ format_method_signature (im_name m) (im_sig m)) ms) |}]
      end
  | _, _ => []
  end.

(* runImplementsChecker: the three phases in order, nothing when the package has no @implements annotation *)
Definition impl_candidates (anns : list impl_ann) : list diag :=
  (flat_map impl01 anns ++ flat_map impl02 anns ++ flat_map impl03 anns)%list.

End Impl.
