(* Entry points of the executable model, instantiated with Extracted.v; uniquely named so that the
   extracted OCaml has stable identifiers. The property files state their theorems about these. *)
From Coq Require Import List String ZArith Bool.
From GG Require Import Base.Strs Model.Codes Model.IgnoreSet Extracted.
Import ListNotations.
Local Open Scope string_scope.

Definition x_all : string := hd "" all_tokens.
Definition x_tokens_for : string -> list string := check_list x_all codes_table.
Definition x_is_run : list op -> iset := run.
Definition x_is_contains : iset -> string -> Z -> res := contains x_all codes_table.
Definition x_is_spec : list op -> string -> Z -> bool := spec x_all codes_table.
Definition x_doc_url (c : string) : string :=
  doc_url url_arms (match url_default with Some u => u | None => "" end) c.

(* --- reporter (C19, C17) --- *)
From GG Require Import Model.Reporter.
Definition x_truncate (s : string) (col : Z) : option string := truncate s max_line_length col.
Definition x_display_col (s : string) (col : Z) : Z := display_col s col max_line_length.
Definition x_window (lines : option (list string)) (n : Z) : list (Z * string) := window lines n ctx_before ctx_after.
Definition x_rep_format (content : option string) (line col : Z) (code msg : string) : outcome :=
  format_message max_line_length ctx_before ctx_after x_doc_url content line col code msg.
