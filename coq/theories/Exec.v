(* Entry points of the executable model, instantiated with Extracted.v; uniquely named so that the
   extracted OCaml has stable identifiers. The property files state their theorems about these. *)
From Coq Require Import List String ZArith Bool.
From GG Require Import Base.Strs Model.Codes Model.IgnoreSet Extracted.
Import ListNotations.
Local Open Scope string_scope.

Definition x_all : string := hd "" all_tokens.
Definition x_tokens_for : string -> list string := check_list x_all codes_table.
Definition x_is_run : list op -> iset := run.
Definition x_is_contains : iset -> string -> Z -> res := contains x_all codes_table.
Definition x_is_spec : list op -> string -> Z -> bool := spec x_all codes_table.
Definition x_doc_url (c : string) : string :=
  doc_url url_arms (match url_default with Some u => u | None => "" end) c.

(* --- reporter (C19, C17) --- *)
From GG Require Import Model.Reporter.
Definition x_truncate (s : string) (col : Z) : option string := truncate s max_line_length col.
Definition x_display_col (s : string) (col : Z) : Z := display_col s col max_line_length.
Definition x_window (lines : option (list string)) (n : Z) : list (Z * string) := window lines n ctx_before ctx_after.
Definition x_rep_format (content : option string) (line col : Z) (code msg : string) : outcome :=
  format_message max_line_length ctx_before ctx_after x_doc_url content line col code msg.

(* --- configuration (C18, C14, C08) --- *)
From GG Require Import Model.Config.
Definition assoc_bool (k : string) (l : list (string * bool)) : bool :=
  match find (fun p => String.eqb k (fst p)) l with Some p => snd p | None => false end.
Definition x_cfg_params : cfg_params :=
  let fl n := fst (nth n cfg_flags ("", "")) in
  {| env_scan := hd "" cfg_env_bool;
     env_paths := fst (nth 0 cfg_env_list ("", false));
     env_checks := fst (nth 1 cfg_env_list ("", false));
     env_only := hd "" cfg_env_only;
     up_env_paths := snd (nth 0 cfg_env_list ("", false));
     up_env_checks := snd (nth 1 cfg_env_list ("", false));
     flag_scan := fl 0%nat; flag_paths := fl 1%nat; flag_checks := fl 2%nat;
     up_flag_paths := assoc_bool (fl 1%nat) cfg_flag_upper;
     up_flag_checks := assoc_bool (fl 2%nat) cfg_flag_upper;
     def_scan := cfg_default_scan_tests;
     def_paths := cfg_default_exclude_paths;
     def_checks := cfg_default_exclude_checks;
     bool_extra := cfg_bool_extra |}.
Definition x_cfg_resolve : flags -> env -> cfg_result := resolve x_cfg_params.
Definition x_cfg_from_env : env -> config := from_env x_cfg_params.
Definition x_parse_bool : string -> bool := parse_bool cfg_bool_extra.
Definition x_should_skip : config -> string -> bool := should_skip.

(* --- the per-package analysis (C01-C04, C07-C10, C12-C15, C17) --- *)
From GG Require Import Model.GoTypes Model.GoAst Model.RegexSyntax Model.Regex Model.Annot Model.Annots Model.Analyze Model.Impl.

Definition x_parse_implements := parse_implements re_implements.
Definition x_parse_constructor := parse_constructor re_constructor.
Definition x_parse_immutable := parse_immutable re_immutable.
Definition x_parse_testonly := parse_testonly re_testonly.
Definition x_parse_mutable := parse_mutable re_mutable.
Definition x_parse_packageonly := parse_packageonly re_packageonly.
Definition x_parse_ignore := parse_ignore re_ignore.
Definition x_re_find (which : nat) (s : string) : option caps :=
  re_find (nth which [re_implements; re_constructor; re_immutable; re_testonly; re_mutable; re_packageonly; re_ignore] RUnsupported) s.

Definition x_read_all : config -> package -> annots :=
  read_all re_implements re_constructor re_immutable re_testonly re_mutable re_packageonly kw_annotations.

Definition x_ignore_ops : config -> package -> option (list op) := ignore_ops re_ignore kw_ignore.

Inductive aresult := AOk (own : annots) (ds : list diag) | APanic (site : string).

Definition x_suppressed (ops : list op) : string -> Z -> bool :=
  let s := x_is_run ops in
  fun c p => match x_is_contains s c p with Ok b => b | Panic => false end.

(* the facts an action sees: its own annotations, then those of its direct imports, in import order *)
Definition x_facts (p : package) (own : annots) (all : list (string * annots)) : facts :=
  (p_path p, own) ::
  flat_map (fun ip => match find (fun pa => String.eqb (fst pa) ip) all with Some pa => [pa] | None => [] end) (p_imports p).

Definition x_analyze (cfg : config) (p : package) (all : list (string * annots)) : aresult :=
  let own := x_read_all cfg p in
  match x_ignore_ops cfg p with
  | None => APanic "token.File.LineStart: invalid line number"
  | Some ops =>
      let fs := x_facts p own all in
      let sup := x_suppressed ops in
      let files := kept_files cfg p in
      AOk own
        (report_filter sup (impl_candidates (p_types p) (p_path p) (p_imports p) (an_impl own)) ++
         report_filter sup (imm_candidates fs (p_path p) files) ++
         report_filter sup (ctor_candidates fs (p_path p) files) ++
         tonl_diags fs (p_path p) sup files ++
         pkgo_diags fs (p_path p) (p_name p) sup files)
  end.

(* the @implements checker and the four AST checkers of a package, as run by x_analyze *)
Definition x_impl (cfg : config) (p : package) (sup : string -> Z -> bool) : list diag :=
  report_filter sup (impl_candidates (p_types p) (p_path p) (p_imports p) (an_impl (x_read_all cfg p))).
Definition x_imm (cfg : config) (p : package) (fs : facts) (sup : string -> Z -> bool) : list diag :=
  report_filter sup (imm_candidates fs (p_path p) (kept_files cfg p)).
Definition x_ctor (cfg : config) (p : package) (fs : facts) (sup : string -> Z -> bool) : list diag :=
  report_filter sup (ctor_candidates fs (p_path p) (kept_files cfg p)).
Definition x_tonl (cfg : config) (p : package) (fs : facts) (sup : string -> Z -> bool) : list diag :=
  tonl_diags fs (p_path p) sup (kept_files cfg p).
Definition x_pkgo (cfg : config) (p : package) (fs : facts) (sup : string -> Z -> bool) : list diag :=
  pkgo_diags fs (p_path p) (p_name p) sup (kept_files cfg p).

Definition x_identical : tyt -> tyt -> bool := identical.
Definition x_signatures_match : sig -> sig -> bool := signatures_match.

(* well-formedness of the serialised trees that the theorems assume: checked on every dumped package *)
Definition x_wf_package (p : package) : bool :=
  forallb (fun f => forallb (fun d => forallb
     (fix nf (n : node) : bool :=
        let 'Node k _ _ _ cs := n in
        negb (kind_eqb k KFuncDecl) && (fix go (l : list node) : bool := match l with [] => true | c :: r => nf c && go r end) cs)
     (n_children d)) (f_decls f)) (p_files p).

(* the @ignore comments of a package that stand inside a declaration, and how many of them meet the boolean
   hypotheses of the C07 scope theorems (evaluated by the harness on every serialised package) *)
From GG Require Import Proofs.IgnoreProofs.
Definition x_ignore_hyp (cfg : config) (p : package) : nat * nat :=
  fold_left (fun acc f =>
    fold_left (fun acc c =>
      if is_ignore_comment kw_ignore (c_text c) && negb (c_pos c <? f_package f)%Z then
        match find (fun d => (n_end d >? c_pos c)%Z) (f_decls f) with
        | Some d => if (c_pos c <? n_pos d)%Z then acc
                    else (S (fst acc), if after_sorted_b (c_pos c) d && parent_le_b d then S (snd acc) else snd acc)
        | None => acc
        end
      else acc) (List.concat (f_comments f)) acc) (kept_files cfg p) (O, O).

(* the input condition of the totality theorems (C10): evaluated by the harness on every serialised package *)
From GG Require Import Proofs.TotalProofs.
Definition x_lines_ok (cfg : config) (p : package) : bool :=
  forallb (file_ok kw_ignore) (filter (fun f => negb (should_skip cfg (f_name f))) (p_files p)).
