(* Entry points of the executable model, instantiated with Extracted.v; uniquely named so that the
   extracted OCaml has stable identifiers. The property files state their theorems about these. *)
From Coq Require Import List String ZArith Bool.
From GG Require Import Base.Strs Model.Codes Model.IgnoreSet Extracted.
Import ListNotations.
Local Open Scope string_scope.

Definition x_all : string := hd "" all_tokens.
Definition x_tokens_for : string -> list string := check_list x_all codes_table.
Definition x_is_run : list op -> iset := run.
Definition x_is_contains : iset -> string -> Z -> res := contains x_all codes_table.
Definition x_is_spec : list op -> string -> Z -> bool := spec x_all codes_table.
Definition x_doc_url (c : string) : string :=
  doc_url url_arms (match url_default with Some u => u | None => "" end) c.

(* --- reporter (C19, C17) --- *)
From GG Require Import Model.Reporter.
Definition x_truncate (s : string) (col : Z) : option string := truncate s max_line_length col.
Definition x_display_col (s : string) (col : Z) : Z := display_col s col max_line_length.
Definition x_window (lines : option (list string)) (n : Z) : list (Z * string) := window lines n ctx_before ctx_after.
Definition x_rep_format (content : option string) (line col : Z) (code msg : string) : outcome :=
  format_message max_line_length ctx_before ctx_after x_doc_url content line col code msg.

(* --- configuration (C18, C14, C08) --- *)
From GG Require Import Model.Config.
Definition assoc_bool (k : string) (l : list (string * bool)) : bool :=
  match find (fun p => String.eqb k (fst p)) l with Some p => snd p | None => false end.
Definition x_cfg_params : cfg_params :=
  let fl n := fst (nth n cfg_flags ("", "")) in
  {| env_scan := hd "" cfg_env_bool;
     env_paths := fst (nth 0 cfg_env_list ("", false));
     env_checks := fst (nth 1 cfg_env_list ("", false));
     env_only := hd "" cfg_env_only;
     up_env_paths := snd (nth 0 cfg_env_list ("", false));
     up_env_checks := snd (nth 1 cfg_env_list ("", false));
     flag_scan := fl 0%nat; flag_paths := fl 1%nat; flag_checks := fl 2%nat;
     up_flag_paths := assoc_bool (fl 1%nat) cfg_flag_upper;
     up_flag_checks := assoc_bool (fl 2%nat) cfg_flag_upper;
     def_scan := cfg_default_scan_tests;
     def_paths := cfg_default_exclude_paths;
     def_checks := cfg_default_exclude_checks;
     bool_extra := cfg_bool_extra |}.
Definition x_cfg_resolve : flags -> env -> cfg_result := resolve x_cfg_params.
Definition x_cfg_from_env : env -> config := from_env x_cfg_params.
Definition x_parse_bool : string -> bool := parse_bool cfg_bool_extra.
Definition x_should_skip : config -> string -> bool := should_skip.
