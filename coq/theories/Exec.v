(* Entry points of the executable model, instantiated with Extracted.v; uniquely named so that the
   extracted OCaml has stable identifiers. The property files state their theorems about these. *)
From Coq Require Import List String ZArith Bool.
From GG Require Import Base.Strs Model.Codes Model.IgnoreSet Extracted.
Import ListNotations.
Local Open Scope string_scope.

Definition x_all : string := hd "" all_tokens.
Definition x_tokens_for : string -> list string := check_list x_all codes_table.
Definition x_is_run : list op -> iset := run.
Definition x_is_contains : iset -> string -> Z -> res := contains x_all codes_table.
Definition x_is_spec : list op -> string -> Z -> bool := spec x_all codes_table.
Definition x_doc_url (c : string) : string :=
  doc_url url_arms (match url_default with Some u => u | None => "" end) c.
