(* C02 — @constructor is enforced exactly: instantiation outside constructors reported. Statements only. *)
From Coq Require Import List String ZArith Bool.
From GG Require Import Base.Strs Model.Config Model.GoTypes Model.GoAst Model.Annots Model.Analyze Exec
                       Proofs.WalkProofs Proofs.CheckerProofs Properties.C01.
From GG Require Proofs.DiagProofs Proofs.WholeProofs.
Import ListNotations.
Local Open Scope Z_scope.
Local Open Scope string_scope.

(* (1) EXACTNESS. A CTOR diagnostic (pos, code) is reported iff some node n of some top-level declaration d of a
   non-excluded file is
     - a composite literal whose recorded type resolves (aliases, one pointer: T{..}, &T{..}, elided elements) to
       (P,T): CTOR01 at the literal;
     - a call new(e) with exactly one argument whose type resolves to (P,T): CTOR02 at the call;
     - a `var` declaration (package level or local) with a spec without initialiser and a non-blank name whose type
       IS the defined type (P,T) (not a pointer): CTOR03 at that name;
   where (P,T) has a non-empty @constructor list in p or a direct import, and d is not one of those functions in
   P's own package (a package-level declaration is in no function); and the diagnostic is not suppressed. *)
Theorem C02_reported_iff :
  forall cfg p fs sup pos code, wf p ->
    (reported (x_ctor cfg p fs sup) pos code <->
     exists f d n, In f (kept_files cfg p) /\ In d (f_decls f) /\ In n (preorder d) /\
                   ctor_reports fs (p_path p) (ctor_ctx d) n pos code /\ sup code pos = false).
Proof.
  intros cfg p fs sup pos code Hwf. unfold x_ctor. apply ctor_diags_spec.
  intros f d Hf Hd. apply (Hwf f d); [|exact Hd]. unfold kept_files in Hf. apply filter_In in Hf. tauto.
Qed.

(* (1') END TO END: in the result of the whole per-package analysis the diagnostics with a CTOR code are exactly those of (1)
   under the facts and the suppression the analysis computes itself *)
Theorem C02_whole_analysis :
  forall cfg p all own ds pos code, wf p -> x_analyze cfg p all = AOk own ds -> In code DiagProofs.CTOR_CODES ->
    exists ops, x_ignore_ops cfg p = Some ops /\ own = x_read_all cfg p /\
      (reported ds pos code <->
       exists f d n, In f (kept_files cfg p) /\ In d (f_decls f) /\ In n (preorder d) /\
                     ctor_reports (x_facts p own all) (p_path p) (ctor_ctx d) n pos code /\ x_suppressed ops code pos = false).
Proof.
  intros cfg p all own ds pos code Hwf Hres Hc.
  destruct (WholeProofs.section_of_code cfg p all own ds Hres) as (ops & Ho & Hown & Hsec). exists ops. split; [exact Ho|]. split; [exact Hown|].
  rewrite <- (C02_reported_iff cfg p (x_facts p own all) (x_suppressed ops) pos code Hwf).
  unfold reported. split; intros (d & Hd & Hp & Hcode); exists d; (split; [|split; assumption]);
    destruct (Hsec d) as (_ & _ & Hct & _); apply Hct; try assumption; rewrite Hcode; exact Hc.
Qed.

(* (2) "may not be instantiated here" *)
Theorem C02_forbidden :
  forall fs cur fn pkg tn,
    ctor_forbidden fs cur fn pkg tn <->
    (exists c, In c (ctor_names fs pkg tn)) /\ ~ (cur = pkg /\ In fn (ctor_names fs pkg tn)).
Proof. intros. unfold ctor_forbidden. reflexivity. Qed.

(* (3) the enclosing function of a declaration: its own name for a FuncDecl, none for a package-level declaration *)
Theorem C02_context :
  forall d, ctor_ctx d = match n_kind d with KFuncDecl => a_name (n_attrs d) | _ => "" end.
Proof. intros d. unfold ctor_ctx, decl_state. destruct (n_kind d); reflexivity. Qed.

(* (4) pointer-typed variables, blank identifiers and initialised variables are never CTOR03 *)
Theorem C02_pointer_var_never :
  forall t, is_pointer t = true -> named_direct (Some t) = None.
Proof. intros t H. unfold named_direct, is_pointer in *. destruct (unalias t); try discriminate; reflexivity. Qed.

Theorem C02_walk :
  forall fs cur d, no_inner_funcdecl d ->
    ctor_decl fs cur d = flat_map (ctor_check_node fs cur (ctor_ctx d)) (preorder d).
Proof. exact ctor_decl_is_flat_map. Qed.

(* non-vacuity: a literal outside the constructor is reported, the same literal inside NewT is not, and a
   package-level literal AFTER NewT in the file is reported (it is in no function) *)
Definition ex_lit (pos : Z) : node := Node KCompositeLit pos (pos + 3) (mkattrs "" "" 0 (Some (TNamed (Some "a") "T"))) [].
Definition ex_var (pos : Z) : node :=
  Node KGenDecl pos (pos + 12) (mkattrs "" "var" 0 None)
    [Node KValueSpec (pos + 4) (pos + 12)
       {| a_name := ""; a_tok := ""; a_n := 1; a_m := 1; a_flag := false; a_ty := None; a_obj := None; a_str2 := ""; a_str3 := None |}
       [Node KIdent (pos + 4) (pos + 5) (mkattrs "H" "" 0 (Some (TNamed (Some "a") "T"))) []; ex_lit (pos + 8)]].
Definition ex_file2 : file :=
  {| f_name := "a.go"; f_package := 1; f_end := 300;
     f_decls := [ex_func 20 "Use" [ex_lit 40]; ex_func 100 "NewT" [ex_lit 120]; ex_var 200];
     f_comments := []; f_imports := []; f_lines := [1] |}.
Example C02_nonvacuous :
  map (fun d => (d_pos d, d_code d))
      (x_ctor {| scan_tests := false; exclude_paths := []; exclude_checks := [] |}
              {| p_path := "a"; p_name := "a"; p_files := [ex_file2]; p_imports := []; p_types := empty_typetable |} ex_facts (fun _ _ => false))
  = [(40, "CTOR01"); (208, "CTOR01")].
Proof. vm_compute. reflexivity. Qed.

Print Assumptions C02_reported_iff.
Print Assumptions C02_forbidden.
Print Assumptions C02_context.
Print Assumptions C02_pointer_var_never.
Print Assumptions C02_walk.
Print Assumptions C02_whole_analysis.
