(* C10 — analysis is total. Statements only.  Go's partial operations that the analyzers perform are explicit in the
   model (a result type with a Panic / None outcome); these theorems say that outcome is never produced.  Termination is
   structural: every model function is a Coq fixpoint (the regex loops run on explicit fuel = the remaining input). *)
From Coq Require Import List String ZArith Bool.
From GG Require Import Base.Strs Model.Codes Model.IgnoreSet Model.Config Model.GoTypes Model.GoAst Model.Annots Model.Analyze Model.Reporter
                       Extracted Exec Proofs.IgnoreSetProofs Proofs.ReporterProofs Proofs.TotalProofs.
From GG Require Properties.C16 Properties.C19 Proofs.OpsProofs.
Import ListNotations.
Local Open Scope Z_scope.

(* the only input condition: an @ignore comment inside a file lies at or after the first line start of that file's line
   table (true of every file go/parser produced; evaluated on every serialised package) *)
(* (1) token.File.LineStart is never asked for an invalid line: the @ignore reader does not panic *)
Theorem C10_ignore_reader_total :
  forall cfg p, x_lines_ok cfg p = true -> x_ignore_ops cfg p <> None.
Proof. intros cfg p H. exact (ignore_ops_total re_ignore kw_ignore cfg p H). Qed.

(* (2) ... hence the whole per-package analysis produces a normal result, for every tree, every facts set, every configuration *)
Theorem C10_analysis_total :
  forall cfg p all, x_lines_ok cfg p = true -> exists own ds, x_analyze cfg p all = AOk own ds.
Proof.
  intros cfg p all H. unfold x_analyze. pose proof (C10_ignore_reader_total cfg p H) as Hi.
  destruct (x_ignore_ops cfg p); [eexists; eexists; reflexivity|contradiction Hi; reflexivity].
Qed.

(* (3) the suppression look-up never indexes outside the marker list *)
Theorem C10_suppression_lookup_total :
  forall ops c p, (forall cs st en, In (OpAdd cs st en) ops -> 1 <= st) -> x_is_contains (x_is_run ops) c p <> Panic.
Proof. exact C16.C16_no_panic. Qed.

(* (3') ... and the markers a package's own @ignore comments produce always meet that condition: with file positions >= 1
   (go/token never hands out 0; evaluated on every serialised package) the suppression look-up of the analysed package is
   total for every code and position *)
Theorem C10_suppression_lookup_total_for_packages :
  forall cfg p ops c q, OpsProofs.x_pos_ok cfg p = true -> x_ignore_ops cfg p = Some ops -> x_is_contains (x_is_run ops) c q <> Panic.
Proof. intros cfg p ops c q H E. apply C16.C16_no_panic. exact (OpsProofs.x_ops_positive cfg p ops H E). Qed.

(* (4) rendering a diagnostic never slices out of range: any file content, any line, any column (0 and negative included),
   any code and message *)
Theorem C10_reporter_total :
  forall content line col code msg, x_rep_format content line col code msg <> PanicSlice.
Proof. intros. apply format_never_panics. exact C19.max_ge0. Qed.

(* non-vacuity: a file whose @ignore comment would make LineStart fail is excluded by the condition, an ordinary one is not *)
Definition mkf (lines : list Z) (cpos : Z) : file :=
  {| f_name := "a.go"; f_package := 1; f_end := 100;
     f_decls := [Node KGenDecl 35 38 {| a_name := ""; a_tok := "var"; a_n := 0; a_m := 0; a_flag := false; a_ty := None; a_obj := None; a_str2 := ""; a_str3 := None |} []];
     f_comments := [[{| c_text := "// @ignore ALL"; c_pos := cpos; c_end := cpos + 14 |}]];
     f_imports := []; f_lines := lines |}.
Definition mkp (f : file) : package := {| p_path := "a"; p_name := "a"; p_files := [f]; p_imports := []; p_types := empty_typetable |}.
Definition cfg0 : config := {| scan_tests := false; exclude_paths := []; exclude_checks := [] |}.
Example C10_nonvacuous :
  x_lines_ok cfg0 (mkp (mkf [1; 11; 30] 40)) = true /\ x_lines_ok cfg0 (mkp (mkf [50; 60] 40)) = false /\
  x_ignore_ops cfg0 (mkp (mkf [50; 60] 40)) = None /\
  (exists own ds, x_analyze cfg0 (mkp (mkf [1; 11; 30] 40)) [] = AOk own ds).
Proof. vm_compute. repeat split; try reflexivity. eexists. eexists. reflexivity. Qed.

Print Assumptions C10_ignore_reader_total.
Print Assumptions C10_analysis_total.
Print Assumptions C10_suppression_lookup_total.
Print Assumptions C10_reporter_total.
Print Assumptions C10_suppression_lookup_total_for_packages.
