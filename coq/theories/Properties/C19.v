(* C19 — the rendered excerpt shows the right line; the caret marks the reported column.
   Statements only, about the model instantiated with the constants extracted from reporter.go on this run. *)
From Coq Require Import List String Ascii ZArith Bool.
From GG Require Import Base.Strs Model.Reporter Extracted Exec Proofs.ReporterProofs.
Import ListNotations.
Local Open Scope Z_scope.

(* obligations on the extracted constants *)
Theorem C19_constants : (4 <=? max_line_length) && (0 <=? ctx_before) && (0 <=? ctx_after) = true.
Proof. vm_compute. reflexivity. Qed.

Lemma max_ge4 : 4 <= max_line_length. Proof. pose proof C19_constants as H. apply andb_true_iff in H. destruct H as [H _]. apply andb_true_iff in H. destruct H as [H _]. apply Z.leb_le. exact H. Qed.
Lemma max_ge0 : 0 <= max_line_length. Proof. pose proof max_ge4. eapply Z.le_trans; [|eassumption]. discriminate. Qed.
Lemma before_ge0 : 0 <= ctx_before. Proof. apply Z.leb_le. vm_compute. reflexivity. Qed.
Lemma after_ge0 : 0 <= ctx_after. Proof. apply Z.leb_le. vm_compute. reflexivity. Qed.

(* (1) a line within the display limit is shown unchanged and the caret column is the reported column *)
Theorem C19_short_line :
  forall s col, slen s <= max_line_length -> x_truncate s col = Some s /\ x_display_col s col = col.
Proof. intros s col H. exact (short_line_unchanged s max_line_length col H). Qed.

(* (2) a longer line, any length, any reported column on it: the excerpt exists, the byte under the caret is
       the byte at the reported column, the caret lies inside the excerpt, and the excerpt is at most the
       display limit plus one three-byte ellipsis *)
Theorem C19_caret_under_reported_byte :
  forall s col, slen s > max_line_length -> 1 <= col <= slen s ->
  exists t, x_truncate s col = Some t /\
            String.get (Z.to_nat (x_display_col s col - 1)) t = String.get (Z.to_nat (col - 1)) s /\
            String.get (Z.to_nat (col - 1)) s <> None /\
            1 <= x_display_col s col <= slen t /\
            slen t <= max_line_length + 3.
Proof. intros s col. exact (caret_under_reported_byte s max_line_length col max_ge4). Qed.

(* (2') the bound holds for every column whatsoever (also 0, negative, beyond the line) *)
Theorem C19_excerpt_bounded :
  forall s col t, x_truncate s col = Some t -> slen t <= max_line_length + 3.
Proof. intros s col t. exact (excerpt_bounded s max_line_length col t max_ge4). Qed.

(* (3) the caret padding has exactly display_col-1 characters and a tab exactly where the excerpt has one *)
Theorem C19_caret_padding :
  forall n t, String.length (caret_pad n t) = n /\
  forall k, (k < n)%nat ->
    String.get k (caret_pad n t) =
    Some (match String.get k t with
          | Some a => if Ascii.eqb a "009"%char then "009"%char else " "%char
          | None => " "%char end).
Proof. intros n t. split; [apply caret_pad_length|intros k; apply caret_pad_get]. Qed.

(* (4) the context window: exactly the lines numbered max 1 (n-before) .. min len (n+after), each with its own text *)
Theorem C19_window :
  forall ls n num text,
    In (num, text) (x_window (Some ls) n) <->
    Z.max 1 (n - ctx_before) <= num <= Z.min (Z.of_nat (List.length ls)) (n + ctx_after) /\
    nth_error ls (Z.to_nat (num - 1)) = Some text.
Proof. intros ls n num text. exact (window_spec ls n ctx_before ctx_after num text before_ge0 after_ge0). Qed.

(* (5) unreadable or too-short files: no excerpt, and never a failure, for any input *)
Theorem C19_unreadable : forall n, x_window None n = [].
Proof. reflexivity. Qed.
Theorem C19_beyond_file :
  forall ls n, n - ctx_before - 1 >= Z.of_nat (List.length ls) -> x_window (Some ls) n = [].
Proof. intros ls n. exact (window_beyond_file ls n ctx_before ctx_after before_ge0). Qed.
Theorem C19_never_fails :
  forall content line col code msg, x_rep_format content line col code msg <> PanicSlice.
Proof. intros. apply format_never_panics. exact max_ge0. Qed.

(* non-vacuity: the three regimes and both boundaries of theorem (2), on a 600-byte line *)
Definition ex_line : string := bytes_to_string (map (fun i => (33 + N.of_nat i mod 90)%N) (seq 0 600)).
Example C19_nonvacuous :
  slen ex_line = 600 /\ max_line_length = 200 /\
  map (fun c => x_display_col ex_line c) [1; 197; 198; 199; 403; 404; 600] = [1; 197; 102; 102; 102; 4; 200] /\
  map (fun c => option_map (fun t => String.get (Z.to_nat (x_display_col ex_line c - 1)) t) (x_truncate ex_line c))
      [1; 197; 198; 199; 403; 404; 600]
  = map (fun c => Some (String.get (Z.to_nat (c - 1)) ex_line)) [1; 197; 198; 199; 403; 404; 600].
Proof. vm_compute. repeat split; reflexivity. Qed.

Print Assumptions C19_constants.
Print Assumptions C19_short_line.
Print Assumptions C19_caret_under_reported_byte.
Print Assumptions C19_excerpt_bounded.
Print Assumptions C19_caret_padding.
Print Assumptions C19_window.
Print Assumptions C19_unreadable.
Print Assumptions C19_beyond_file.
Print Assumptions C19_never_fails.
