(* C06 — annotations cross package boundaries intact, whatever the driver or the run set. Statements only. *)
From Coq Require Import List String ZArith Bool.
From GG Require Import Base.Strs Model.Config Model.GoTypes Model.GoAst Model.Annots Model.Analyze Model.GobView Model.Driver
                       Extracted Exec Proofs.CheckerProofs Proofs.DriverProofs.
Import ListNotations.
Local Open Scope string_scope.

(* (1) locality: the analysis of a package reads the facts of its direct imports and nothing else - two fact stores that
   answer alike for every direct import path give the same result (diagnostics, texts, exported fact) *)
Theorem C06_depends_on_direct_imports_only :
  forall cfg p all all', import_view p all = import_view p all' -> x_analyze cfg p all = x_analyze cfg p all'.
Proof. exact analyze_local. Qed.

(* (2) the fact a package exports is a function of that package and the configuration alone *)
Theorem C06_exported_fact_is_local :
  forall cfg p all own ds, x_analyze cfg p all = AOk own ds -> own = x_read_all cfg p.
Proof. exact analyze_own. Qed.

(* (3) every kind of annotation means in an importer what it means at home: each index answers by membership of the
   annotation in the facts available for the DECLARING package, wherever in the store they come from *)
Theorem C06_indices_do_not_care_where_a_fact_comes_from :
  forall fs pkg tn fn field,
    (imm_contains fs pkg tn = true <-> exists a i, In (pkg, a) fs /\ In i (an_imm a) /\ ima_type i = tn) /\
    (In fn (ctor_names fs pkg tn) <-> exists a c, In (pkg, a) fs /\ In c (an_ctor a) /\ ca_type c = tn /\ In fn (ca_names c)) /\
    (mut_match fs pkg field tn = true <-> exists a m, In (pkg, a) fs /\ In m (an_mut a) /\ ma_type m = tn /\ ma_field m = field).
Proof.
  intros fs pkg tn fn field. split; [|split].
  - exact (imm_contains_spec fs pkg tn).
  - exact (ctor_names_spec fs pkg tn fn).
  - exact (mut_match_spec fs pkg field tn).
Qed.

(* (4) serialisation: the six fact types are PackageAnnotations; every field of every struct they contain is exported and
   of a type gob encodes (regenerated from annotation.go on this run), and a value with only exported fields survives the
   gob round trip unchanged - so what an importer decodes is what the exporter computed, in-process or from a file *)
Definition encodable (structs : list string) (t : string) : bool :=
  str_mem t ["string"; "int"; "bool"; "list:string"; "list:int"] ||
  existsb (fun s => String.eqb t ("list:struct:" ++ s) || String.eqb t ("struct:" ++ s)) structs.

Theorem C06_fact_fields_exported_and_encodable :
  forallb (fun st => forallb (fun f => let '(_, exported, ty) := f in exported && encodable (map fst fact_structs) ty) (snd st)) fact_structs
  && forallb snd fact_types && Nat.eqb (List.length fact_types) 6 = true.
Proof. vm_compute. reflexivity. Qed.

Theorem C06_gob_round_trip : forall v, all_exported v = true -> roundtrip v = v.
Proof. exact roundtrip_exported. Qed.

(* (5) wiring (regenerated from analyzer.go): the five checkers require the configuration, annotation and ignore readers and
   each declares exactly one fact type of its own, so facts flow for every checker under every driver *)
Definition checker_ok (a : string * string * string * list string * list string * bool) : bool :=
  let '(_, _, _, req, facts, _) := a in
  str_mem "ConfigReader" req && str_mem "AnnotationReader" req && str_mem "IgnoreReader" req && Nat.eqb (List.length facts) 1.

Theorem C06_wiring :
  forallb (fun a => let '(v, _, _, _, _, _) := a in negb (str_mem v ["ImplementsChecker"; "ImmutableChecker"; "ConstructorChecker"; "TestOnlyChecker"; "PackageOnlyChecker"]) || checker_ok a) analyzers
  && forallb (fun v => existsb (fun a => let '(v', _, _, _, _, _) := a in String.eqb v v') analyzers)
             ["ImplementsChecker"; "ImmutableChecker"; "ConstructorChecker"; "TestOnlyChecker"; "PackageOnlyChecker"; "AnnotationReader"; "IgnoreReader"; "ConfigReader"]
  = true.
Proof. vm_compute. reflexivity. Qed.

(* (6) any driver: every order of actions that respects the import graph, over any universe of packages, yields for each
   package the driver-independent result; and that result is the same in every universe that offers the package the same
   direct imports (named on the command line or only a dependency, other packages alongside or not) *)
Theorem C06_every_valid_schedule_gives_the_same_results :
  forall cfg universe order, NoDup (map p_path universe) -> valid_schedule universe [] order ->
    snd (run_schedule cfg order) = map (fun p => (p_path p, spec_result cfg universe p)) order.
Proof. intros cfg universe order H. exact (schedule_independent cfg universe H order). Qed.

Theorem C06_run_set_independent :
  forall cfg u1 u2 p, import_view p (universe_facts cfg u1) = import_view p (universe_facts cfg u2) ->
    spec_result cfg u1 p = spec_result cfg u2 p.
Proof. exact run_set_independent. Qed.

(* non-vacuity: two packages, the importer analysed after its dependency, and the reverse order is not a valid schedule *)
Definition pk (path : string) (imps : list string) : package :=
  {| p_path := path; p_name := path; p_files := []; p_imports := imps; p_types := empty_typetable |}.
Example C06_nonvacuous :
  valid_schedule [pk "d" []; pk "u" ["d"]] [] [pk "d" []; pk "u" ["d"]] /\ ~ valid_schedule [pk "d" []; pk "u" ["d"]] [] [pk "u" ["d"]; pk "d" []].
Proof.
  split.
  - cbn [valid_schedule]. split; [left; reflexivity|]. split; [intros []|]. split; [intros q _ []|].
    split; [right; left; reflexivity|]. split; [cbn; intros [H|[]]; discriminate|]. split; [|exact I].
    intros q [<-|[<-|[]]] H; cbn in H; [left; reflexivity|destruct H as [H|[]]; discriminate].
  - cbn [valid_schedule]. intros (_ & _ & H & _). specialize (H (pk "d" []) (or_introl eq_refl)). cbn in H. apply H. left. reflexivity.
Qed.

Print Assumptions C06_depends_on_direct_imports_only.
Print Assumptions C06_exported_fact_is_local.
Print Assumptions C06_indices_do_not_care_where_a_fact_comes_from.
Print Assumptions C06_fact_fields_exported_and_encodable.
Print Assumptions C06_gob_round_trip.
Print Assumptions C06_wiring.
Print Assumptions C06_every_valid_schedule_gives_the_same_results.
Print Assumptions C06_run_set_independent.
