(* C15 — the annotation grammar is exactly the documented one. Statements only.
   The expressions are regenerated from the source on every run (Go's own regexp/syntax parses the literals); the
   theorems are about the backtracking matcher of Model/Regex.v (library model of package regexp) on those trees. *)
From Coq Require Import List Ascii String Bool NArith.
From GG Require Import Base.Strs Model.RegexSyntax Model.Regex Model.Annot Extracted Exec Proofs.RegexProofs.
Import ListNotations.
Local Open Scope string_scope.

(* the seven expressions are within ASCII classes (byte-wise = rune-wise matching) and nothing was left untranslated *)
Theorem C15_regexes_supported :
  forallb re_ascii [re_implements; re_constructor; re_immutable; re_testonly; re_mutable; re_packageonly; re_ignore] = true
  /\ unsupported = [].
Proof. split; vm_compute; reflexivity. Qed.

(* ---- the flag annotations ---- *)
Definition kw (s : string) : list ascii := list_ascii_of_string s.

(* obligation: the three expressions of the source are the flag shape  ^ blanks // blanks @keyword (blanks free-text)? $ *)
Theorem C15_flag_expressions :
  re_immutable = flag_re (kw "@immutable") /\ re_testonly = flag_re (kw "@testonly") /\ re_mutable = flag_re (kw "@mutable").
Proof. repeat split; vm_compute; reflexivity. Qed.

(* for EVERY comment text (any bytes, line breaks included): the parser accepts exactly the documented lines *)
Theorem C15_immutable_exact : forall text, x_parse_immutable text = spec_flag (kw "@immutable") (list_ascii_of_string text).
Proof.
  intros text. unfold x_parse_immutable, parse_immutable, parse_flag. destruct C15_flag_expressions as [-> _].
  unfold kw. cbn [list_ascii_of_string]. rewrite re_find_flag by (vm_compute; reflexivity).
  destruct (spec_flag _ _); reflexivity.
Qed.
Theorem C15_testonly_exact : forall text, x_parse_testonly text = spec_flag (kw "@testonly") (list_ascii_of_string text).
Proof.
  intros text. unfold x_parse_testonly, parse_testonly, parse_flag. destruct C15_flag_expressions as [_ [-> _]].
  unfold kw. cbn [list_ascii_of_string]. rewrite re_find_flag by (vm_compute; reflexivity).
  destruct (spec_flag _ _); reflexivity.
Qed.
Theorem C15_mutable_exact : forall text, x_parse_mutable text = spec_flag (kw "@mutable") (list_ascii_of_string text).
Proof.
  intros text. unfold x_parse_mutable, parse_mutable, parse_flag. destruct C15_flag_expressions as [_ [_ ->]].
  unfold kw. cbn [list_ascii_of_string]. rewrite re_find_flag by (vm_compute; reflexivity).
  destruct (spec_flag _ _); reflexivity.
Qed.

(* ... where "documented" means: blanks, //, blanks, the keyword, then nothing, or at least one blank followed by text without a
   line break.  In particular the keyword must be followed by a blank or the end (@immutablex is not @immutable), nothing but
   blanks may precede the slashes or stand between them and the keyword, and the case is significant. *)
Theorem C15_flag_line_shape :
  forall a k s, is_ws a = false ->
    (spec_flag (a :: k) s = true <->
     exists w1 w2 rest, s = (w1 ++ slashes ++ w2 ++ (a :: k) ++ rest)%list /\ forallb is_ws w1 = true /\ forallb is_ws w2 = true /\ tail_ok WS rest = true).
Proof. exact spec_flag_spec. Qed.
Theorem C15_free_text_shape :
  forall s, tail_ok WS s = true <-> s = [] \/ exists w t, s = (w ++ t)%list /\ w <> [] /\ forallb is_ws w = true /\ forallb nonl t = true.
Proof. exact tail_ok_spec. Qed.

(* ---- @implements ---- *)
Theorem C15_implements_expression : re_implements = implements_re (kw "@implements").
Proof. vm_compute. reflexivity. Qed.

(* for EVERY comment text: the line is an @implements annotation iff after the common head (blanks // blanks @implements) come
   at least one blank, an optional &, an identifier, optionally a dot and a second identifier - all by maximal munch - and
   then the free-text tail; the three fields are exactly those pieces (no qualifier: the identifier is the interface) *)
Theorem C15_implements_exact :
  forall text, x_parse_implements text =
    match strip_head (kw "@implements") (list_ascii_of_string text) with
    | Some rest => option_map show (spec_impl_args rest)
    | None => None
    end.
Proof.
  intros text. unfold x_parse_implements. rewrite C15_implements_expression.
  unfold kw. cbn [list_ascii_of_string]. apply parse_implements_exact. vm_compute. reflexivity.
Qed.

Example C15_implements_nonvacuous :
  map x_parse_implements ["// @implements &io.Reader  trailing text"; "// @implements Reader"; "// @implements io.Reader;"; "// @implements io."; "//@implements\tX.Y z"; "// @implements & X"]
  = [Some (true, "io", "Reader"); Some (false, "", "Reader"); None; None; None; None].
Proof. vm_compute. reflexivity. Qed.

Example C15_nonvacuous :
  map x_parse_immutable ["// @immutable"; "  //@immutable  because"; "// @immutablex"; "// @Immutable"; "// see @immutable"; "/* @immutable */"; "// @immutable;"]
  = [true; true; false; false; false; false; false].
Proof. vm_compute. reflexivity. Qed.

Print Assumptions C15_regexes_supported.
Print Assumptions C15_flag_expressions.
Print Assumptions C15_immutable_exact.
Print Assumptions C15_testonly_exact.
Print Assumptions C15_mutable_exact.
Print Assumptions C15_flag_line_shape.
Print Assumptions C15_free_text_shape.
Print Assumptions C15_implements_expression.
Print Assumptions C15_implements_exact.
