(* C15 — the annotation grammar is exactly the documented one. Statements only.
   The expressions are regenerated from the source on every run (Go's own regexp/syntax parses the literals); the
   theorems are about the backtracking matcher of Model/Regex.v (library model of package regexp) on those trees. *)
From Coq Require Import List Ascii String Bool NArith Arith Lia.
From GG Require Import Base.Strs Model.RegexSyntax Model.Regex Model.Annot Extracted Exec Proofs.RegexProofs.
Import ListNotations.
Local Open Scope string_scope.

(* the seven expressions are within ASCII classes (byte-wise = rune-wise matching) and nothing was left untranslated *)
Theorem C15_regexes_supported :
  forallb re_ascii [re_implements; re_constructor; re_immutable; re_testonly; re_mutable; re_packageonly; re_ignore] = true
  /\ unsupported = [].
Proof. split; vm_compute; reflexivity. Qed.

(* ---- the flag annotations ---- *)
Definition kw (s : string) : list ascii := list_ascii_of_string s.

(* obligation: the three expressions of the source are the flag shape  ^ blanks // blanks @keyword (blanks free-text)? $ *)
Theorem C15_flag_expressions :
  re_immutable = flag_re (kw "@immutable") /\ re_testonly = flag_re (kw "@testonly") /\ re_mutable = flag_re (kw "@mutable").
Proof. repeat split; vm_compute; reflexivity. Qed.

(* for EVERY comment text (any bytes, line breaks included): the parser accepts exactly the documented lines *)
Theorem C15_immutable_exact : forall text, x_parse_immutable text = spec_flag (kw "@immutable") (list_ascii_of_string text).
Proof.
  intros text. unfold x_parse_immutable, parse_immutable, parse_flag. destruct C15_flag_expressions as [-> _].
  unfold kw. cbn [list_ascii_of_string]. rewrite re_find_flag by (vm_compute; reflexivity).
  destruct (spec_flag _ _); reflexivity.
Qed.
Theorem C15_testonly_exact : forall text, x_parse_testonly text = spec_flag (kw "@testonly") (list_ascii_of_string text).
Proof.
  intros text. unfold x_parse_testonly, parse_testonly, parse_flag. destruct C15_flag_expressions as [_ [-> _]].
  unfold kw. cbn [list_ascii_of_string]. rewrite re_find_flag by (vm_compute; reflexivity).
  destruct (spec_flag _ _); reflexivity.
Qed.
Theorem C15_mutable_exact : forall text, x_parse_mutable text = spec_flag (kw "@mutable") (list_ascii_of_string text).
Proof.
  intros text. unfold x_parse_mutable, parse_mutable, parse_flag. destruct C15_flag_expressions as [_ [_ ->]].
  unfold kw. cbn [list_ascii_of_string]. rewrite re_find_flag by (vm_compute; reflexivity).
  destruct (spec_flag _ _); reflexivity.
Qed.

(* ... where "documented" means: blanks, //, blanks, the keyword, then nothing, or at least one blank followed by text without a
   line break.  In particular the keyword must be followed by a blank or the end (@immutablex is not @immutable), nothing but
   blanks may precede the slashes or stand between them and the keyword, and the case is significant. *)
Theorem C15_flag_line_shape :
  forall a k s, is_ws a = false ->
    (spec_flag (a :: k) s = true <->
     exists w1 w2 rest, s = (w1 ++ slashes ++ w2 ++ (a :: k) ++ rest)%list /\ forallb is_ws w1 = true /\ forallb is_ws w2 = true /\ tail_ok WS rest = true).
Proof. exact spec_flag_spec. Qed.
Theorem C15_free_text_shape :
  forall s, tail_ok WS s = true <-> s = [] \/ exists w t, s = (w ++ t)%list /\ w <> [] /\ forallb is_ws w = true /\ forallb nonl t = true.
Proof. exact tail_ok_spec. Qed.

(* ---- @implements ---- *)
Theorem C15_implements_expression : re_implements = implements_re (kw "@implements").
Proof. vm_compute. reflexivity. Qed.

(* for EVERY comment text: the line is an @implements annotation iff after the common head (blanks // blanks @implements) come
   at least one blank, an optional &, an identifier, optionally a dot and a second identifier - all by maximal munch - and
   then the free-text tail; the three fields are exactly those pieces (no qualifier: the identifier is the interface) *)
Theorem C15_implements_exact :
  forall text, x_parse_implements text =
    match strip_head (kw "@implements") (list_ascii_of_string text) with
    | Some rest => option_map show (spec_impl_args rest)
    | None => None
    end.
Proof.
  intros text. unfold x_parse_implements. rewrite C15_implements_expression.
  unfold kw. cbn [list_ascii_of_string]. apply parse_implements_exact. vm_compute. reflexivity.
Qed.

Example C15_implements_nonvacuous :
  map x_parse_implements ["// @implements &io.Reader  trailing text"; "// @implements Reader"; "// @implements io.Reader;"; "// @implements io."; "//@implements\tX.Y z"; "// @implements & X"]
  = [Some (true, "io", "Reader"); Some (false, "", "Reader"); None; None; None; None].
Proof. vm_compute. reflexivity. Qed.

(* ---- the list annotations: @constructor, @packageonly, @ignore ---- *)
Definition PKGC : list (N * N) := [(45, 57); (65, 90); (95, 95); (97, 122)]%N.      (* - . / 0-9 A-Z _ a-z *)
Definition CODEC : list (N * N) := [(48, 57); (65, 90); (97, 122)]%N.               (* 0-9 A-Z a-z *)

(* in the source expression the first identifier of @constructor is written out (head class, tail class) in line with what
   follows; concatenation is associative for the matcher, so this is the list shape with an identifier item *)
Definition ctor_re_flat : re :=
  RCat RBot (RCat (RStar (RCls WS)) (RCat (lit slashes) (RCat (RStar (RCls WS)) (RCat (lit (kw "@constructor"))
    (RCat (ROpt (RCat (RPlus (RCls WS)) (RGrp 1
       (RCat (RCls HEADC) (RCat (RStar (RCls WORD)) (RCat (RStar (body ident_item)) (ROpt (RCat (RStar (RCls WS)) (RCls COMMA)))))))))
       (RCat (tail_re WS) REot)))))).

Theorem C15_list_expressions :
  re_constructor = ctor_re_flat /\
  re_packageonly = list_annot_re (kw "@packageonly") (run_item PKGC) /\
  re_ignore = list_annot_re (kw "@ignore") (run_item CODEC).
Proof. repeat split; vm_compute; reflexivity. Qed.

Lemma ctor_flat_same text : re_find ctor_re_flat text = re_find (list_annot_re (kw "@constructor") ident_item) text.
Proof. unfold ctor_re_flat, list_annot_re. rewrite !re_find_anchored. reflexivity. Qed.

Lemma run_head cl x xs n : run_len cl (x :: xs) = Some n -> in_cls cl x = true.
Proof. unfold run_len. destruct (in_cls cl x); [reflexivity|discriminate]. Qed.
Lemma ident_head x xs n : ident_len (x :: xs) = Some n -> in_cls WORD x = true.
Proof. unfold ident_len. destruct (in_cls HEADC x) eqn:E; [intros _; apply headc_word; exact E|discriminate]. Qed.

(* the text of the list group: None = not an annotation line; Some None = the annotation without a list; Some (Some g) = the list g.
   The list is: an item, then any number of "blanks , blanks item", then optionally "blanks ,", taken as far as possible such
   that the free-text tail follows; items are maximal runs *)
Definition ctor_line (text : string) := spec_list_line ident_len (kw "@constructor") (list_ascii_of_string text).
Definition pkgo_line (text : string) := spec_list_line (run_len PKGC) (kw "@packageonly") (list_ascii_of_string text).
Definition ign_line (text : string) := spec_list_line (run_len CODEC) (kw "@ignore") (list_ascii_of_string text).

Theorem C15_constructor_exact :
  forall text, x_parse_constructor text =
    match ctor_line text with
    | Some (Some g) => let names := trim (string_of_list_ascii g) in
                       if String.eqb names "" then None else match split_items names with [] => None | l => Some l end
    | _ => None
    end.
Proof.
  intros text. unfold x_parse_constructor, parse_constructor, ctor_line. destruct C15_list_expressions as [-> _]. rewrite ctor_flat_same.
  pose proof (list_line_group ident_item WORD ident_len ident_item_ok ident_head ws_not_word eq_refl "@"%char (list_ascii_of_string "constructor") text eq_refl) as H.
  unfold kw. cbn [list_ascii_of_string] in *.
  destruct (re_find _ text) as [c|].
  - destruct H as [g [-> Hg]]. rewrite Hg. destruct g as [t|]; reflexivity.
  - rewrite H. reflexivity.
Qed.

Theorem C15_packageonly_exact :
  forall text, x_parse_packageonly text =
    match pkgo_line text with
    | Some (Some g) => let pk := trim (string_of_list_ascii g) in if String.eqb pk "" then Some [] else Some (split_items pk)
    | Some None => Some []
    | None => None
    end.
Proof.
  intros text. unfold x_parse_packageonly, parse_packageonly, pkgo_line. destruct C15_list_expressions as [_ [-> _]].
  pose proof (list_line_group (run_item PKGC) PKGC (run_len PKGC) (run_item_ok PKGC) (run_head PKGC)
                (disjoint_sound WS PKGC eq_refl) eq_refl "@"%char (list_ascii_of_string "packageonly") text eq_refl) as H.
  unfold kw. cbn [list_ascii_of_string] in *.
  destruct (re_find _ text) as [c|].
  - destruct H as [g [-> Hg]]. rewrite Hg. destruct g as [t|]; reflexivity.
  - rewrite H. reflexivity.
Qed.

Theorem C15_ignore_exact :
  forall text, x_parse_ignore text =
    match ign_line text with
    | Some (Some g) => let cs := trim (string_of_list_ascii g) in
                       if String.eqb cs "" then None else match map upper (split_items cs) with [] => None | l => Some l end
    | _ => None
    end.
Proof.
  intros text. unfold x_parse_ignore, parse_ignore, ign_line. destruct C15_list_expressions as [_ [_ ->]].
  pose proof (list_line_group (run_item CODEC) CODEC (run_len CODEC) (run_item_ok CODEC) (run_head CODEC)
                (disjoint_sound WS CODEC eq_refl) eq_refl "@"%char (list_ascii_of_string "ignore") text eq_refl) as H.
  unfold kw. cbn [list_ascii_of_string] in *.
  destruct (re_find _ text) as [c|].
  - destruct H as [g [-> Hg]]. rewrite Hg. destruct g as [t|]; reflexivity.
  - rewrite H. reflexivity.
Qed.

(* wherever the list is taken to end, the free-text tail follows: a list is never cut in the middle of a word *)
Theorem C15_list_is_followed_by_the_tail :
  forall item_len s5 n, spec_list item_len s5 = Some n -> tail_ok WS (skipn n s5) = true.
Proof.
  intros item_len s5 n. unfold spec_list. destruct (item_len s5) as [n0|]; [|discriminate]. intros H.
  destruct (chain_end_sound item_len _ _ _ _ H) as [H1 H2]. replace n with (n0 + (n - n0)) by lia. rewrite skipn_add. exact H2.
Qed.

Example C15_lists_nonvacuous :
  map x_parse_constructor ["// @constructor New, Make"; "// @constructor New ,Old;"; "// @constructor New,Make, because"; "// @constructor 9New"; "// @constructor"; "// @constructorNew"]
  = [Some ["New"; "Make"]; Some ["New"]; Some ["New"; "Make"; "because"]; None; None; None] /\
  map x_parse_packageonly ["// @packageonly"; "// @packageonly a/b.c-d , x"; "// @packageonly p;q"; "// @packageonlyx"]
  = [Some []; Some ["a/b.c-d"; "x"]; Some []; None] /\
  map x_parse_ignore ["// @ignore imm01, Ctor"; "// @ignore IMM-01"; "// @ignore ALL because"; "// @ignore"]
  = [Some ["IMM01"; "CTOR"]; None; Some ["ALL"]; None].
Proof. vm_compute. repeat split; reflexivity. Qed.

Example C15_nonvacuous :
  map x_parse_immutable ["// @immutable"; "  //@immutable  because"; "// @immutablex"; "// @Immutable"; "// see @immutable"; "/* @immutable */"; "// @immutable;"]
  = [true; true; false; false; false; false; false].
Proof. vm_compute. reflexivity. Qed.

Print Assumptions C15_regexes_supported.
Print Assumptions C15_flag_expressions.
Print Assumptions C15_immutable_exact.
Print Assumptions C15_testonly_exact.
Print Assumptions C15_mutable_exact.
Print Assumptions C15_flag_line_shape.
Print Assumptions C15_free_text_shape.
Print Assumptions C15_implements_expression.
Print Assumptions C15_implements_exact.
Print Assumptions C15_list_expressions.
Print Assumptions C15_constructor_exact.
Print Assumptions C15_packageonly_exact.
Print Assumptions C15_ignore_exact.
Print Assumptions C15_list_is_followed_by_the_tail.
