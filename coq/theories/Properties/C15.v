(* C15 — the annotation grammar is exactly the documented one. (first version: obligations on the extracted
   expressions; the recogniser theorems follow) *)
From Coq Require Import List String Bool.
From GG Require Import Base.Strs Model.RegexSyntax Model.Regex Extracted Exec.
Import ListNotations.

(* the seven expressions are within ASCII classes (byte-wise = rune-wise matching) and nothing was left untranslated *)
Theorem C15_regexes_supported :
  forallb re_ascii [re_implements; re_constructor; re_immutable; re_testonly; re_mutable; re_packageonly; re_ignore] = true
  /\ unsupported = [].
Proof. split; vm_compute; reflexivity. Qed.

Print Assumptions C15_regexes_supported.
