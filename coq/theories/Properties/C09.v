(* C09 — code without annotations is never reported. Statements only. *)
From Coq Require Import List String ZArith Bool.
From GG Require Import Base.Strs Model.Config Model.GoAst Model.RegexSyntax Model.Regex Model.Annot Model.Annots Model.Analyze
                       Extracted Exec Proofs.ReaderProofs.
Import ListNotations.
Local Open Scope string_scope.

(* a doc line that none of the seven documented forms matches *)
Definition unrecognised_line (text : string) : Prop :=
  x_parse_implements text = None /\ x_parse_constructor text = None /\ x_parse_immutable text = false /\
  x_parse_testonly text = false /\ x_parse_packageonly text = None.

(* (1) if no doc line of a top-level type declaration (group or spec) or function of the non-excluded files is
   recognised, nothing is collected - whatever trailing comments, local declarations, free comments, field
   comments or statements contain *)
Theorem C09_nothing_collected :
  forall cfg p, (forall t, In t (package_doc_lines cfg p) -> unrecognised_line t) -> x_read_all cfg p = no_annots.
Proof.
  intros cfg p H. unfold x_read_all.
  apply (read_all_silent re_implements re_constructor re_immutable re_testonly re_mutable re_packageonly kw_annotations cfg p).
  exact H.
Qed.

(* (2) if neither the package nor its direct imports carry annotations, the four AST checkers report nothing,
   for every configuration, every tree and every suppression state *)
Theorem C09_silent :
  forall cfg p all,
    (forall t, In t (package_doc_lines cfg p) -> unrecognised_line t) ->
    (forall pa, In pa all -> annots_empty (snd pa) = true) ->
    match x_analyze cfg p all with
    | AOk own ds => own = no_annots /\ ds = []
    | APanic _ => True
    end.
Proof.
  intros cfg p all H Hall. unfold x_analyze. rewrite (C09_nothing_collected cfg p H).
  destruct (x_ignore_ops cfg p) as [ops|]; [|exact I]. split; [reflexivity|].
  assert (Hfs : forall pa, In pa (x_facts p no_annots all) -> annots_empty (snd pa) = true).
  { intros pa [<-|Hin]; [reflexivity|]. unfold x_facts in Hin. apply in_flat_map in Hin. destruct Hin as [ip [_ Hin]].
    destruct (find (fun pa0 => String.eqb (fst pa0) ip) all) as [pa0|] eqn:Ef; [|contradiction].
    destruct Hin as [<-|[]]. apply Hall. apply find_some in Ef. tauto. }
  rewrite (silent_imm _ Hfs), (silent_ctor _ Hfs), (silent_tonl _ Hfs), (silent_pkgo _ Hfs). reflexivity.
Qed.

(* non-vacuity: near-miss lines are unrecognised, real ones are not *)
Example C09_nonvacuous :
  map x_parse_immutable ["// @immutable"; "// see @immutable"; "// @Immutable"; "// @immutablex"; "/* @immutable */"; "// @ immutable"; "//@immutable because"]
  = [true; false; false; false; false; false; true]
  /\ x_parse_constructor "// old: // @constructor New" = None /\ x_parse_constructor "// @constructor New" = Some ["New"].
Proof. vm_compute. repeat split; reflexivity. Qed.

Print Assumptions C09_nothing_collected.
Print Assumptions C09_silent.
