(* C09 — code without annotations is never reported. Statements only. *)
From Coq Require Import List String ZArith Bool.
From GG Require Import Base.Strs Model.Config Model.GoAst Model.RegexSyntax Model.Regex Model.Annot Model.Annots Model.Analyze
                       Extracted Exec Proofs.ReaderProofs Proofs.RegexProofs.
From Coq Require Import Ascii.
From GG Require Properties.C15.
Import ListNotations.
Local Open Scope string_scope.

(* a doc line that none of the seven documented forms matches *)
Definition unrecognised_line (text : string) : Prop :=
  x_parse_implements text = None /\ x_parse_constructor text = None /\ x_parse_immutable text = false /\
  x_parse_testonly text = false /\ x_parse_packageonly text = None.

(* (1) if no doc line of a top-level type declaration (group or spec) or function of the non-excluded files is
   recognised, nothing is collected - whatever trailing comments, local declarations, free comments, field
   comments or statements contain *)
Theorem C09_nothing_collected :
  forall cfg p, (forall t, In t (package_doc_lines cfg p) -> unrecognised_line t) -> x_read_all cfg p = no_annots.
Proof.
  intros cfg p H. unfold x_read_all.
  apply (read_all_silent re_implements re_constructor re_immutable re_testonly re_mutable re_packageonly kw_annotations cfg p).
  exact H.
Qed.

(* (2) if neither the package nor its direct imports carry annotations, the four AST checkers report nothing,
   for every configuration, every tree and every suppression state *)
Theorem C09_silent :
  forall cfg p all,
    (forall t, In t (package_doc_lines cfg p) -> unrecognised_line t) ->
    (forall pa, In pa all -> annots_empty (snd pa) = true) ->
    match x_analyze cfg p all with
    | AOk own ds => own = no_annots /\ ds = []
    | APanic _ => True
    end.
Proof.
  intros cfg p all H Hall. unfold x_analyze. rewrite (C09_nothing_collected cfg p H).
  destruct (x_ignore_ops cfg p) as [ops|]; [|exact I]. split; [reflexivity|].
  assert (Hfs : forall pa, In pa (x_facts p no_annots all) -> annots_empty (snd pa) = true).
  { intros pa [<-|Hin]; [reflexivity|]. unfold x_facts in Hin. apply in_flat_map in Hin. destruct Hin as [ip [_ Hin]].
    destruct (find (fun pa0 => String.eqb (fst pa0) ip) all) as [pa0|] eqn:Ef; [|contradiction].
    destruct Hin as [<-|[]]. apply Hall. apply find_some in Ef. tauto. }
  rewrite (silent_imm _ Hfs), (silent_ctor _ Hfs), (silent_tonl _ Hfs), (silent_pkgo _ Hfs). reflexivity.
Qed.

(* (3) by the grammar theorems of C15: a line is unrecognised as soon as it does not begin with blanks, two slashes, blanks
   and one of the five keywords - in particular every line without an @ sign, every block comment, every line where
   something other than blanks precedes the keyword, every keyword in another case *)
Definition no_head (text : string) : Prop :=
  forall k, In k ["@implements"; "@constructor"; "@immutable"; "@testonly"; "@packageonly"] ->
            strip_head (C15.kw k) (list_ascii_of_string text) = None.

Lemma spec_flag_head k s : spec_flag k s = match strip_head k s with Some s4 => tail_ok WS s4 | None => false end.
Proof. unfold spec_flag, strip_head. destruct (strip_prefix slashes (dropw is_ws s)); reflexivity. Qed.

Theorem C09_unrecognised_by_shape : forall text, no_head text -> unrecognised_line text.
Proof.
  intros text H. unfold unrecognised_line.
  rewrite C15.C15_implements_exact, C15.C15_constructor_exact, C15.C15_immutable_exact, C15.C15_testonly_exact, C15.C15_packageonly_exact.
  unfold C15.ctor_line, C15.pkgo_line, spec_list_line. rewrite !spec_flag_head.
  rewrite (H "@implements"), (H "@constructor"), (H "@immutable"), (H "@testonly"), (H "@packageonly") by (cbn; tauto).
  repeat split; reflexivity.
Qed.

Lemma strip_prefix_in a k : forall s s', strip_prefix (a :: k) s = Some s' -> In a s.
Proof. intros s s' H. apply strip_prefix_spec in H. subst. left. reflexivity. Qed.

Lemma dropw_incl p (s : list ascii) x : In x (dropw p s) -> In x s.
Proof. induction s as [|y s IH]; simpl; [auto|]. destruct (p y); [intros H; right; apply IH; exact H|auto]. Qed.

Theorem C09_no_at_sign_no_annotation :
  forall text, ~ In "@"%char (list_ascii_of_string text) -> unrecognised_line text.
Proof.
  intros text H. apply C09_unrecognised_by_shape. intros k Hk.
  assert (Hat : exists r, C15.kw k = "@"%char :: r) by (cbn in Hk; repeat (destruct Hk as [<-|Hk]; [eexists; reflexivity|]); contradiction).
  destruct Hat as [r Hr]. rewrite Hr. unfold strip_head.
  destruct (strip_prefix slashes (dropw is_ws (list_ascii_of_string text))) as [s2|] eqn:E1; [|reflexivity].
  destruct (strip_prefix ("@"%char :: r) (dropw is_ws s2)) as [s4|] eqn:E2; [|reflexivity].
  exfalso. apply H. apply strip_prefix_in in E2. apply dropw_incl in E2.
  apply strip_prefix_spec in E1. apply (dropw_incl is_ws). rewrite E1. apply in_or_app. right. exact E2.
Qed.

(* non-vacuity: near-miss lines are unrecognised, real ones are not *)
Example C09_nonvacuous :
  map x_parse_immutable ["// @immutable"; "// see @immutable"; "// @Immutable"; "// @immutablex"; "/* @immutable */"; "// @ immutable"; "//@immutable because"]
  = [true; false; false; false; false; false; true]
  /\ x_parse_constructor "// old: // @constructor New" = None /\ x_parse_constructor "// @constructor New" = Some ["New"].
Proof. vm_compute. repeat split; reflexivity. Qed.

Print Assumptions C09_nothing_collected.
Print Assumptions C09_silent.
Print Assumptions C09_unrecognised_by_shape.
Print Assumptions C09_no_at_sign_no_annotation.
