(* C16 — Suppression decision = inclusive range + ALL > category > code, nothing more.
   Statements only; proofs are in Proofs/IgnoreSetProofs.v and Proofs/CodesProofs.v. *)
From Coq Require Import List String ZArith Bool Permutation.
From GG Require Import Base.Strs Model.Codes Model.IgnoreSet Extracted Exec Proofs.IgnoreSetProofs Proofs.CodesProofs.
Import ListNotations.
Local Open Scope Z_scope.
Local Open Scope string_scope.

(* the model instantiated with what the code says on this run *)
Notation ALL := x_all.
Notation Contains := x_is_contains.
Notation Run := x_is_run.
Notation Spec := x_is_spec.
Notation tokens_for := x_tokens_for.

(* (1) For every history of scoped and global suppressions added in any order (scoped ranges start at a
       real position, >= 1), a query is answered exactly as the list scan says: dropped iff some
       suppression is global or has start <= p <= end, and carries a token among [tokens_for c]. *)
Theorem C16_contains_is_list_scan :
  forall (ops : list op) (c : string) (p : Z),
    (forall cs st en, In (OpAdd cs st en) ops -> 1 <= st) ->
    Contains (Run ops) c p = Ok (Spec ops c p).
Proof. exact (contains_run ALL codes_table). Qed.

(* (2) ... where the tokens that match code c are exactly ALL, c's category and c itself. *)
Theorem C16_tokens :
  forall c tk, In tk (tokens_for c) <-> tk = ALL \/ cat_of codes_table c = Some tk \/ tk = c.
Proof. exact (check_list_spec ALL codes_table). Qed.

(* (3) the order in which suppressions were added is irrelevant *)
Theorem C16_order_independent :
  forall ops ops' c p, Permutation ops ops' ->
    (forall cs st en, In (OpAdd cs st en) ops -> 1 <= st) ->
    Contains (Run ops) c p = Contains (Run ops') c p.
Proof. exact (contains_order_independent ALL codes_table). Qed.

(* (4) an uninitialised or empty collection never suppresses; no history makes the lookup fail *)
Theorem C16_empty_never_suppresses :
  forall c p, Contains zero c p = Ok false /\ Contains (ensure_init zero) c p = Ok false.
Proof. exact (empty_never_suppresses ALL codes_table). Qed.

Theorem C16_no_panic :
  forall ops c p, (forall cs st en, In (OpAdd cs st en) ops -> 1 <= st) -> Contains (Run ops) c p <> Panic.
Proof. exact (contains_never_panics ALL codes_table). Qed.

(* (5) obligations on the table extracted from the repository on this run *)
Theorem C16_table_wf : table_wf codes_table = true.
Proof. exact extracted_table_wf. Qed.
Theorem C16_table_documented : same_table documented_codes codes_table = true.
Proof. exact extracted_table_documented. Qed.
Theorem C16_all_token : all_tokens = ["ALL"].
Proof. exact extracted_all_token. Qed.

(* non-vacuity: a history meeting the hypothesis, where the three hierarchy levels, the inclusive
   bounds and a miss all occur *)
Definition ex_ops : list op :=
  [OpAdd ["IMM01"] 2 4; OpGlobal ["CTOR"]; OpAdd ["ALL"] 5 5; OpAdd ["TONL"; "X9"] 1 3].
Example C16_nonvacuous :
  (forall cs st en, In (OpAdd cs st en) ex_ops -> 1 <= st) /\
  map (fun q => Contains (Run ex_ops) (fst q) (snd q))
      [("IMM01", 2); ("IMM01", 4); ("IMM01", 1); ("IMM02", 3); ("CTOR02", 9); ("PKGO01", 5); ("PKGO01", 4);
       ("TONL03", 3); ("X9", 1); ("X8", 1)]
  = map Ok [true; true; false; false; true; true; false; true; true; false].
Proof.
  split; [|vm_compute; reflexivity].
  intros cs st en H. simpl in H.
  repeat (destruct H as [H|H]; [inversion H; subst; apply Z.leb_le; reflexivity|]). contradiction.
Qed.

(* the boundary of the hypothesis stays visible: a range starting at token.NoPos (0) is treated by the
   fast-reject as "no marker", so the statement without the hypothesis is false of the code *)
Example C16_without_hypothesis_refuted :
  exists ops c p, Contains (Run ops) c p <> Ok (Spec ops c p).
Proof. exists [OpAdd ["IMM01"] 0 5], "IMM01", 3. vm_compute. discriminate. Qed.

Print Assumptions C16_contains_is_list_scan.
Print Assumptions C16_tokens.
Print Assumptions C16_order_independent.
Print Assumptions C16_empty_never_suppresses.
Print Assumptions C16_no_panic.
Print Assumptions C16_table_wf.
Print Assumptions C16_table_documented.
Print Assumptions C16_all_token.
