(* C05 — @implements verdicts agree with Go's type checker. Statements only.
   Inputs taken from go/types (serialised verbatim): the completed method list of every interface, the method set of *T
   of every defined type with, per method, membership in the method set of T; the signature type terms. *)
From Coq Require Import List String ZArith Bool.
From GG Require Import Base.Strs Model.GoTypes Model.GoAst Model.Annots Model.Analyze Model.Impl Extracted Exec Proofs.ImplProofs.
From GG Require Proofs.DiagProofs Proofs.WholeProofs Proofs.OpsProofs.
Import ListNotations.
Local Open Scope string_scope.

(* (1) IMPL01: reported iff a qualifier is given and no import of THAT FILE binds it - under its explicit alias or under
   the imported package's declared name (every import of a type-checked file has a known package name) *)
Theorem C05_qualifier_resolution :
  forall cur imps q, q <> "" -> all_known imps ->
    (snd (resolve_qualifier cur imps q) = false <-> exists i, In i imps /\ binds i q).
Proof. exact resolve_qualifier_spec. Qed.
Theorem C05_no_qualifier_is_the_current_package :
  forall cur imps, resolve_qualifier cur imps "" = (cur, false).
Proof. exact resolve_no_qualifier. Qed.
Theorem C05_impl01_iff :
  forall a, has_code (impl01 a) "IMPL01" <-> ia_notfound a = true.
Proof. exact impl01_iff. Qed.

(* (2) IMPL02: otherwise, reported iff that package (the current one or a direct import) declares no interface of that name *)
Theorem C05_impl02_iff :
  forall tt cur imports a,
    (exists d, In d (impl02 tt cur imports a)) <-> ia_notfound a = false /\ find_iface tt cur imports (ia_fullpath a) (ia_iface a) = None.
Proof. exact impl02_iff. Qed.
Theorem C05_interface_lookup :
  forall tt cur imports pkg name,
    (forall d, find_iface tt cur imports pkg name = Some d ->
               (pkg = cur \/ In pkg imports) /\ In d (tt_ifaces tt) /\ id_pkg d = pkg /\ id_name d = name) /\
    (find_iface tt cur imports pkg name = None ->
               (pkg <> cur /\ ~ In pkg imports) \/ forall d, In d (tt_ifaces tt) -> ~ (id_pkg d = pkg /\ id_name d = name)).
Proof. intros. split; [intros d; apply find_iface_some|apply find_iface_none]. Qed.

(* (3) IMPL03: otherwise, reported iff some method of the interface has no counterpart in the method set of T (or of *T
   when & is given) with the same name and an identical signature; the listed methods are exactly those, in the
   interface's order *)
Theorem C05_impl03_iff :
  forall tt cur imports a,
    (exists d, In d (impl03 tt cur imports a)) <->
    ia_notfound a = false /\
    exists di td, find_iface tt cur imports (ia_fullpath a) (ia_iface a) = Some di /\ find_type tt (ia_type a) = Some td /\
                  missing_methods td di (ia_ptr a) <> [].
Proof. exact impl03_iff. Qed.
Theorem C05_listed_methods :
  forall td d require_ptr im,
    In im (missing_methods td d require_ptr) <-> In im (id_methods d) /\ method_ok td require_ptr im = false.
Proof. exact missing_methods_spec. Qed.
Theorem C05_method_has_counterpart :
  forall td require_ptr im, NoDup (map tm_id (td_methods td)) ->
    (method_ok td require_ptr im = true <->
     exists tm, (In tm (td_methods td) /\ (require_ptr = true \/ tm_value tm = true)) /\ tm_id tm = im_id im /\
                signatures_match (tm_sig tm) (im_sig im) = true).
Proof. exact method_ok_spec. Qed.

(* (4) a correct annotation produces no diagnostic; at most one of the three codes per annotation *)
Theorem C05_correct_annotation_is_silent :
  forall tt cur imports a di td,
    ia_notfound a = false -> find_iface tt cur imports (ia_fullpath a) (ia_iface a) = Some di -> find_type tt (ia_type a) = Some td ->
    (forall im, In im (id_methods di) -> method_ok td (ia_ptr a) im = true) ->
    impl01 a = [] /\ impl02 tt cur imports a = [] /\ impl03 tt cur imports a = [].
Proof. exact correct_annotation_is_silent. Qed.
Theorem C05_one_code_per_annotation :
  forall tt cur imports a,
    match impl01 a, impl02 tt cur imports a, impl03 tt cur imports a with
    | [], [], _ | [], _, [] | _, [], [] => True
    | _, _, _ => False
    end.
Proof. exact phases_exclusive. Qed.

(* (5) signature comparison (library model of types.Identical): two types are identical iff their normal forms - aliases removed at
   every depth, basic types by kind, printed strings dropped - are EQUAL terms; hence an equivalence; aliases are transparent; basic types by kind
   (byte = uint8, rune = int32); the pointer depth counts; an exact copy of a signature matches; a match needs equal arities *)
Theorem C05_identical_is_equality_of_normal_forms :
  forall a b, identical a b = true <-> norm a = norm b.
Proof. exact identical_iff. Qed.

Theorem C05_identical_equivalence :
  (forall t, identical t t = true) /\ (forall a b, identical a b = identical b a) /\
  (forall a b c, identical a b = true -> identical b c = true -> identical a c = true).
Proof. split; [exact identical_refl|split; [exact identical_sym|exact identical_trans]]. Qed.
Theorem C05_identical_structure :
  (forall n r t, identical (YAlias n r) t = identical r t) /\ (forall a b, identical (YPtr a) (YPtr b) = identical a b) /\
  (forall k n1 n2, identical (YBasic k n1) (YBasic k n2) = true) /\
  (forall t, identical (YPtr t) t = false) /\ (forall t, identical (YPtr (YPtr t)) (YPtr t) = false).
Proof. split; [exact identical_alias_l|]. split; [exact identical_ptr|]. split; [exact identical_basic|]. split; [exact identical_ptr_self|exact identical_ptr_depth2]. Qed.
Theorem C05_signature_matching_exact :
  forall t i, signatures_match t i = true <->
    List.length (s_params t) = List.length (s_params i) /\ List.length (s_results t) = List.length (s_results i) /\
    Forall2 shown_same (tuple_types (s_params t) (s_variadic t)) (tuple_types (s_params i) (s_variadic i)) /\
    Forall2 shown_same (tuple_types (s_results t) false) (tuple_types (s_results i) false).
Proof. exact signatures_match_spec. Qed.

Theorem C05_signature_matching :
  (forall s, signatures_match s s = true) /\
  (forall t i, signatures_match t i = true ->
               List.length (s_params t) = List.length (s_params i) /\ List.length (s_results t) = List.length (s_results i)).
Proof. split; [exact signatures_match_refl|exact signatures_match_counts]. Qed.

(* non-vacuity: M taking ( **int, []byte ) against M taking ( *int, []uint8 ) is reported, against ( **int, Bytes ) with Bytes = []uint8 it is not;
   a pointer-receiver method does not satisfy a value contract *)
Definition tint := YBasic "int" "int".
Definition tbytes1 := YSlice (YBasic "uint8" "byte") "[]byte".
Definition tbytes2 := YAlias "x.Bytes" (YSlice (YBasic "uint8" "uint8") "[]uint8").
Definition mk_sig ps := {| s_params := ps; s_results := []; s_variadic := false |}.
Definition ex_iface := {| id_pkg := "x"; id_name := "I"; id_methods := [{| im_name := "M"; im_sig := mk_sig [YPtr (YPtr tint); tbytes1]; im_pkg := "" |}] |}.
Definition ex_tt (sig_t : sig) (value : bool) : typetable :=
  {| tt_ifaces := [ex_iface]; tt_types := [{| td_name := "T"; td_methods := [{| tm_name := "M"; tm_sig := sig_t; tm_value := value; tm_pkg := "" |}] |}] |}.
Definition ex_ann (ptr : bool) := {| ia_type := "T"; ia_pos := 7%Z; ia_iface := "I"; ia_pkgname := ""; ia_ptr := ptr; ia_fullpath := "x"; ia_notfound := false |}.
Example C05_nonvacuous :
  map d_code (impl_candidates (ex_tt (mk_sig [YPtr tint; tbytes1]) true) "x" [] [ex_ann false]) = ["IMPL03"] /\
  impl_candidates (ex_tt (mk_sig [YPtr (YPtr tint); tbytes2]) true) "x" [] [ex_ann false] = [] /\
  map d_code (impl_candidates (ex_tt (mk_sig [YPtr (YPtr tint); tbytes2]) false) "x" [] [ex_ann false]) = ["IMPL03"] /\
  impl_candidates (ex_tt (mk_sig [YPtr (YPtr tint); tbytes2]) false) "x" [] [ex_ann true] = [].
Proof. vm_compute. repeat split; reflexivity. Qed.

(* the two input conditions used above - every method set lists a method identity once; every import of a type-checked file
   has a known package name - follow from a boolean that the harness evaluates on every serialised package *)
Theorem C05_inputs_checked :
  forall p, OpsProofs.x_impl_inputs_ok p = true ->
    (forall td, In td (tt_types (p_types p)) -> NoDup (map tm_id (td_methods td))) /\
    (forall f, In f (p_files p) -> all_known (f_imports f)).
Proof.
  intros p H. destruct (OpsProofs.x_impl_inputs_ok_sound p H) as [H1 H2]. split; [exact H1|].
  intros f Hf i Hi. exact (H2 f i Hf Hi).
Qed.

(* END TO END: in the result of the whole per-package analysis the diagnostics with an IMPL code are exactly the three-phase
   @implements check above, run on the annotations the reader collected from this package (own), filtered by the suppression the
   package's @ignore comments and exclude-checks give *)
Theorem C05_whole_analysis :
  forall cfg p all own ds, x_analyze cfg p all = AOk own ds ->
    exists ops, x_ignore_ops cfg p = Some ops /\ own = x_read_all cfg p /\
      forall d, In (d_code d) DiagProofs.IMPL_CODES ->
        (In d ds <-> In d (impl_candidates (p_types p) (p_path p) (p_imports p) (an_impl own)) /\ x_suppressed ops (d_code d) (d_pos d) = false).
Proof.
  intros cfg p all own ds Hres.
  destruct (WholeProofs.section_of_code cfg p all own ds Hres) as (ops & Ho & Hown & Hsec). exists ops. split; [exact Ho|]. split; [exact Hown|].
  intros d Hc. destruct (Hsec d) as (Hx & _). rewrite (Hx Hc). unfold x_impl, report_filter. rewrite filter_In, negb_true_iff, <- Hown. reflexivity.
Qed.

Print Assumptions C05_qualifier_resolution.
Print Assumptions C05_no_qualifier_is_the_current_package.
Print Assumptions C05_impl01_iff.
Print Assumptions C05_impl02_iff.
Print Assumptions C05_interface_lookup.
Print Assumptions C05_impl03_iff.
Print Assumptions C05_listed_methods.
Print Assumptions C05_method_has_counterpart.
Print Assumptions C05_correct_annotation_is_silent.
Print Assumptions C05_one_code_per_annotation.
Print Assumptions C05_identical_is_equality_of_normal_forms.
Print Assumptions C05_identical_equivalence.
Print Assumptions C05_identical_structure.
Print Assumptions C05_signature_matching_exact.
Print Assumptions C05_signature_matching.
Print Assumptions C05_whole_analysis.
Print Assumptions C05_inputs_checked.
