(* C04 — @packageonly is enforced exactly against the union of allowed packages. Statements only. *)
From Coq Require Import List String ZArith Bool.
From GG Require Import Base.Strs Model.Config Model.GoTypes Model.GoAst Model.Annots Model.Analyze Exec
                       Proofs.WalkProofs Proofs.CheckerProofs Properties.C01.
From GG Require Proofs.DiagProofs Proofs.WholeProofs.
Import ListNotations.
Local Open Scope Z_scope.
Local Open Scope string_scope.

(* (1) the attachment list of an item is the union of all @packageonly lists on that declaration *)
Theorem C04_union :
  forall fs k pkg recv name x,
    In x (pkgo_attach fs k pkg recv name) <->
    exists a p, In (pkg, a) fs /\ In p (an_pkgo a) /\ pa_kind p = k /\ pa_name p = name /\
                (k = AKMethod -> pa_recv p = recv) /\ In x (pa_allowed p).
Proof. exact pkgo_attach_spec. Qed.

(* (2) a reference from package (cur path, cur name) to a function of package p is a PKGO02 candidate iff p is
   another package, the function is annotated (non-empty union), and NEITHER the path NOR the name of the using
   package is in the union; the same shape holds for types (PKGO01) and methods (PKGO03) *)
Theorem C04_function_candidate :
  forall fs cur curname p fn pos c,
    In c (pkgo_func_cand fs cur curname p fn pos) <->
    p <> cur /\ pkgo_denied cur curname (pkgo_attach fs AKFunc p "" fn) /\
    d_pos (fst c) = pos /\ d_code (fst c) = "PKGO02" /\ snd c = None /\
    c = ({| d_pos := pos; d_code := "PKGO02";
            d_msg := fn ++ " function is @packageonly and cannot be used from " ++ cur ++ ". Allowed packages: " ++
                     fmt_list (pkgo_attach fs AKFunc p "" fn) |}, None).
Proof. intros fs cur curname p fn pos c. exact (pkgo_func_cand_spec fs cur curname (fun _ _ => false) p fn pos c). Qed.

Theorem C04_type_candidate :
  forall fs cur curname p tn pos c,
    In c (pkgo_type_cand fs cur curname p tn pos) <->
    p <> cur /\ pkgo_denied cur curname (pkgo_attach fs AKType p "" tn) /\
    c = ({| d_pos := pos; d_code := "PKGO01";
            d_msg := tn ++ " type is @packageonly and cannot be used from " ++ cur ++ ". Allowed packages: " ++
                     fmt_list (pkgo_attach fs AKType p "" tn) |}, Some (p, tn)).
Proof. intros fs cur curname p tn pos c. exact (pkgo_type_cand_spec fs cur curname (fun _ _ => false) p tn pos c). Qed.

Theorem C04_method_candidate :
  forall fs cur curname p recv mn pos c,
    In c (pkgo_method_cand fs cur curname p recv mn pos) <->
    p <> cur /\ pkgo_denied cur curname (pkgo_attach fs AKMethod p recv mn) /\
    c = ({| d_pos := pos; d_code := "PKGO03";
            d_msg := recv ++ "." ++ mn ++ " method is @packageonly and cannot be used from " ++ cur ++ ". Allowed packages: " ++
                     fmt_list (pkgo_attach fs AKMethod p recv mn) |}, None).
Proof. intros fs cur curname p recv mn pos c. exact (pkgo_method_cand_spec fs cur curname (fun _ _ => false) p recv mn pos c). Qed.

(* which nodes produce candidates at all: selectors pkg.Name of another package, and plain identifiers (not the selected
   identifier of a selector) - names of the analysed package, which can never be denied, and names brought in by a dot import *)
Theorem C04_candidate_nodes :
  forall fs cur curname n c,
    In c (pkgo_cands fs cur curname n) <->
    exists o p, a_obj (n_attrs n) = Some o /\ o_pkg o = Some p /\
                ((n_kind n = KSelectorExpr /\ p <> cur /\ In c (pkgo_obj_cand fs cur curname o p (n_pos n))) \/
                 (n_kind n = KIdent /\ a_flag (n_attrs n) = false /\ In c (pkgo_obj_cand fs cur curname o p (n_pos n)))).
Proof. intros fs cur curname n c. exact (pkgo_cands_spec fs cur curname n c). Qed.

Theorem C04_denied :
  forall cur curname att, pkgo_denied cur curname att <-> att <> [] /\ ~ In cur att /\ ~ In curname att.
Proof. intros. unfold pkgo_denied. reflexivity. Qed.

(* (3) per file: candidates in walk order, ignore first, PKGO01 once per (package, type), PKGO02/03 each *)
Theorem C04_file :
  forall fs cur curname sup f,
    pkgo_file fs cur curname sup f = dedup_rec sup [] (flat_map (pkgo_cands fs cur curname) (preorder_list (f_decls f))).
Proof. exact pkgo_file_spec. Qed.

(* (4) the declaring package itself is always allowed *)
Theorem C04_own_package_never :
  forall fs cur curname n,
    (forall o, a_obj (n_attrs n) = Some o -> o_pkg o = Some cur -> o_is_alias o = false) ->
    (forall o, a_obj (n_attrs n) = Some o -> o_pkg o = Some cur \/ o_pkg o = None) ->
    pkgo_cands fs cur curname n = [].
Proof. exact pkgo_own_package_never. Qed.

(* non-vacuity: the same call is reported from package "u", allowed from a package NAMED "ok" and from the
   package whose PATH is listed *)
Definition ex_call (pos : Z) : node :=
  Node KSelectorExpr pos (pos + 10)
    {| a_name := "Internal"; a_tok := ""; a_n := 0; a_m := 0; a_flag := false; a_ty := None;
       a_obj := Some {| o_kind := OFunc; o_id := 7; o_pkg := Some "x/d"; o_name := "Internal"; o_is_method := false;
                        o_recv := None; o_is_alias := false; o_type := None; o_imported := "" |};
       a_str2 := ""; a_str3 := None |} [].
Definition ex_cfg := {| scan_tests := true; exclude_paths := []; exclude_checks := [] |}.
Definition ex_pfile : file :=
  {| f_name := "u.go"; f_package := 1; f_end := 300; f_decls := [ex_func 20 "Use" [ex_call 40]];
     f_comments := []; f_imports := []; f_lines := [1] |}.
Definition ex_pfacts : facts :=
  [("x/u", no_annots);
   ("x/d", {| an_impl := []; an_ctor := []; an_imm := []; an_tonl := []; an_mut := [];
              an_pkgo := [{| pa_kind := AKFunc; pa_name := "Internal"; pa_pos := 3; pa_recv := ""; pa_allowed := ["x/d"; "ok"] |};
                          {| pa_kind := AKFunc; pa_name := "Internal"; pa_pos := 3; pa_recv := ""; pa_allowed := ["x/d"; "x/bypath"] |}] |})].
Example C04_nonvacuous :
  let run path name := map (fun d => (d_pos d, d_code d))
     (x_pkgo ex_cfg {| p_path := path; p_name := name; p_files := [ex_pfile]; p_imports := ["x/d"]; p_types := empty_typetable |} ex_pfacts (fun _ _ => false)) in
  run "x/u" "u" = [(40, "PKGO02")] /\ run "x/k" "ok" = [] /\ run "x/bypath" "other" = [] /\ run "x/d" "d" = [].
Proof. vm_compute. repeat split; reflexivity. Qed.

(* END TO END: in the result of the whole per-package analysis the diagnostics with a PKGO code are exactly the output of this
   checker under the facts (own annotations, then those of the direct imports) and the suppression (the package's @ignore
   comments, exclude-checks) that the analysis assembles itself; the theorems above characterise that output *)
Theorem C04_whole_analysis :
  forall cfg p all own ds, x_analyze cfg p all = AOk own ds ->
    exists ops, x_ignore_ops cfg p = Some ops /\ own = x_read_all cfg p /\
      forall d, In (d_code d) DiagProofs.PKGO_CODES -> (In d ds <-> In d (x_pkgo cfg p (x_facts p own all) (x_suppressed ops))).
Proof.
  intros cfg p all own ds Hres.
  destruct (WholeProofs.section_of_code cfg p all own ds Hres) as (ops & Ho & Hown & Hsec). exists ops. split; [exact Ho|]. split; [exact Hown|].
  intros d Hc. destruct (Hsec d) as (_ & _ & _ & _ & Hx). apply Hx. exact Hc.
Qed.

Print Assumptions C04_union.
Print Assumptions C04_function_candidate.
Print Assumptions C04_type_candidate.
Print Assumptions C04_method_candidate.
Print Assumptions C04_candidate_nodes.
Print Assumptions C04_denied.
Print Assumptions C04_file.
Print Assumptions C04_own_package_never.
Print Assumptions C04_whole_analysis.
