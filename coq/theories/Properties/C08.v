(* C08 — exclude-checks removes exactly the matching codes, project-wide. Statements only. *)
From Coq Require Import List String ZArith Bool.
From GG Require Import Base.Strs Model.Codes Model.IgnoreSet Model.Config Model.GoAst Model.Annots Model.Analyze
                       Extracted Exec Proofs.IgnoreSetProofs Proofs.CodesProofs Proofs.WalkProofs Proofs.CheckerProofs.
From GG Require Proofs.OpsProofs.
Import ListNotations.
Local Open Scope Z_scope.
Local Open Scope string_scope.

(* a code is excluded by the list S iff S contains ALL, the code's category or the code itself *)
Definition excluded (S : list string) (c : string) : bool := existsb (fun tk => str_mem tk S) (x_tokens_for c).

Theorem C08_excluded_iff :
  forall S c, excluded S c = true <-> exists tk, In tk S /\ (tk = x_all \/ cat_of codes_table c = Some tk \/ tk = c).
Proof.
  intros S c. unfold excluded. rewrite existsb_exists. split.
  - intros [tk [H1 H2]]. exists tk. split; [apply str_mem_In; exact H2|]. apply (check_list_spec x_all codes_table). exact H1.
  - intros [tk [H1 H2]]. exists tk. split; [apply (check_list_spec x_all codes_table); exact H2|apply str_mem_In; exact H1].
Qed.

(* (1) the suppression decision with a project-wide exclusion = excluded, or suppressed as before *)
Theorem C08_suppression :
  forall S ops c p, (forall cs st en, In (OpAdd cs st en) ops -> 1 <= st) ->
    x_suppressed (OpGlobal S :: ops) c p = excluded S c || x_suppressed ops c p.
Proof.
  intros S ops c p H. unfold x_suppressed, x_is_contains, x_is_run.
  rewrite (contains_run x_all codes_table (OpGlobal S :: ops) c p).
  2:{ intros cs st en [Hx|Hx]; [discriminate|exact (H cs st en Hx)]. }
  rewrite (contains_run x_all codes_table ops c p H). reflexivity.
Qed.

(* (2) each checker's output under "excluded or suppressed" is the filter of its output under "suppressed":
   report-time filtering (IMM, CTOR) and detection-time filtering before the once-per-file dedup (TONL, PKGO) alike *)
Definition kept (S : list string) (d : diag) : bool := negb (excluded S (d_code d)).
Definition with_exclusion (S : list string) (sup : string -> Z -> bool) : string -> Z -> bool :=
  fun c p => excluded S c || sup c p.

Lemma filter_flat_map {A B} (f : B -> bool) (g : A -> list B) l : filter f (flat_map g l) = flat_map (fun x => filter f (g x)) l.
Proof. induction l as [|x l IH]; simpl; [reflexivity|]. rewrite filter_app, IH. reflexivity. Qed.

Theorem C08_immutable : forall S cfg p fs sup, x_imm cfg p fs (with_exclusion S sup) = filter (kept S) (x_imm cfg p fs sup).
Proof. intros. unfold x_imm. apply (exclude_report_filter (excluded S) sup). Qed.
Theorem C08_constructor : forall S cfg p fs sup, x_ctor cfg p fs (with_exclusion S sup) = filter (kept S) (x_ctor cfg p fs sup).
Proof. intros. unfold x_ctor. apply (exclude_report_filter (excluded S) sup). Qed.

Theorem C08_testonly : forall S cfg p fs sup, x_tonl cfg p fs (with_exclusion S sup) = filter (kept S) (x_tonl cfg p fs sup).
Proof.
  intros. unfold x_tonl, tonl_diags.
  destruct (negb (tonl_has AKType fs) && negb (tonl_has AKFunc fs) && negb (tonl_has AKMethod fs)); [reflexivity|].
  rewrite filter_flat_map. apply flat_map_ext. intros f. rewrite !tonl_file_spec.
  destruct (has_suffix "_test.go" (f_name f)); [reflexivity|].
  apply (exclude_dedup (excluded S) sup "TONL01"). apply keyed_code_flat_map. intros n. apply tonl_cands_keyed.
Qed.

Theorem C08_packageonly : forall S cfg p fs sup, x_pkgo cfg p fs (with_exclusion S sup) = filter (kept S) (x_pkgo cfg p fs sup).
Proof.
  intros. unfold x_pkgo, pkgo_diags. destruct (pkgo_index_empty fs); [reflexivity|].
  rewrite filter_flat_map. apply flat_map_ext. intros f. rewrite !pkgo_file_spec.
  apply (exclude_dedup (excluded S) sup "PKGO01"). apply keyed_code_flat_map. intros n. apply pkgo_cands_keyed.
Qed.

(* (3) S containing ALL yields nothing; tokens that are neither ALL, nor the code, nor its category exclude nothing *)
Theorem C08_all_excludes_everything : forall S c, In x_all S -> excluded S c = true.
Proof. intros S c H. apply C08_excluded_iff. exists x_all. split; [exact H|left; reflexivity]. Qed.
Theorem C08_junk_excludes_nothing :
  forall S c, (forall tk, In tk S -> tk <> x_all /\ cat_of codes_table c <> Some tk /\ tk <> c) -> excluded S c = false.
Proof.
  intros S c H. apply not_true_is_false. intros He. apply C08_excluded_iff in He. destruct He as [tk [H1 H2]].
  destruct (H tk H1) as (A & B & C). destruct H2 as [H2|[H2|H2]]; congruence.
Qed.

(* (4) the configuration reaches the analysis only as a global suppression: the files read and the annotations
   collected do not depend on exclude-checks *)
Theorem C08_config_only_through_suppression :
  forall cfg S p,
    let cfg' := {| scan_tests := scan_tests cfg; exclude_paths := exclude_paths cfg; exclude_checks := S |} in
    kept_files cfg' p = kept_files cfg p /\ x_read_all cfg' p = x_read_all cfg p /\
    (S <> [] -> x_ignore_ops cfg' p = option_map (fun ops => OpGlobal S :: ops)
                                             (x_ignore_ops {| scan_tests := scan_tests cfg; exclude_paths := exclude_paths cfg; exclude_checks := [] |} p)).
Proof.
  intros cfg S p cfg'. split; [reflexivity|]. split; [reflexivity|].
  intros HS. unfold x_ignore_ops, ignore_ops.
  assert (E : forall ec, filter (fun f => negb (should_skip {| scan_tests := scan_tests cfg; exclude_paths := exclude_paths cfg; exclude_checks := ec |} (f_name f))) (p_files p)
                         = filter (fun f => negb (should_skip cfg (f_name f))) (p_files p)) by reflexivity.
  unfold cfg'. rewrite (E S), (E []). cbn [exclude_checks].
  destruct (ignore_ops_files re_ignore kw_ignore (filter (fun f => negb (should_skip cfg (f_name f))) (p_files p))); [|reflexivity].
  destruct S; [contradiction|reflexivity].
Qed.

(* (5) END TO END.  The whole analysis of a package under exclude-checks = S (S non-empty) is the whole analysis without
   exclude-checks with the matched diagnostics filtered out: the same exported annotations, the same diagnostics in the same
   order minus exactly those whose code S matches, a failure exactly where the unrestricted run fails - for every program,
   universe of imported facts and configuration of the other two options.  Input condition (checked on every serialised
   package): the positions of the file's comments and line starts are >= 1, as go/token hands them out. *)
Theorem C08_whole_analysis :
  forall cfg S p all, S <> [] -> OpsProofs.x_pos_ok cfg p = true ->
    match x_analyze (OpsProofs.with_checks cfg []) p all with
    | AOk own ds => x_analyze (OpsProofs.with_checks cfg S) p all = AOk own (filter (kept S) ds)
    | APanic site => x_analyze (OpsProofs.with_checks cfg S) p all = APanic site
    end.
Proof. exact OpsProofs.analyze_exclude. Qed.

Example C08_nonvacuous :
  map (excluded ["IMM"; "CTOR02"; "junk"]) ["IMM01"; "IMM04"; "CTOR01"; "CTOR02"; "TONL01"; "junk"]
  = [true; true; false; true; false; true] /\ excluded ["ALL"] "PKGO03" = true /\ excluded ["IM"; "imm"] "IMM01" = false.
Proof. vm_compute. repeat split; reflexivity. Qed.

Print Assumptions C08_excluded_iff.
Print Assumptions C08_suppression.
Print Assumptions C08_immutable.
Print Assumptions C08_constructor.
Print Assumptions C08_testonly.
Print Assumptions C08_packageonly.
Print Assumptions C08_all_excludes_everything.
Print Assumptions C08_junk_excludes_nothing.
Print Assumptions C08_config_only_through_suppression.
Print Assumptions C08_whole_analysis.
