(* C01 — @immutable is enforced exactly: every direct field write reported, nothing else.
   Statements only; the model is the one the harness runs against the real analyzer on every generated world. *)
From Coq Require Import List String ZArith Bool.
From GG Require Import Base.Strs Model.Config Model.GoTypes Model.GoAst Model.Annots Model.Analyze Exec
                       Proofs.WalkProofs Proofs.CheckerProofs.
From GG Require Proofs.DiagProofs Proofs.WholeProofs.
Import ListNotations.
Local Open Scope Z_scope.
Local Open Scope string_scope.

(* the package's trees contain no FuncDecl below a top-level declaration (true of every go/parser tree:
   nested functions are FuncLit); evaluated as a boolean on every serialised package *)
Definition wf (p : package) : Prop :=
  forall f d, In f (p_files p) -> In d (f_decls f) -> no_inner_funcdecl d.

(* ... and it follows from the boolean that the harness evaluates on every serialised package *)
Theorem C01_wf_checked : forall p, x_wf_package p = true -> wf p.
Proof.
  intros p H f d Hf Hd. apply no_inner_funcdecl_b_sound.
  change (x_wf_package p) with (forallb (fun f0 => forallb no_inner_funcdecl_b (f_decls f0)) (p_files p)) in H.
  rewrite forallb_forall in H. specialize (H f Hf). rewrite forallb_forall in H. exact (H d Hd).
Qed.

(* (1) EXACTNESS. An IMM diagnostic (pos, code) is reported for package p iff, in some non-excluded file, some
   node n of some top-level declaration d is
     - an assignment `x.f = v` (IMM01 at x.f), `x.f[i] = v` (IMM04 at x.f[i]), a compound assignment `x.f op= v`
       (IMM02 at x.f) or `x.f++ / x.f--` (IMM03 at the statement), where the type of x resolves - through aliases
       and one pointer - to a defined type (P,T) that carries @immutable in p or a direct import, f is not @mutable,
       and d is not a function named as @constructor of (P,T) with P = p's own path; or
     - `*r = v` (IMM01 at *r) / `*r++` (IMM03 at *r) with r the receiver OBJECT of the method d whose receiver type
       resolves to such a (P,T), same exemption;
   and the diagnostic is not suppressed.  [imm_reports] spells this out constructor by constructor. *)
Theorem C01_reported_iff :
  forall cfg p fs sup pos code, wf p ->
    (reported (x_imm cfg p fs sup) pos code <->
     exists f d n, In f (kept_files cfg p) /\ In d (f_decls f) /\ In n (preorder d) /\
                   imm_reports fs (p_path p) (imm_ctx d) n pos code /\ sup code pos = false).
Proof.
  intros cfg p fs sup pos code Hwf. unfold x_imm. apply imm_diags_spec.
  intros f d Hf Hd. apply (Hwf f d); [|exact Hd]. unfold kept_files in Hf. apply filter_In in Hf. tauto.
Qed.

(* (1') END TO END.  In the result of the WHOLE per-package analysis (annotation reader, @ignore reader, IgnoreSet, all five
   checkers), the diagnostics with an IMM code are exactly those of (1) under the facts the analysis assembles itself - the
   package's own annotations followed by those of its direct imports - and the suppression its own @ignore comments and
   exclude-checks give *)
Theorem C01_whole_analysis :
  forall cfg p all own ds pos code, wf p -> x_analyze cfg p all = AOk own ds -> In code DiagProofs.IMM_CODES ->
    exists ops, x_ignore_ops cfg p = Some ops /\ own = x_read_all cfg p /\
      (reported ds pos code <->
       exists f d n, In f (kept_files cfg p) /\ In d (f_decls f) /\ In n (preorder d) /\
                     imm_reports (x_facts p own all) (p_path p) (imm_ctx d) n pos code /\ x_suppressed ops code pos = false).
Proof.
  intros cfg p all own ds pos code Hwf Hres Hc.
  destruct (WholeProofs.section_of_code cfg p all own ds Hres) as (ops & Ho & Hown & Hsec). exists ops. split; [exact Ho|]. split; [exact Hown|].
  rewrite <- (C01_reported_iff cfg p (x_facts p own all) (x_suppressed ops) pos code Hwf).
  unfold reported. split; intros (d & Hd & Hp & Hcode); exists d; (split; [|split; assumption]);
    destruct (Hsec d) as (_ & Himm & _); apply Himm; try assumption; rewrite Hcode; exact Hc.
Qed.

(* (2) what "writes an immutable field outside the exemptions" means *)
Theorem C01_field_target :
  forall fs cur st sel tn,
    field_target fs cur st sel tn <->
    exists pkg, type_info (a_ty (n_attrs sel)) = Some (pkg, tn) /\ imm_contains fs pkg tn = true /\
                ~ (cur = pkg /\ In (is_fn st) (ctor_names fs pkg tn)) /\
                mut_match fs pkg (a_name (n_attrs sel)) tn = false.
Proof. intros. unfold field_target, exempt. reflexivity. Qed.

(* (3) the indices mean what the annotations say, for the package itself and for direct imports alike *)
Theorem C01_immutable_index :
  forall fs pkg tn, imm_contains fs pkg tn = true <-> exists a i, In (pkg, a) fs /\ In i (an_imm a) /\ ima_type i = tn.
Proof. exact imm_contains_spec. Qed.
Theorem C01_constructor_index :
  forall fs pkg tn fn, In fn (ctor_names fs pkg tn) <->
    exists a c, In (pkg, a) fs /\ In c (an_ctor a) /\ ca_type c = tn /\ In fn (ca_names c).
Proof. exact ctor_names_spec. Qed.
Theorem C01_mutable_index :
  forall fs pkg field tn, mut_match fs pkg field tn = true <->
    exists a m, In (pkg, a) fs /\ In m (an_mut a) /\ ma_type m = tn /\ ma_field m = field.
Proof. exact mut_match_spec. Qed.

(* (4) nothing else: statements that only read (any node that is not an assignment or ++/--) report nothing *)
Theorem C01_only_writes :
  forall fs cur st n, n_kind n <> KAssignStmt -> n_kind n <> KIncDecStmt -> imm_check_node fs cur st n = [].
Proof. intros fs cur st n H1 H2. unfold imm_check_node. destruct (n_kind n); try reflexivity; contradiction. Qed.

(* (5) the walk of a declaration is the per-statement check under that declaration's context: placement and
   nesting (if/for/switch/select/closure/defer/go) are irrelevant *)
Theorem C01_walk :
  forall fs cur d, no_inner_funcdecl d ->
    imm_decl fs cur d = flat_map (imm_check_node fs cur (imm_ctx d)) (preorder d).
Proof. exact imm_decl_is_flat_map. Qed.

(* non-vacuity: a tiny package in which one write is reported, one is exempt (constructor), one is @mutable *)
Definition mkattrs name tok n ty : attrs :=
  {| a_name := name; a_tok := tok; a_n := n; a_m := 0; a_flag := false; a_ty := ty; a_obj := None; a_str2 := ""; a_str3 := None |}.
Definition ex_T : option ty := Some (TPtr (TNamed (Some "a") "T")).
Definition ex_sel (pos : Z) (f : string) : node :=
  Node KSelectorExpr pos (pos + 3) (mkattrs f "" 0 ex_T) [Node KIdent pos (pos + 1) (mkattrs "t" "" 0 ex_T) []; Node KIdent (pos + 2) (pos + 3) (mkattrs f "" 0 None) []].
Definition ex_assign (pos : Z) (f : string) : node :=
  Node KAssignStmt pos (pos + 7) (mkattrs "" "=" 1 None) [ex_sel pos f; Node KOther (pos + 6) (pos + 7) (mkattrs "BasicLit" "" 0 None) []].
Definition ex_func (pos : Z) (name : string) (body : list node) : node :=
  Node KFuncDecl pos (pos + 50) (mkattrs name "" 0 None) [Node KOther (pos + 10) (pos + 50) (mkattrs "BlockStmt" "" 0 None) body].
Definition ex_file : file :=
  {| f_name := "a.go"; f_package := 1; f_end := 300;
     f_decls := [ex_func 20 "Use" [ex_assign 40 "F"; ex_assign 50 "M"]; ex_func 100 "NewT" [ex_assign 120 "F"]];
     f_comments := []; f_imports := []; f_lines := [1] |}.
Definition ex_pkg : package := {| p_path := "a"; p_name := "a"; p_files := [ex_file]; p_imports := []; p_types := empty_typetable |}.
Definition ex_facts : facts :=
  [("a", {| an_impl := []; an_ctor := [{| ca_type := "T"; ca_pos := 5; ca_names := ["NewT"] |}];
            an_imm := [{| ima_type := "T"; ima_pos := 5 |}]; an_tonl := [];
            an_mut := [{| ma_type := "T"; ma_field := "M"; ma_pos := 6 |}]; an_pkgo := [] |})].
Example C01_nonvacuous :
  map (fun d => (d_pos d, d_code d))
      (x_imm {| scan_tests := false; exclude_paths := []; exclude_checks := [] |} ex_pkg ex_facts (fun _ _ => false))
  = [(40, "IMM01")].
Proof. vm_compute. reflexivity. Qed.

Print Assumptions C01_reported_iff.
Print Assumptions C01_field_target.
Print Assumptions C01_immutable_index.
Print Assumptions C01_constructor_index.
Print Assumptions C01_mutable_index.
Print Assumptions C01_only_writes.
Print Assumptions C01_walk.
Print Assumptions C01_whole_analysis.
Print Assumptions C01_wf_checked.
