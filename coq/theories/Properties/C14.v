(* C14 — excluded files are inert: no diagnostics in them, no influence from them. Statements only. *)
From Coq Require Import List String ZArith Bool.
From GG Require Import Base.Strs Model.Codes Model.IgnoreSet Model.Config Model.GoTypes Model.GoAst Model.Annots Model.Analyze
                       Extracted Exec Proofs.StrsProofs Proofs.WalkProofs Proofs.CheckerProofs.
Import ListNotations.
Local Open Scope Z_scope.
Local Open Scope string_scope.

(* obligation on the source: the only place that ranges over pass.Files is Config.FilterFiles, so every reader and
   checker sees the filtered files only (a reader that starts iterating pass.Files itself breaks this) *)
Theorem C14_single_file_loop : file_loops = ["src/config:Config.FilterFiles"].
Proof. vm_compute. reflexivity. Qed.

(* (1) which files are excluded *)
Theorem C14_skip_iff :
  forall cfg name,
    should_skip cfg name = true <->
    (exists e pre post, In e (exclude_paths cfg) /\ name = pre ++ e ++ post) \/
    (scan_tests cfg = false /\ exists pre, name = pre ++ "_test.go").
Proof.
  intros cfg name. unfold should_skip. rewrite orb_true_iff, existsb_exists, andb_true_iff, negb_true_iff, has_suffix_spec.
  split.
  - intros [[e [He H]]|[H1 H2]]; [left|right; auto]. apply str_contains_spec in H. destruct H as [pre [post H]]. exists e, pre, post. auto.
  - intros [(e & pre & post & He & H)|[H1 H2]]; [left|right; auto]. exists e. split; [exact He|]. apply str_contains_spec. exists pre, post. exact H.
Qed.

(* (2) no influence: the analysis of a package is the analysis of the package with its excluded files removed -
   whatever annotations, @ignore comments and statements those files contain *)
Definition drop_excluded (cfg : config) (p : package) : package :=
  {| p_path := p_path p; p_name := p_name p; p_files := kept_files cfg p; p_imports := p_imports p; p_types := p_types p |}.

Lemma filter_idem {A} (f : A -> bool) l : filter f (filter f l) = filter f l.
Proof. induction l as [|x l IH]; simpl; [reflexivity|]. destruct (f x) eqn:E; simpl; [rewrite E, IH|]; auto. Qed.

Theorem C14_excluded_files_inert :
  forall cfg p all, x_analyze cfg (drop_excluded cfg p) all = x_analyze cfg p all.
Proof.
  intros cfg p all. unfold x_analyze, x_read_all, read_all, x_ignore_ops, ignore_ops, x_facts, drop_excluded, kept_files.
  cbn [p_files p_path p_name p_imports]. rewrite !filter_idem. reflexivity.
Qed.

(* more generally: two packages with the same kept files (and the same identity) are analysed alike *)
Theorem C14_only_kept_files_matter :
  forall cfg p p' all, p_path p = p_path p' -> p_name p = p_name p' -> p_imports p = p_imports p' -> p_types p = p_types p' ->
    kept_files cfg p = kept_files cfg p' -> x_analyze cfg p all = x_analyze cfg p' all.
Proof.
  intros cfg p p' all H1 H2 H3 H5 H4. rewrite <- (C14_excluded_files_inert cfg p), <- (C14_excluded_files_inert cfg p').
  unfold drop_excluded. rewrite H1, H2, H3, H4, H5. reflexivity.
Qed.

(* (3) no diagnostic is produced from an excluded file: the four checkers are maps over the kept files *)
Theorem C14_diagnostics_come_from_kept_files :
  forall cfg p fs sup d,
    In d (x_imm cfg p fs sup ++ x_ctor cfg p fs sup ++ x_tonl cfg p fs sup ++ x_pkgo cfg p fs sup) ->
    exists f, In f (p_files p) /\ should_skip cfg (f_name f) = false /\
      (In d (report_filter sup (flat_map (imm_decl fs (p_path p)) (f_decls f))) \/
       In d (report_filter sup (flat_map (ctor_decl fs (p_path p)) (f_decls f))) \/
       In d (tonl_file fs (p_path p) sup f) \/ In d (pkgo_file fs (p_path p) (p_name p) sup f)).
Proof.
  intros cfg p fs sup d H.
  assert (Hk : forall f, In f (kept_files cfg p) -> In f (p_files p) /\ should_skip cfg (f_name f) = false)
    by (intros f Hf; unfold kept_files in Hf; apply filter_In in Hf; destruct Hf as [A B]; apply negb_true_iff in B; auto).
  repeat rewrite in_app_iff in H. destruct H as [H|[H|[H|H]]].
  - unfold x_imm, report_filter, imm_candidates in H. apply filter_In in H. destruct H as [H Hs].
    destruct (imm_index_empty fs); [contradiction|]. apply in_flat_map in H. destruct H as [f [Hf H]].
    exists f. destruct (Hk f Hf) as [Ha Hb]. split; [exact Ha|]. split; [exact Hb|]. left. apply filter_In. split; assumption.
  - unfold x_ctor, report_filter, ctor_candidates in H. apply filter_In in H. destruct H as [H Hs].
    destruct (ctor_index_empty fs); [contradiction|]. apply in_flat_map in H. destruct H as [f [Hf H]].
    exists f. destruct (Hk f Hf) as [Ha Hb]. split; [exact Ha|]. split; [exact Hb|]. right. left. apply filter_In. split; assumption.
  - unfold x_tonl, tonl_diags in H.
    destruct (negb (tonl_has AKType fs) && negb (tonl_has AKFunc fs) && negb (tonl_has AKMethod fs)); [contradiction|].
    apply in_flat_map in H. destruct H as [f [Hf H]]. exists f. destruct (Hk f Hf) as [Ha Hb]. split; [exact Ha|]. split; [exact Hb|]. right. right. left. exact H.
  - unfold x_pkgo, pkgo_diags in H. destruct (pkgo_index_empty fs); [contradiction|].
    apply in_flat_map in H. destruct H as [f [Hf H]]. exists f. destruct (Hk f Hf) as [Ha Hb]. split; [exact Ha|]. split; [exact Hb|]. right. right. right. exact H.
Qed.

(* (4) with scan-tests on, a _test.go file is read and checked like any other file, except that it never
   receives TONL diagnostics *)
Theorem C14_test_files_never_tonl :
  forall fs cur sup f pre, f_name f = pre ++ "_test.go" -> tonl_file fs cur sup f = [].
Proof.
  intros fs cur sup f pre H. unfold tonl_file.
  replace (has_suffix "_test.go" (f_name f)) with true; [reflexivity|].
  symmetry. apply has_suffix_spec. exists pre. exact H.
Qed.
Theorem C14_scan_tests_reads_test_files :
  forall cfg name, scan_tests cfg = true -> exclude_paths cfg = [] -> should_skip cfg name = false.
Proof. intros cfg name H1 H2. unfold should_skip. rewrite H1, H2. reflexivity. Qed.

Example C14_nonvacuous :
  let cfg := {| scan_tests := false; exclude_paths := ["testdata"; "/gen/"]; exclude_checks := [] |} in
  map (should_skip cfg) ["/m/a/x.go"; "/m/a/x_test.go"; "/m/mytestdata/w.go"; "/m/gen/g.go"; "/m/generic/g.go"; "/m/a/test.go"]
  = [false; true; true; true; false; false].
Proof. vm_compute. reflexivity. Qed.

Print Assumptions C14_single_file_loop.
Print Assumptions C14_skip_iff.
Print Assumptions C14_excluded_files_inert.
Print Assumptions C14_only_kept_files_matter.
Print Assumptions C14_diagnostics_come_from_kept_files.
Print Assumptions C14_test_files_never_tonl.
Print Assumptions C14_scan_tests_reads_test_files.
