(* C12 — verdicts do not depend on source layout. Statements only.
   Proved here: invariance under reordering the top-level declarations of a file and under moving declarations
   between the non-excluded files of a package (the transformations that the real defects of the pinned tree
   depended on), and - positions being opaque to the four AST checkers - under ANY relabelling of the positions
   (blank lines, ordinary comments, gofmt), given that the suppression function answers alike.  That the @ignore scopes
   themselves follow a monotone relabelling, and local renaming, are covered by the correspondence only. *)
From Coq Require Import List String ZArith Bool Permutation Lia.
From GG Require Import Base.Strs Model.Config Model.GoAst Model.Annots Model.Analyze Exec Proofs.WalkProofs Proofs.CheckerProofs Proofs.LayoutProofs Proofs.OpsProofs Proofs.RelayoutProofs.
Import ListNotations.
Local Open Scope Z_scope.

(* the multiset of all top-level declarations of the kept files *)
Definition all_decls (files : list file) : list node := flat_map f_decls files.

Lemma flat_map_flat_map {A B C} (f : A -> list B) (g : B -> list C) l : flat_map g (flat_map f l) = flat_map (fun x => flat_map g (f x)) l.
Proof. induction l as [|x l IH]; simpl; [reflexivity|]. rewrite flat_map_app, IH. reflexivity. Qed.

Lemma Permutation_filter' {A} (f : A -> bool) l l' : Permutation l l' -> Permutation (filter f l) (filter f l').
Proof.
  induction 1 as [|x l l' P IH|x y l|l l' l'' P1 IH1 P2 IH2]; simpl.
  - apply perm_nil.
  - destruct (f x); [apply perm_skip|]; exact IH.
  - destruct (f x), (f y); try apply Permutation_refl. apply perm_swap.
  - eapply perm_trans; eassumption.
Qed.

(* (1) IMM and CTOR: the reported diagnostics are, up to order, a function of the multiset of declarations -
   whichever file holds a declaration and in whichever order *)
Theorem C12_immutable_layout :
  forall fs cur sup files files',
    Permutation (all_decls files) (all_decls files') ->
    Permutation (report_filter sup (imm_candidates fs cur files)) (report_filter sup (imm_candidates fs cur files')).
Proof.
  intros fs cur sup files files' P. unfold report_filter, imm_candidates.
  destruct (imm_index_empty fs); [apply perm_nil|].
  rewrite <- !(flat_map_flat_map f_decls (imm_decl fs cur)).
  apply Permutation_filter'. apply Permutation_flat_map. exact P.
Qed.

Theorem C12_constructor_layout :
  forall fs cur sup files files',
    Permutation (all_decls files) (all_decls files') ->
    Permutation (report_filter sup (ctor_candidates fs cur files)) (report_filter sup (ctor_candidates fs cur files')).
Proof.
  intros fs cur sup files files' P. unfold report_filter, ctor_candidates.
  destruct (ctor_index_empty fs); [apply perm_nil|].
  rewrite <- !(flat_map_flat_map f_decls (ctor_decl fs cur)).
  apply Permutation_filter'. apply Permutation_flat_map. exact P.
Qed.

(* (2) TONL / PKGO within a file: which keys (package, type) are reported, and which unkeyed diagnostics, depends
   only on the SET of candidates, not on their order: a key is reported iff some candidate with that key is
   unsuppressed; an unkeyed candidate is reported iff it is unsuppressed *)
Theorem C12_key_reported_iff :
  forall sup cs k,
    (exists pre d post, cs = (pre ++ (d, Some k) :: post)%list /\ In d (dedup_rec sup [] cs) /\ sup (d_code d) (d_pos d) = false /\
                        forall c, In c pre -> snd c = Some k -> sup (d_code (fst c)) (d_pos (fst c)) = true)
    <-> exists c, In c cs /\ snd c = Some k /\ sup (d_code (fst c)) (d_pos (fst c)) = false.
Proof. exact dedup_key_reported_iff. Qed.

Theorem C12_unkeyed_reported_iff :
  forall sup cs d,
    (exists pre post, cs = (pre ++ (d, None) :: post)%list /\ In d (dedup_rec sup [] cs) /\ sup (d_code d) (d_pos d) = false)
    <-> In (d, None) cs /\ sup (d_code d) (d_pos d) = false.
Proof. exact dedup_unkeyed_reported_iff. Qed.

(* (3) the candidates of a file are the candidates of its declarations, one by one: a declaration contributes the
   same candidates wherever it stands *)
Theorem C12_candidates_per_declaration :
  forall fs cur curname f,
    flat_map (tonl_cands fs) (flat_map (preorder_pruned (tonl_keep fs cur)) (f_decls f))
      = flat_map (fun d => flat_map (tonl_cands fs) (preorder_pruned (tonl_keep fs cur) d)) (f_decls f) /\
    flat_map (pkgo_cands fs cur curname) (preorder_list (f_decls f))
      = flat_map (fun d => flat_map (pkgo_cands fs cur curname) (preorder d)) (f_decls f).
Proof. intros. split; apply flat_map_flat_map. Qed.

(* positions are opaque: relabel every position of the files by any function phi - the diagnostics are the same
   diagnostics at the relabelled positions, same codes, same messages, nothing added or lost (for the once-per-file
   codes: the same uses are the reported ones), whenever suppression at a relabelled position answers as before *)
Theorem C12_positions_are_opaque :
  forall (phi : Z -> Z) fs cur cur_name (sup sup' : string -> Z -> bool) files,
    (forall c q, sup' c (phi q) = sup c q) ->
    report_filter sup' (imm_candidates fs cur (map (rl_file phi) files)) = map (rd phi) (report_filter sup (imm_candidates fs cur files)) /\
    report_filter sup' (ctor_candidates fs cur (map (rl_file phi) files)) = map (rd phi) (report_filter sup (ctor_candidates fs cur files)) /\
    tonl_diags fs cur sup' (map (rl_file phi) files) = map (rd phi) (tonl_diags fs cur sup files) /\
    pkgo_diags fs cur cur_name sup' (map (rl_file phi) files) = map (rd phi) (pkgo_diags fs cur cur_name sup files).
Proof.
  intros phi fs cur cur_name sup sup' files H. repeat split.
  - rewrite imm_candidates_rl. apply (report_filter_rl phi sup sup' H).
  - rewrite ctor_candidates_rl. apply (report_filter_rl phi sup sup' H).
  - apply (tonl_diags_rl phi fs cur sup sup' H).
  - apply (pkgo_diags_rl phi fs cur cur_name sup sup' H).
Qed.

(* END TO END.  Re-lay out a package by ANY strictly monotone map phi of positions that sends line starts to line starts
   (every position of every file - nodes, comments, the package clause, the line table - goes through phi): gofmt
   re-indentation and alignment, tabs <-> blanks, CRLF <-> LF, trailing blanks, another FileSet base ...  Then the whole
   per-package analysis - annotation reader, @ignore reader with its scopes, IgnoreSet, @implements checker, the four AST
   checkers - returns the SAME annotations and the SAME diagnostics at the relabelled positions, same codes and messages, same
   order, and fails exactly where the original fails; no side condition on the suppression (contrast C12_positions_are_opaque).
   Input condition, checked on every serialised package: positions are >= 1. *)
Theorem C12_whole_analysis_relayout :
  forall phi : Z -> Z, (forall a b, a < b -> phi a < phi b) -> phi 0 = 0 ->
  forall cfg p all, x_pos_ok cfg p = true ->
    x_analyze cfg (rlp phi p) all = rl_result phi (x_analyze cfg p all).
Proof. exact analyze_relayout. Qed.

(* two such maps: another FileSet base (every position moves by 1000), and every byte doubled in width *)
Example C12_relayouts_exist :
  let shift := fun q => if q <=? 0 then q else q + 1000 in
  let widen := fun q => 2 * q in
  (forall a b, a < b -> shift a < shift b) /\ shift 0 = 0 /\ (forall a b, a < b -> widen a < widen b) /\ widen 0 = 0.
Proof.
  cbv zeta. repeat split; try reflexivity.
  - intros a b H. destruct (Z.leb_spec a 0), (Z.leb_spec b 0); lia.
  - intros a b H. lia.
Qed.

Print Assumptions C12_positions_are_opaque.
Print Assumptions C12_whole_analysis_relayout.
Print Assumptions C12_immutable_layout.
Print Assumptions C12_constructor_layout.
Print Assumptions C12_key_reported_iff.
Print Assumptions C12_unkeyed_reported_iff.
Print Assumptions C12_candidates_per_declaration.
