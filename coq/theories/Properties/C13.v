(* C13 — enforcement follows type identity, not spelling at the use site. Statements only.
   go/types records the same type for an import-renamed or parenthesised spelling (checked by the correspondence);
   what the checkers add is the resolution of the recorded type to a defined type, proved here to see through
   aliases (declared anywhere) around the single pointer strip. *)
From Coq Require Import List String ZArith Bool.
From GG Require Import Base.Strs Model.GoAst Model.Annots Model.Analyze Exec.
Import ListNotations.
Local Open Scope string_scope.

(* deep unaliasing of the outer alias layers *)
Theorem C13_type_info_alias : forall n t, type_info (Some (TAlias n t)) = type_info (Some t).
Proof. reflexivity. Qed.
Theorem C13_type_info_ptr_alias : forall n t, type_info (Some (TPtr (TAlias n t))) = type_info (Some (TPtr t)).
Proof. reflexivity. Qed.
Theorem C13_type_info_alias_of_ptr : forall n t, type_info (Some (TAlias n (TPtr t))) = type_info (Some (TPtr t)).
Proof. reflexivity. Qed.
Theorem C13_named_direct_alias : forall n t, named_direct (Some (TAlias n t)) = named_direct (Some t).
Proof. reflexivity. Qed.
Theorem C13_type_name_alias : forall n t, type_name (Some (TAlias n t)) = type_name (Some t).
Proof. reflexivity. Qed.

(* behind one pointer or not: the same defined type *)
Theorem C13_pointer_or_value :
  forall p n, type_info (Some (TPtr (TNamed (Some p) n))) = type_info (Some (TNamed (Some p) n)).
Proof. reflexivity. Qed.

(* a defined type reached through any stack of aliases, with or without the pointer *)
Fixpoint wrap (names : list string) (t : ty) : ty := match names with [] => t | n :: r => TAlias n (wrap r t) end.
Theorem C13_any_alias_stack :
  forall a b p n, type_info (Some (wrap a (TPtr (wrap b (TNamed (Some p) n))))) = Some (p, n) /\
                  type_info (Some (wrap a (TNamed (Some p) n))) = Some (p, n).
Proof.
  intros a b p n. assert (Hu : forall l t, unalias (wrap l t) = unalias t) by (induction l; simpl; auto).
  split; unfold type_info; rewrite Hu; cbn [unalias]; [rewrite Hu|]; reflexivity.
Qed.

(* @packageonly: a type NAME that is an alias (local or declared in a third package) is judged as its target *)
Theorem C13_packageonly_alias_name :
  forall fs cur curname o declared_in pos tp tn,
    o_kind o = OTypeName -> o_is_alias o = true -> named_direct (o_type o) = Some (tp, tn) ->
    pkgo_obj_cand fs cur curname o declared_in pos = pkgo_type_cand fs cur curname tp tn pos.
Proof. intros fs cur curname o declared_in pos tp tn Hk Ha Ht. unfold pkgo_obj_cand. rewrite Hk, Ha, Ht. reflexivity. Qed.

Example C13_nonvacuous :
  let T := TNamed (Some "a") "T" in
  map (fun t => type_info (Some t)) [T; TPtr T; TAlias "A" T; TPtr (TAlias "A" T); TAlias "P" (TPtr T); TAlias "B" (TAlias "A" T); TPtr (TPtr T); TOther "x"]
  = [Some ("a", "T"); Some ("a", "T"); Some ("a", "T"); Some ("a", "T"); Some ("a", "T"); Some ("a", "T"); None; None].
Proof. vm_compute. reflexivity. Qed.

Print Assumptions C13_type_info_alias.
Print Assumptions C13_type_info_ptr_alias.
Print Assumptions C13_type_info_alias_of_ptr.
Print Assumptions C13_named_direct_alias.
Print Assumptions C13_type_name_alias.
Print Assumptions C13_pointer_or_value.
Print Assumptions C13_any_alias_stack.
Print Assumptions C13_packageonly_alias_name.
