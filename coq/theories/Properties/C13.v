(* C13 — enforcement follows type identity, not spelling at the use site. Statements only.
   go/types records the same type for an import-renamed or parenthesised spelling (checked by the correspondence);
   what the checkers add is the resolution of the recorded type to a defined type, proved here to see through
   aliases (declared anywhere) around the single pointer strip. *)
From Coq Require Import List String ZArith Bool.
From GG Require Import Base.Strs Model.GoAst Model.Annots Model.Analyze Exec Proofs.LayoutProofs Proofs.SpellProofs Proofs.SpellAnalyzeProofs.
Import ListNotations.
Local Open Scope string_scope.

(* deep unaliasing of the outer alias layers *)
Theorem C13_type_info_alias : forall n t, type_info (Some (TAlias n t)) = type_info (Some t).
Proof. reflexivity. Qed.
Theorem C13_type_info_ptr_alias : forall n t, type_info (Some (TPtr (TAlias n t))) = type_info (Some (TPtr t)).
Proof. reflexivity. Qed.
Theorem C13_type_info_alias_of_ptr : forall n t, type_info (Some (TAlias n (TPtr t))) = type_info (Some (TPtr t)).
Proof. reflexivity. Qed.
Theorem C13_named_direct_alias : forall n t, named_direct (Some (TAlias n t)) = named_direct (Some t).
Proof. reflexivity. Qed.
Theorem C13_type_name_alias : forall n t, type_name (Some (TAlias n t)) = type_name (Some t).
Proof. reflexivity. Qed.

(* behind one pointer or not: the same defined type *)
Theorem C13_pointer_or_value :
  forall p n, type_info (Some (TPtr (TNamed (Some p) n))) = type_info (Some (TNamed (Some p) n)).
Proof. reflexivity. Qed.

(* a defined type reached through any stack of aliases, with or without the pointer *)
Fixpoint wrap (names : list string) (t : ty) : ty := match names with [] => t | n :: r => TAlias n (wrap r t) end.
Theorem C13_any_alias_stack :
  forall a b p n, type_info (Some (wrap a (TPtr (wrap b (TNamed (Some p) n))))) = Some (p, n) /\
                  type_info (Some (wrap a (TNamed (Some p) n))) = Some (p, n).
Proof.
  intros a b p n. assert (Hu : forall l t, unalias (wrap l t) = unalias t) by (induction l; simpl; auto).
  split; unfold type_info; rewrite Hu; cbn [unalias]; [rewrite Hu|]; reflexivity.
Qed.

(* @packageonly: a type NAME that is an alias (local or declared in a third package) is judged as its target *)
Theorem C13_packageonly_alias_name :
  forall fs cur curname o declared_in pos tp tn,
    o_kind o = OTypeName -> o_is_alias o = true -> named_direct (o_type o) = Some (tp, tn) ->
    pkgo_obj_cand fs cur curname o declared_in pos = pkgo_type_cand fs cur curname tp tn pos.
Proof. intros fs cur curname o declared_in pos tp tn Hk Ha Ht. unfold pkgo_obj_cand. rewrite Hk, Ha, Ht. reflexivity. Qed.

(* THE WHOLE PACKAGE.  Type identity on the fragment: two recorded types are the same type when they are equal once every
   alias name is removed, at every depth (same_type).  Everything the checkers ask of a recorded type is a function of
   that identity ... *)
Theorem C13_identity_decides :
  forall a b, same_type a b ->
    type_info a = type_info b /\ named_direct a = named_direct b /\ type_name a = type_name b.
Proof. intros a b H. repeat split; [apply type_info_same|apply named_direct_same|apply type_name_same]; exact H. Qed.

(* ... hence: rewrite the type recorded at EVERY node of EVERY file by any function psi that preserves identity (spell it
   through an alias declared anywhere, remove such spellings, stack them): the candidates of the immutable and constructor
   checkers and the diagnostics of the testonly and packageonly checkers are the same lists - same positions, same codes,
   same messages, same order - for every facts set, every suppression function, every program *)
Theorem C13_respelling_changes_nothing :
  forall (psi : option ty -> option ty), (forall t, same_type (psi t) t) ->
  forall fs cur cur_name sup files,
    imm_candidates fs cur (map (rt_file psi) files) = imm_candidates fs cur files /\
    ctor_candidates fs cur (map (rt_file psi) files) = ctor_candidates fs cur files /\
    tonl_diags fs cur sup (map (rt_file psi) files) = tonl_diags fs cur sup files /\
    pkgo_diags fs cur cur_name sup (map (rt_file psi) files) = pkgo_diags fs cur cur_name sup files.
Proof.
  intros psi H fs cur cur_name sup files. repeat split.
  - apply imm_candidates_rt. exact H.
  - apply ctor_candidates_rt. exact H.
  - apply tonl_diags_rt. exact H.
  - apply pkgo_diags_rt.
Qed.

(* END TO END: the whole per-package analysis - annotation reader (which never consults a recorded type), @ignore reader
   (positions and comments only), @implements checker, the four AST checkers, suppression, the exported annotations -
   returns the same result for a package and for any identity-preserving respelling of it, under every configuration and
   every universe of imported facts *)
Theorem C13_whole_analysis :
  forall (psi : option ty -> option ty), (forall t, same_type (psi t) t) ->
  forall cfg p all, x_analyze cfg (rt_pkg psi p) all = x_analyze cfg p all.
Proof. intros psi H cfg p all. apply analyze_rt. exact H. Qed.

(* two such rewritings: spelling everything through one more alias, and removing every alias *)
Example C13_respellings_exist :
  (forall t, same_type (option_map (TAlias "A") t) t) /\ (forall t, same_type (option_map strip t) t).
Proof.
  split; intros [t|]; unfold same_type; cbn [option_map strip]; try reflexivity.
  f_equal. induction t as [p n|n r IH|e IH|s]; cbn [strip]; congruence.
Qed.

Example C13_nonvacuous :
  let T := TNamed (Some "a") "T" in
  map (fun t => type_info (Some t)) [T; TPtr T; TAlias "A" T; TPtr (TAlias "A" T); TAlias "P" (TPtr T); TAlias "B" (TAlias "A" T); TPtr (TPtr T); TOther "x"]
  = [Some ("a", "T"); Some ("a", "T"); Some ("a", "T"); Some ("a", "T"); Some ("a", "T"); Some ("a", "T"); None; None].
Proof. vm_compute. reflexivity. Qed.

Print Assumptions C13_type_info_alias.
Print Assumptions C13_type_info_ptr_alias.
Print Assumptions C13_type_info_alias_of_ptr.
Print Assumptions C13_named_direct_alias.
Print Assumptions C13_type_name_alias.
Print Assumptions C13_pointer_or_value.
Print Assumptions C13_any_alias_stack.
Print Assumptions C13_packageonly_alias_name.
Print Assumptions C13_identity_decides.
Print Assumptions C13_respelling_changes_nothing.
Print Assumptions C13_whole_analysis.
