(* C11 — results are deterministic and independent of the analysis schedule. Statements only.
   The logical half: no action reads anything but its declared inputs, so every schedule computes the same function.
   The absence of data races in the Go runtime sense cannot be exhibited by a model; its checked tie is the inventory
   of shared state below (regenerated from the source on every run) and the -race runs of the harness. *)
From Coq Require Import List String ZArith Bool.
From GG Require Import Base.Strs Model.Config Model.GoTypes Model.GoAst Model.Annots Model.Analyze Model.Driver
                       Extracted Exec Proofs.DriverProofs.
From GG Require Proofs.OpsProofs Proofs.LocalProofs Proofs.PosProofs Properties.C17.
Import ListNotations.
Local Open Scope string_scope.

(* (1) every interleaving the driver can produce - any order of the per-package actions that respects the import graph,
   sequential or not, whatever the order in which the packages were listed - yields the same result for every package:
   diagnostics AND their texts (the result value contains the messages) *)
Theorem C11_schedule_independent :
  forall cfg universe order, NoDup (map p_path universe) -> valid_schedule universe [] order ->
    snd (run_schedule cfg order) = map (fun p => (p_path p, spec_result cfg universe p)) order.
Proof. intros cfg universe order H. exact (schedule_independent cfg universe H order). Qed.

Corollary C11_two_schedules_agree :
  forall cfg universe o1 o2 p r1 r2, NoDup (map p_path universe) ->
    valid_schedule universe [] o1 -> valid_schedule universe [] o2 ->
    In (p_path p, r1) (snd (run_schedule cfg o1)) -> In (p_path p, r2) (snd (run_schedule cfg o2)) ->
    (forall q, In q universe -> p_path q = p_path p -> q = p) ->
    In p o1 -> In p o2 -> In (p_path p, spec_result cfg universe p) (snd (run_schedule cfg o1)) /\ In (p_path p, spec_result cfg universe p) (snd (run_schedule cfg o2)).
Proof.
  intros cfg universe o1 o2 p r1 r2 Hnd H1 H2 _ _ _ Hp1 Hp2.
  rewrite (C11_schedule_independent cfg universe o1 Hnd H1), (C11_schedule_independent cfg universe o2 Hnd H2).
  split; apply in_map_iff; exists p; auto.
Qed.

(* (2) unrelated packages in the same run do not matter *)
Theorem C11_run_set_independent :
  forall cfg u1 u2 p, import_view p (universe_facts cfg u1) = import_view p (universe_facts cfg u2) ->
    spec_result cfg u1 p = spec_result cfg u2 p.
Proof. exact run_set_independent. Qed.

(* (3) the configuration cell: sync.Once with a constant writer - whoever arrives first, every reader sees the same value *)
Definition once_do {A} (cell : option A) (f : unit -> A) : option A := match cell with Some v => Some v | None => Some (f tt) end.
Theorem C11_config_cell_is_write_once :
  forall (A : Type) (f : unit -> A) (n : nat) (cell : option A),
    (cell = None \/ cell = Some (f tt)) -> Nat.iter (S n) (fun c => once_do c f) cell = Some (f tt).
Proof.
  intros A f n cell Hc. induction n as [|n IH].
  - cbn. destruct Hc as [->| ->]; reflexivity.
  - change (Nat.iter (S (S n)) (fun c => once_do c f) cell) with (once_do (Nat.iter (S n) (fun c => once_do c f) cell) f).
    rewrite IH. reflexivity.
Qed.

(* (4) obligation on the source, regenerated on every run: the inventory of package-level variables of the non-test code.
   Admitted: variables nobody assigns to after initialisation and on which only read-only methods are called (compiled
   regexes: Find*/Match*; the Aho-Corasick matchers: Contains - NOT Match, which writes a generation counter; sync.Once:
   Do), and the configuration cell, assigned exactly once inside configOnce.Do.  A new writer or a new mutating method
   call on shared state breaks this obligation before any schedule has to expose it. *)
Definition readonly_methods (ty : string) : list string :=
  if str_contains ty "regexp.Regexp" then ["FindStringSubmatch"; "FindStringSubmatchIndex"; "FindString"; "MatchString"; "String"]
  else if str_contains ty "ahocorasick.Matcher" then ["Contains"]
  else if String.eqb ty "sync.Once" then ["Do"]
  else [].

Definition shared_ok (e : string * string * string * list string * list string) : bool :=
  let '(_, name, ty, writers, methods) := e in
  match writers with
  | [] => forallb (fun m => str_mem m (readonly_methods ty)) methods
  | [w] => String.eqb name "cachedConfig" && String.eqb w "assign@runConfig:once(configOnce)" && match methods with [] => true | _ => false end
  | _ => false
  end.

Theorem C11_shared_state_is_read_only_or_write_once : forallb shared_ok shared_state = true.
Proof. vm_compute. reflexivity. Qed.

Theorem C11_translator_understood_everything : unsupported = [].
Proof. vm_compute. reflexivity. Qed.

Example C11_nonvacuous :
  shared_ok ("src/annotations", "matcher", "*github.com/cloudflare/ahocorasick.Matcher", [], ["Match"]) = false /\
  shared_ok ("src/implements", "cache", "sync.Map", [], ["LoadOrStore"]) = false /\
  shared_ok ("src/x", "counter", "int", ["assign@f"], []) = false /\
  existsb (fun e => let '(_, n, _, w, _) := e in String.eqb n "cachedConfig" && negb (match w with [] => true | _ => false end)) shared_state = true.
Proof. vm_compute. repeat split; reflexivity. Qed.

(* PARSE ORDER.  The files of a package are parsed concurrently; which file gets which range of token.Pos depends on the schedule.
   The analysis never depends on that order: the markers that a file's @ignore comments give rise to lie inside that file's
   range (LocalProofs.ops_comments_in_span), ranges of different files are disjoint, hence the suppression decision at a position
   of file g is the decision under g's OWN comments and the project-wide exclusion - an expression in which the other files,
   and therefore their ranges and the order of the ranges, do not occur.  (Each file on its own is covered by
   C12_whole_analysis_relayout: any strictly monotone, line-preserving re-basing of its positions relabels and changes nothing.)
   Input conditions, evaluated on every serialised package: x_ranges_ok (everything of a file inside [first line start, end];
   ranges pairwise disjoint), x_pos_ok. *)
Theorem C11_suppression_is_file_local :
  forall cfg p A g B oa og ob c q,
    LocalProofs.x_ranges_ok cfg p = true -> OpsProofs.x_pos_ok cfg p = true -> kept_files cfg p = (A ++ g :: B)%list ->
    ignore_ops_files re_ignore kw_ignore A = Some oa ->
    ignore_ops_comments re_ignore kw_ignore g (List.concat (f_comments g)) = Some og ->
    ignore_ops_files re_ignore kw_ignore B = Some ob ->
    LocalProofs.in_span g q ->
    let glob := fun ops : list IgnoreSet.op => match exclude_checks cfg with nil => ops | cs => IgnoreSet.OpGlobal cs :: ops end in
    x_ignore_ops cfg p = Some (glob (oa ++ og ++ ob)%list) /\
    x_suppressed (glob (oa ++ og ++ ob)%list) c q = x_suppressed (glob og) c q.
Proof. exact LocalProofs.package_suppression_is_file_local. Qed.

(* ... put together with C17_positioned_at_a_node_of_a_kept_file: every diagnostic of the four AST checkers stands at a node of a
   kept file g, and whether it is suppressed is decided by g's own @ignore comments and exclude-checks - whatever ranges the other
   files of the package were given, in whatever order *)
Theorem C11_a_diagnostic_is_decided_by_its_own_file :
  forall cfg p fs sup ops d,
    LocalProofs.x_ranges_ok cfg p = true -> OpsProofs.x_pos_ok cfg p = true -> x_ignore_ops cfg p = Some ops ->
    In d (x_imm cfg p fs sup ++ x_ctor cfg p fs sup ++ x_tonl cfg p fs sup ++ x_pkgo cfg p fs sup) ->
    exists g og, In g (kept_files cfg p) /\ PosProofs.at_decl_of g (d_pos d) /\
      ignore_ops_comments re_ignore kw_ignore g (List.concat (f_comments g)) = Some og /\
      forall c, x_suppressed ops c (d_pos d) =
                x_suppressed (match exclude_checks cfg with nil => og | cs => IgnoreSet.OpGlobal cs :: og end) c (d_pos d).
Proof.
  intros cfg p fs sup ops d Hr Hp Ho Hd.
  destruct (C17.C17_positioned_at_a_node_of_a_kept_file cfg p fs sup d Hd) as (g & Hg & Hat & Hspan).
  assert (Hok : LocalProofs.file_range_ok g = true).
  { unfold LocalProofs.x_ranges_ok in Hr. apply andb_true_iff in Hr. destruct Hr as [Hr _]. rewrite forallb_forall in Hr. exact (Hr g Hg). }
  destruct (LocalProofs.decided_by_own_file cfg p g ops (d_pos d) Hr Hp Ho Hg (Hspan Hok)) as (og & Hog & H).
  exists g, og. repeat split; assumption.
Qed.

Print Assumptions C11_schedule_independent.
Print Assumptions C11_two_schedules_agree.
Print Assumptions C11_run_set_independent.
Print Assumptions C11_config_cell_is_write_once.
Print Assumptions C11_shared_state_is_read_only_or_write_once.
Print Assumptions C11_translator_understood_everything.
Print Assumptions C11_suppression_is_file_local.
Print Assumptions C11_a_diagnostic_is_decided_by_its_own_file.
