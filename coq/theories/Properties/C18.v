(* C18 — configuration resolves flag > environment > default, for any input strings.
   Statements only, about the model instantiated with the names / defaults extracted from config.go on this run. *)
From Coq Require Import List String Ascii Bool.
From GG Require Import Base.Strs Model.Config Extracted Exec Proofs.ConfigProofs.
Import ListNotations.
Local Open Scope string_scope.

(* obligation: the extracted names, defaults and upper-casing switches are the documented ones *)
Theorem C18_params_documented :
  x_cfg_params =
  {| env_scan := "GOGREEMENT_SCAN_TESTS"; env_paths := "GOGREEMENT_EXCLUDE_PATHS"; env_checks := "GOGREEMENT_EXCLUDE_CHECKS";
     env_only := "GOGREEMENT_ENV_ONLY"; up_env_paths := false; up_env_checks := true;
     flag_scan := "scan-tests"; flag_paths := "exclude-paths"; flag_checks := "exclude-checks";
     up_flag_paths := false; up_flag_checks := true;
     def_scan := false; def_paths := ["testdata"]; def_checks := []; bool_extra := ["yes"; "on"] |}.
Proof. vm_compute. reflexivity. Qed.

(* (1) for every command line and every environment (GOGREEMENT_ENV_ONLY unset or empty): each option is
       the flag if given, else the variable if set (even to ""), else the default; the only failure is an
       ill-formed value of the boolean FLAG *)
Theorem C18_flag_env_default :
  forall (f : flags) (e : env),
    match lookup "GOGREEMENT_ENV_ONLY" e with Some v => v = "" | None => True end ->
    x_cfg_resolve f e =
    match spec_scan x_cfg_params f e with
    | None => FlagError
    | Some sc =>
        CfgOk {| scan_tests := sc;
                 exclude_paths := spec_list "exclude-paths" "GOGREEMENT_EXCLUDE_PATHS" false false ["testdata"] f e;
                 exclude_checks := spec_list "exclude-checks" "GOGREEMENT_EXCLUDE_CHECKS" true true [] f e |}
    end.
Proof.
  intros f e H.
  pose proof (resolve_is_flag_env_default x_cfg_params) as R.
  rewrite C18_params_documented in R. cbn [up_flag_paths up_env_paths up_flag_checks up_env_checks def_paths def_checks
    flag_paths flag_checks env_paths env_checks env_only] in R.
  unfold x_cfg_resolve. rewrite C18_params_documented.
  apply R; try reflexivity. exact H.
Qed.

(* (2) list values: split on commas, trimmed, empty items dropped, upper-cased iff it is the check list *)
Theorem C18_list_parsing :
  forall up s x, In x (parse_list up s) <->
    exists p, In p (split_on ","%char s) /\ x = (if up then upper (trim p) else trim p) /\ x <> "".
Proof. exact parse_list_spec. Qed.

Theorem C18_list_roundtrip :
  forall up s, parse_list up (join "," (parse_list up s)) = parse_list up s.
Proof. exact parse_list_roundtrip. Qed.

(* (3) a boolean variable is true exactly for 1 / t / true / yes / on, any case, surrounding blanks allowed *)
Theorem C18_bool_parsing :
  forall s, x_parse_bool s = true <-> In (lower (trim s)) ["1"; "t"; "true"; "yes"; "on"].
Proof.
  intros s. unfold x_parse_bool.
  replace cfg_bool_extra with ["yes"; "on"] by (vm_compute; reflexivity).
  apply parse_bool_true_iff.
Qed.

(* (4) no value of the environment variables makes the tool fail *)
Theorem C18_env_never_fails : forall e, x_cfg_resolve [] e <> FlagError.
Proof. intros e. apply env_never_fails. Qed.

(* non-vacuity: the grid {flag absent, empty, value} x {env unset, empty, value} on concrete values *)
Example C18_nonvacuous :
  let E := [("GOGREEMENT_SCAN_TESTS", " YeS "); ("GOGREEMENT_EXCLUDE_PATHS", ""); ("GOGREEMENT_EXCLUDE_CHECKS", " imm01 ,, ctor ")] in
  x_cfg_resolve [] [] = CfgOk {| scan_tests := false; exclude_paths := ["testdata"]; exclude_checks := [] |} /\
  x_cfg_resolve [] E = CfgOk {| scan_tests := true; exclude_paths := []; exclude_checks := ["IMM01"; "CTOR"] |} /\
  x_cfg_resolve [("scan-tests", Some "false"); ("exclude-checks", Some "")] E
    = CfgOk {| scan_tests := false; exclude_paths := []; exclude_checks := [] |} /\
  x_cfg_resolve [("exclude-paths", Some "a, b/c ,")] E
    = CfgOk {| scan_tests := true; exclude_paths := ["a"; "b/c"]; exclude_checks := ["IMM01"; "CTOR"] |} /\
  x_cfg_resolve [("scan-tests", Some "yes")] [] = FlagError.
Proof. vm_compute. repeat split; reflexivity. Qed.

Print Assumptions C18_params_documented.
Print Assumptions C18_flag_env_default.
Print Assumptions C18_list_parsing.
Print Assumptions C18_list_roundtrip.
Print Assumptions C18_bool_parsing.
Print Assumptions C18_env_never_fails.
