(* C07 — @ignore suppresses exactly the diagnostics in its scope that match its codes. Statements only. *)
From Coq Require Import List String ZArith Bool Lia.
From GG Require Import Base.Strs Model.Codes Model.IgnoreSet Model.Config Model.GoAst Model.Annot Model.Annots Model.Analyze
                       Extracted Exec Proofs.IgnoreSetProofs Proofs.CodesProofs Proofs.WalkProofs Proofs.CheckerProofs Proofs.IgnoreProofs.
From GG Require Proofs.OpsProofs Proofs.OneMoreProofs Proofs.DiagProofs Proofs.LocalProofs Proofs.PosProofs.
Import ListNotations.
Local Open Scope string_scope.
Local Open Scope Z_scope.

Notation scope := (comment_scope).

(* (1) a comment before the package clause covers the whole file *)
Theorem C07_scope_file_level :
  forall f c, c_pos c < f_package f -> scope f c = Some (c_pos c, f_end f).
Proof. intros f c H. unfold comment_scope. apply Z.ltb_lt in H. rewrite H. reflexivity. Qed.

(* (2) a comment that is not inline: the scope ends at the end of the first declaration that ends after the comment
   when the comment stands before it (the whole following declaration), and otherwise - the comment is inside that
   declaration d - at the end of the node [next_visit] settles on *)
Theorem C07_scope_end_not_inline :
  forall f cpos,
    find_next_end f cpos =
    match find (fun d => n_end d >? cpos) (f_decls f) with
    | None => 0
    | Some d => if cpos <? n_pos d then n_end d
                else match next_visit cpos d None with Some (_, e) => e | None => 0 end
    end.
Proof. exact find_next_end_spec. Qed.

(* (3) ... which is the FIRST node, in source order, that starts after the comment - the whole following statement
   when the comment stands alone in a body - provided the nodes that start after the comment are met in
   non-decreasing position order (boolean hypothesis, evaluated by the harness on every tree and comment) *)
Theorem C07_next_node_is_first_after :
  forall cpos d, after_sorted_b cpos d = true ->
    next_visit cpos d None = match after cpos (preorder d) with n :: _ => Some (n_pos n, n_end n) | [] => None end.
Proof. intros cpos d H. apply (next_visit_first_after_b cpos d H). Qed.

(* (4) inline: "there is code on the comment's line before it" - some node of the enclosing declaration begins before
   the comment and starts or ends on the comment's line (a line that only opens a block starts a node and ends none);
   then the scope is that physical line up to the end of the comment *)
Theorem C07_inline_sound :
  forall f cpos cline d, has_code_on_line f cpos cline d = true ->
    exists x, In x (preorder d) /\ n_pos x < cpos /\ (line_of f (n_pos x) = cline \/ line_of f (n_end x) = cline).
Proof. exact has_code_on_line_sound. Qed.
Theorem C07_inline_complete :
  forall f cpos cline d, parent_le_b d = true ->
    (exists x, In x (preorder d) /\ n_pos x < cpos /\ (line_of f (n_pos x) = cline \/ line_of f (n_end x) = cline)) ->
    has_code_on_line f cpos cline d = true.
Proof. exact has_code_on_line_complete. Qed.

(* (4') the four scopes of the property, composed from the pieces above (f_package <= c_pos c: the comment is not file-level;
   "no declaration ends on its line": prev_ends_on_line = false; the enclosing declaration is the first one that ends after it) *)
Theorem C07_scope_whole_following_declaration :
  forall f c d, f_package f <= c_pos c -> prev_ends_on_line f c = false -> enclosing f c = Some d -> c_pos c < n_pos d -> 0 < n_end d ->
    scope f c = Some (c_pos c, n_end d).
Proof. exact scope_before_decl. Qed.
Theorem C07_scope_own_line_when_trailing_code :
  forall f c d ls, f_package f <= c_pos c -> prev_ends_on_line f c = false -> enclosing f c = Some d -> n_pos d <= c_pos c ->
    has_code_on_line f (c_pos c) (line_of f (c_pos c)) d = true -> line_start f (line_of f (c_pos c)) = Some ls ->
    scope f c = Some (ls, c_end c).
Proof. exact scope_inline. Qed.
Theorem C07_scope_own_line_when_trailing_a_declaration :
  forall f c ls, f_package f <= c_pos c -> prev_ends_on_line f c = true -> line_start f (line_of f (c_pos c)) = Some ls ->
    scope f c = Some (ls, c_end c).
Proof. exact scope_trailing_decl. Qed.
Theorem C07_scope_whole_following_statement :
  forall f c d x rest, f_package f <= c_pos c -> prev_ends_on_line f c = false -> enclosing f c = Some d -> n_pos d <= c_pos c ->
    has_code_on_line f (c_pos c) (line_of f (c_pos c)) d = false ->
    after_sorted_b (c_pos c) d = true -> after (c_pos c) (preorder d) = x :: rest -> 0 < n_end x ->
    scope f c = Some (c_pos c, n_end x).
Proof. exact scope_inside_body. Qed.

(* (5) matching: one more scoped @ignore with codes C and range [s,e] suppresses (c,p) iff s <= p <= e and C holds
   ALL, c's category or c (C is upper-cased by the parser: case-insensitive); everything else is decided as before *)
Definition hit (C : list string) (s e : Z) (c : string) (p : Z) : bool :=
  (s <=? p) && (p <=? e) && existsb (fun tk => str_mem tk C) (x_tokens_for c).

Theorem C07_one_more_comment :
  forall ops C s e c p, (forall cs st en, In (OpAdd cs st en) (ops ++ [OpAdd C s e]) -> 1 <= st) ->
    x_suppressed (ops ++ [OpAdd C s e]) c p = hit C s e c p || x_suppressed ops c p.
Proof.
  intros ops C s e c p H. unfold x_suppressed, x_is_contains, x_is_run.
  rewrite (contains_run x_all codes_table (ops ++ [OpAdd C s e]) c p H).
  rewrite (contains_run x_all codes_table ops c p) by (intros cs st en Hin; apply (H cs st en); apply in_or_app; left; exact Hin).
  unfold spec. rewrite existsb_app. simpl. rewrite orb_false_r. apply orb_comm.
Qed.

Theorem C07_codes_are_upper_cased :
  forall text codes, x_parse_ignore text = Some codes -> exists raw, codes = map upper raw.
Proof.
  intros text codes. unfold x_parse_ignore, parse_ignore.
  destruct (Regex.re_find re_ignore text) as [c|]; [|discriminate].
  destruct (String.eqb (trim (Regex.group c 1 text)) ""); [discriminate|].
  destruct (map upper (split_items (trim (Regex.group c 1 text)))) as [|x l] eqn:E; [discriminate|].
  intros H. inversion H; subst. eexists. symmetry. exact E.
Qed.

(* (6) effect on report-time checkers (IMM, CTOR, IMPL): exactly the matching diagnostics in scope disappear *)
Theorem C07_effect_report_time :
  forall sup C s e ds,
    report_filter (fun c p => hit C s e c p || sup c p) ds
    = filter (fun d => negb (hit C s e (d_code d) (d_pos d))) (report_filter sup ds).
Proof. intros sup C s e ds. apply (one_more_ignore_report_filter sup (hit C s e)). Qed.

(* (7) effect on the once-per-file checkers (TONL01, PKGO01): whatever the suppression function, the reported use of a
   key is the FIRST unsuppressed one - so suppressing the reported use moves the report to the next unsuppressed use,
   and every other diagnostic is unchanged *)
Theorem C07_effect_detection_time :
  forall sup cs d,
    In d (dedup_rec sup [] cs) <->
    exists pre k post,
      cs = (pre ++ (d, k) :: post)%list /\ sup (d_code d) (d_pos d) = false /\
      match k with
      | None => True
      | Some k' => ~ In k' [] /\ forall c, In c pre -> snd c = Some k' -> sup (d_code (fst c)) (d_pos (fst c)) = true
      end.
Proof. intros sup cs d. apply dedup_rec_spec. Qed.

(* non-vacuity: a statement-level comment, the sorted hypothesis holds and the scope is the next statement *)
Definition mk (k : kind) (p e : Z) (cs : list node) : node :=
  Node k p e {| a_name := ""; a_tok := ""; a_n := 0; a_m := 0; a_flag := false; a_ty := None; a_obj := None; a_str2 := ""; a_str3 := None |} cs.
Definition ex_decl : node :=
  mk KFuncDecl 10 100 [mk KOther 20 100 [mk KAssignStmt 30 40 [mk KIdent 30 31 []; mk KOther 35 40 []];
                                          mk KAssignStmt 60 75 [mk KIdent 60 61 []; mk KCompositeLit 65 75 []];
                                          mk KAssignStmt 80 90 []]].
Example C07_nonvacuous :
  after_sorted_b 45 ex_decl = true /\ next_visit 45 ex_decl None = Some (60, 75) /\
  hit ["IMM"; "CTOR01"] 45 75 "CTOR01" 65 = true /\ hit ["IMM"; "CTOR01"] 45 75 "CTOR01" 80 = false /\
  hit ["IMM"; "CTOR01"] 45 75 "CTOR02" 65 = false /\ hit ["ALL"] 45 75 "PKGO03" 75 = true.
Proof. vm_compute. repeat split; reflexivity. Qed.

(* (8) END TO END.  Take a package and put ONE MORE @ignore comment c' with code list C into one of its non-excluded files
   (anywhere in that file's comment list; nothing else changes), with scope [s, e] as computed by (1)-(4').  Then the whole
   per-package analysis returns the same annotations, and exactly the diagnostics of the original analysis re-decided under
   "covered by the new marker (5), or suppressed as before": by (6) the IMM / CTOR / IMPL diagnostics in [s, e] that match C
   disappear and every other one stays; by (7) a once-per-file report moves to the next unsuppressed use.  A package whose
   analysis fails still fails.  Input condition (checked on every serialised package): positions >= 1. *)
Theorem C07_whole_analysis_one_more_comment :
  forall cfg p p' all A B f f' c' pre post C s e,
    p_path p' = p_path p -> p_name p' = p_name p -> p_imports p' = p_imports p -> p_types p' = p_types p ->
    kept_files cfg p = (A ++ f :: B)%list -> kept_files cfg p' = (A ++ f' :: B)%list ->
    OneMoreProofs.one_more f f' c' pre post ->
    is_ignore_comment kw_ignore (c_text c') = true -> x_parse_ignore (c_text c') = Some C -> scope f c' = Some (s, e) ->
    OpsProofs.x_pos_ok cfg p = true -> 1 <= s ->
    match x_analyze cfg p all with
    | APanic m => x_analyze cfg p' all = APanic m
    | AOk own ds =>
        exists ops, x_ignore_ops cfg p = Some ops /\
          ds = OneMoreProofs.diags_under cfg p all (x_suppressed ops) /\
          x_analyze cfg p' all = AOk own (OneMoreProofs.diags_under cfg p all (fun c q => hit C s e c q || x_suppressed ops c q))
    end.
Proof.
  intros cfg p p' all A B f f' c' pre post C s e H1 H2 H3 H4 Hk Hk' Hom Hi Hc Hs Hp Hs1.
  pose proof (OneMoreProofs.analyze_one_more_ignore cfg p p' all A B f f' c' pre post C s e H1 H2 H3 H4 Hk Hk' Hom Hi Hc Hs Hp Hs1) as T.
  pose proof (OneMoreProofs.analyze_is_diags_under cfg p all) as U.
  destruct (x_analyze cfg p all) as [own ds|m]; [|exact T].
  destruct T as (ops & Ho & T). exists ops. split; [exact Ho|]. split; [|exact T].
  rewrite Ho in U. injection U as _ U. exact U.
Qed.

(* (8') ... spelled out for the report-time checkers over the WHOLE result: a diagnostic with an IMPL / IMM / CTOR code is in the
   new result iff it was in the old one and is not covered by the new marker - every other diagnostic unchanged *)
Theorem C07_whole_analysis_report_time_effect :
  forall cfg p all sup C s e d,
    In (d_code d) (DiagProofs.IMPL_CODES ++ DiagProofs.IMM_CODES ++ DiagProofs.CTOR_CODES)%list ->
    (In d (OneMoreProofs.diags_under cfg p all (fun c q => hit C s e c q || sup c q)) <->
     In d (OneMoreProofs.diags_under cfg p all sup) /\ hit C s e (d_code d) (d_pos d) = false).
Proof. intros cfg p all sup C s e d H. exact (OneMoreProofs.report_time_effect cfg p all sup (hit C s e) d H). Qed.

(* (8'') ... and a comment in one file cannot touch another file: its scope lies inside its own file's range of positions
   (LocalProofs.scope_in_span), so for every IMPL / IMM / CTOR diagnostic positioned outside that range - in particular in any
   other file of the package, whose range is disjoint - membership in the result is unchanged *)
Theorem C07_other_files_unchanged :
  forall cfg p all sup f c' C s e d,
    LocalProofs.file_range_ok f = true -> In c' (List.concat (f_comments f)) -> scope f c' = Some (s, e) ->
    In (d_code d) (DiagProofs.IMPL_CODES ++ DiagProofs.IMM_CODES ++ DiagProofs.CTOR_CODES)%list ->
    (d_pos d < LocalProofs.span_lo f \/ LocalProofs.span_hi f < d_pos d) ->
    (In d (OneMoreProofs.diags_under cfg p all (fun c q => hit C s e c q || sup c q)) <-> In d (OneMoreProofs.diags_under cfg p all sup)).
Proof.
  intros cfg p all sup f c' C s e d Hok Hc Hs Hcode Hout.
  rewrite (C07_whole_analysis_report_time_effect cfg p all sup C s e d Hcode).
  destruct (LocalProofs.scope_in_span f c' s e Hok Hc Hs) as [H1 H2].
  assert (Hh : hit C s e (d_code d) (d_pos d) = false).
  { unfold hit. destruct (s <=? d_pos d) eqn:E1; [|reflexivity]. destruct (d_pos d <=? e) eqn:E2; [|reflexivity].
    apply Z.leb_le in E1, E2. exfalso. destruct Hout; Lia.lia. }
  rewrite Hh. tauto.
Qed.

(* ... and the once-per-file checkers of every OTHER file g of the package (ranges disjoint) return literally the same list:
   a comment in f neither removes a TONL / PKGO diagnostic of g nor moves a once-per-file report inside g *)
Theorem C07_other_files_once_per_file_unchanged :
  forall fs cur cur_name sup f c' C s e g,
    LocalProofs.file_range_ok f = true -> LocalProofs.file_range_ok g = true ->
    In c' (List.concat (f_comments f)) -> scope f c' = Some (s, e) ->
    (LocalProofs.span_hi f < LocalProofs.span_lo g \/ LocalProofs.span_hi g < LocalProofs.span_lo f) ->
    tonl_file fs cur (fun c q => hit C s e c q || sup c q) g = tonl_file fs cur sup g /\
    pkgo_file fs cur cur_name (fun c q => hit C s e c q || sup c q) g = pkgo_file fs cur cur_name sup g.
Proof.
  intros fs cur cur_name sup f c' C s e g Hf Hg Hc Hs Hdis.
  destruct (LocalProofs.scope_in_span f c' s e Hf Hc Hs) as [H1 H2].
  assert (Hout : forall c q, LocalProofs.in_span g q -> hit C s e c q = false).
  { intros c q [Ha Hb]. unfold hit. destruct (s <=? q) eqn:E1; [|reflexivity]. destruct (q <=? e) eqn:E2; [|reflexivity].
    apply Z.leb_le in E1, E2. exfalso. destruct Hdis; lia. }
  split; [apply (PosProofs.tonl_file_other fs cur sup (hit C s e) g Hg Hout)|apply (PosProofs.pkgo_file_other fs cur cur_name sup (hit C s e) g Hg Hout)].
Qed.

Print Assumptions C07_scope_file_level.
Print Assumptions C07_scope_end_not_inline.
Print Assumptions C07_next_node_is_first_after.
Print Assumptions C07_inline_sound.
Print Assumptions C07_inline_complete.
Print Assumptions C07_scope_whole_following_declaration.
Print Assumptions C07_scope_own_line_when_trailing_code.
Print Assumptions C07_scope_own_line_when_trailing_a_declaration.
Print Assumptions C07_scope_whole_following_statement.
Print Assumptions C07_one_more_comment.
Print Assumptions C07_codes_are_upper_cased.
Print Assumptions C07_effect_report_time.
Print Assumptions C07_effect_detection_time.
Print Assumptions C07_whole_analysis_one_more_comment.
Print Assumptions C07_whole_analysis_report_time_effect.
Print Assumptions C07_other_files_unchanged.
Print Assumptions C07_other_files_once_per_file_unchanged.
