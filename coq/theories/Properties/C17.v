(* C17 — every diagnostic is well-formed, documented, and suppressible by the code it shows. Statements only. *)
From Coq Require Import List String ZArith Bool.
From GG Require Import Base.Strs Model.Codes Model.IgnoreSet Model.Config Model.GoTypes Model.GoAst Model.Annots Model.Analyze Model.Impl Model.Reporter
                       Extracted Exec Proofs.CodesProofs Proofs.ReporterProofs Proofs.DiagProofs Proofs.ImplProofs Proofs.ImplPosProofs.
From GG Require Properties.C07 Properties.C14.
From GG Require Proofs.LocalProofs Proofs.PosProofs.
Import ListNotations.
Local Open Scope string_scope.
Local Open Scope Z_scope.

Definition table_codes : list string := all_codes codes_table.

(* obligations on the tables regenerated from the source on this run: the literal codes of the checkers are codes of
   the table, under the category of their checker *)
Definition cat_is (k : string) (l : list string) : bool :=
  forallb (fun c => match cat_of codes_table c with Some k' => String.eqb k k' | None => false end) l.

Theorem C17_checker_codes_are_table_codes :
  cat_is "IMM" IMM_CODES && cat_is "CTOR" CTOR_CODES && cat_is "TONL" TONL_CODES && cat_is "PKGO" PKGO_CODES && cat_is "IMPL" IMPL_CODES = true.
Proof. vm_compute. reflexivity. Qed.

Lemma cat_is_spec k l c : cat_is k l = true -> In c l -> cat_of codes_table c = Some k /\ In c table_codes.
Proof.
  unfold cat_is. rewrite forallb_forall. intros H Hc. specialize (H c Hc).
  destruct (cat_of codes_table c) as [k'|] eqn:E; [|discriminate]. apply String.eqb_eq in H. subst k'. split; [reflexivity|].
  apply cat_of_In in E. destruct E as [row [H1 [H2 H3]]]. unfold table_codes, all_codes. apply in_flat_map. exists row. split; assumption.
Qed.

Lemma four : cat_is "IMM" IMM_CODES = true /\ cat_is "CTOR" CTOR_CODES = true /\ cat_is "TONL" TONL_CODES = true /\ cat_is "PKGO" PKGO_CODES = true /\ cat_is "IMPL" IMPL_CODES = true.
Proof.
  pose proof C17_checker_codes_are_table_codes as H.
  apply andb_true_iff in H. destruct H as [H H5]. apply andb_true_iff in H. destruct H as [Ha H4]. apply andb_true_iff in Ha. destruct Ha as [Hb H3]. apply andb_true_iff in Hb. destruct Hb as [H1 H2].
  auto.
Qed.

(* (1) exactly one code, from the documented table, and it is a code of the category of the checker that produced it *)
Theorem C17_code_from_table_and_checker :
  forall cfg p fs sup d,
    (In d (x_imm cfg p fs sup) -> cat_of codes_table (d_code d) = Some "IMM" /\ In (d_code d) table_codes) /\
    (In d (x_ctor cfg p fs sup) -> cat_of codes_table (d_code d) = Some "CTOR" /\ In (d_code d) table_codes) /\
    (In d (x_tonl cfg p fs sup) -> cat_of codes_table (d_code d) = Some "TONL" /\ In (d_code d) table_codes) /\
    (In d (x_pkgo cfg p fs sup) -> cat_of codes_table (d_code d) = Some "PKGO" /\ In (d_code d) table_codes) /\
    (In d (x_impl cfg p sup) -> cat_of codes_table (d_code d) = Some "IMPL" /\ In (d_code d) table_codes).
Proof.
  intros cfg p fs sup d. destruct four as (H1 & H2 & H3 & H4 & H5). split; [|split; [|split; [|split]]]; intros H.
  - apply (cat_is_spec _ _ _ H1). unfold x_imm in H. exact (codes_in_filter _ _ _ (imm_candidates_codes fs (p_path p) _) d H).
  - apply (cat_is_spec _ _ _ H2). unfold x_ctor in H. exact (codes_in_filter _ _ _ (ctor_candidates_codes fs (p_path p) _) d H).
  - apply (cat_is_spec _ _ _ H3). exact (tonl_diags_codes fs (p_path p) sup _ d H).
  - apply (cat_is_spec _ _ _ H4). exact (pkgo_diags_codes fs (p_path p) (p_name p) sup _ d H).
  - apply (cat_is_spec _ _ _ H5). unfold x_impl in H. exact (codes_in_filter _ _ _ (impl_candidates_codes _ _ _ _) d H).
Qed.

Theorem C17_every_diagnostic_of_a_run_has_a_table_code :
  forall cfg p all own ds, x_analyze cfg p all = AOk own ds -> forall d, In d ds -> In (d_code d) table_codes.
Proof.
  intros cfg p all own ds H d Hd. unfold x_analyze in H. destruct (x_ignore_ops cfg p) as [ops|]; [|discriminate].
  injection H as _ <-.
  pose proof (C17_code_from_table_and_checker cfg p (x_facts p (x_read_all cfg p) all) (x_suppressed ops) d) as (A & B & C & D & E).
  repeat (apply in_app_or in Hd; destruct Hd as [Hd|Hd]); [apply E|apply A|apply B|apply C|apply D]; exact Hd.
Qed.

(* (2) the text: `error: [CODE] message` first, and whenever an excerpt is rendered the last line is the help link of the
   code's category; the link table extracted on this run sends every code to the page of its category *)
Theorem C17_message_shape :
  forall content line col code msg m,
    x_rep_format content line col code msg = Msg m ->
    (exists rest, m = "error: [" ++ code ++ "] " ++ msg ++ nl ++ rest) /\
    (x_window (option_map scan_lines content) line <> [] -> ends_with ("   = help: " ++ x_doc_url code ++ nl) m).
Proof.
  intros content line col code msg m H. split.
  - destruct (format_header _ _ _ _ _ _ _ _ _ _ H) as [rest Hr]. exists rest. rewrite Hr. unfold header.
    rewrite !sapp_assoc. reflexivity.
  - intros Hw. exact (format_help _ _ _ _ _ _ _ _ _ _ H Hw).
Qed.

Definition page_word : list (string * string) :=
  [("IMM", "immutable"); ("CTOR", "constructor"); ("TONL", "testonly"); ("PKGO", "packageonly"); ("IMPL", "implements")].

Theorem C17_links_to_the_category_page :
  forallb (fun row =>
    match find (fun pw => String.eqb (fst pw) (fst row)) page_word with
    | Some pw => forallb (fun c => has_prefix url_base (x_doc_url c) && str_contains (x_doc_url c) (snd pw)
                                   && String.eqb (x_doc_url c) (x_doc_url (fst row))) (cat_codes row)
    | None => false
    end) codes_table = true.
Proof. vm_compute. reflexivity. Qed.

(* (3) position: inside a non-excluded file of the analysed package (C14) *)
Theorem C17_positioned_in_a_kept_file :
  forall cfg p fs sup d,
    In d (x_imm cfg p fs sup ++ x_ctor cfg p fs sup ++ x_tonl cfg p fs sup ++ x_pkgo cfg p fs sup) ->
    exists f, In f (p_files p) /\ should_skip cfg (f_name f) = false /\
      (In d (report_filter sup (flat_map (imm_decl fs (p_path p)) (f_decls f))) \/
       In d (report_filter sup (flat_map (ctor_decl fs (p_path p)) (f_decls f))) \/
       In d (tonl_file fs (p_path p) sup f) \/ In d (pkgo_file fs (p_path p) (p_name p) sup f)).
Proof. exact C14.C14_diagnostics_come_from_kept_files. Qed.

(* ... more precisely: at the position of a NODE of a top-level declaration of a kept file (the statement, expression or name
   the message talks about) - hence, for a file that meets the range condition evaluated on every serialised package, inside that
   file's own range of positions *)
Theorem C17_positioned_at_a_node_of_a_kept_file :
  forall cfg p fs sup d,
    In d (x_imm cfg p fs sup ++ x_ctor cfg p fs sup ++ x_tonl cfg p fs sup ++ x_pkgo cfg p fs sup) ->
    exists f, In f (kept_files cfg p) /\ PosProofs.at_decl_of f (d_pos d) /\
              (LocalProofs.file_range_ok f = true -> LocalProofs.in_span f (d_pos d)).
Proof.
  intros cfg p fs sup d H.
  assert (G : exists f, In f (kept_files cfg p) /\ PosProofs.at_decl_of f (d_pos d)).
  { repeat (apply in_app_or in H; destruct H as [H|H]).
    - unfold x_imm, report_filter in H. apply filter_In in H. destruct H as [H _]. unfold imm_candidates in H.
      destruct (imm_index_empty fs); [contradiction|]. apply in_flat_map in H. destruct H as [f [Hf H]]. apply in_flat_map in H. destruct H as [dd [Hd H]].
      exists f. split; [exact Hf|]. exists dd. split; [exact Hd|exact (PosProofs.imm_decl_at fs (p_path p) dd d H)].
    - unfold x_ctor, report_filter in H. apply filter_In in H. destruct H as [H _]. unfold ctor_candidates in H.
      destruct (ctor_index_empty fs); [contradiction|]. apply in_flat_map in H. destruct H as [f [Hf H]]. apply in_flat_map in H. destruct H as [dd [Hd H]].
      exists f. split; [exact Hf|]. exists dd. split; [exact Hd|exact (PosProofs.ctor_decl_at fs (p_path p) dd d H)].
    - unfold x_tonl, tonl_diags in H. destruct (negb (tonl_has AKType fs) && negb (tonl_has AKFunc fs) && negb (tonl_has AKMethod fs)); [contradiction|].
      apply in_flat_map in H. destruct H as [f [Hf H]]. exists f. split; [exact Hf|exact (PosProofs.tonl_file_at fs (p_path p) sup f d H)].
    - unfold x_pkgo, pkgo_diags in H. destruct (pkgo_index_empty fs); [contradiction|].
      apply in_flat_map in H. destruct H as [f [Hf H]]. exists f. split; [exact Hf|exact (PosProofs.pkgo_file_at fs (p_path p) (p_name p) sup f d H)]. }
  destruct G as [f [Hf Ha]]. exists f. split; [exact Hf|]. split; [exact Ha|]. intros Hok. exact (PosProofs.at_decl_in_span f (d_pos d) Hok Ha).
Qed.

(* (3') ... and an @implements diagnostic sits at the name of a type declaration of a non-excluded file of the package *)
Theorem C17_impl_positioned_at_a_type_of_a_kept_file :
  forall cfg p sup d, In d (x_impl cfg p sup) ->
    exists f decl spec, In f (p_files p) /\ should_skip cfg (f_name f) = false /\ In decl (f_decls f) /\ In spec (n_children decl) /\
                        n_kind spec = KTypeSpec /\ d_pos d = n_pos spec.
Proof.
  intros cfg p sup d H. unfold x_impl, report_filter in H. apply filter_In in H. destruct H as [H _].
  destruct (impl_diag_at_annotation _ _ _ _ _ H) as [a [Ha Hp]].
  destruct (read_all_impl_pos _ _ _ _ _ _ _ cfg p a Ha) as (f & decl & spec & H1 & H2 & H3 & H4 & H5 & H6 & _).
  exists f, decl, spec. repeat split; auto. congruence.
Qed.

(* (4) the comment `// @ignore CODE` with the displayed code parses to exactly that code *)
Theorem C17_ignore_comment_of_a_code :
  forallb (fun c => match x_parse_ignore ("// @ignore " ++ c) with Some [c'] => String.eqb c c' | _ => false end) table_codes = true.
Proof. vm_compute. reflexivity. Qed.

(* (5) one more marker [CODE] over the diagnostic's line [s,e]: the diagnostic itself is suppressed; a diagnostic at a
   position outside the line, or on the line with another table code, is decided exactly as before *)
Definition distinct_codes_do_not_match : bool :=
  forallb (fun c => forallb (fun c' => String.eqb c c' || negb (existsb (fun tk => str_mem tk [c]) (x_tokens_for c'))) table_codes) table_codes.

Lemma distinct_ok : distinct_codes_do_not_match = true.
Proof. vm_compute. reflexivity. Qed.

Theorem C17_suppressible_by_its_own_code :
  forall ops c s e,
    (forall cs st en, In (OpAdd cs st en) (ops ++ [OpAdd [c] s e]) -> 1 <= st) ->
    (forall p, s <= p <= e -> x_suppressed (ops ++ [OpAdd [c] s e]) c p = true) /\
    (forall c' p', ~ (s <= p' <= e) -> x_suppressed (ops ++ [OpAdd [c] s e]) c' p' = x_suppressed ops c' p') /\
    (forall c' p', In c table_codes -> In c' table_codes -> c' <> c ->
                   x_suppressed (ops ++ [OpAdd [c] s e]) c' p' = x_suppressed ops c' p').
Proof.
  intros ops c s e Hst. repeat split.
  - intros p Hp. rewrite (C07.C07_one_more_comment ops [c] s e c p Hst). apply orb_true_iff. left.
    unfold C07.hit. replace (s <=? p) with true by (symmetry; apply Z.leb_le; tauto). replace (p <=? e) with true by (symmetry; apply Z.leb_le; tauto).
    cbn [andb]. apply existsb_exists. exists c. split.
    + unfold x_tokens_for. apply check_list_spec. right. right. reflexivity.
    + cbn. rewrite String.eqb_refl. reflexivity.
  - intros c' p' Hout. rewrite (C07.C07_one_more_comment ops [c] s e c' p' Hst). unfold C07.hit.
    destruct (s <=? p') eqn:E1; [|reflexivity]. destruct (p' <=? e) eqn:E2; [|reflexivity].
    apply Z.leb_le in E1. apply Z.leb_le in E2. contradiction Hout. split; assumption.
  - intros c' p' Hc Hc' Hne. rewrite (C07.C07_one_more_comment ops [c] s e c' p' Hst). unfold C07.hit.
    pose proof distinct_ok as D. unfold distinct_codes_do_not_match in D. rewrite forallb_forall in D. specialize (D c Hc).
    rewrite forallb_forall in D. specialize (D c' Hc'). apply orb_true_iff in D. destruct D as [D|D].
    + apply String.eqb_eq in D. congruence.
    + apply negb_true_iff in D. rewrite D. rewrite andb_false_r. reflexivity.
Qed.

(* non-vacuity: a rendered IMM01 message and its own-code suppression *)
Example C17_nonvacuous :
  (match x_rep_format (Some ("package p" ++ nl ++ "x.F = 1" ++ nl)) 2 1 "IMM01" "msg" with
   | Msg m => has_prefix "error: [IMM01] msg" m && has_suffix ("   = help: https://a14e.github.io/gogreement/02_02_immutable.html" ++ nl) m
   | PanicSlice => false
   end = true) /\
  x_window (option_map scan_lines (Some ("package p" ++ nl ++ "x.F = 1" ++ nl))) 2 <> [] /\
  x_suppressed [OpAdd ["IMM01"] 11 30] "IMM01" 13 = true /\ x_suppressed [OpAdd ["IMM01"] 11 30] "IMM02" 13 = false /\
  x_suppressed [OpAdd ["IMM01"] 11 30] "IMM01" 31 = false.
Proof. vm_compute. repeat split; try reflexivity. discriminate. Qed.

Print Assumptions C17_checker_codes_are_table_codes.
Print Assumptions C17_code_from_table_and_checker.
Print Assumptions C17_every_diagnostic_of_a_run_has_a_table_code.
Print Assumptions C17_message_shape.
Print Assumptions C17_links_to_the_category_page.
Print Assumptions C17_positioned_in_a_kept_file.
Print Assumptions C17_impl_positioned_at_a_type_of_a_kept_file.
Print Assumptions C17_ignore_comment_of_a_code.
Print Assumptions C17_suppressible_by_its_own_code.
Print Assumptions C17_positioned_at_a_node_of_a_kept_file.
