(* C03 — @testonly is enforced exactly: non-test uses reported, test code exempt. Statements only. *)
From Coq Require Import List String ZArith Bool.
From GG Require Import Base.Strs Model.Config Model.GoTypes Model.GoAst Model.Annots Model.Analyze Exec
                       Proofs.WalkProofs Proofs.CheckerProofs Properties.C01.
From GG Require Proofs.DiagProofs Proofs.WholeProofs.
Import ListNotations.
Local Open Scope Z_scope.
Local Open Scope string_scope.

(* (1) per file: nothing in a file whose name ends in _test.go; otherwise the candidates of the file in source
   (walk) order, filtered by "ignore first, then once per (package path, type name)" *)
Theorem C03_file :
  forall fs cur sup f,
    tonl_file fs cur sup f =
    if has_suffix "_test.go" (f_name f) then []
    else dedup_rec sup [] (flat_map (tonl_cands fs) (flat_map (preorder_pruned (tonl_keep fs cur)) (f_decls f))).
Proof. exact tonl_file_spec. Qed.

(* (2) the once-per-file rule: a candidate is reported iff it is not suppressed and either it has no key
   (TONL02 / TONL03: every call) or it is the FIRST unsuppressed candidate with its key (TONL01: once per file
   and type, at its first use; an ignored earlier use does not consume the report) *)
Theorem C03_first_unsuppressed_use :
  forall sup cs d,
    In d (dedup_rec sup [] cs) <->
    exists pre k post,
      cs = (pre ++ (d, k) :: post)%list /\ sup (d_code d) (d_pos d) = false /\
      match k with
      | None => True
      | Some k' => ~ In k' [] /\ forall c, In c pre -> snd c = Some k' -> sup (d_code (fst c)) (d_pos (fst c)) = true
      end.
Proof. intros sup cs d. apply dedup_rec_spec. Qed.

(* (3) which nodes are looked at: everything, except the bodies of top-level functions / methods that are
   themselves @testonly in the analysed package *)
Theorem C03_walk :
  forall fs cur d, no_inner_funcdecl d ->
    preorder_pruned (tonl_keep fs cur) d = if tonl_keep fs cur d then preorder d else [d].
Proof. exact tonl_walk_decl. Qed.

Theorem C03_testonly_body_exempt :
  forall fs cur d, n_kind d = KFuncDecl -> in_testonly_context fs cur d = true ->
    flat_map (tonl_cands fs) (preorder_pruned (tonl_keep fs cur) d) = [].
Proof. exact tonl_testonly_body_exempt. Qed.

(* (4) identifiers that merely share a name with a @testonly item are never reported: a bare callee must
   resolve to a package-level function object that is annotated in its own package *)
(* which nodes are candidates, exactly: a call whose callee identifier RESOLVES to an annotated package-level function
   (TONL02), a call pkg.F of an annotated function (TONL02), a method call x.M() where the receiver type of the SELECTED method -
   also one promoted through an embedded field; through aliases and one pointer - has that annotated method (TONL03), a composite literal / typed var spec / field,
   parameter or result of an annotated type (TONL01, keyed by package and type for the once-per-file rule) *)
Theorem C03_candidate_nodes :
  forall fs n c, In c (tonl_cands fs n) <-> tonl_candidate fs n c.
Proof. intros fs n c. exact (tonl_cands_spec fs n c). Qed.

Theorem C03_name_sharing_never :
  forall fs n f rest,
    n_kind n = KCallExpr -> n_children n = f :: rest -> n_kind f = KIdent ->
    (forall o, a_obj (n_attrs f) = Some o ->
       o_kind o <> OFunc \/ o_pkg o = None \/ o_is_method o = true \/
       (exists p, o_pkg o = Some p /\ tonl_func fs p (o_name o) = false)) ->
    tonl_cands fs n = [].
Proof. exact tonl_bare_call_needs_function. Qed.

(* (5) the three indices, same-package and directly imported packages alike *)
Theorem C03_func_index :
  forall fs p fn, tonl_func fs p fn = true <->
    exists a t, In (p, a) fs /\ In t (an_tonl a) /\ ta_kind t = AKFunc /\ ta_name t = fn.
Proof. exact tonl_func_spec. Qed.
Theorem C03_type_index :
  forall fs p tn, tonl_type fs p tn = true <->
    exists a t, In (p, a) fs /\ In t (an_tonl a) /\ ta_kind t = AKType /\ ta_name t = tn.
Proof. exact tonl_type_spec. Qed.
Theorem C03_method_index :
  forall fs p mn recv, tonl_method fs p mn recv = true <->
    exists a t, In (p, a) fs /\ In t (an_tonl a) /\ ta_kind t = AKMethod /\ ta_name t = mn /\ ta_recv t = recv.
Proof. exact tonl_method_spec. Qed.

(* non-vacuity: two literals of a @testonly type in one file give ONE TONL01 (the first); if the first is
   suppressed the report moves to the second; in a _test.go file nothing *)
Definition ex_h (pos : Z) : node := Node KCompositeLit pos (pos + 3) (mkattrs "" "" 0 (Some (TNamed (Some "a") "H"))) [].
Definition ex_tfile (name : string) : file :=
  {| f_name := name; f_package := 1; f_end := 300; f_decls := [ex_func 20 "Use" [ex_h 40; ex_h 50]];
     f_comments := []; f_imports := []; f_lines := [1] |}.
Definition ex_tfacts : facts :=
  [("a", {| an_impl := []; an_ctor := []; an_imm := []; an_tonl := [{| ta_kind := AKType; ta_name := "H"; ta_pos := 3; ta_recv := "" |}];
            an_mut := []; an_pkgo := [] |})].
Definition ex_cfg := {| scan_tests := true; exclude_paths := []; exclude_checks := [] |}.
Example C03_nonvacuous :
  let run f sup := map d_pos (x_tonl ex_cfg {| p_path := "a"; p_name := "a"; p_files := [f]; p_imports := []; p_types := empty_typetable |} ex_tfacts sup) in
  run (ex_tfile "a.go") (fun _ _ => false) = [40] /\
  run (ex_tfile "a.go") (fun _ p => Z.eqb p 40) = [50] /\
  run (ex_tfile "a_test.go") (fun _ _ => false) = [].
Proof. vm_compute. repeat split; reflexivity. Qed.

(* END TO END: in the result of the whole per-package analysis the diagnostics with a TONL code are exactly the output of this
   checker under the facts (own annotations, then those of the direct imports) and the suppression (the package's @ignore
   comments, exclude-checks) that the analysis assembles itself; the theorems above characterise that output *)
Theorem C03_whole_analysis :
  forall cfg p all own ds, x_analyze cfg p all = AOk own ds ->
    exists ops, x_ignore_ops cfg p = Some ops /\ own = x_read_all cfg p /\
      forall d, In (d_code d) DiagProofs.TONL_CODES -> (In d ds <-> In d (x_tonl cfg p (x_facts p own all) (x_suppressed ops))).
Proof.
  intros cfg p all own ds Hres.
  destruct (WholeProofs.section_of_code cfg p all own ds Hres) as (ops & Ho & Hown & Hsec). exists ops. split; [exact Ho|]. split; [exact Hown|].
  intros d Hc. destruct (Hsec d) as (_ & _ & _ & Hx & _). apply Hx. exact Hc.
Qed.

Print Assumptions C03_file.
Print Assumptions C03_first_unsuppressed_use.
Print Assumptions C03_walk.
Print Assumptions C03_testonly_body_exempt.
Print Assumptions C03_candidate_nodes.
Print Assumptions C03_name_sharing_never.
Print Assumptions C03_func_index.
Print Assumptions C03_type_index.
Print Assumptions C03_method_index.
Print Assumptions C03_whole_analysis.
