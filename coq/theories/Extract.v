(* Extraction of the executable model to OCaml. Only the standard directives of ExtrOcamlBasic and
   ExtrOcamlString are used (bool, option, unit, list, prod, sumbool; ascii -> char, string -> char list);
   nat, positive, N and Z stay the extracted inductives. No Extract Constant of our own. *)
From Coq Require Extraction ExtrOcamlBasic ExtrOcamlString.
From Coq Require Import List String ZArith.
From GG Require Import Base.Strs Model.Codes Model.IgnoreSet Model.GoTypes Model.GoAst Extracted Exec Proofs.OpsProofs Proofs.LocalProofs.
Extraction Language OCaml.
Extraction "model.ml" x_all x_tokens_for x_is_run x_is_contains x_is_spec x_doc_url
  x_truncate x_display_col x_window x_rep_format
  x_cfg_resolve x_cfg_from_env x_parse_bool x_should_skip
  x_parse_implements x_parse_constructor x_parse_immutable x_parse_testonly x_parse_mutable x_parse_packageonly x_parse_ignore x_re_find
  x_read_all x_ignore_ops x_analyze x_impl x_identical x_signatures_match x_wf_package x_ignore_hyp x_lines_ok x_pos_ok x_ranges_ok x_impl_inputs_ok line_of.
