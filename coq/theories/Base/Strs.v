(* Byte strings: the small part of Go's strings / strconv packages the model needs.
   Everything is on Coq's [string] (= list of bytes); Go strings are byte sequences too.
   Unicode-aware Go functions (TrimSpace, ToUpper, ToLower) are modelled on ASCII bytes only;
   the fragment predicate [is_ascii] says where the model is claimed to agree. *)
From Coq Require Import List String Ascii NArith ZArith Bool Lia.
Import ListNotations.
Local Open Scope string_scope.

Definition byte (n : N) : ascii := ascii_of_N n.
Definition code (a : ascii) : N := N_of_ascii a.

Fixpoint bytes_to_string (l : list N) : string :=
  match l with [] => EmptyString | n :: r => String (byte n) (bytes_to_string r) end.

Fixpoint string_to_bytes (s : string) : list N :=
  match s with EmptyString => [] | String a r => code a :: string_to_bytes r end.

Definition str_mem (x : string) (l : list string) : bool := existsb (String.eqb x) l.

Lemma str_mem_In x l : str_mem x l = true <-> In x l.
Proof.
  unfold str_mem. rewrite existsb_exists. split.
  - intros [y [Hy He]]. apply String.eqb_eq in He. subst. exact Hy.
  - intros H. exists x. split; [exact H | apply String.eqb_refl].
Qed.

(* --- classes of bytes --- *)
Definition is_space (a : ascii) : bool :=           (* unicode.IsSpace restricted to ASCII *)
  let n := code a in ((9 <=? n) && (n <=? 13))%N || (n =? 32)%N.
Definition is_upper (a : ascii) : bool := let n := code a in ((65 <=? n) && (n <=? 90))%N.
Definition is_lower (a : ascii) : bool := let n := code a in ((97 <=? n) && (n <=? 122))%N.
Definition to_upper (a : ascii) : ascii := if is_lower a then byte (code a - 32) else a.
Definition to_lower (a : ascii) : ascii := if is_upper a then byte (code a + 32) else a.

Fixpoint smap (f : ascii -> ascii) (s : string) : string :=
  match s with EmptyString => EmptyString | String a r => String (f a) (smap f r) end.
Definition upper := smap to_upper.
Definition lower := smap to_lower.

Fixpoint sforall (p : ascii -> bool) (s : string) : bool :=
  match s with EmptyString => true | String a r => p a && sforall p r end.
Definition is_ascii (s : string) : bool := sforall (fun a => (code a <? 128)%N) s.

(* --- trimming --- *)
Fixpoint trim_left (s : string) : string :=
  match s with
  | EmptyString => EmptyString
  | String a r => if is_space a then trim_left r else s
  end.

(* trim_right: drop the maximal suffix of spaces *)
Fixpoint trim_right (s : string) : string :=
  match s with
  | EmptyString => EmptyString
  | String a r =>
      match trim_right r with
      | EmptyString => if is_space a then EmptyString else String a EmptyString
      | r' => String a r'
      end
  end.

Definition trim (s : string) : string := trim_right (trim_left s).

(* --- splitting on one byte (strings.Split with a one-byte separator): always >= 1 piece --- *)
Fixpoint split_on (sep : ascii) (s : string) : list string :=
  match s with
  | EmptyString => [EmptyString]
  | String a r =>
      if Ascii.eqb a sep then EmptyString :: split_on sep r
      else match split_on sep r with
           | [] => [String a EmptyString]      (* unreachable: split_on never returns [] *)
           | p :: ps => String a p :: ps
           end
  end.

Fixpoint join (sep : string) (l : list string) : string :=
  match l with
  | [] => EmptyString
  | [x] => x
  | x :: r => x ++ sep ++ join sep r
  end.

(* --- prefix / suffix / substring --- *)
Fixpoint has_prefix (p s : string) : bool :=
  match p, s with
  | EmptyString, _ => true
  | String a p', String b s' => Ascii.eqb a b && has_prefix p' s'
  | _, EmptyString => false
  end.

Fixpoint str_contains (s sub : string) : bool :=      (* strings.Contains s sub *)
  has_prefix sub s ||
  match s with EmptyString => false | String _ r => str_contains r sub end.

Fixpoint rev_string_acc (s acc : string) : string :=
  match s with EmptyString => acc | String a r => rev_string_acc r (String a acc) end.
Definition rev_string (s : string) : string := rev_string_acc s EmptyString.
Definition has_suffix (suf s : string) : bool := has_prefix (rev_string suf) (rev_string s).

Definition slen (s : string) : Z := Z.of_nat (String.length s).

(* last path element: the part after the last '/' (strings.Split(p,"/")[last]) *)
Definition last_elem (s : string) : string := last (split_on "/"%char s) EmptyString.
