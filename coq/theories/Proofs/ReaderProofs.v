(* C09: without a recognised annotation line nothing is collected and every checker is silent. *)
From Coq Require Import List String ZArith Bool.
From GG Require Import Base.Strs Model.Config Model.GoAst Model.RegexSyntax Model.Regex Model.Annot Model.Annots Model.Analyze.
Import ListNotations.
Local Open Scope string_scope.

Section Reader.
Variables re_impl re_ctor re_imm re_tonl re_mut re_pkgo : re.
Variable keywords : list string.

Notation type_line := (type_line re_impl re_ctor re_imm re_tonl re_mut re_pkgo keywords).
Notation func_line := (func_line re_tonl re_pkgo keywords).
Notation read_all := (read_all re_impl re_ctor re_imm re_tonl re_mut re_pkgo keywords).

(* a comment line that none of the parsers recognises *)
Definition unrecognised (text : string) : Prop :=
  parse_implements re_impl text = None /\ parse_constructor re_ctor text = None /\
  parse_immutable re_imm text = false /\ parse_testonly re_tonl text = false /\
  parse_packageonly re_pkgo text = None.

Lemma type_line_unrecognised cur imps spec text : unrecognised text -> type_line cur imps spec text = no_annots.
Proof.
  intros (H1 & H2 & H3 & H4 & H5). unfold Annots.type_line.
  destruct (negb (prefilter keywords text)); [reflexivity|].
  rewrite H1, H2, H3, H4, H5. rewrite !andb_false_r.
  destruct (str_contains text "@implements"), (str_contains text "@constructor"), (str_contains text "@packageonly"); reflexivity.
Qed.

Lemma func_line_unrecognised cur fd text : unrecognised text -> func_line cur fd text = no_annots.
Proof.
  intros (_ & _ & _ & H4 & H5). unfold Annots.func_line.
  destruct (negb (prefilter keywords text)); [reflexivity|].
  rewrite H4, H5. rewrite !andb_false_r.
  destruct (if a_flag (n_attrs fd) then _ else _) as [k rt].
  destruct (str_contains text "@packageonly"); reflexivity.
Qed.

Lemma concat_no_annots {A} (f : A -> annots) l : (forall x, In x l -> f x = no_annots) -> concat_annots (map f l) = no_annots.
Proof.
  induction l as [|x l IH]; intros H; simpl; [reflexivity|].
  rewrite (H x (or_introl eq_refl)), IH by (intros y Hy; apply H; right; exact Hy). reflexivity.
Qed.

(* the doc lines the reader looks at: those of top-level type declarations (group or spec) and of functions *)
Definition decl_doc_lines (d : node) : list string :=
  match n_kind d with
  | KGenDecl =>
      (match doc_lines d with Some l => l | None => [] end) ++
      flat_map (fun spec => match doc_lines spec with Some l => l | None => [] end) (n_children d)
  | KFuncDecl => match doc_lines d with Some l => l | None => [] end
  | _ => []
  end.

Definition package_doc_lines (cfg : config) (p : package) : list string :=
  flat_map (fun f => flat_map decl_doc_lines (f_decls f)) (kept_files cfg p).

Lemma type_decl_silent cur imps d :
  (forall t, In t (decl_doc_lines d) -> unrecognised t) -> type_decl_annots re_impl re_ctor re_imm re_tonl re_mut re_pkgo keywords cur imps d = no_annots.
Proof.
  intros H. unfold type_decl_annots.
  destruct (kind_eqb (n_kind d) KGenDecl && String.eqb (a_tok (n_attrs d)) "type") eqn:E; [|reflexivity].
  apply andb_true_iff in E. destruct E as [Ek _].
  assert (Hk : n_kind d = KGenDecl) by (destruct (n_kind d); try discriminate; reflexivity).
  unfold decl_doc_lines in H. rewrite Hk in H.
  apply concat_no_annots. intros spec Hs.
  destruct (kind_eqb (n_kind spec) KTypeSpec); [|reflexivity].
  destruct (if a_flag (n_attrs spec) then doc_lines spec else None) as [l|] eqn:E1.
  - apply concat_no_annots. intros t Ht. apply type_line_unrecognised. apply H. apply in_or_app. right.
    apply in_flat_map. exists spec. split; [exact Hs|]. destruct (a_flag (n_attrs spec)); [rewrite E1; exact Ht|discriminate].
  - destruct (doc_lines d) as [l|] eqn:E2; [|reflexivity].
    apply concat_no_annots. intros t Ht. apply type_line_unrecognised. apply H. apply in_or_app. left. exact Ht.
Qed.

Lemma func_decl_silent cur d :
  (forall t, In t (decl_doc_lines d) -> unrecognised t) -> func_decl_annots re_tonl re_pkgo keywords cur d = no_annots.
Proof.
  intros H. unfold func_decl_annots. destruct (kind_eqb (n_kind d) KFuncDecl) eqn:E; [|reflexivity].
  assert (Hk : n_kind d = KFuncDecl) by (destruct (n_kind d); try discriminate; reflexivity).
  unfold decl_doc_lines in H. rewrite Hk in H.
  destruct (doc_lines d) as [l|]; [|reflexivity].
  apply concat_no_annots. intros t Ht. apply func_line_unrecognised. apply H. exact Ht.
Qed.

Theorem read_all_silent cfg p :
  (forall t, In t (package_doc_lines cfg p) -> unrecognised t) -> read_all cfg p = no_annots.
Proof.
  intros H. unfold Annots.read_all. apply concat_no_annots. intros f Hf. unfold file_annots.
  assert (Hd : forall d, In d (f_decls f) -> forall t, In t (decl_doc_lines d) -> unrecognised t).
  { intros d Hd t Ht. apply H. unfold package_doc_lines. apply in_flat_map. exists f. split; [exact Hf|].
    apply in_flat_map. exists d. split; assumption. }
  rewrite (concat_no_annots (type_decl_annots re_impl re_ctor re_imm re_tonl re_mut re_pkgo keywords (p_path p) (f_imports f)) (f_decls f))
    by (intros d Hdd; apply type_decl_silent; apply Hd; exact Hdd).
  rewrite (concat_no_annots (func_decl_annots re_tonl re_pkgo keywords (p_path p)) (f_decls f))
    by (intros d Hdd; apply func_decl_silent; apply Hd; exact Hdd).
  reflexivity.
Qed.

End Reader.

(* with empty annotation sets everywhere, every checker returns nothing, whatever the code contains *)
Section Silent.
Variable fs : facts.
Hypothesis all_empty : forall pa, In pa fs -> annots_empty (snd pa) = true.

Lemma empty_fields pa : In pa fs ->
  an_imm (snd pa) = [] /\ an_ctor (snd pa) = [] /\ an_tonl (snd pa) = [] /\ an_pkgo (snd pa) = [] /\ an_mut (snd pa) = [] /\ an_impl (snd pa) = [].
Proof.
  intros H. specialize (all_empty pa H). unfold annots_empty in all_empty.
  destruct (an_impl (snd pa)), (an_ctor (snd pa)), (an_imm (snd pa)), (an_tonl (snd pa)), (an_mut (snd pa)), (an_pkgo (snd pa)); try discriminate.
  repeat split; reflexivity.
Qed.

Theorem silent_imm cur files : imm_candidates fs cur files = [].
Proof.
  unfold imm_candidates. replace (imm_index_empty fs) with true; [reflexivity|].
  symmetry. unfold imm_index_empty. apply forallb_forall. intros pa H. destruct (empty_fields pa H) as (-> & _). reflexivity.
Qed.

Theorem silent_ctor cur files : ctor_candidates fs cur files = [].
Proof.
  unfold ctor_candidates. replace (ctor_index_empty fs) with true; [reflexivity|].
  symmetry. unfold ctor_index_empty. apply forallb_forall. intros pa H. destruct (empty_fields pa H) as (_ & -> & _). reflexivity.
Qed.

Lemma tonl_has_false k : tonl_has k fs = false.
Proof.
  unfold tonl_has. apply not_true_is_false. intros H. apply existsb_exists in H. destruct H as [pa [Hpa H]].
  destruct (empty_fields pa Hpa) as (_ & _ & E & _). rewrite E in H. discriminate.
Qed.

Theorem silent_tonl cur sup files : tonl_diags fs cur sup files = [].
Proof. unfold tonl_diags. rewrite !tonl_has_false. reflexivity. Qed.

Theorem silent_pkgo cur curname sup files : pkgo_diags fs cur curname sup files = [].
Proof.
  unfold pkgo_diags. replace (pkgo_index_empty fs) with true; [reflexivity|].
  symmetry. unfold pkgo_index_empty. apply forallb_forall. intros pa H. destruct (empty_fields pa H) as (_ & _ & _ & -> & _). reflexivity.
Qed.

End Silent.
