(* C01 / C02: what exactly the per-node checks of the immutable and constructor checkers report,
   as relations written from the properties' text, and the index lookups they rest on. *)
From Coq Require Import List String ZArith Bool Lia.
From GG Require Import Base.Strs Model.GoAst Model.Annots Model.Analyze Proofs.WalkProofs.
Import ListNotations.
Local Open Scope Z_scope.
Local Open Scope string_scope.

Lemma fold_left_ext_eq {A B} (f g : A -> B -> A) l a : (forall a x, f a x = g a x) -> fold_left f l a = fold_left g l a.
Proof. intros H. revert a. induction l as [|x l IH]; intros a; simpl; [reflexivity|]. rewrite H. apply IH. Qed.

(* ---------- the indices mean what the annotations say ---------- *)
Section Index.
Variable fs : facts.

(* an annotation set of package [pkg] among the analysed package and its direct imports *)
Definition has_facts (pkg : string) (a : annots) : Prop := In (pkg, a) fs.

Lemma facts_for_In pkg a : In a (facts_for fs pkg) <-> has_facts pkg a.
Proof.
  unfold facts_for, has_facts. rewrite in_map_iff. split.
  - intros [[p a'] [<- H]]. apply filter_In in H. destruct H as [H1 H2]. simpl in *. apply String.eqb_eq in H2. subst. exact H1.
  - intros H. exists (pkg, a). split; [reflexivity|]. apply filter_In. split; [exact H|]. simpl. apply String.eqb_refl.
Qed.

Theorem imm_contains_spec pkg tn :
  imm_contains fs pkg tn = true <-> exists a i, has_facts pkg a /\ In i (an_imm a) /\ ima_type i = tn.
Proof.
  unfold imm_contains. rewrite existsb_exists. split.
  - intros [a [Ha H]]. apply existsb_exists in H. destruct H as [i [Hi He]]. apply String.eqb_eq in He.
    exists a, i. split; [apply facts_for_In; exact Ha|]. split; assumption.
  - intros (a & i & Ha & Hi & He). exists a. split; [apply facts_for_In; exact Ha|].
    apply existsb_exists. exists i. split; [exact Hi|]. apply String.eqb_eq. exact He.
Qed.

Theorem ctor_names_spec pkg tn fn :
  In fn (ctor_names fs pkg tn) <-> exists a c, has_facts pkg a /\ In c (an_ctor a) /\ ca_type c = tn /\ In fn (ca_names c).
Proof.
  unfold ctor_names. rewrite in_flat_map. split.
  - intros [a [Ha H]]. apply in_flat_map in H. destruct H as [c [Hc H]].
    destruct (String.eqb (ca_type c) tn) eqn:E; [|contradiction]. apply String.eqb_eq in E.
    exists a, c. split; [apply facts_for_In; exact Ha|]. repeat split; assumption.
  - intros (a & c & Ha & Hc & Et & Hn). exists a. split; [apply facts_for_In; exact Ha|].
    apply in_flat_map. exists c. split; [exact Hc|]. rewrite <- Et, String.eqb_refl. exact Hn.
Qed.

Theorem ctor_match_spec pkg fn tn : ctor_match fs pkg fn tn = true <-> In fn (ctor_names fs pkg tn).
Proof. unfold ctor_match. apply str_mem_In. Qed.

Theorem ctor_has_type_spec pkg tn : ctor_has_type fs pkg tn = true <-> exists fn, In fn (ctor_names fs pkg tn).
Proof.
  unfold ctor_has_type. destruct (ctor_names fs pkg tn) as [|x l]; split.
  - discriminate.
  - intros [fn []].
  - intros _. exists x. left; reflexivity.
  - reflexivity.
Qed.

Theorem mut_match_spec pkg field tn :
  mut_match fs pkg field tn = true <-> exists a m, has_facts pkg a /\ In m (an_mut a) /\ ma_type m = tn /\ ma_field m = field.
Proof.
  unfold mut_match. rewrite existsb_exists. split.
  - intros [a [Ha H]]. apply existsb_exists in H. destruct H as [m [Hm He]]. apply andb_true_iff in He.
    destruct He as [E1 E2]. apply String.eqb_eq in E1, E2.
    exists a, m. split; [apply facts_for_In; exact Ha|]. repeat split; assumption.
  - intros (a & m & Ha & Hm & E1 & E2). exists a. split; [apply facts_for_In; exact Ha|].
    apply existsb_exists. exists m. split; [exact Hm|]. rewrite E1, E2, !String.eqb_refl. reflexivity.
Qed.

End Index.

(* ---------- C01: the immutable check of one node ---------- *)
Section Imm.
Variable fs : facts.
Variable cur_pkg : string.

Notation in_ctor := (in_ctor fs cur_pkg).
Notation imm_field_target := (imm_field_target fs cur_pkg).
Notation imm_recv_target := (imm_recv_target fs cur_pkg).
Notation imm_check_node := (imm_check_node fs cur_pkg).

(* "inside a function named as @constructor of that type, in the type's own package" *)
Definition exempt (st : imm_state) (pkg tn : string) : Prop :=
  cur_pkg = pkg /\ In (is_fn st) (ctor_names fs pkg tn).

Lemma in_ctor_spec st pkg tn : in_ctor st pkg tn = true <-> exempt st pkg tn.
Proof.
  unfold Analyze.in_ctor, exempt. rewrite andb_true_iff, String.eqb_eq, ctor_match_spec. reflexivity.
Qed.

(* a write through selector [sel] = x.f hits an immutable field of type (pkg, tn) *)
Definition field_target (st : imm_state) (sel : node) (tn : string) : Prop :=
  exists pkg, type_info (a_ty (n_attrs sel)) = Some (pkg, tn) /\
              imm_contains fs pkg tn = true /\ ~ exempt st pkg tn /\
              mut_match fs pkg (a_name (n_attrs sel)) tn = false.

Lemma imm_field_target_spec st sel tn : imm_field_target st sel = Some tn <-> field_target st sel tn.
Proof.
  unfold Analyze.imm_field_target, field_target.
  destruct (type_info (a_ty (n_attrs sel))) as [[p t]|]; [|split; [discriminate|intros [pkg [H _]]; discriminate]].
  destruct (imm_contains fs p t) eqn:E1; simpl.
  - destruct (in_ctor st p t) eqn:E2; simpl.
    + split; [discriminate|]. intros [pkg (H & _ & Hn & _)]. inversion H; subst. exfalso. apply Hn. apply in_ctor_spec. exact E2.
    + destruct (mut_match fs p (a_name (n_attrs sel)) t) eqn:E3; simpl.
      * split; [discriminate|]. intros [pkg (H & _ & _ & Hm)]. inversion H; subst. rewrite E3 in Hm. discriminate.
      * split.
        -- intros H; inversion H; subst. exists p. repeat split; try assumption.
           intros Hx. apply in_ctor_spec in Hx. rewrite Hx in E2. discriminate.
        -- intros [pkg (H & _)]. inversion H; subst. reflexivity.
  - split; [discriminate|]. intros [pkg (H & Hc & _)]. inversion H; subst. rewrite E1 in Hc. discriminate.
Qed.

(* [*r] where r is the receiver object of the enclosing method, whose type (pkg, tn) is immutable *)
Definition recv_target (st : imm_state) (star : node) (tn : string) : Prop :=
  exists ri x rest,
    is_recv st = Some ri /\ n_children star = x :: rest /\ n_kind x = KIdent /\
    a_name (n_attrs x) = ri_name ri /\ obj_id (a_obj (n_attrs x)) = ri_obj ri /\
    ri_type ri = tn /\ imm_contains fs (ri_pkg ri) tn = true /\ ~ exempt st (ri_pkg ri) tn.

Lemma imm_recv_target_spec st star tn : imm_recv_target st star = Some tn <-> recv_target st star tn.
Proof.
  unfold Analyze.imm_recv_target, recv_target.
  destruct (is_recv st) as [ri|]; [|split; [discriminate|intros (ri & x & r & H & _); discriminate]].
  destruct (n_children star) as [|x rest]; [split; [discriminate|intros (ri' & x & r & _ & H & _); discriminate]|].
  destruct (n_kind x) eqn:Ek;
    try (split; [discriminate|intros (ri' & x' & r & _ & H & Hk & _); inversion H; subst; rewrite Ek in Hk; discriminate]).
  destruct (String.eqb (a_name (n_attrs x)) (ri_name ri)) eqn:E1; simpl.
  2:{ split; [discriminate|]. intros (ri' & x' & r & H0 & H & _ & Hn & _). inversion H0; inversion H; subst.
      rewrite Hn, String.eqb_refl in E1. discriminate. }
  destruct (Z.eqb (obj_id (a_obj (n_attrs x))) (ri_obj ri)) eqn:E2; simpl.
  2:{ split; [discriminate|]. intros (ri' & x' & r & H0 & H & _ & _ & Ho & _). inversion H0; inversion H; subst.
      rewrite Ho, Z.eqb_refl in E2. discriminate. }
  destruct (imm_contains fs (ri_pkg ri) (ri_type ri)) eqn:E3; simpl.
  2:{ split; [discriminate|]. intros (ri' & x' & r & H0 & H & _ & _ & _ & Ht & Hc & _). inversion H0; inversion H; subst.
      rewrite E3 in Hc. discriminate. }
  destruct (in_ctor st (ri_pkg ri) (ri_type ri)) eqn:E4; simpl.
  - split; [discriminate|]. intros (ri' & x' & r & H0 & H & _ & _ & _ & Ht & _ & Hn). inversion H0; inversion H; subst.
    exfalso. apply Hn. apply in_ctor_spec. exact E4.
  - split.
    + intros H; inversion H; subst. exists ri, x, rest. apply String.eqb_eq in E1. apply Z.eqb_eq in E2.
      repeat split; try assumption; try reflexivity.
      intros Hx. apply in_ctor_spec in Hx. rewrite Hx in E4. discriminate.
    + intros (ri' & x' & r & H0 & H & _ & _ & _ & Ht & _). inversion H0; subst. reflexivity.
Qed.

(* what the immutable checker reports at one statement, from the property's text *)
Inductive imm_reports (st : imm_state) (n : node) : Z -> string -> Prop :=
| IR_assign lhs tn :
    n_kind n = KAssignStmt -> a_tok (n_attrs n) = "=" -> In lhs (firstn (a_n (n_attrs n)) (n_children n)) ->
    n_kind lhs = KSelectorExpr -> field_target st lhs tn -> imm_reports st n (n_pos lhs) "IMM01"
| IR_index lhs x rest tn :
    n_kind n = KAssignStmt -> a_tok (n_attrs n) = "=" -> In lhs (firstn (a_n (n_attrs n)) (n_children n)) ->
    n_kind lhs = KIndexExpr -> n_children lhs = x :: rest -> n_kind x = KSelectorExpr -> field_target st x tn ->
    imm_reports st n (n_pos lhs) "IMM04"
| IR_recv lhs tn :
    n_kind n = KAssignStmt -> a_tok (n_attrs n) = "=" -> In lhs (firstn (a_n (n_attrs n)) (n_children n)) ->
    n_kind lhs = KStarExpr -> recv_target st lhs tn -> imm_reports st n (n_pos lhs) "IMM01"
| IR_compound lhs tn :
    n_kind n = KAssignStmt -> a_tok (n_attrs n) <> "=" -> In lhs (firstn (a_n (n_attrs n)) (n_children n)) ->
    n_kind lhs = KSelectorExpr -> field_target st lhs tn -> imm_reports st n (n_pos lhs) "IMM02"
| IR_incdec x rest tn :
    n_kind n = KIncDecStmt -> n_children n = x :: rest -> n_kind x = KSelectorExpr -> field_target st x tn ->
    imm_reports st n (n_pos n) "IMM03"
| IR_incdec_recv x rest tn :
    n_kind n = KIncDecStmt -> n_children n = x :: rest -> n_kind x = KStarExpr -> recv_target st x tn ->
    imm_reports st n (n_pos x) "IMM03".

Definition reported (ds : list diag) (pos : Z) (code : string) : Prop :=
  exists d, In d ds /\ d_pos d = pos /\ d_code d = code.

Lemma reported_nil pos code : ~ reported [] pos code.
Proof. intros [d [[] _]]. Qed.

Lemma reported_single d pos code : reported [d] pos code <-> d_pos d = pos /\ d_code d = code.
Proof.
  unfold reported. split.
  - intros [d' [[<-|[]] H]]. exact H.
  - intros H. exists d. split; [left; reflexivity|exact H].
Qed.

Lemma reported_flat_map {A} (f : A -> list diag) l pos code :
  reported (flat_map f l) pos code <-> exists x, In x l /\ reported (f x) pos code.
Proof.
  unfold reported. split.
  - intros [d [Hd H]]. apply in_flat_map in Hd. destruct Hd as [x [Hx Hd]]. exists x. split; [exact Hx|]. exists d. split; assumption.
  - intros [x [Hx [d [Hd H]]]]. exists d. split; [apply in_flat_map; exists x; split; assumption|exact H].
Qed.

Lemma check_lhs_spec st lhs pos code :
  reported (imm_check_lhs fs cur_pkg st lhs) pos code <->
  (n_kind lhs = KSelectorExpr /\ (exists tn, field_target st lhs tn) /\ pos = n_pos lhs /\ code = "IMM01") \/
  (n_kind lhs = KIndexExpr /\ (exists x rest tn, n_children lhs = x :: rest /\ n_kind x = KSelectorExpr /\ field_target st x tn)
   /\ pos = n_pos lhs /\ code = "IMM04") \/
  (n_kind lhs = KStarExpr /\ (exists tn, recv_target st lhs tn) /\ pos = n_pos lhs /\ code = "IMM01").
Proof.
  unfold imm_check_lhs. destruct (n_kind lhs) eqn:Ek;
    try (split; [intros H; destruct (reported_nil _ _ H)|intros [[H _]|[[H _]|[H _]]]; discriminate]).
  - (* selector *)
    destruct (imm_field_target st lhs) as [t|] eqn:E.
    + rewrite reported_single. simpl. split.
      * intros [<- <-]. left. split; [reflexivity|]. split; [exists t; apply imm_field_target_spec; exact E|auto].
      * intros [[_ (_ & -> & ->)]|[[H _]|[H _]]]; [auto|discriminate|discriminate].
    + split; [intros H; destruct (reported_nil _ _ H)|].
      intros [[_ ([tn Ht] & _)]|[[H _]|[H _]]]; [|discriminate|discriminate].
      apply imm_field_target_spec in Ht. rewrite Ht in E. discriminate.
  - (* index *)
    destruct (n_children lhs) as [|x rest] eqn:Ec.
    { split; [intros H; destruct (reported_nil _ _ H)|].
      intros [[H _]|[[_ ((x & r & tn & H & _) & _)]|[H _]]]; discriminate. }
    destruct (n_kind x) eqn:Ekx;
      try (split; [intros H; destruct (reported_nil _ _ H)|
                   intros [[H _]|[[_ ((x' & r & tn & H & Hk & _) & _)]|[H _]]]; try discriminate; inversion H; subst; rewrite Ekx in Hk; discriminate]).
    destruct (imm_field_target st x) as [t|] eqn:E.
    + rewrite reported_single. simpl. split.
      * intros [<- <-]. right. left. split; [reflexivity|]. split; [|auto].
        exists x, rest, t. split; [reflexivity|]. split; [exact Ekx|apply imm_field_target_spec; exact E].
      * intros [[H _]|[[_ (_ & -> & ->)]|[H _]]]; [discriminate|auto|discriminate].
    + split; [intros H; destruct (reported_nil _ _ H)|].
      intros [[H _]|[[_ ((x' & r & tn & H & _ & Ht) & _)]|[H _]]]; try discriminate.
      inversion H; subst. apply imm_field_target_spec in Ht. rewrite Ht in E. discriminate.
  - (* star *)
    destruct (imm_recv_target st lhs) as [t|] eqn:E.
    + rewrite reported_single. simpl. split.
      * intros [<- <-]. right. right. split; [reflexivity|]. split; [exists t; apply imm_recv_target_spec; exact E|auto].
      * intros [[H _]|[[H _]|[_ (_ & -> & ->)]]]; [discriminate|discriminate|auto].
    + split; [intros H; destruct (reported_nil _ _ H)|].
      intros [[H _]|[[H _]|[_ ([tn Ht] & _)]]]; try discriminate.
      apply imm_recv_target_spec in Ht. rewrite Ht in E. discriminate.
Qed.

Lemma check_compound_spec st tok lhs pos code :
  reported (imm_check_compound fs cur_pkg st tok lhs) pos code <->
  n_kind lhs = KSelectorExpr /\ (exists tn, field_target st lhs tn) /\ pos = n_pos lhs /\ code = "IMM02".
Proof.
  unfold imm_check_compound. destruct (n_kind lhs) eqn:Ek;
    try (split; [intros H; destruct (reported_nil _ _ H)|intros [H _]; discriminate]).
  destruct (imm_field_target st lhs) as [t|] eqn:E.
  - rewrite reported_single. simpl. split.
    + intros [<- <-]. split; [reflexivity|]. split; [exists t; apply imm_field_target_spec; exact E|auto].
    + intros (_ & _ & -> & ->). auto.
  - split; [intros H; destruct (reported_nil _ _ H)|]. intros (_ & [tn Ht] & _).
    apply imm_field_target_spec in Ht. rewrite Ht in E. discriminate.
Qed.

(* exactness of the per-statement check: reported iff the property's text says so *)
Theorem imm_check_node_exact st n pos code :
  reported (imm_check_node st n) pos code <-> imm_reports st n pos code.
Proof.
  unfold Analyze.imm_check_node. destruct (n_kind n) eqn:Ek;
    try (split; [intros H; destruct (reported_nil _ _ H)|intros H; inversion H; congruence]).
  - (* AssignStmt *)
    destruct (String.eqb_spec (a_tok (n_attrs n)) "=") as [Et|Et].
    + rewrite reported_flat_map. split.
      * intros [lhs [Hl H]]. apply check_lhs_spec in H.
        destruct H as [(Hk & [tn Ht] & -> & ->)|[(Hk & (x & r & tn & Hc & Hkx & Ht) & -> & ->)|(Hk & [tn Ht] & -> & ->)]].
        -- eapply IR_assign; eassumption.
        -- eapply IR_index; eassumption.
        -- eapply IR_recv; eassumption.
      * intros H. inversion H; subst; try congruence.
        -- exists lhs. split; [assumption|]. apply check_lhs_spec. left. split; [assumption|]. split; [exists tn; assumption|auto].
        -- exists lhs. split; [assumption|]. apply check_lhs_spec. right. left. split; [assumption|]. split; [|auto].
           exists x, rest, tn. auto.
        -- exists lhs. split; [assumption|]. apply check_lhs_spec. right. right. split; [assumption|]. split; [exists tn; assumption|auto].
    + rewrite reported_flat_map. split.
      * intros [lhs [Hl H]]. apply check_compound_spec in H. destruct H as (Hk & [tn Ht] & -> & ->).
        eapply IR_compound; eassumption.
      * intros H. inversion H; subst; try congruence.
        exists lhs. split; [assumption|]. apply check_compound_spec. split; [assumption|]. split; [exists tn; assumption|auto].
  - (* IncDecStmt *)
    destruct (n_children n) as [|x rest] eqn:Ec.
    { split; [intros H; destruct (reported_nil _ _ H)|intros H; inversion H; congruence]. }
    assert (Hback : imm_reports st n pos code ->
                    (n_kind x = KSelectorExpr /\ (exists tn, field_target st x tn) /\ pos = n_pos n /\ code = "IMM03") \/
                    (n_kind x = KStarExpr /\ (exists tn, recv_target st x tn) /\ pos = n_pos x /\ code = "IMM03")).
    { intros H. inversion H; subst; try congruence.
      - left. match goal with Hc : n_children n = _ :: _ |- _ => rewrite Ec in Hc; inversion Hc; subst end. eauto.
      - right. match goal with Hc : n_children n = _ :: _ |- _ => rewrite Ec in Hc; inversion Hc; subst end. eauto. }
    destruct (n_kind x) eqn:Ekx;
      try (split; [intros H; destruct (reported_nil _ _ H)|intros H; destruct (Hback H) as [[Hk _]|[Hk _]]; discriminate]).
    + destruct (imm_field_target st x) as [t|] eqn:E.
      * rewrite reported_single. cbn [d_pos d_code]. split.
        -- intros [<- <-]. eapply IR_incdec; [exact Ek|exact Ec|exact Ekx|apply imm_field_target_spec; exact E].
        -- intros H. destruct (Hback H) as [(_ & _ & -> & ->)|[Hk _]]; [auto|discriminate].
      * split; [intros H; destruct (reported_nil _ _ H)|]. intros H.
        destruct (Hback H) as [(_ & [tn Ht] & _)|[Hk _]]; [|discriminate].
        apply imm_field_target_spec in Ht. rewrite Ht in E. discriminate.
    + destruct (imm_recv_target st x) as [t|] eqn:E.
      * rewrite reported_single. cbn [d_pos d_code]. split.
        -- intros [<- <-]. eapply IR_incdec_recv; [exact Ek|exact Ec|exact Ekx|apply imm_recv_target_spec; exact E].
        -- intros H. destruct (Hback H) as [[Hk _]|(_ & _ & -> & ->)]; [discriminate|auto].
      * split; [intros H; destruct (reported_nil _ _ H)|]. intros H.
        destruct (Hback H) as [[Hk _]|(_ & [tn Ht] & _)]; [discriminate|].
        apply imm_recv_target_spec in Ht. rewrite Ht in E. discriminate.
Qed.

Lemma imm_check_node_funcdecl st n : n_kind n = KFuncDecl -> imm_check_node st n = [].
Proof. intros H. unfold Analyze.imm_check_node. rewrite H. reflexivity. Qed.

(* the context of a top-level declaration *)
Definition imm_init : imm_state := {| is_fn := ""; is_recv := None |}.
Definition imm_upd (n : node) : imm_state := {| is_fn := a_name (n_attrs n); is_recv := extract_recv_info n |}.
Definition imm_ctx (d : node) : imm_state := decl_state imm_state imm_upd imm_init d.

Theorem imm_decl_is_flat_map d :
  no_inner_funcdecl d -> imm_decl fs cur_pkg d = flat_map (imm_check_node (imm_ctx d)) (preorder d).
Proof.
  intros H. unfold imm_decl, imm_ctx.
  rewrite <- (walk_is_flat_map imm_state diag imm_upd imm_check_node imm_check_node_funcdecl imm_init d H).
  reflexivity.
Qed.

End Imm.

(* ---------- C02: the constructor check of one node ---------- *)
Section Ctor.
Variable fs : facts.
Variable cur_pkg : string.

(* the type (pkg, tn) may not be instantiated in function [fn] of the analysed package *)
Definition ctor_forbidden (fn pkg tn : string) : Prop :=
  (exists c, In c (ctor_names fs pkg tn)) /\ ~ (cur_pkg = pkg /\ In fn (ctor_names fs pkg tn)).

Lemma ctor_viol_spec fn t pos code reason p c :
  reported (ctor_viol fs cur_pkg fn t pos code reason) p c <->
  exists pkg tn, t = Some (pkg, tn) /\ ctor_forbidden fn pkg tn /\ p = pos /\ c = code.
Proof.
  unfold ctor_viol. destruct t as [[pkg tn]|].
  2:{ split; [intros H; destruct (reported_nil _ _ H)|intros (pkg & tn & H & _); discriminate]. }
  destruct (ctor_has_type fs pkg tn) eqn:E1; simpl.
  - destruct (String.eqb cur_pkg pkg && ctor_match fs pkg fn tn) eqn:E2; simpl.
    + split; [intros H; destruct (reported_nil _ _ H)|]. intros (pkg' & tn' & H & [_ Hn] & _). inversion H; subst.
      exfalso. apply Hn. apply andb_true_iff in E2. destruct E2 as [Ea Eb]. apply String.eqb_eq in Ea. apply ctor_match_spec in Eb. auto.
    + rewrite reported_single. cbn [d_pos d_code]. split.
      * intros [<- <-]. exists pkg, tn. split; [reflexivity|]. split; [|auto]. split; [apply ctor_has_type_spec; exact E1|].
        intros [Ha Hb]. apply andb_false_iff in E2. destruct E2 as [E2|E2].
        -- apply String.eqb_neq in E2. contradiction.
        -- apply ctor_match_spec in Hb. rewrite Hb in E2. discriminate.
      * intros (pkg' & tn' & H & _ & -> & ->). auto.
  - split; [intros H; destruct (reported_nil _ _ H)|]. intros (pkg' & tn' & H & [Hh _] & _). inversion H; subst.
    apply ctor_has_type_spec in Hh. rewrite Hh in E1. discriminate.
Qed.

(* what the constructor checker reports at one node, from the property's text *)
Inductive ctor_reports (fn : string) (n : node) : Z -> string -> Prop :=
| CR_lit pkg tn :
    n_kind n = KCompositeLit -> type_info (a_ty (n_attrs n)) = Some (pkg, tn) -> ctor_forbidden fn pkg tn ->
    ctor_reports fn n (n_pos n) "CTOR01"
| CR_new f rest pkg tn :
    n_kind n = KCallExpr -> n_children n = f :: rest -> n_kind f = KIdent -> a_name (n_attrs f) = "new" ->
    a_n (n_attrs n) = 1%nat -> type_info (a_ty (n_attrs n)) = Some (pkg, tn) -> ctor_forbidden fn pkg tn ->
    ctor_reports fn n (n_pos n) "CTOR02"
| CR_var spec nm pkg tn :
    n_kind n = KGenDecl -> a_tok (n_attrs n) = "var" -> In spec (n_children n) -> n_kind spec = KValueSpec ->
    a_m (n_attrs spec) = 0%nat ->                                   (* no initialiser *)
    In nm (firstn (a_n (n_attrs spec)) (plain_children spec)) -> a_name (n_attrs nm) <> "_" ->
    named_direct (a_ty (n_attrs nm)) = Some (pkg, tn) ->             (* a defined type itself, not a pointer to one *)
    ctor_forbidden fn pkg tn ->
    ctor_reports fn n (n_pos nm) "CTOR03".

Theorem ctor_check_node_exact fn n pos code :
  reported (ctor_check_node fs cur_pkg fn n) pos code <-> ctor_reports fn n pos code.
Proof.
  unfold ctor_check_node. destruct (n_kind n) eqn:Ek;
    try (split; [intros H; destruct (reported_nil _ _ H)|intros H; inversion H; congruence]).
  - (* GenDecl *)
    destruct (String.eqb_spec (a_tok (n_attrs n)) "var") as [Et|Et].
    2:{ split; [intros H; destruct (reported_nil _ _ H)|intros H; inversion H; congruence]. }
    rewrite reported_flat_map. split.
    + intros [spec [Hs H]].
      destruct (kind_eqb (n_kind spec) KValueSpec && Nat.eqb (a_m (n_attrs spec)) 0) eqn:E;
        [|destruct (reported_nil _ _ H)].
      apply andb_true_iff in E. destruct E as [E1 E2]. apply kind_eqb_eq in E1. apply PeanoNat.Nat.eqb_eq in E2.
      apply reported_flat_map in H. destruct H as [nm [Hn H]].
      destruct (String.eqb_spec (a_name (n_attrs nm)) "_") as [Eb|Eb]; [destruct (reported_nil _ _ H)|].
      apply ctor_viol_spec in H. destruct H as (pkg & tn & Ht & Hf & -> & ->).
      eapply CR_var; eassumption.
    + intros H. inversion H; subst; try congruence.
      exists spec. split; [assumption|].
      replace (kind_eqb (n_kind spec) KValueSpec && Nat.eqb (a_m (n_attrs spec)) 0) with true
        by (symmetry; apply andb_true_iff; split; [apply kind_eqb_eq; assumption|apply PeanoNat.Nat.eqb_eq; assumption]).
      apply reported_flat_map. exists nm. split; [assumption|].
      destruct (String.eqb_spec (a_name (n_attrs nm)) "_") as [Eb|Eb]; [contradiction|].
      apply ctor_viol_spec. exists pkg, tn. auto.
  - (* CompositeLit *)
    rewrite ctor_viol_spec. split.
    + intros (pkg & tn & Ht & Hf & -> & ->). eapply CR_lit; eassumption.
    + intros H. inversion H; subst; try congruence. exists pkg, tn. auto.
  - (* CallExpr *)
    destruct (n_children n) as [|f rest] eqn:Ec.
    { split; [intros H; destruct (reported_nil _ _ H)|intros H; inversion H; congruence]. }
    assert (Hback : ctor_reports fn n pos code ->
              n_kind f = KIdent /\ a_name (n_attrs f) = "new" /\ a_n (n_attrs n) = 1%nat /\
              exists pkg tn, type_info (a_ty (n_attrs n)) = Some (pkg, tn) /\ ctor_forbidden fn pkg tn /\ pos = n_pos n /\ code = "CTOR02").
    { intros H. inversion H; subst; try congruence.
      match goal with Hc : n_children n = _ :: _ |- _ => rewrite Ec in Hc; inversion Hc; subst end.
      repeat split; try assumption. exists pkg, tn. auto. }
    destruct (n_kind f) eqn:Ekf;
      try (split; [intros H; destruct (reported_nil _ _ H)|intros H; destruct (Hback H) as [Hk _]; discriminate]).
    destruct (String.eqb (a_name (n_attrs f)) "new" && Nat.eqb (a_n (n_attrs n)) 1) eqn:E.
    + apply andb_true_iff in E. destruct E as [E1 E2]. apply String.eqb_eq in E1. apply PeanoNat.Nat.eqb_eq in E2.
      rewrite ctor_viol_spec. split.
      * intros (pkg & tn & Ht & Hf & -> & ->). eapply CR_new; eassumption.
      * intros H. destruct (Hback H) as (_ & _ & _ & pkg & tn & Ht & Hf & -> & ->). exists pkg, tn. auto.
    + split; [intros H; destruct (reported_nil _ _ H)|]. intros H. destruct (Hback H) as (_ & Hn & Ha & _).
      rewrite Hn, Ha in E. discriminate.
Qed.

Lemma ctor_check_node_funcdecl fn n : n_kind n = KFuncDecl -> ctor_check_node fs cur_pkg fn n = [].
Proof. intros H. unfold ctor_check_node. rewrite H. reflexivity. Qed.

Definition ctor_ctx (d : node) : string := decl_state string (fun n => a_name (n_attrs n)) "" d.

Theorem ctor_decl_is_flat_map d :
  no_inner_funcdecl d -> ctor_decl fs cur_pkg d = flat_map (ctor_check_node fs cur_pkg (ctor_ctx d)) (preorder d).
Proof.
  intros H. unfold ctor_decl, ctor_ctx.
  rewrite <- (walk_is_flat_map string diag (fun n => a_name (n_attrs n)) (ctor_check_node fs cur_pkg) ctor_check_node_funcdecl "" d H).
  reflexivity.
Qed.

End Ctor.

(* ---------- C03 / C04: candidates, pruning, once-per-file ---------- *)
Section TonlPkgo.
Variable fs : facts.
Variable cur_pkg cur_name : string.
Variable suppressed : string -> Z -> bool.

(* pruning: under a top-level declaration without nested FuncDecl only the root can be pruned *)
Lemma preorder_pruned_all keep n :
  (forall x, In x (preorder n) -> keep x = true) -> preorder_pruned keep n = preorder n.
Proof.
  induction n as [k p e a cs IH] using node_ind'. intros H.
  cbn [preorder_pruned preorder].
  rewrite (H (Node k p e a cs)) by (rewrite preorder_unfold; left; reflexivity).
  f_equal. rewrite Forall_forall in IH.
  assert (Hc : forall c, In c cs -> forall x, In x (preorder c) -> keep x = true).
  { intros c Hc x Hx. apply H. rewrite preorder_unfold. right. cbn [n_children].
    unfold preorder_list. apply in_flat_map. exists c. split; assumption. }
  clear H. induction cs as [|c r IHr]; [reflexivity|].
  rewrite (IH c (or_introl eq_refl)) by (intros x Hx; apply (Hc c); [left; reflexivity|exact Hx]).
  f_equal. apply IHr.
  - intros c' Hc'. apply IH. right; exact Hc'.
  - intros c' Hc' x Hx. apply (Hc c'); [right; exact Hc'|exact Hx].
Qed.

Theorem tonl_walk_decl d :
  no_inner_funcdecl d ->
  preorder_pruned (tonl_keep fs cur_pkg) d =
  if tonl_keep fs cur_pkg d then preorder d else [d].
Proof.
  intros H. destruct d as [k p e a cs]. cbn [preorder_pruned].
  destruct (tonl_keep fs cur_pkg (Node k p e a cs)) eqn:Ek; [|reflexivity].
  rewrite preorder_unfold. f_equal. cbn [n_children]. unfold preorder_list.
  unfold no_inner_funcdecl in H. cbn [n_children] in H.
  assert (Hc : forall c, In c cs -> preorder_pruned (tonl_keep fs cur_pkg) c = preorder c).
  { intros c Hc. apply preorder_pruned_all. intros x Hx. unfold tonl_keep.
    assert (Hk : n_kind x <> KFuncDecl) by (apply H; unfold preorder_list; apply in_flat_map; exists c; split; assumption).
    destruct (n_kind x); try reflexivity. contradiction. }
  clear H Ek. induction cs as [|c r IH]; [reflexivity|].
  cbn [flat_map]. rewrite (Hc c (or_introl eq_refl)). f_equal. apply IH. intros; apply Hc; right; assumption.
Qed.

(* the body of a @testonly function or method is exempt: only the declaration node itself is visited *)
Theorem tonl_testonly_body_exempt d :
  n_kind d = KFuncDecl -> in_testonly_context fs cur_pkg d = true ->
  flat_map (tonl_cands fs) (preorder_pruned (tonl_keep fs cur_pkg) d) = [].
Proof.
  intros Hk Hc. destruct d as [k p e a cs]. cbn [preorder_pruned].
  unfold tonl_keep at 1. cbn [n_kind] in *. subst k. rewrite Hc. cbn [negb flat_map].
  unfold tonl_cands. cbn [n_kind]. reflexivity.
Qed.

(* a file: test files are exempt; otherwise ignore-first, once per (package, type) *)
Theorem tonl_file_spec f :
  tonl_file fs cur_pkg suppressed f =
  if has_suffix "_test.go" (f_name f) then []
  else dedup_rec suppressed [] (flat_map (tonl_cands fs) (flat_map (preorder_pruned (tonl_keep fs cur_pkg)) (f_decls f))).
Proof. unfold tonl_file. destruct (has_suffix "_test.go" (f_name f)); [reflexivity|apply dedup_report_rec]. Qed.

(* identifiers that merely share a name are never reported: a bare callee counts only if it RESOLVES to a
   package-level function (an object of kind Func with a package and no receiver) that is @testonly *)
Theorem tonl_bare_call_needs_function n f rest :
  n_kind n = KCallExpr -> n_children n = f :: rest -> n_kind f = KIdent ->
  (forall o, a_obj (n_attrs f) = Some o -> o_kind o <> OFunc \/ o_pkg o = None \/ o_is_method o = true \/
                                           (exists p, o_pkg o = Some p /\ tonl_func fs p (o_name o) = false)) ->
  tonl_cands fs n = [].
Proof.
  intros Hk Hc Hf H. unfold tonl_cands. rewrite Hk, Hc, Hf.
  destruct (a_obj (n_attrs f)) as [o|]; [|reflexivity].
  destruct (H o eq_refl) as [H1|[H1|[H1|[p [H1 H2]]]]].
  - destruct (o_kind o); try reflexivity. contradiction.
  - rewrite H1. destruct (o_kind o); reflexivity.
  - rewrite H1. destruct (o_kind o), (o_pkg o); reflexivity.
  - rewrite H1, H2. destruct (o_kind o); try reflexivity. rewrite andb_false_r. reflexivity.
Qed.

(* ---------- which nodes are @testonly candidates, exactly ---------- *)
Definition via_pkg (f : node) : option string :=
  match n_children f with
  | x :: _ => match n_kind x, a_obj (n_attrs x) with
              | KIdent, Some o => match o_kind o with OPkgName => Some (o_imported o) | _ => None end
              | _, _ => None
              end
  | [] => None
  end.

Definition cand01 (pos : Z) (p tn : string) : diag * option (string * string) :=
  ({| d_pos := pos; d_code := "TONL01"; d_msg := "[TONL01] type " ++ tn ++ " is marked @testonly and can only be used in test files" |}, Some (p, tn)).
Definition cand02 (pos : Z) (fn : string) : diag * option (string * string) :=
  ({| d_pos := pos; d_code := "TONL02"; d_msg := "[TONL02] function " ++ fn ++ " is marked @testonly and can only be called in test files" |}, None).
Definition cand03 (pos : Z) (mn tn : string) : diag * option (string * string) :=
  ({| d_pos := pos; d_code := "TONL03"; d_msg := "[TONL03] method " ++ mn ++ " on " ++ tn ++ " is marked @testonly and can only be called in test files" |}, None).

Definition tonl_candidate (n : node) (c : diag * option (string * string)) : Prop :=
  (* a call whose callee identifier RESOLVES to an annotated package-level function *)
  (n_kind n = KCallExpr /\ exists f rest o p, n_children n = f :: rest /\ n_kind f = KIdent /\ a_obj (n_attrs f) = Some o /\
      o_kind o = OFunc /\ o_pkg o = Some p /\ o_is_method o = false /\ tonl_func fs p (o_name o) = true /\ c = cand02 (n_pos n) (o_name o)) \/
  (* a call pkg.F of an annotated function of the imported package *)
  (n_kind n = KCallExpr /\ exists f rest p, n_children n = f :: rest /\ n_kind f = KSelectorExpr /\ via_pkg f = Some p /\
      tonl_func fs p (a_name (n_attrs f)) = true /\ c = cand02 (n_pos n) (a_name (n_attrs f))) \/
  (* a method call x.M() where the receiver type of the selected method - also one promoted through an embedded field - carries
     an annotated method M (for a call of a func-typed field: the defined type of x) *)
  (n_kind n = KCallExpr /\ exists f rest p tn, n_children n = f :: rest /\ n_kind f = KSelectorExpr /\ via_pkg f = None /\
      type_info (method_recv_type f) = Some (p, tn) /\ tonl_method fs p (a_name (n_attrs f)) tn = true /\ c = cand03 (n_pos n) (a_name (n_attrs f)) tn) \/
  (* a use of an annotated type: composite literal, typed var/const spec, field / parameter / result *)
  ((n_kind n = KCompositeLit \/ (n_kind n = KValueSpec /\ a_flag (n_attrs n) = true) \/ n_kind n = KField) /\
   exists p tn, type_info (a_ty (n_attrs n)) = Some (p, tn) /\ tonl_type fs p tn = true /\ c = cand01 (n_pos n) p tn).

Lemma tonl_type_cand_in t pos c :
  In c (tonl_type_cand fs t pos) <-> exists p tn, type_info t = Some (p, tn) /\ tonl_type fs p tn = true /\ c = cand01 pos p tn.
Proof.
  unfold tonl_type_cand. destruct (type_info t) as [[p tn]|].
  - destruct (tonl_type fs p tn) eqn:E.
    + split; [intros [<-|[]]; exists p, tn; auto|]. intros (p' & tn' & H & _ & ->). inversion H; subst. left. reflexivity.
    + split; [intros []|]. intros (p' & tn' & H & H2 & _). inversion H; subst. congruence.
  - split; [intros []|]. intros (p' & tn' & H & _). discriminate.
Qed.

(* the three kinds of call candidates, one at a time *)
Definition ident_cands (pos : Z) (f : node) : list (diag * option (string * string)) :=
  match a_obj (n_attrs f) with
  | Some o => match o_kind o, o_pkg o with
              | OFunc, Some p => if negb (o_is_method o) && tonl_func fs p (o_name o) then [cand02 pos (o_name o)] else []
              | _, _ => []
              end
  | None => []
  end.
Definition method_cands (pos : Z) (f : node) : list (diag * option (string * string)) :=
  match type_info (method_recv_type f) with
  | Some (p, tn) => if tonl_method fs p (a_name (n_attrs f)) tn then [cand03 pos (a_name (n_attrs f)) tn] else []
  | None => []
  end.
Definition sel_cands (pos : Z) (f : node) : list (diag * option (string * string)) :=
  match via_pkg f with
  | Some p => if tonl_func fs p (a_name (n_attrs f)) then [cand02 pos (a_name (n_attrs f))] else []
  | None => method_cands pos f
  end.
Definition call_cands (pos : Z) (f : node) : list (diag * option (string * string)) :=
  match n_kind f with KIdent => ident_cands pos f | KSelectorExpr => sel_cands pos f | _ => [] end.

Lemma tonl_cands_unfold n :
  tonl_cands fs n =
  match n_kind n with
  | KCallExpr => match n_children n with f :: _ => call_cands (n_pos n) f | [] => [] end
  | KCompositeLit => tonl_type_cand fs (a_ty (n_attrs n)) (n_pos n)
  | KValueSpec => if a_flag (n_attrs n) then tonl_type_cand fs (a_ty (n_attrs n)) (n_pos n) else []
  | KField => tonl_type_cand fs (a_ty (n_attrs n)) (n_pos n)
  | _ => []
  end.
Proof.
  unfold tonl_cands, call_cands, sel_cands, method_cands, ident_cands, via_pkg, tonl_func_diag, cand02, cand03.
  destruct (n_kind n); reflexivity.
Qed.

Lemma ident_cands_in pos f c :
  In c (ident_cands pos f) <->
  exists o p, a_obj (n_attrs f) = Some o /\ o_kind o = OFunc /\ o_pkg o = Some p /\ o_is_method o = false /\
              tonl_func fs p (o_name o) = true /\ c = cand02 pos (o_name o).
Proof.
  unfold ident_cands. destruct (a_obj (n_attrs f)) as [o|].
  - destruct (o_kind o) eqn:Ek; try (split; [intros []|intros (o' & p & H & Hk & _); inversion H; subst; congruence]).
    destruct (o_pkg o) as [p|] eqn:Ep; [|split; [intros []|intros (o' & p & H & _ & Hp & _); inversion H; subst; congruence]].
    destruct (negb (o_is_method o) && tonl_func fs p (o_name o)) eqn:Eb.
    + apply andb_true_iff in Eb. destruct Eb as [E1 E2]. apply negb_true_iff in E1. split.
      * intros [<-|[]]. exists o, p. auto 10.
      * intros (o' & p' & H & _ & _ & _ & _ & ->). inversion H; subst. left. reflexivity.
    + split; [intros []|]. intros (o' & p' & H & _ & Hp & Hm & Ht & _). inversion H; subst. rewrite Ep in Hp. inversion Hp; subst.
      rewrite Hm, Ht in Eb. discriminate.
  - split; [intros []|intros (o' & p & H & _); discriminate].
Qed.

Lemma method_cands_in pos f c :
  In c (method_cands pos f) <->
  exists p tn, type_info (method_recv_type f) = Some (p, tn) /\ tonl_method fs p (a_name (n_attrs f)) tn = true /\ c = cand03 pos (a_name (n_attrs f)) tn.
Proof.
  unfold method_cands. destruct (type_info (method_recv_type f)) as [[p tn]|].
  - destruct (tonl_method fs p (a_name (n_attrs f)) tn) eqn:E.
    + split; [intros [<-|[]]; exists p, tn; auto|]. intros (p' & tn' & H & _ & ->). inversion H; subst. left. reflexivity.
    + split; [intros []|]. intros (p' & tn' & H & H2 & _). inversion H; subst. congruence.
  - split; [intros []|intros (p & tn & H & _); discriminate].
Qed.

Lemma sel_cands_in pos f c :
  In c (sel_cands pos f) <->
  (exists p, via_pkg f = Some p /\ tonl_func fs p (a_name (n_attrs f)) = true /\ c = cand02 pos (a_name (n_attrs f))) \/
  (via_pkg f = None /\ exists p tn, type_info (method_recv_type f) = Some (p, tn) /\ tonl_method fs p (a_name (n_attrs f)) tn = true /\
                                     c = cand03 pos (a_name (n_attrs f)) tn).
Proof.
  unfold sel_cands. destruct (via_pkg f) as [p|].
  - destruct (tonl_func fs p (a_name (n_attrs f))) eqn:E.
    + split; [intros [<-|[]]; left; exists p; auto|]. intros [(p' & H & _ & ->)|(H & _)]; [|discriminate]. left. reflexivity.
    + split; [intros []|]. intros [(p' & H & H2 & _)|(H & _)]; [|discriminate]. inversion H; subst. congruence.
  - rewrite method_cands_in. split; [intros H; right; auto|]. intros [(p & H & _)|(_ & H)]; [discriminate|exact H].
Qed.

Theorem tonl_cands_spec n c : In c (tonl_cands fs n) <-> tonl_candidate n c.
Proof.
  rewrite tonl_cands_unfold. unfold tonl_candidate.
  destruct (n_kind n) eqn:Ek;
    try (split; [intros []|intros [(H & _)|[(H & _)|[(H & _)|([H|[(H & _)|H]] & _)]]]; discriminate]).
  - (* ValueSpec *)
    destruct (a_flag (n_attrs n)) eqn:Ef.
    + rewrite tonl_type_cand_in. split.
      * intros H. right. right. right. split; [right; left; auto|exact H].
      * intros [(H & _)|[(H & _)|[(H & _)|(_ & H)]]]; try discriminate. exact H.
    + split; [intros []|]. intros [(H & _)|[(H & _)|[(H & _)|([H|[(_ & H)|H]] & _)]]]; discriminate.
  - rewrite tonl_type_cand_in. split.
    + intros H. right. right. right. split; [right; right; reflexivity|exact H].
    + intros [(H & _)|[(H & _)|[(H & _)|(_ & H)]]]; try discriminate. exact H.
  - rewrite tonl_type_cand_in. split.
    + intros H. right. right. right. split; [left; reflexivity|exact H].
    + intros [(H & _)|[(H & _)|[(H & _)|(_ & H)]]]; try discriminate. exact H.
  - (* CallExpr *)
    destruct (n_children n) as [|f rest] eqn:Ec.
    + split; [intros []|]. intros [(_ & f & r & o & p & H & _)|[(_ & f & r & p & H & _)|[(_ & f & r & p & tn & H & _)|([H|[(H & _)|H]] & _)]]]; discriminate.
    + unfold call_cands. split.
      * destruct (n_kind f) eqn:Ekf; try (intros []).
        -- rewrite sel_cands_in. intros [(p & Hv & Ht & ->)|(Hv & p & tn & Hti & Hm & ->)].
           ++ right. left. split; [reflexivity|]. exists f, rest, p. auto 10.
           ++ right. right. left. split; [reflexivity|]. exists f, rest, p, tn. auto 10.
        -- rewrite ident_cands_in. intros (o & p & Ho & Hk & Hp & Hm & Ht & ->). left. split; [reflexivity|]. exists f, rest, o, p. auto 12.
      * intros [(_ & f' & r & o & p & H & Hk & Ho & Hok & Hp & Hm & Ht & ->)|[(_ & f' & r & p & H & Hk & Hv & Ht & ->)|[(_ & f' & r & p & tn & H & Hk & Hv & Hti & Hm & ->)|([H|[(H & _)|H]] & _)]]];
          try discriminate; inversion H; subst f' r; rewrite Hk.
        -- apply ident_cands_in. exists o, p. auto 10.
        -- apply sel_cands_in. left. exists p. auto.
        -- apply sel_cands_in. right. split; [exact Hv|]. exists p, tn. auto.
Qed.

Theorem tonl_func_spec p fn :
  tonl_func fs p fn = true <-> exists a t, has_facts fs p a /\ In t (an_tonl a) /\ ta_kind t = AKFunc /\ ta_name t = fn.
Proof.
  unfold tonl_func. rewrite existsb_exists. split.
  - intros [a [Ha H]]. apply existsb_exists in H. destruct H as [t [Ht He]]. apply andb_true_iff in He. destruct He as [E1 E2].
    exists a, t. split; [apply facts_for_In; exact Ha|]. split; [exact Ht|]. split; [destruct (ta_kind t); try discriminate; reflexivity|apply String.eqb_eq; exact E2].
  - intros (a & t & Ha & Ht & Ek & En). exists a. split; [apply facts_for_In; exact Ha|]. apply existsb_exists. exists t.
    split; [exact Ht|]. rewrite Ek, En, String.eqb_refl. reflexivity.
Qed.

Theorem tonl_type_spec p tn :
  tonl_type fs p tn = true <-> exists a t, has_facts fs p a /\ In t (an_tonl a) /\ ta_kind t = AKType /\ ta_name t = tn.
Proof.
  unfold tonl_type. rewrite existsb_exists. split.
  - intros [a [Ha H]]. apply existsb_exists in H. destruct H as [t [Ht He]]. apply andb_true_iff in He. destruct He as [E1 E2].
    exists a, t. split; [apply facts_for_In; exact Ha|]. split; [exact Ht|]. split; [destruct (ta_kind t); try discriminate; reflexivity|apply String.eqb_eq; exact E2].
  - intros (a & t & Ha & Ht & Ek & En). exists a. split; [apply facts_for_In; exact Ha|]. apply existsb_exists. exists t.
    split; [exact Ht|]. rewrite Ek, En, String.eqb_refl. reflexivity.
Qed.

Theorem tonl_method_spec p mn recv :
  tonl_method fs p mn recv = true <->
  exists a t, has_facts fs p a /\ In t (an_tonl a) /\ ta_kind t = AKMethod /\ ta_name t = mn /\ ta_recv t = recv.
Proof.
  unfold tonl_method. rewrite existsb_exists. split.
  - intros [a [Ha H]]. apply existsb_exists in H. destruct H as [t [Ht He]].
    apply andb_true_iff in He. destruct He as [He E3]. apply andb_true_iff in He. destruct He as [E1 E2].
    exists a, t. split; [apply facts_for_In; exact Ha|]. split; [exact Ht|].
    split; [destruct (ta_kind t); try discriminate; reflexivity|]. split; apply String.eqb_eq; assumption.
  - intros (a & t & Ha & Ht & Ek & En & Er). exists a. split; [apply facts_for_In; exact Ha|]. apply existsb_exists. exists t.
    split; [exact Ht|]. rewrite Ek, En, Er, !String.eqb_refl. reflexivity.
Qed.

(* --- C04 --- *)
(* the attachment list is the union of all allow-lists of the item *)
Theorem pkgo_attach_spec k pkg recv name x :
  In x (pkgo_attach fs k pkg recv name) <->
  exists a p, has_facts fs pkg a /\ In p (an_pkgo a) /\ pa_kind p = k /\ pa_name p = name /\
              (k = AKMethod -> pa_recv p = recv) /\ In x (pa_allowed p).
Proof.
  unfold pkgo_attach. rewrite in_flat_map. split.
  - intros [a [Ha H]]. apply in_flat_map in H. destruct H as [p [Hp H]].
    destruct (akind_eqb (pa_kind p) k && String.eqb (pa_name p) name &&
              match k with AKMethod => String.eqb (pa_recv p) recv | _ => true end) eqn:E; [|contradiction].
    apply andb_true_iff in E. destruct E as [E E3]. apply andb_true_iff in E. destruct E as [E1 E2].
    exists a, p. split; [apply facts_for_In; exact Ha|]. split; [exact Hp|].
    split; [destruct (pa_kind p), k; try discriminate; reflexivity|]. split; [apply String.eqb_eq; exact E2|].
    split; [|exact H]. intros ->. apply String.eqb_eq. exact E3.
  - intros (a & p & Ha & Hp & Ek & En & Er & Hx). exists a. split; [apply facts_for_In; exact Ha|].
    apply in_flat_map. exists p. split; [exact Hp|].
    replace (akind_eqb (pa_kind p) k && String.eqb (pa_name p) name &&
             match k with AKMethod => String.eqb (pa_recv p) recv | _ => true end) with true; [exact Hx|].
    symmetry. rewrite Ek, En, String.eqb_refl. destruct k; try reflexivity. rewrite (Er eq_refl), String.eqb_refl. reflexivity.
Qed.

Definition pkgo_denied (att : list string) : Prop := att <> [] /\ ~ In cur_pkg att /\ ~ In cur_name att.

Lemma pkgo_allowed_spec att : pkgo_allowed cur_pkg cur_name att = false <-> ~ In cur_pkg att /\ ~ In cur_name att.
Proof.
  unfold pkgo_allowed. rewrite orb_false_iff. split.
  - intros [H1 H2]. split; intros Hin; apply str_mem_In in Hin; congruence.
  - intros [H1 H2]. split; apply not_true_is_false; intros Hm; apply str_mem_In in Hm; contradiction.
Qed.

(* a reference to an item declared in [p] is a candidate iff p is another package, the item is annotated, and
   neither the analysed package's path nor its name is in the union of the item's allow-lists *)
Theorem pkgo_func_cand_spec p fn pos c :
  In c (pkgo_func_cand fs cur_pkg cur_name p fn pos) <->
  p <> cur_pkg /\ pkgo_denied (pkgo_attach fs AKFunc p "" fn) /\ d_pos (fst c) = pos /\ d_code (fst c) = "PKGO02" /\ snd c = None /\
  c = ({| d_pos := pos; d_code := "PKGO02";
          d_msg := fn ++ " function is @packageonly and cannot be used from " ++ cur_pkg ++ ". Allowed packages: " ++
                   fmt_list (pkgo_attach fs AKFunc p "" fn) |}, None).
Proof.
  unfold pkgo_func_cand, pkgo_denied. destruct (pkgo_attach fs AKFunc p "" fn) as [|x l] eqn:E.
  - split; [intros []|]. intros (_ & [H _] & _). contradiction.
  - rewrite <- E. destruct (String.eqb_spec p cur_pkg) as [Ep|Ep]; simpl.
    + split; [intros []|]. intros (H & _). contradiction.
    + destruct (pkgo_allowed cur_pkg cur_name (pkgo_attach fs AKFunc p "" fn)) eqn:Ea; simpl.
      * split; [intros []|]. intros (_ & (_ & H1 & H2) & _).
        assert (Hf : pkgo_allowed cur_pkg cur_name (pkgo_attach fs AKFunc p "" fn) = false) by (apply pkgo_allowed_spec; auto).
        rewrite Hf in Ea. discriminate.
      * apply pkgo_allowed_spec in Ea. split.
        -- intros [<-|[]]. simpl. repeat split; try tauto. rewrite E. discriminate.
        -- intros (_ & _ & _ & _ & _ & ->). left; reflexivity.
Qed.

Theorem pkgo_type_cand_spec p tn pos c :
  In c (pkgo_type_cand fs cur_pkg cur_name p tn pos) <->
  p <> cur_pkg /\ pkgo_denied (pkgo_attach fs AKType p "" tn) /\
  c = ({| d_pos := pos; d_code := "PKGO01";
          d_msg := tn ++ " type is @packageonly and cannot be used from " ++ cur_pkg ++ ". Allowed packages: " ++
                   fmt_list (pkgo_attach fs AKType p "" tn) |}, Some (p, tn)).
Proof.
  unfold pkgo_type_cand, pkgo_denied. destruct (pkgo_attach fs AKType p "" tn) as [|x l] eqn:E.
  - split; [intros []|]. intros (_ & [H _] & _). contradiction.
  - rewrite <- E. destruct (String.eqb_spec p cur_pkg) as [Ep|Ep]; simpl.
    + split; [intros []|]. intros (H & _). contradiction.
    + destruct (pkgo_allowed cur_pkg cur_name (pkgo_attach fs AKType p "" tn)) eqn:Ea; simpl.
      * split; [intros []|]. intros (_ & (_ & H1 & H2) & _).
        assert (Hf : pkgo_allowed cur_pkg cur_name (pkgo_attach fs AKType p "" tn) = false) by (apply pkgo_allowed_spec; auto).
        rewrite Hf in Ea. discriminate.
      * apply pkgo_allowed_spec in Ea. split.
        -- intros [<-|[]]. repeat split; try tauto. rewrite E. discriminate.
        -- intros (_ & _ & ->). left; reflexivity.
Qed.

Theorem pkgo_method_cand_spec p recv mn pos c :
  In c (pkgo_method_cand fs cur_pkg cur_name p recv mn pos) <->
  p <> cur_pkg /\ pkgo_denied (pkgo_attach fs AKMethod p recv mn) /\
  c = ({| d_pos := pos; d_code := "PKGO03";
          d_msg := recv ++ "." ++ mn ++ " method is @packageonly and cannot be used from " ++ cur_pkg ++ ". Allowed packages: " ++
                   fmt_list (pkgo_attach fs AKMethod p recv mn) |}, None).
Proof.
  unfold pkgo_method_cand, pkgo_denied. destruct (pkgo_attach fs AKMethod p recv mn) as [|x l] eqn:E.
  - split; [intros []|]. intros (_ & [H _] & _). contradiction.
  - rewrite <- E. destruct (String.eqb_spec p cur_pkg) as [Ep|Ep]; simpl.
    + split; [intros []|]. intros (H & _). contradiction.
    + destruct (pkgo_allowed cur_pkg cur_name (pkgo_attach fs AKMethod p recv mn)) eqn:Ea; simpl.
      * split; [intros []|]. intros (_ & (_ & H1 & H2) & _).
        assert (Hf : pkgo_allowed cur_pkg cur_name (pkgo_attach fs AKMethod p recv mn) = false) by (apply pkgo_allowed_spec; auto).
        rewrite Hf in Ea. discriminate.
      * apply pkgo_allowed_spec in Ea. split.
        -- intros [<-|[]]. repeat split; try tauto. rewrite E. discriminate.
        -- intros (_ & _ & ->). left; reflexivity.
Qed.

(* which nodes are looked at: a selector whose object lives in another package, or a plain identifier - not the selected
   identifier of a selector - whatever package its object lives in (its own, or one brought in by a dot import) *)
Theorem pkgo_cands_spec n c :
  In c (pkgo_cands fs cur_pkg cur_name n) <->
  exists o p, a_obj (n_attrs n) = Some o /\ o_pkg o = Some p /\
              ((n_kind n = KSelectorExpr /\ p <> cur_pkg /\ In c (pkgo_obj_cand fs cur_pkg cur_name o p (n_pos n))) \/
               (n_kind n = KIdent /\ a_flag (n_attrs n) = false /\ In c (pkgo_obj_cand fs cur_pkg cur_name o p (n_pos n)))).
Proof.
  unfold pkgo_cands. split.
  - destruct (n_kind n) eqn:Ek; try (intros []).
    + destruct (a_obj (n_attrs n)) as [o|]; [|intros []]. destruct (o_pkg o) as [p|] eqn:Ep; [|intros []].
      destruct (String.eqb_spec p cur_pkg) as [E|E]; [intros []|]. intros H. exists o, p. repeat split; auto.
    + destruct (a_flag (n_attrs n)) eqn:Ef; [intros []|]. destruct (a_obj (n_attrs n)) as [o|]; [|intros []]. destruct (o_pkg o) as [p|] eqn:Ep; [|intros []].
      intros H. exists o, p. split; [reflexivity|]. split; [exact Ep|]. right. auto.
  - intros (o & p & Ho & Hp & [(Hk & Hne & Hc)|(Hk & Hf & Hc)]); rewrite Hk, Ho, Hp.
    + destruct (String.eqb_spec p cur_pkg); [contradiction|exact Hc].
    + rewrite Hf. exact Hc.
Qed.

Theorem pkgo_file_spec f :
  pkgo_file fs cur_pkg cur_name suppressed f =
  dedup_rec suppressed [] (flat_map (pkgo_cands fs cur_pkg cur_name) (preorder_list (f_decls f))).
Proof. apply dedup_report_rec. Qed.

(* a reference from the declaring package itself is never a candidate *)
Theorem pkgo_own_package_never n :
  (forall o, a_obj (n_attrs n) = Some o -> o_pkg o = Some cur_pkg -> o_is_alias o = false) ->
  (forall o, a_obj (n_attrs n) = Some o -> o_pkg o = Some cur_pkg \/ o_pkg o = None) ->
  pkgo_cands fs cur_pkg cur_name n = [].
Proof.
  intros Hal Hown. unfold pkgo_cands.
  destruct (n_kind n); try reflexivity.
  - destruct (a_obj (n_attrs n)) as [o|]; [|reflexivity].
    destruct (Hown o eq_refl) as [H|H]; rewrite H; [rewrite String.eqb_refl|]; reflexivity.
  - destruct (a_flag (n_attrs n)); [reflexivity|].
    destruct (a_obj (n_attrs n)) as [o|] eqn:Eo; [|reflexivity].
    destruct (Hown o eq_refl) as [H|H]; rewrite H; [|reflexivity].
    unfold pkgo_obj_cand. rewrite (Hal o eq_refl H).
    destruct (o_kind o); try reflexivity.
    + unfold pkgo_type_cand. destruct (pkgo_attach fs AKType cur_pkg "" (o_name o)); [reflexivity|].
      rewrite String.eqb_refl. reflexivity.
    + destruct (o_is_method o).
      * unfold pkgo_method_cand. destruct (pkgo_attach fs AKMethod cur_pkg (type_name (o_recv o)) (o_name o)); [reflexivity|].
        rewrite String.eqb_refl. reflexivity.
      * unfold pkgo_func_cand. destruct (pkgo_attach fs AKFunc cur_pkg "" (o_name o)); [reflexivity|].
        rewrite String.eqb_refl. reflexivity.
Qed.

End TonlPkgo.

(* ---------- assembling: the diagnostics of a package ---------- *)
Section Assemble.
Variable fs : facts.
Variable cur_pkg : string.
Variable sup : string -> Z -> bool.

Lemma reported_filter ds pos code :
  reported (report_filter sup ds) pos code <-> reported ds pos code /\ sup code pos = false.
Proof.
  unfold reported, report_filter. split.
  - intros [d [Hd [<- <-]]]. apply filter_In in Hd. destruct Hd as [Hd Hs]. apply negb_true_iff in Hs.
    split; [exists d; auto|exact Hs].
  - intros [[d [Hd [<- <-]]] Hs]. exists d. split; [|auto]. apply filter_In. split; [exact Hd|]. apply negb_true_iff. exact Hs.
Qed.

Lemma imm_index_empty_contains pkg tn : imm_index_empty fs = true -> imm_contains fs pkg tn = false.
Proof.
  intros H. apply not_true_is_false. intros Hc. apply imm_contains_spec in Hc. destruct Hc as (a & i & Ha & Hi & _).
  unfold imm_index_empty in H. rewrite forallb_forall in H. specialize (H (pkg, a) Ha). simpl in H.
  destruct (an_imm a); [contradiction|discriminate].
Qed.

Lemma imm_reports_needs_index st n pos code :
  imm_reports fs cur_pkg st n pos code -> imm_index_empty fs = false.
Proof.
  intros H. apply not_true_is_false. intros He.
  assert (Hf : forall st x tn, ~ field_target fs cur_pkg st x tn)
    by (intros st' x tn (pkg & _ & Hc & _); rewrite (imm_index_empty_contains pkg tn He) in Hc; discriminate).
  assert (Hr : forall st x tn, ~ recv_target fs cur_pkg st x tn)
    by (intros st' x tn (ri & y & r & _ & _ & _ & _ & _ & _ & Hc & _); rewrite (imm_index_empty_contains _ tn He) in Hc; discriminate).
  inversion H; subst; try (eapply Hf; eassumption); try (eapply Hr; eassumption).
Qed.

(* C01, assembled: reported iff some statement of some top-level declaration of a non-excluded file writes an
   immutable field (or overwrites the receiver) outside the exemptions, and the diagnostic is not suppressed *)
Theorem imm_diags_spec files pos code :
  (forall f d, In f files -> In d (f_decls f) -> no_inner_funcdecl d) ->
  (reported (report_filter sup (imm_candidates fs cur_pkg files)) pos code <->
   exists f d n, In f files /\ In d (f_decls f) /\ In n (preorder d) /\
                 imm_reports fs cur_pkg (imm_ctx d) n pos code /\ sup code pos = false).
Proof.
  intros Hwf. rewrite reported_filter. unfold imm_candidates.
  destruct (imm_index_empty fs) eqn:Ee.
  - split; [intros [H _]; destruct (reported_nil _ _ H)|].
    intros (f & d & n & _ & _ & _ & Hr & _). apply imm_reports_needs_index in Hr. congruence.
  - split.
    + intros [H Hs]. apply reported_flat_map in H. destruct H as [f [Hf H]].
      apply reported_flat_map in H. destruct H as [d [Hd H]].
      rewrite (imm_decl_is_flat_map fs cur_pkg d (Hwf f d Hf Hd)) in H.
      apply reported_flat_map in H. destruct H as [n [Hn H]]. apply imm_check_node_exact in H.
      exists f, d, n. auto.
    + intros (f & d & n & Hf & Hd & Hn & Hr & Hs). split; [|exact Hs].
      apply reported_flat_map. exists f. split; [exact Hf|]. apply reported_flat_map. exists d. split; [exact Hd|].
      rewrite (imm_decl_is_flat_map fs cur_pkg d (Hwf f d Hf Hd)).
      apply reported_flat_map. exists n. split; [exact Hn|]. apply imm_check_node_exact. exact Hr.
Qed.

Lemma ctor_index_empty_names pkg tn : ctor_index_empty fs = true -> ctor_names fs pkg tn = [].
Proof.
  intros H. destruct (ctor_names fs pkg tn) as [|x l] eqn:E; [reflexivity|].
  assert (Hin : In x (ctor_names fs pkg tn)) by (rewrite E; left; reflexivity).
  apply ctor_names_spec in Hin. destruct Hin as (a & c & Ha & Hc & _ & Hx).
  unfold ctor_index_empty in H. rewrite forallb_forall in H. specialize (H (pkg, a) Ha). simpl in H.
  rewrite forallb_forall in H. specialize (H c Hc). destruct (ca_names c); [contradiction|discriminate].
Qed.

Lemma ctor_reports_needs_index fn n pos code : ctor_reports fs cur_pkg fn n pos code -> ctor_index_empty fs = false.
Proof.
  intros H. apply not_true_is_false. intros He.
  assert (Hf : forall fn pkg tn, ~ ctor_forbidden fs cur_pkg fn pkg tn)
    by (intros fn' pkg tn [[c Hc] _]; rewrite (ctor_index_empty_names pkg tn He) in Hc; contradiction).
  inversion H; subst; eapply Hf; eassumption.
Qed.

(* C02, assembled *)
Theorem ctor_diags_spec files pos code :
  (forall f d, In f files -> In d (f_decls f) -> no_inner_funcdecl d) ->
  (reported (report_filter sup (ctor_candidates fs cur_pkg files)) pos code <->
   exists f d n, In f files /\ In d (f_decls f) /\ In n (preorder d) /\
                 ctor_reports fs cur_pkg (ctor_ctx d) n pos code /\ sup code pos = false).
Proof.
  intros Hwf. rewrite reported_filter. unfold ctor_candidates.
  destruct (ctor_index_empty fs) eqn:Ee.
  - split; [intros [H _]; destruct (reported_nil _ _ H)|].
    intros (f & d & n & _ & _ & _ & Hr & _). apply ctor_reports_needs_index in Hr. congruence.
  - split.
    + intros [H Hs]. apply reported_flat_map in H. destruct H as [f [Hf H]].
      apply reported_flat_map in H. destruct H as [d [Hd H]].
      rewrite (ctor_decl_is_flat_map fs cur_pkg d (Hwf f d Hf Hd)) in H.
      apply reported_flat_map in H. destruct H as [n [Hn H]]. apply ctor_check_node_exact in H.
      exists f, d, n. auto.
    + intros (f & d & n & Hf & Hd & Hn & Hr & Hs). split; [|exact Hs].
      apply reported_flat_map. exists f. split; [exact Hf|]. apply reported_flat_map. exists d. split; [exact Hd|].
      rewrite (ctor_decl_is_flat_map fs cur_pkg d (Hwf f d Hf Hd)).
      apply reported_flat_map. exists n. split; [exact Hn|]. apply ctor_check_node_exact. exact Hr.
Qed.

End Assemble.

(* ---------- C08: a global exclusion is a filter on the unrestricted result ---------- *)
Section Exclude.
Variable ex : string -> bool.                      (* the code is matched by the exclusion list *)
Variable sup : string -> Z -> bool.                (* the suppression of the unrestricted run *)
Definition sup' : string -> Z -> bool := fun c p => ex c || sup c p.

Definition keep (d : diag) : bool := negb (ex (d_code d)).

Theorem exclude_report_filter ds : report_filter sup' ds = filter keep (report_filter sup ds).
Proof.
  unfold report_filter, sup', keep. induction ds as [|d r IH]; simpl; [reflexivity|].
  destruct (ex (d_code d)) eqn:Ee; simpl.
  - destruct (sup (d_code d) (d_pos d)); simpl; [exact IH|]. rewrite Ee. simpl. exact IH.
  - destruct (sup (d_code d) (d_pos d)); simpl; [exact IH|]. rewrite Ee. simpl. f_equal. exact IH.
Qed.

(* all keyed candidates (the once-per-file ones) carry one and the same code *)
Definition keyed_code (kc : string) (cs : list cand) : Prop :=
  forall c, In c cs -> snd c <> None -> d_code (fst c) = kc.

Lemma dedup_exclude_unkeyed kc cs : keyed_code kc cs -> ex kc = true ->
  forall seen1 seen2, dedup_rec sup' seen1 cs = filter keep (dedup_rec sup seen2 cs).
Proof.
  intros Hk He. induction cs as [|[d k] r IH]; intros seen1 seen2; simpl; [reflexivity|].
  assert (Hr : keyed_code kc r) by (intros c Hc; apply Hk; right; exact Hc).
  unfold sup' at 1. destruct k as [k'|].
  - assert (Hc : d_code d = kc) by (apply (Hk (d, Some k')); [left; reflexivity|discriminate]).
    rewrite Hc, He. simpl.
    destruct (sup kc (d_pos d)); [apply IH; exact Hr|].
    destruct (existsb (key_eqb k') seen2); [apply IH; exact Hr|].
    simpl. unfold keep at 1. rewrite Hc, He. simpl. apply IH; exact Hr.
  - destruct (ex (d_code d)) eqn:Ed; simpl.
    + destruct (sup (d_code d) (d_pos d)); [apply IH; exact Hr|].
      simpl. unfold keep at 1. rewrite Ed. simpl. apply IH; exact Hr.
    + destruct (sup (d_code d) (d_pos d)); [apply IH; exact Hr|].
      simpl. unfold keep at 1. rewrite Ed. simpl. f_equal. apply IH; exact Hr.
Qed.

Lemma dedup_exclude_keyed kc cs : keyed_code kc cs -> ex kc = false ->
  forall seen, dedup_rec sup' seen cs = filter keep (dedup_rec sup seen cs).
Proof.
  intros Hk He. induction cs as [|[d k] r IH]; intros seen; simpl; [reflexivity|].
  assert (Hr : keyed_code kc r) by (intros c Hc; apply Hk; right; exact Hc).
  unfold sup' at 1. destruct k as [k'|].
  - assert (Hc : d_code d = kc) by (apply (Hk (d, Some k')); [left; reflexivity|discriminate]).
    rewrite Hc, He. simpl.
    destruct (sup kc (d_pos d)); [apply IH; exact Hr|].
    destruct (existsb (key_eqb k') seen); [apply IH; exact Hr|].
    simpl. unfold keep at 1. rewrite Hc, He. simpl. f_equal. apply IH; exact Hr.
  - destruct (ex (d_code d)) eqn:Ed; simpl.
    + destruct (sup (d_code d) (d_pos d)); [apply IH; exact Hr|].
      simpl. unfold keep at 1. rewrite Ed. simpl. apply IH; exact Hr.
    + destruct (sup (d_code d) (d_pos d)); [apply IH; exact Hr|].
      simpl. unfold keep at 1. rewrite Ed. simpl. f_equal. apply IH; exact Hr.
Qed.

(* detection-time filtering (ignore before the once-per-file dedup) commutes with a global exclusion *)
Theorem exclude_dedup kc cs :
  keyed_code kc cs -> dedup_rec sup' [] cs = filter keep (dedup_rec sup [] cs).
Proof.
  intros Hk. destruct (ex kc) eqn:He.
  - apply (dedup_exclude_unkeyed kc cs Hk He).
  - apply (dedup_exclude_keyed kc cs Hk He).
Qed.

End Exclude.

(* the keyed candidates of the two detection-time checkers *)
Lemma tonl_cands_keyed fs n : keyed_code "TONL01" (tonl_cands fs n).
Proof.
  intros c Hc Hk. unfold tonl_cands in Hc.
  assert (Ht : forall t pos, In c (tonl_type_cand fs t pos) -> d_code (fst c) = "TONL01").
  { intros t pos H. unfold tonl_type_cand in H. destruct (type_info t) as [[p tn]|]; [|contradiction].
    destruct (tonl_type fs p tn); [|contradiction]. destruct H as [<-|[]]. reflexivity. }
  assert (Hf : forall pos fn, In c (tonl_func_diag pos fn) -> snd c = None) by (intros pos fn [<-|[]]; reflexivity).
  destruct (n_kind n); try contradiction; try (eapply Ht; eassumption).
  - destruct (a_flag (n_attrs n)); [eapply Ht; eassumption|contradiction].
  - destruct (n_children n) as [|f r]; [contradiction|].
    destruct (n_kind f); try contradiction.
    + exfalso. apply Hk.
      destruct (match n_children f with x :: _ => _ | [] => None end) as [p|].
      * destruct (tonl_func fs p (a_name (n_attrs f))); [eapply Hf; eassumption|contradiction].
      * destruct (type_info (method_recv_type f)) as [[p tn]|]; [|contradiction].
        destruct (tonl_method fs p (a_name (n_attrs f)) tn); [|contradiction]. destruct Hc as [<-|[]]. reflexivity.
    + exfalso. apply Hk. destruct (a_obj (n_attrs f)) as [o|]; [|contradiction].
      destruct (o_kind o); try contradiction. destruct (o_pkg o) as [p|]; [|contradiction].
      destruct (negb (o_is_method o) && tonl_func fs p (o_name o)); [eapply Hf; eassumption|contradiction].
Qed.

Lemma keyed_code_flat_map {A} kc (f : A -> list cand) l :
  (forall x, keyed_code kc (f x)) -> keyed_code kc (flat_map f l).
Proof. intros H c Hc. apply in_flat_map in Hc. destruct Hc as [x [_ Hc]]. exact (H x c Hc). Qed.

Lemma pkgo_cands_keyed fs cur curname n : keyed_code "PKGO01" (pkgo_cands fs cur curname n).
Proof.
  intros c Hc Hk.
  assert (Ht : forall p tn pos, In c (pkgo_type_cand fs cur curname p tn pos) -> d_code (fst c) = "PKGO01").
  { intros p tn pos H. unfold pkgo_type_cand in H. destruct (pkgo_attach fs AKType p "" tn); [contradiction|].
    destruct (negb (String.eqb p cur) && negb (pkgo_allowed cur curname (s :: l))); [|contradiction]. destruct H as [<-|[]]. reflexivity. }
  assert (Hf : forall p fn pos, In c (pkgo_func_cand fs cur curname p fn pos) -> snd c = None).
  { intros p fn pos H. unfold pkgo_func_cand in H. destruct (pkgo_attach fs AKFunc p "" fn); [contradiction|].
    destruct (negb (String.eqb p cur) && negb (pkgo_allowed cur curname (s :: l))); [|contradiction]. destruct H as [<-|[]]. reflexivity. }
  assert (Hm : forall p r mn pos, In c (pkgo_method_cand fs cur curname p r mn pos) -> snd c = None).
  { intros p r mn pos H. unfold pkgo_method_cand in H. destruct (pkgo_attach fs AKMethod p r mn); [contradiction|].
    destruct (negb (String.eqb p cur) && negb (pkgo_allowed cur curname (s :: l))); [|contradiction]. destruct H as [<-|[]]. reflexivity. }
  assert (Ho : forall o p pos, In c (pkgo_obj_cand fs cur curname o p pos) -> d_code (fst c) = "PKGO01").
  { intros o p pos H. unfold pkgo_obj_cand in H. destruct (o_kind o); try contradiction.
    - destruct (if o_is_alias o then named_direct (o_type o) else None) as [[tp tn]|]; eapply Ht; eassumption.
    - exfalso. apply Hk. destruct (o_is_method o); [eapply Hm|eapply Hf]; eassumption. }
  unfold pkgo_cands in Hc. destruct (n_kind n); try contradiction.
  - destruct (a_obj (n_attrs n)) as [o|]; [|contradiction]. destruct (o_pkg o) as [p|]; [|contradiction].
    destruct (String.eqb p cur); try contradiction. eapply Ho; eassumption.
  - destruct (a_flag (n_attrs n)); [contradiction|].
    destruct (a_obj (n_attrs n)) as [o|]; [|contradiction]. destruct (o_pkg o) as [p|]; [|contradiction].
    eapply Ho; eassumption.
Qed.
