(* C06 / C11: locality of the per-package analysis, schedule and run-set independence, gob round trip. *)
From Coq Require Import List String ZArith Bool Lia.
From GG Require Import Base.Strs Model.Config Model.GoTypes Model.GoAst Model.Annots Model.Analyze Model.GobView Model.Driver Extracted Exec.
Import ListNotations.

(* ---------- the exported fact does not depend on imported facts ---------- *)
Lemma analyze_own cfg p all own ds : x_analyze cfg p all = AOk own ds -> own = x_read_all cfg p.
Proof. unfold x_analyze. destruct (x_ignore_ops cfg p); [|discriminate]. intros H. injection H as <- _. reflexivity. Qed.

Lemma analyze_ok_iff cfg p all : (exists own ds, x_analyze cfg p all = AOk own ds) <-> x_ignore_ops cfg p <> None.
Proof.
  unfold x_analyze. destruct (x_ignore_ops cfg p); split.
  - intros _. discriminate.
  - intros _. eexists. eexists. reflexivity.
  - intros [own [ds H]]. discriminate.
  - intros H. contradiction H. reflexivity.
Qed.

(* ---------- locality: only the facts of the direct imports are read ---------- *)
Definition import_view (p : package) (all : list (string * annots)) : list (option (string * annots)) :=
  map (fun ip => find (fun pa => String.eqb (fst pa) ip) all) (p_imports p).

Lemma x_facts_view p own all all' : import_view p all = import_view p all' -> x_facts p own all = x_facts p own all'.
Proof.
  unfold x_facts, import_view. intros H. f_equal.
  induction (p_imports p) as [|ip r IH]; [reflexivity|]. simpl in *. injection H as H1 H2. rewrite H1. f_equal. apply IH. exact H2.
Qed.

Theorem analyze_local cfg p all all' : import_view p all = import_view p all' -> x_analyze cfg p all = x_analyze cfg p all'.
Proof. intros H. unfold x_analyze. destruct (x_ignore_ops cfg p); [|reflexivity]. rewrite (x_facts_view p _ all all' H). reflexivity. Qed.

(* ---------- schedules ---------- *)
Section Sched.
Variable cfg : config.

Definition sfind (s : store) (path : string) : option (string * annots) := find (fun pa => String.eqb (fst pa) path) s.
Definition pfind (l : list package) (path : string) : option package := find (fun q => String.eqb (p_path q) path) l.

(* what a store holds when exactly the packages [done] have been analysed *)
Definition store_of (done : list package) (s : store) : Prop :=
  forall path, sfind s path = match pfind done path with
                              | Some q => match fact_of cfg q with Some a => Some (path, a) | None => None end
                              | None => None
                              end.

Lemma pfind_in l path q : pfind l path = Some q -> In q l /\ p_path q = path.
Proof. intros H. apply find_some in H. destruct H as [H1 H2]. apply String.eqb_eq in H2. auto. Qed.

Lemma pfind_none l path : ~ In path (map p_path l) -> pfind l path = None.
Proof.
  intros H. unfold pfind. destruct (find _ l) as [q|] eqn:E; [|reflexivity].
  apply find_some in E. destruct E as [H1 H2]. apply String.eqb_eq in H2. exfalso. apply H. rewrite <- H2. apply in_map. exact H1.
Qed.

Lemma pfind_unique l q : NoDup (map p_path l) -> In q l -> pfind l (p_path q) = Some q.
Proof.
  induction l as [|x l IH]; intros Hnd Hq; [contradiction|]. simpl in Hnd. inversion Hnd as [|? ? Hn Hnd']; subst.
  unfold pfind. simpl. destruct Hq as [->|Hq]; [rewrite String.eqb_refl; reflexivity|].
  destruct (String.eqb (p_path x) (p_path q)) eqn:E.
  - apply String.eqb_eq in E. exfalso. apply Hn. rewrite E. apply in_map. exact Hq.
  - apply IH; assumption.
Qed.

(* the facts of a whole universe, as a store *)
Lemma universe_store universe : NoDup (map p_path universe) -> store_of universe (universe_facts cfg universe).
Proof.
  induction universe as [|q r IH]; intros Hnd path; [reflexivity|].
  simpl in Hnd. inversion Hnd as [|? ? Hn Hnd']; subst. specialize (IH Hnd' path).
  unfold universe_facts, sfind, pfind in *. simpl.
  destruct (String.eqb (p_path q) path) eqn:E.
  - apply String.eqb_eq in E. subst path.
    destruct (fact_of cfg q) as [a|]; simpl; [rewrite String.eqb_refl; reflexivity|].
    rewrite IH. change (find (fun q0 => String.eqb (p_path q0) (p_path q)) r) with (pfind r (p_path q)).
    rewrite (pfind_none r (p_path q) Hn). reflexivity.
  - destruct (fact_of cfg q) as [a|]; simpl; [rewrite E|]; exact IH.
Qed.

Lemma fact_of_result p s :
  match x_analyze cfg p s with
  | AOk own _ => fact_of cfg p = Some own
  | APanic _ => fact_of cfg p = None
  end.
Proof. unfold x_analyze, fact_of. destruct (x_ignore_ops cfg p); reflexivity. Qed.

Variable universe : list package.
Hypothesis paths_unique : NoDup (map p_path universe).

Lemma view_eq done s p :
  store_of done s -> (forall q, In q done -> In q universe) -> NoDup (map p_path done) ->
  (forall q, In q universe -> In (p_path q) (p_imports p) -> In q done) ->
  import_view p s = import_view p (universe_facts cfg universe).
Proof.
  intros Hs Hsub Hnd Hdeps. unfold import_view. apply map_ext_in. intros ip Hip.
  change (sfind s ip = sfind (universe_facts cfg universe) ip).
  rewrite (Hs ip), (universe_store universe paths_unique ip).
  destruct (pfind universe ip) as [q|] eqn:Eu.
  - apply pfind_in in Eu. destruct Eu as [Hq Hp]. subst ip.
    rewrite (pfind_unique done q Hnd (Hdeps q Hq Hip)). reflexivity.
  - destruct (pfind done ip) as [q|] eqn:Ed; [|reflexivity].
    apply pfind_in in Ed. destruct Ed as [Hq Hp]. subst ip.
    rewrite (pfind_unique universe q paths_unique (Hsub q Hq)) in Eu. discriminate.
Qed.

(* every valid schedule computes, for every package it lists, the driver-independent result *)
Theorem schedule_invariant order : forall done s out,
  store_of done s -> (forall q, In q done -> In q universe) -> NoDup (map p_path done) ->
  valid_schedule universe done order ->
  snd (fold_left (step cfg) order (s, out)) = (out ++ map (fun p => (p_path p, spec_result cfg universe p)) order)%list.
Proof.
  induction order as [|p r IH]; intros done s out Hs Hsub Hnd Hv; cbn [fold_left map].
  - cbn [snd]. rewrite app_nil_r. reflexivity.
  - destruct Hv as (Hpu & Hnew & Hdeps & Hv).
    assert (Hr : x_analyze cfg p s = spec_result cfg universe p).
    { unfold spec_result. apply analyze_local. apply (view_eq done s p Hs Hsub Hnd Hdeps). }
    pose proof (fact_of_result p s) as Hf. rewrite Hr in Hf.
    assert (Hstep : step cfg (s, out) p =
                    match spec_result cfg universe p with
                    | AOk own _ => ((p_path p, own) :: s, (out ++ [(p_path p, spec_result cfg universe p)])%list)
                    | APanic _ => (s, (out ++ [(p_path p, spec_result cfg universe p)])%list)
                    end) by (unfold step; rewrite Hr; reflexivity).
    rewrite Hstep. clear Hstep.
    assert (Hnd' : NoDup (map p_path (p :: done))) by (simpl; constructor; assumption).
    assert (Hsub' : forall q, In q (p :: done) -> In q universe) by (intros q [<-|Hq]; auto).
    destruct (spec_result cfg universe p) as [own ds|site] eqn:Er.
    + cbv beta iota. etransitivity; [apply (IH (p :: done)); [|exact Hsub'|exact Hnd'|exact Hv]|rewrite <- app_assoc; reflexivity].
      intros path. unfold sfind, pfind. simpl. destruct (String.eqb (p_path p) path) eqn:E.
      * apply String.eqb_eq in E. subst path. rewrite Hf. reflexivity.
      * exact (Hs path).
    + cbv beta iota. etransitivity; [apply (IH (p :: done)); [|exact Hsub'|exact Hnd'|exact Hv]|rewrite <- app_assoc; reflexivity].
      intros path. unfold pfind. simpl. destruct (String.eqb (p_path p) path) eqn:E.
      * apply String.eqb_eq in E. subst path. rewrite Hf. rewrite (Hs (p_path p)). rewrite (pfind_none done (p_path p) Hnew). reflexivity.
      * exact (Hs path).
Qed.

Theorem schedule_independent order :
  valid_schedule universe [] order ->
  snd (run_schedule cfg order) = map (fun p => (p_path p, spec_result cfg universe p)) order.
Proof.
  intros Hv. unfold run_schedule.
  exact (schedule_invariant order [] [] [] (fun path => eq_refl) (fun q H => match H with end) (NoDup_nil _) Hv).
Qed.

End Sched.

(* the driver-independent result of a package is the same in every universe that offers it the same direct imports:
   analysing more (or fewer) unrelated packages alongside cannot matter *)
Theorem run_set_independent cfg u1 u2 p :
  import_view p (universe_facts cfg u1) = import_view p (universe_facts cfg u2) -> spec_result cfg u1 p = spec_result cfg u2 p.
Proof. intros H. unfold spec_result. apply analyze_local. exact H. Qed.

(* ---------- gob ---------- *)
Lemma map_id_in {A} (f : A -> A) l : (forall x, In x l -> f x = x) -> map f l = l.
Proof. induction l as [|x l IH]; simpl; intros H; [reflexivity|]. rewrite (H x (or_introl eq_refl)), IH; [reflexivity|]. intros y Hy. apply H. right. exact Hy. Qed.

Section GvalInd.
Variable P : gval -> Prop.
Hypothesis Hs : forall s, P (GStr s).
Hypothesis Hb : forall b, P (GBool b).
Hypothesis Hi : forall z, P (GInt z).
Hypothesis Hl : forall l, Forall P l -> P (GList l).
Hypothesis Ht : forall fs, Forall (fun f => P (snd f)) fs -> P (GStruct fs).
Fixpoint gval_ind' (v : gval) : P v :=
  match v with
  | GStr s => Hs s | GBool b => Hb b | GInt z => Hi z
  | GList l => Hl l ((fix G (l : list gval) : Forall P l := match l with [] => Forall_nil P | x :: r => Forall_cons x (gval_ind' x) (G r) end) l)
  | GStruct fs => Ht fs ((fix G (l : list (string * bool * gval)) : Forall (fun f => P (snd f)) l :=
                            match l with [] => Forall_nil _ | x :: r => Forall_cons x (gval_ind' (snd x)) (G r) end) fs)
  end.
End GvalInd.

(* a value all of whose fields are exported survives the round trip unchanged *)
Theorem roundtrip_exported v : all_exported v = true -> roundtrip v = v.
Proof.
  induction v as [s|b|z|l IH|fs IH] using gval_ind'; intros H; try reflexivity.
  - simpl. f_equal. simpl in H. rewrite forallb_forall in H. rewrite Forall_forall in IH. apply map_id_in. intros x Hx. apply IH; auto.
  - simpl. f_equal. simpl in H. rewrite forallb_forall in H. rewrite Forall_forall in IH. apply map_id_in.
    intros [[n e] x] Hx. specialize (H _ Hx). simpl in H. apply andb_true_iff in H. destruct H as [He Hx']. rewrite He.
    f_equal. apply (IH _ Hx). exact Hx'.
Qed.

(* ... and an unexported field is lost: the round trip is NOT the identity then *)
Example roundtrip_drops_unexported :
  roundtrip (GStruct [("OnType", true, GStr "T"); ("pos", false, GInt 7)]) = GStruct [("OnType", true, GStr "T"); ("pos", false, GInt 0)].
Proof. reflexivity. Qed.
