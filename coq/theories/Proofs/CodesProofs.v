(* Facts about the code table: the meaning of check_list, and the obligations on the extracted table. *)
From Coq Require Import List String Bool.
From GG Require Import Base.Strs Model.Codes Extracted.
Import ListNotations.
Local Open Scope string_scope.

Lemma check_list_spec all t c tk :
  In tk (check_list all t c) <-> tk = all \/ cat_of t c = Some tk \/ tk = c.
Proof.
  unfold check_list. destruct (cat_of t c) as [k|] eqn:E.
  - simpl. split.
    + intros [H|[H|[H|[]]]]; subst; auto.
    + intros [H|[H|H]]; subst; auto. inversion H; subst; auto.
  - destruct (is_cat t c); simpl; split.
    + intros [H|[H|[]]]; subst; auto.
    + intros [H|[H|H]]; subst; auto; discriminate.
    + intros [H|[H|[]]]; subst; auto.
    + intros [H|[H|H]]; subst; auto; discriminate.
Qed.

Lemma cat_of_In t c k : cat_of t c = Some k -> exists row, In row t /\ fst row = k /\ In c (cat_codes row).
Proof.
  induction t as [|row r IH]; simpl; [discriminate|].
  destruct (str_mem c (cat_codes row)) eqn:E.
  - intros H; inversion H; subst. exists row. split; [left; reflexivity|]. split; [reflexivity|apply str_mem_In; exact E].
  - intros H. destruct (IH H) as [row' [H1 H2]]. exists row'. split; [right; exact H1|exact H2].
Qed.

(* ---- obligations on the table extracted from /repo on this run ---- *)

(* keys unique: the reverse map codeToCheckList does not depend on Go's map iteration order *)
Lemma extracted_table_wf : table_wf codes_table = true.
Proof. vm_compute. reflexivity. Qed.

(* the single token that means "everything" *)
Lemma extracted_all_token : all_tokens = ["ALL"].
Proof. vm_compute. reflexivity. Qed.

(* the documented table: 5 categories, 16 codes, each code = its category ++ two digits *)
Definition documented_codes : list (string * list string) :=
  [("IMM", ["IMM01"; "IMM02"; "IMM03"; "IMM04"]);
   ("CTOR", ["CTOR01"; "CTOR02"; "CTOR03"]);
   ("TONL", ["TONL01"; "TONL02"; "TONL03"]);
   ("PKGO", ["PKGO01"; "PKGO02"; "PKGO03"]);
   ("IMPL", ["IMPL01"; "IMPL02"; "IMPL03"])].

Definition same_row (d : string * list string) (r : string * list (string * string)) : bool :=
  String.eqb (fst d) (fst r) &&
  (Nat.eqb (List.length (snd d)) (List.length (cat_codes r))) &&
  forallb (fun c => str_mem c (cat_codes r)) (snd d).

(* same categories and the same codes per category, in any order *)
Definition same_table (d : list (string * list string)) (t : table) : bool :=
  Nat.eqb (List.length d) (List.length t) &&
  forallb (fun dr => existsb (same_row dr) t) d.

Lemma extracted_table_documented : same_table documented_codes codes_table = true.
Proof. vm_compute. reflexivity. Qed.

(* every code's category is the one whose documentation URL arm matches it, and every arm is a category *)
Definition url_ok : bool :=
  forallb (fun row => forallb (fun c => String.eqb (doc_url url_arms "" c) (doc_url url_arms "" (fst row))
                                    && negb (String.eqb (doc_url url_arms "" c) "")) (cat_codes row)) codes_table
  && forallb (fun a => str_mem (fst a) (categories codes_table)) url_arms
  && nodupb (map snd url_arms).

Lemma extracted_url_ok : url_ok = true.
Proof. vm_compute. reflexivity. Qed.
