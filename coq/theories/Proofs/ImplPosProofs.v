(* where @implements annotations (and hence IMPL diagnostics) sit: at the name of a type spec of a kept file *)
From Coq Require Import List String ZArith Bool.
From GG Require Import Base.Strs Model.Config Model.GoTypes Model.GoAst Model.RegexSyntax Model.Regex Model.Annot Model.Annots.
Import ListNotations.

Lemma an_impl_app a b : an_impl (annots_app a b) = (an_impl a ++ an_impl b)%list.
Proof. reflexivity. Qed.

Lemma an_impl_concat l : an_impl (concat_annots l) = flat_map an_impl l.
Proof. induction l as [|x l IH]; [reflexivity|]. cbn [concat_annots fold_right flat_map]. rewrite an_impl_app. f_equal. exact IH. Qed.

Section Pos.
Variables re_impl re_ctor re_imm re_tonl re_mut re_pkgo : re.
Variable keywords : list string.

Notation type_line := (type_line re_impl re_ctor re_imm re_tonl re_mut re_pkgo keywords).
Notation func_line := (func_line re_tonl re_pkgo keywords).
Notation read_all := (read_all re_impl re_ctor re_imm re_tonl re_mut re_pkgo keywords).

Lemma type_line_impl cur imps spec text a :
  In a (an_impl (type_line cur imps spec text)) -> ia_pos a = n_pos spec /\ ia_type a = a_name (n_attrs spec).
Proof.
  unfold Annots.type_line. destruct (negb (prefilter keywords text)); [intros []|]. cbn [an_impl].
  destruct (str_contains text "@implements"); [|intros []].
  destruct (parse_implements re_impl text) as [[[ptr pk] iface]|]; [|intros []].
  destruct (resolve_qualifier cur imps pk) as [full nf]. intros [<-|[]]. split; reflexivity.
Qed.

Lemma func_line_impl cur fd text : an_impl (func_line cur fd text) = [].
Proof.
  unfold Annots.func_line. destruct (negb (prefilter keywords text)); [reflexivity|].
  destruct (if a_flag (n_attrs fd) then _ else _) as [k rt]. reflexivity.
Qed.

Theorem read_all_impl_pos cfg p a :
  In a (an_impl (read_all cfg p)) ->
  exists f d spec, In f (p_files p) /\ should_skip cfg (f_name f) = false /\ In d (f_decls f) /\ In spec (n_children d) /\
                   n_kind spec = KTypeSpec /\ ia_pos a = n_pos spec /\ ia_type a = a_name (n_attrs spec).
Proof.
  unfold Annots.read_all. rewrite an_impl_concat. intros H. apply in_flat_map in H. destruct H as [fa [Hfa H]].
  apply in_map_iff in Hfa. destruct Hfa as [f [<- Hf]]. unfold kept_files in Hf. apply filter_In in Hf. destruct Hf as [Hf Hs].
  apply negb_true_iff in Hs. exists f. unfold file_annots in H. rewrite an_impl_app in H. apply in_app_or in H. destruct H as [H|H].
  - rewrite an_impl_concat in H. apply in_flat_map in H. destruct H as [da [Hda H]]. apply in_map_iff in Hda. destruct Hda as [d [<- Hd]].
    unfold type_decl_annots in H. destruct (kind_eqb (n_kind d) KGenDecl && String.eqb (a_tok (n_attrs d)) "type"); [|contradiction].
    rewrite an_impl_concat in H. apply in_flat_map in H. destruct H as [sa [Hsa H]]. apply in_map_iff in Hsa. destruct Hsa as [spec [<- Hspec]].
    destruct (kind_eqb (n_kind spec) KTypeSpec) eqn:Ek; [|contradiction].
    destruct (match (if a_flag (n_attrs spec) then doc_lines spec else None) with Some l => Some l | None => doc_lines d end) as [lines|]; [|contradiction].
    rewrite an_impl_concat in H. apply in_flat_map in H. destruct H as [la [Hla H]]. apply in_map_iff in Hla. destruct Hla as [text [<- _]].
    destruct (type_line_impl _ _ _ _ _ H) as [H1 H2].
    exists d, spec. repeat split; auto. destruct (n_kind spec); try discriminate. reflexivity.
  - exfalso. rewrite an_impl_concat in H. apply in_flat_map in H. destruct H as [da [Hda H]]. apply in_map_iff in Hda. destruct Hda as [d [<- Hd]].
    unfold func_decl_annots in H. destruct (kind_eqb (n_kind d) KFuncDecl); [|contradiction]. destruct (doc_lines d) as [lines|]; [|contradiction].
    rewrite an_impl_concat in H. apply in_flat_map in H. destruct H as [la [Hla H]]. apply in_map_iff in Hla. destruct Hla as [text [<- _]].
    rewrite func_line_impl in H. contradiction.
Qed.
End Pos.
