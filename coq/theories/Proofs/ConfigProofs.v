(* C18: flag > environment > default; list and boolean parsing. *)
From Coq Require Import List String Ascii Bool Lia NArith.
From GG Require Import Base.Strs Model.Config.
Import ListNotations.
Local Open Scope string_scope.

(* ---------- facts about single bytes, by enumeration of all 256 ---------- *)
Ltac all_ascii a := destruct a as [[] [] [] [] [] [] [] []]; vm_compute; try reflexivity; try discriminate; try tauto.

Lemma to_upper_comma a : Ascii.eqb (to_upper a) ","%char = Ascii.eqb a ","%char.
Proof. all_ascii a. Qed.
Lemma to_upper_space a : is_space (to_upper a) = is_space a.
Proof. all_ascii a. Qed.
Lemma to_upper_idem a : to_upper (to_upper a) = to_upper a.
Proof. all_ascii a. Qed.
Lemma to_lower_not_upper a : is_upper (to_lower a) = false.
Proof. all_ascii a. Qed.

(* ---------- comma-free strings, split and join ---------- *)
Definition no_comma (s : string) : bool := sforall (fun a => negb (Ascii.eqb a ","%char)) s.

Lemma split_on_nonnil sep s : split_on sep s <> [].
Proof.
  induction s as [|a r IH]; simpl; [discriminate|].
  destruct (Ascii.eqb a sep); [discriminate|]. destruct (split_on sep r); [contradiction|discriminate].
Qed.

Lemma split_on_pieces s : forall p, In p (split_on ","%char s) -> no_comma p = true.
Proof.
  induction s as [|a r IH]; simpl; intros p Hp.
  - destruct Hp as [<-|[]]. reflexivity.
  - destruct (Ascii.eqb a ","%char) eqn:E.
    + destruct Hp as [<-|Hp]; [reflexivity|apply IH; exact Hp].
    + destruct (split_on ","%char r) as [|q qs] eqn:Es; [destruct (split_on_nonnil _ _ Es)|].
      destruct Hp as [<-|Hp].
      * unfold no_comma. cbn [sforall]. rewrite E. cbn [negb andb]. apply (IH q). left; reflexivity.
      * apply IH. right; exact Hp.
Qed.

Lemma split_on_comma_free x : no_comma x = true -> split_on ","%char x = [x].
Proof.
  induction x as [|a r IH]; intros H; [reflexivity|].
  unfold no_comma in H. cbn [sforall] in H.
  apply andb_true_iff in H. destruct H as [H1 H2]. apply negb_true_iff in H1.
  cbn [split_on]. rewrite H1. rewrite IH by exact H2. reflexivity.
Qed.

Lemma split_on_app_comma x rest :
  no_comma x = true -> split_on ","%char (x ++ String ","%char rest) = x :: split_on ","%char rest.
Proof.
  induction x as [|a r IH]; intros H.
  - cbn [append split_on]. replace (Ascii.eqb ","%char ","%char) with true by reflexivity. reflexivity.
  - unfold no_comma in H. cbn [sforall] in H.
    apply andb_true_iff in H. destruct H as [H1 H2]. apply negb_true_iff in H1.
    cbn [append split_on]. rewrite H1. rewrite IH by exact H2. reflexivity.
Qed.

Lemma split_on_join l :
  l <> [] -> (forall x, In x l -> no_comma x = true) -> split_on ","%char (join "," l) = l.
Proof.
  induction l as [|x l IH]; intros Hne H; [contradiction|].
  destruct l as [|y l'].
  - cbn [join]. apply split_on_comma_free. apply H. left; reflexivity.
  - change (join "," (x :: y :: l')) with (x ++ String ","%char (join "," (y :: l'))).
    rewrite split_on_app_comma by (apply H; left; reflexivity).
    rewrite IH; [reflexivity|discriminate|]. intros z Hz. apply H. right; exact Hz.
Qed.

(* ---------- trimming ---------- *)
Definition starts_clean (t : string) : bool :=
  match t with EmptyString => true | String a _ => negb (is_space a) end.

Lemma trim_left_clean s : starts_clean (trim_left s) = true.
Proof. induction s as [|a r IH]; simpl; [reflexivity|]. destruct (is_space a) eqn:E; [exact IH|simpl; rewrite E; reflexivity]. Qed.

Lemma trim_left_id t : starts_clean t = true -> trim_left t = t.
Proof. destruct t as [|a r]; simpl; [reflexivity|]. intros H. apply negb_true_iff in H. rewrite H. reflexivity. Qed.

Lemma trim_right_idem t : trim_right (trim_right t) = trim_right t.
Proof.
  induction t as [|a r IH]; simpl; [reflexivity|].
  destruct (trim_right r) as [|b r'] eqn:E.
  - destruct (is_space a) eqn:Ea; simpl; [reflexivity|rewrite Ea; reflexivity].
  - simpl. simpl in IH. rewrite IH. destruct (match trim_right r' with EmptyString => _ | _ => _ end); reflexivity.
Qed.

Lemma trim_right_clean t : starts_clean t = true -> starts_clean (trim_right t) = true.
Proof.
  destruct t as [|a r]; simpl; [reflexivity|]. intros H.
  destruct (trim_right r); [|exact H].
  apply negb_true_iff in H. rewrite H. simpl. rewrite H. reflexivity.
Qed.

Lemma trim_idem s : trim (trim s) = trim s.
Proof.
  unfold trim. rewrite (trim_left_id (trim_right (trim_left s))).
  - apply trim_right_idem.
  - apply trim_right_clean. apply trim_left_clean.
Qed.

Lemma trim_left_upper s : trim_left (upper s) = upper (trim_left s).
Proof. unfold upper. induction s as [|a r IH]; cbn [smap trim_left]; [reflexivity|]. rewrite to_upper_space. destruct (is_space a); [exact IH|reflexivity]. Qed.

Lemma trim_right_upper s : trim_right (upper s) = upper (trim_right s).
Proof.
  unfold upper. induction s as [|a r IH]; cbn [smap trim_right]; [reflexivity|].
  rewrite IH. destruct (trim_right r) as [|b r']; cbn [smap].
  - rewrite to_upper_space. destruct (is_space a); reflexivity.
  - reflexivity.
Qed.

Lemma trim_upper s : trim (upper s) = upper (trim s).
Proof. unfold trim. rewrite trim_left_upper, trim_right_upper. reflexivity. Qed.

Lemma upper_idem s : upper (upper s) = upper s.
Proof. unfold upper. induction s as [|a r IH]; cbn [smap]; [reflexivity|]. rewrite to_upper_idem, IH. reflexivity. Qed.

Lemma no_comma_cons a r : no_comma (String a r) = negb (Ascii.eqb a ","%char) && no_comma r.
Proof. reflexivity. Qed.

Lemma trim_left_no_comma s : no_comma s = true -> no_comma (trim_left s) = true.
Proof.
  induction s as [|a r IH]; cbn [trim_left]; intros H; [reflexivity|].
  destruct (is_space a); [|exact H]. rewrite no_comma_cons in H. apply andb_true_iff in H. apply IH. tauto.
Qed.

Lemma trim_right_no_comma s : no_comma s = true -> no_comma (trim_right s) = true.
Proof.
  induction s as [|a r IH]; cbn [trim_right]; intros H; [reflexivity|].
  rewrite no_comma_cons in H. apply andb_true_iff in H. destruct H as [H1 H2]. specialize (IH H2).
  destruct (trim_right r) as [|b r'].
  - destruct (is_space a); [reflexivity|]. rewrite no_comma_cons, H1. reflexivity.
  - rewrite no_comma_cons, H1. exact IH.
Qed.

Lemma upper_no_comma s : no_comma (upper s) = no_comma s.
Proof. unfold upper, no_comma. induction s as [|a r IH]; cbn [smap sforall]; [reflexivity|]. rewrite to_upper_comma, IH. reflexivity. Qed.

(* ---------- parse_list ---------- *)
Definition norm (up : bool) (p : string) : string := if up then upper (trim p) else trim p.

Lemma parse_list_unfold up s :
  parse_list up s = if String.eqb s "" then [] else filter nonempty (map (norm up) (split_on ","%char s)).
Proof. reflexivity. Qed.

Lemma norm_idem up p : norm up (norm up p) = norm up p.
Proof.
  unfold norm. destruct up.
  - rewrite trim_upper, trim_idem, upper_idem. reflexivity.
  - apply trim_idem.
Qed.

Lemma norm_no_comma up p : no_comma p = true -> no_comma (norm up p) = true.
Proof.
  intros H. unfold norm, trim. destruct up.
  - rewrite upper_no_comma. apply trim_right_no_comma, trim_left_no_comma, H.
  - apply trim_right_no_comma, trim_left_no_comma, H.
Qed.

(* what the items of a parsed list look like *)
Definition clean_item (up : bool) (x : string) : Prop :=
  x <> "" /\ no_comma x = true /\ norm up x = x.

Lemma parse_list_items up s x : In x (parse_list up s) -> clean_item up x.
Proof.
  rewrite parse_list_unfold. destruct (String.eqb s ""); [intros []|].
  intros H. apply filter_In in H. destruct H as [H1 H2].
  apply in_map_iff in H1. destruct H1 as [p [<- Hp]].
  split; [|split].
  - intros E. unfold nonempty in H2. rewrite E in H2. discriminate.
  - apply norm_no_comma. apply split_on_pieces with (s := s). exact Hp.
  - apply norm_idem.
Qed.

Lemma join_nonempty l : l <> [] -> (forall x, In x l -> x <> "") -> join "," l <> "".
Proof.
  destruct l as [|x l]; intros Hne H; [contradiction|].
  assert (Hx : x <> "") by (apply H; left; reflexivity).
  destruct l; simpl; [exact Hx|]. destruct x; [contradiction|discriminate].
Qed.

Lemma parse_list_of_clean up l :
  (forall x, In x l -> clean_item up x) -> parse_list up (join "," l) = l.
Proof.
  intros H. rewrite parse_list_unfold.
  destruct l as [|x0 l0] eqn:El; [reflexivity|]. rewrite <- El in *.
  assert (Hne : l <> []) by (rewrite El; discriminate).
  destruct (String.eqb (join "," l) "") eqn:E.
  - apply String.eqb_eq in E. exfalso. revert E. apply join_nonempty; [exact Hne|]. intros x Hx. apply (H x Hx).
  - rewrite split_on_join; [|exact Hne|intros x Hx; apply (H x Hx)].
    assert (Hmap : map (norm up) l = l).
    { clear -H. induction l as [|x l IH]; simpl; [reflexivity|].
      rewrite IH by (intros y Hy; apply H; right; exact Hy).
      destruct (H x (or_introl eq_refl)) as (_ & _ & ->). reflexivity. }
    rewrite Hmap.
    clear -H. induction l as [|x l IH]; simpl; [reflexivity|].
    rewrite IH by (intros y Hy; apply H; right; exact Hy).
    destruct (H x (or_introl eq_refl)) as (Hx & _ & _).
    unfold nonempty. destruct (String.eqb_spec x ""); [contradiction|reflexivity].
Qed.

(* re-parsing a parsed list (the round trip through the flag default) is the identity *)
Theorem parse_list_roundtrip up s : parse_list up (join "," (parse_list up s)) = parse_list up s.
Proof. apply parse_list_of_clean. intros x Hx. eapply parse_list_items; exact Hx. Qed.

(* the declarative reading of parse_list: split on commas, trim, drop empties, upper-case iff [up] *)
Theorem parse_list_spec up s x :
  In x (parse_list up s) <-> exists p, In p (split_on ","%char s) /\ x = norm up p /\ x <> "".
Proof.
  rewrite parse_list_unfold. destruct (String.eqb_spec s "") as [->|Hs].
  - simpl. split; [intros []|]. intros [p [[<-|[]] [-> Hx]]]. destruct up; compute in Hx; contradiction.
  - rewrite filter_In, in_map_iff. split.
    + intros [[p [<- Hp]] H2]. exists p. split; [exact Hp|split; [reflexivity|]].
      intros E. unfold nonempty in H2. rewrite E in H2. discriminate.
    + intros [p [Hp [-> Hx]]]. split; [exists p; split; [reflexivity|exact Hp]|].
      unfold nonempty. destruct (String.eqb_spec (norm up p) ""); [contradiction|reflexivity].
Qed.

(* ---------- parse_bool ---------- *)
Definition no_upper (s : string) : bool := sforall (fun a => negb (is_upper a)) s.

Lemma lower_no_upper s : no_upper (lower s) = true.
Proof. unfold lower, no_upper. induction s as [|a r IH]; cbn [smap sforall]; [reflexivity|]. rewrite to_lower_not_upper. exact IH. Qed.

Lemma str_mem_cons x y l : str_mem x (y :: l) = String.eqb x y || str_mem x l.
Proof. reflexivity. Qed.

Theorem parse_bool_true_iff s :
  parse_bool ["yes"; "on"] s = true <-> In (lower (trim s)) ["1"; "t"; "true"; "yes"; "on"].
Proof.
  unfold parse_bool, go_parse_bool.
  pose proof (lower_no_upper (trim s)) as Hl. remember (lower (trim s)) as s' eqn:Es. clear Es.
  split.
  - destruct (str_mem s' ["1"; "t"; "T"; "TRUE"; "true"; "True"]) eqn:E1.
    + intros _. apply str_mem_In in E1. simpl in E1.
      destruct E1 as [<-|[<-|[<-|[<-|[<-|[<-|[]]]]]]]; simpl; auto; vm_compute in Hl; discriminate.
    + destruct (str_mem s' ["0"; "f"; "F"; "FALSE"; "false"; "False"]) eqn:E2; [discriminate|].
      intros H. apply str_mem_In in H. simpl in H. simpl. tauto.
  - intros H. simpl in H. destruct H as [<-|[<-|[<-|[<-|[<-|[]]]]]]; reflexivity.
Qed.

(* ---------- resolution ---------- *)
Section Resolve.
Variable P : cfg_params.
Hypothesis up_paths_same : up_flag_paths P = up_env_paths P.
Hypothesis up_checks_same : up_flag_checks P = up_env_checks P.
Hypothesis def_paths_clean : parse_list (up_flag_paths P) (join "," (def_paths P)) = def_paths P.
Hypothesis def_checks_clean : parse_list (up_flag_checks P) (join "," (def_checks P)) = def_checks P.

Theorem resolve_is_flag_env_default f e :
  match lookup (env_only P) e with Some v => v = "" | None => True end ->
  resolve P f e =
  match spec_scan P f e with
  | None => FlagError
  | Some sc =>
      CfgOk {| scan_tests := sc;
               exclude_paths := spec_list (flag_paths P) (env_paths P) (up_flag_paths P) (up_env_paths P) (def_paths P) f e;
               exclude_checks := spec_list (flag_checks P) (env_checks P) (up_flag_checks P) (up_env_checks P) (def_checks P) f e |}
  end.
Proof.
  intros Honly. unfold resolve, spec_scan, spec_list, from_env. cbn [scan_tests exclude_paths exclude_checks].
  assert (Eonly : (match lookup (env_only P) e with Some v => negb (String.eqb v "") | None => false end) = false).
  { destruct (lookup (env_only P) e) as [v|]; [|reflexivity]. subst v. reflexivity. }
  rewrite Eonly.
  assert (Hp : parse_list (up_flag_paths P)
                 match last_flag (flag_paths P) f None with
                 | Some (Some v) => v
                 | _ => join "," match lookup (env_paths P) e with
                                 | Some v => parse_list (up_env_paths P) v
                                 | None => def_paths P end
                 end
               = match last_flag (flag_paths P) f None with
                 | Some (Some v) => parse_list (up_flag_paths P) v
                 | _ => match lookup (env_paths P) e with
                        | Some v => parse_list (up_env_paths P) v
                        | None => def_paths P end
                 end).
  { destruct (last_flag (flag_paths P) f None) as [[v|]|]; try reflexivity;
      (destruct (lookup (env_paths P) e) as [v'|]; [rewrite up_paths_same; apply parse_list_roundtrip|exact def_paths_clean]). }
  assert (Hc : parse_list (up_flag_checks P)
                 match last_flag (flag_checks P) f None with
                 | Some (Some v) => v
                 | _ => join "," match lookup (env_checks P) e with
                                 | Some v => parse_list (up_env_checks P) v
                                 | None => def_checks P end
                 end
               = match last_flag (flag_checks P) f None with
                 | Some (Some v) => parse_list (up_flag_checks P) v
                 | _ => match lookup (env_checks P) e with
                        | Some v => parse_list (up_env_checks P) v
                        | None => def_checks P end
                 end).
  { destruct (last_flag (flag_checks P) f None) as [[v|]|]; try reflexivity;
      (destruct (lookup (env_checks P) e) as [v'|]; [rewrite up_checks_same; apply parse_list_roundtrip|exact def_checks_clean]). }
  rewrite Hp, Hc.
  destruct (bool_flag (flag_scan P) f None) as [[b|]|].
  - reflexivity.
  - destruct (lookup (env_scan P) e) as [v|]; [destruct (String.eqb v "")|]; reflexivity.
  - reflexivity.
Qed.

(* no value of the environment makes resolution fail: only an ill-formed boolean *flag* can *)
Theorem env_never_fails e : resolve P [] e <> FlagError.
Proof. unfold resolve. simpl. destruct (match lookup (env_only P) e with Some v => _ | None => _ end); discriminate. Qed.

End Resolve.
