(* The IgnoreSet operations a package's @ignore comments give rise to start at positions >= 1 (so the marker look-up is
   total and the suppression theorems apply without a side condition), and C08 end to end: the whole analysis under
   exclude-checks = S is the filter of the whole analysis without it. *)
From Coq Require Import List String ZArith Bool Lia.
From GG Require Import Base.Strs Model.Codes Model.IgnoreSet Model.Config Model.GoTypes Model.GoAst Model.RegexSyntax Model.Regex Model.Annot
                       Model.Annots Model.Analyze Model.Impl Extracted Exec Proofs.WalkProofs Proofs.CheckerProofs Proofs.IgnoreSetProofs Proofs.CodesProofs.
Import ListNotations.
Local Open Scope string_scope.
Local Open Scope Z_scope.

(* ---- input condition: positions of a parsed file are >= 1 (token.Pos 0 is NoPos; a FileSet's base is >= 1) ---- *)
Definition file_pos_ok (f : file) : bool :=
  forallb (fun c => 1 <=? c_pos c) (List.concat (f_comments f)) && forallb (fun l => 1 <=? l) (f_lines f).

Definition ops_positive (ops : list op) : Prop := forall cs st en, In (OpAdd cs st en) ops -> 1 <= st.

Lemma line_start_in f l s : line_start f l = Some s -> In s (f_lines f).
Proof.
  unfold line_start. destruct ((1 <=? l) && (l <=? Z.of_nat (List.length (f_lines f)))); [|discriminate].
  apply nth_error_In.
Qed.

Section Reader.
Variable re_ign : RegexSyntax.re.
Variable kw : list string.

Lemma find_inline_start f c s e : find_inline f c = Inline s e -> In s (f_lines f).
Proof.
  unfold find_inline. cbv zeta.
  destruct (match first_index (fun d => n_end d >? c_pos c) (f_decls f) 0 with
            | O => false
            | S j => match nth_error (f_decls f) j with Some d => line_of f (n_end d) =? line_of f (c_pos c) | None => false end
            end).
  - destruct (line_start f (line_of f (c_pos c))) as [ls|] eqn:E; [|discriminate]. intros H. injection H as <- _. eapply line_start_in; exact E.
  - destruct (nth_error (f_decls f) (first_index (fun d => n_end d >? c_pos c) (f_decls f) 0)) as [d|]; [|discriminate].
    destruct (c_pos c <? n_pos d); [discriminate|].
    destruct (has_code_on_line f (c_pos c) (line_of f (c_pos c)) d); [|discriminate].
    destruct (line_start f (line_of f (c_pos c))) as [ls|] eqn:E; [|discriminate]. intros H. injection H as <- _. eapply line_start_in; exact E.
Qed.

Lemma comment_scope_start f c s e : comment_scope f c = Some (s, e) -> s = c_pos c \/ In s (f_lines f).
Proof.
  unfold comment_scope. destruct (c_pos c <? f_package f); [intros H; injection H as <- _; left; reflexivity|].
  destruct (find_inline f c) as [s' e'| |] eqn:E; [|intros H; injection H as <- _; left; reflexivity|discriminate].
  intros H. injection H as <- _. right. eapply find_inline_start; exact E.
Qed.

Lemma ignore_ops_comments_positive f cs ops :
  (forall c, In c cs -> 1 <= c_pos c) -> (forall l, In l (f_lines f) -> 1 <= l) ->
  ignore_ops_comments re_ign kw f cs = Some ops -> ops_positive ops.
Proof.
  intros Hc Hl. revert ops. induction cs as [|c r IH]; intros ops; cbn [ignore_ops_comments].
  - intros H. injection H as <-. intros ? ? ? [].
  - destruct (ignore_ops_comments re_ign kw f r) as [rest|]; [|discriminate].
    assert (Hr : ops_positive rest) by (apply IH; [intros c' Hc'; apply Hc; right; exact Hc'|reflexivity]).
    destruct (is_ignore_comment kw (c_text c)); [|intros H; injection H as <-; exact Hr].
    destruct (comment_scope f c) as [[s e]|] eqn:Es; [|discriminate].
    destruct (parse_ignore re_ign (c_text c)) as [codes|]; intros H; injection H as <-; [|exact Hr].
    intros cs0 st en [Hx|Hx]; [|exact (Hr cs0 st en Hx)]. injection Hx as _ <- _.
    destruct (comment_scope_start f c s e Es) as [->|Hin]; [apply Hc; left; reflexivity|apply Hl; exact Hin].
Qed.

Lemma ignore_ops_files_positive fls ops :
  forallb file_pos_ok fls = true -> ignore_ops_files re_ign kw fls = Some ops -> ops_positive ops.
Proof.
  revert ops. induction fls as [|f r IH]; intros ops Hok; cbn [ignore_ops_files].
  - intros H. injection H as <-. intros ? ? ? [].
  - cbn [forallb] in Hok. apply andb_true_iff in Hok. destruct Hok as [Hf Hr].
    destruct (ignore_ops_comments re_ign kw f (List.concat (f_comments f))) as [a|] eqn:Ea; [|discriminate].
    destruct (ignore_ops_files re_ign kw r) as [b|]; [|discriminate]. intros H. injection H as <-.
    unfold file_pos_ok in Hf. apply andb_true_iff in Hf. destruct Hf as [H1 H2]. rewrite forallb_forall in H1, H2.
    assert (Ha : ops_positive a).
    { eapply ignore_ops_comments_positive; [| |exact Ea]; [intros c Hc; apply Z.leb_le; apply H1; exact Hc|intros l Hl; apply Z.leb_le; apply H2; exact Hl]. }
    intros cs st en Hin. apply in_app_or in Hin. destruct Hin as [Hin|Hin]; [exact (Ha cs st en Hin)|exact (IH b Hr eq_refl cs st en Hin)].
Qed.

Lemma ignore_ops_positive cfg p ops :
  forallb file_pos_ok (kept_files cfg p) = true -> ignore_ops re_ign kw cfg p = Some ops -> ops_positive ops.
Proof.
  unfold ignore_ops, kept_files. intros Hok.
  destruct (ignore_ops_files re_ign kw (filter (fun f => negb (should_skip cfg (f_name f))) (p_files p))) as [o|] eqn:E; [|discriminate].
  pose proof (ignore_ops_files_positive _ o Hok E) as Hp. intros H. injection H as <-.
  destruct (exclude_checks cfg); [exact Hp|]. intros cs st en [Hx|Hx]; [discriminate|exact (Hp cs st en Hx)].
Qed.
End Reader.

Definition x_pos_ok (cfg : config) (p : package) : bool := forallb file_pos_ok (kept_files cfg p).

Theorem x_ops_positive cfg p ops : x_pos_ok cfg p = true -> x_ignore_ops cfg p = Some ops -> ops_positive ops.
Proof. apply ignore_ops_positive. Qed.

(* ---- the checkers depend on the suppression function pointwise ---- *)
Section Ext.
Variables s1 s2 : string -> Z -> bool.
Hypothesis Heq : forall c q, s1 c q = s2 c q.

Lemma report_filter_ext ds : report_filter s1 ds = report_filter s2 ds.
Proof. unfold report_filter. apply filter_ext. intros d. rewrite Heq. reflexivity. Qed.

Lemma dedup_rec_ext seen cs : dedup_rec s1 seen cs = dedup_rec s2 seen cs.
Proof.
  revert seen. induction cs as [|[d k] r IH]; intros seen; [reflexivity|]. cbn [dedup_rec]. rewrite Heq.
  destruct (s2 (d_code d) (d_pos d)); [apply IH|]. destruct k as [k'|]; [destruct (existsb (key_eqb k') seen)|]; try apply IH; f_equal; apply IH.
Qed.

Lemma tonl_diags_ext fs cur files : tonl_diags fs cur s1 files = tonl_diags fs cur s2 files.
Proof.
  unfold tonl_diags. destruct (negb (tonl_has AKType fs) && negb (tonl_has AKFunc fs) && negb (tonl_has AKMethod fs)); [reflexivity|].
  apply flat_map_ext. intros f. rewrite !tonl_file_spec. destruct (has_suffix "_test.go" (f_name f)); [reflexivity|apply dedup_rec_ext].
Qed.

Lemma pkgo_diags_ext fs cur cur_name files : pkgo_diags fs cur cur_name s1 files = pkgo_diags fs cur cur_name s2 files.
Proof.
  unfold pkgo_diags. destruct (pkgo_index_empty fs); [reflexivity|].
  apply flat_map_ext. intros f. rewrite !pkgo_file_spec. apply dedup_rec_ext.
Qed.
End Ext.

(* ---- C08, the whole analysis ---- *)
Definition excluded (S : list string) (c : string) : bool := existsb (fun tk => str_mem tk S) (x_tokens_for c).
Definition kept (S : list string) (d : diag) : bool := negb (excluded S (d_code d)).

Definition with_checks (cfg : config) (S : list string) : config :=
  {| scan_tests := scan_tests cfg; exclude_paths := exclude_paths cfg; exclude_checks := S |}.

Lemma suppressed_global S ops c q : ops_positive ops -> x_suppressed (OpGlobal S :: ops) c q = excluded S c || x_suppressed ops c q.
Proof.
  intros H. unfold x_suppressed, x_is_contains, x_is_run.
  rewrite (contains_run x_all codes_table (OpGlobal S :: ops) c q).
  2:{ intros cs st en [Hx|Hx]; [discriminate|exact (H cs st en Hx)]. }
  rewrite (contains_run x_all codes_table ops c q H). reflexivity.
Qed.

Lemma filter_app' {A} (f : A -> bool) a b : filter f (a ++ b) = (filter f a ++ filter f b)%list.
Proof. apply filter_app. Qed.

Lemma filter_flat_map' {A B} (f : B -> bool) (g : A -> list B) l : filter f (flat_map g l) = flat_map (fun x => filter f (g x)) l.
Proof. induction l as [|x l IH]; simpl; [reflexivity|]. rewrite filter_app, IH. reflexivity. Qed.

Theorem analyze_exclude cfg S p all :
  S <> [] -> x_pos_ok cfg p = true ->
  match x_analyze (with_checks cfg []) p all with
  | AOk own ds => x_analyze (with_checks cfg S) p all = AOk own (filter (kept S) ds)
  | APanic site => x_analyze (with_checks cfg S) p all = APanic site
  end.
Proof.
  intros HS Hok. unfold x_analyze, x_read_all, x_ignore_ops.
  assert (Hk : forall ec, kept_files (with_checks cfg ec) p = kept_files cfg p) by reflexivity.
  assert (Hr : forall ec, read_all re_implements re_constructor re_immutable re_testonly re_mutable re_packageonly kw_annotations (with_checks cfg ec) p =
                          read_all re_implements re_constructor re_immutable re_testonly re_mutable re_packageonly kw_annotations cfg p) by reflexivity.
  rewrite !Hr, !Hk.
  unfold ignore_ops.
  assert (Hf : forall ec, filter (fun f => negb (should_skip (with_checks cfg ec) (f_name f))) (p_files p) = kept_files cfg p) by reflexivity.
  rewrite !Hf. cbn [with_checks exclude_checks].
  destruct (ignore_ops_files re_ignore kw_ignore (kept_files cfg p)) as [ops|] eqn:Eo; [|destruct S; reflexivity].
  assert (Hp : ops_positive ops) by (eapply ignore_ops_files_positive; [exact Hok|exact Eo]).
  destruct S as [|tk S']; [contradiction|]. set (S := tk :: S') in *.
  f_equal.
  set (own := read_all re_implements re_constructor re_immutable re_testonly re_mutable re_packageonly kw_annotations cfg p).
  set (fs := x_facts p own all).
  pose proof (suppressed_global S ops) as Hs.
  rewrite (report_filter_ext _ (sup' (excluded S) (x_suppressed ops))) by (intros c q; apply Hs; exact Hp).
  rewrite (report_filter_ext (x_suppressed (OpGlobal S :: ops)) (sup' (excluded S) (x_suppressed ops)) (fun c q => Hs c q Hp) (imm_candidates _ _ _)).
  rewrite (report_filter_ext (x_suppressed (OpGlobal S :: ops)) (sup' (excluded S) (x_suppressed ops)) (fun c q => Hs c q Hp) (ctor_candidates _ _ _)).
  rewrite (tonl_diags_ext (x_suppressed (OpGlobal S :: ops)) (sup' (excluded S) (x_suppressed ops)) (fun c q => Hs c q Hp)).
  rewrite (pkgo_diags_ext (x_suppressed (OpGlobal S :: ops)) (sup' (excluded S) (x_suppressed ops)) (fun c q => Hs c q Hp)).
  rewrite !filter_app. rewrite !(exclude_report_filter (excluded S) (x_suppressed ops)).
  f_equal. f_equal. f_equal. f_equal.
  - unfold tonl_diags. destruct (negb (tonl_has AKType fs) && negb (tonl_has AKFunc fs) && negb (tonl_has AKMethod fs)); [reflexivity|].
    rewrite filter_flat_map'. apply flat_map_ext. intros f. rewrite !tonl_file_spec.
    destruct (has_suffix "_test.go" (f_name f)); [reflexivity|].
    apply (exclude_dedup (excluded S) (x_suppressed ops) "TONL01"). apply keyed_code_flat_map. intros n. apply tonl_cands_keyed.
  - unfold pkgo_diags. destruct (pkgo_index_empty fs); [reflexivity|].
    rewrite filter_flat_map'. apply flat_map_ext. intros f. rewrite !pkgo_file_spec.
    apply (exclude_dedup (excluded S) (x_suppressed ops) "PKGO01"). apply keyed_code_flat_map. intros n. apply pkgo_cands_keyed.
Qed.

(* ---- input conditions of the @implements theorems, as booleans evaluated on every serialised package ---- *)
Fixpoint nodup_ids (l : list (string * string)) : bool :=
  match l with
  | [] => true
  | x :: r => negb (existsb (fun y => String.eqb (fst x) (fst y) && String.eqb (snd x) (snd y)) r) && nodup_ids r
  end.

Lemma nodup_ids_sound l : nodup_ids l = true -> NoDup l.
Proof.
  induction l as [|x r IH]; intros H; [constructor|]. cbn [nodup_ids] in H. apply andb_true_iff in H. destruct H as [H1 H2].
  constructor; [|apply IH; exact H2]. intros Hin. apply negb_true_iff in H1.
  assert (existsb (fun y => String.eqb (fst x) (fst y) && String.eqb (snd x) (snd y)) r = true).
  { apply existsb_exists. exists x. split; [exact Hin|]. rewrite !String.eqb_refl. reflexivity. }
  congruence.
Qed.

Definition x_impl_inputs_ok (p : package) : bool :=
  forallb (fun td => nodup_ids (map tm_id (td_methods td))) (tt_types (p_types p)) &&
  forallb (fun f => forallb (fun i => negb (String.eqb (i_pkgname i) "")) (f_imports f)) (p_files p).

Theorem x_impl_inputs_ok_sound p :
  x_impl_inputs_ok p = true ->
  (forall td, In td (tt_types (p_types p)) -> NoDup (map tm_id (td_methods td))) /\
  (forall f i, In f (p_files p) -> In i (f_imports f) -> i_pkgname i <> "").
Proof.
  unfold x_impl_inputs_ok. intros H. apply andb_true_iff in H. destruct H as [H1 H2]. rewrite forallb_forall in H1, H2. split.
  - intros td Htd. apply nodup_ids_sound. exact (H1 td Htd).
  - intros f i Hf Hi E. specialize (H2 f Hf). rewrite forallb_forall in H2. specialize (H2 i Hi). rewrite E in H2. discriminate.
Qed.
