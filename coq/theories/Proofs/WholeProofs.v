(* The result of the whole per-package analysis, section by section: the diagnostics with a code of one checker are exactly
   that checker's output under the facts and the suppression the analysis itself computes. *)
From Coq Require Import List String ZArith Bool.
From GG Require Import Base.Strs Model.Codes Model.IgnoreSet Model.Config Model.GoTypes Model.GoAst Model.Annots Model.Analyze Model.Impl
                       Extracted Exec Proofs.WalkProofs Proofs.CheckerProofs Proofs.DiagProofs.
Import ListNotations.
Local Open Scope string_scope.

Theorem analyze_sections cfg p all own ds :
  x_analyze cfg p all = AOk own ds ->
  exists ops, x_ignore_ops cfg p = Some ops /\ own = x_read_all cfg p /\
    ds = (x_impl cfg p (x_suppressed ops) ++ x_imm cfg p (x_facts p own all) (x_suppressed ops) ++ x_ctor cfg p (x_facts p own all) (x_suppressed ops) ++
          x_tonl cfg p (x_facts p own all) (x_suppressed ops) ++ x_pkgo cfg p (x_facts p own all) (x_suppressed ops))%list.
Proof.
  unfold x_analyze. destruct (x_ignore_ops cfg p) as [ops|]; [|discriminate]. intros H. injection H as <- <-.
  exists ops. repeat split.
Qed.

(* the five code lists are pairwise disjoint *)
Definition disjoint_codes (a b : list string) : bool := forallb (fun c => negb (str_mem c b)) a.
Lemma disjoint_codes_spec a b c : disjoint_codes a b = true -> In c a -> ~ In c b.
Proof.
  unfold disjoint_codes. rewrite forallb_forall. intros H Ha Hb. specialize (H c Ha). apply negb_true_iff in H.
  apply (str_mem_In c b) in Hb. congruence.
Qed.

Section Sections.
Variables (cfg : config) (p : package) (all : list (string * annots)) (own : annots) (ds : list diag).
Hypothesis Hres : x_analyze cfg p all = AOk own ds.

Lemma in_impl sup d : In d (x_impl cfg p sup) -> In (d_code d) IMPL_CODES.
Proof. unfold x_impl, report_filter. intros Hin. apply filter_In in Hin. exact (impl_candidates_codes _ _ _ _ d (proj1 Hin)). Qed.
Lemma in_imm fs sup d : In d (x_imm cfg p fs sup) -> In (d_code d) IMM_CODES.
Proof. unfold x_imm, report_filter. intros Hin. apply filter_In in Hin. exact (imm_candidates_codes _ _ _ d (proj1 Hin)). Qed.
Lemma in_ctor fs sup d : In d (x_ctor cfg p fs sup) -> In (d_code d) CTOR_CODES.
Proof. unfold x_ctor, report_filter. intros Hin. apply filter_In in Hin. exact (ctor_candidates_codes _ _ _ d (proj1 Hin)). Qed.
Lemma in_tonl fs sup d : In d (x_tonl cfg p fs sup) -> In (d_code d) TONL_CODES.
Proof. unfold x_tonl. apply tonl_diags_codes. Qed.
Lemma in_pkgo fs sup d : In d (x_pkgo cfg p fs sup) -> In (d_code d) PKGO_CODES.
Proof. unfold x_pkgo. apply pkgo_diags_codes. Qed.

Theorem sections_under sup d :
  let fs := x_facts p (x_read_all cfg p) all in
  let dsu := (x_impl cfg p sup ++ x_imm cfg p fs sup ++ x_ctor cfg p fs sup ++ x_tonl cfg p fs sup ++ x_pkgo cfg p fs sup)%list in
  (In (d_code d) IMPL_CODES -> (In d dsu <-> In d (x_impl cfg p sup))) /\
  (In (d_code d) IMM_CODES -> (In d dsu <-> In d (x_imm cfg p fs sup))) /\
  (In (d_code d) CTOR_CODES -> (In d dsu <-> In d (x_ctor cfg p fs sup))) /\
  (In (d_code d) TONL_CODES -> (In d dsu <-> In d (x_tonl cfg p fs sup))) /\
  (In (d_code d) PKGO_CODES -> (In d dsu <-> In d (x_pkgo cfg p fs sup))).
Proof.
  cbv zeta. rewrite !in_app_iff. set (fs := x_facts p (x_read_all cfg p) all).
  assert (D : forall A B, disjoint_codes A B = true -> In (d_code d) A -> In (d_code d) B -> False) by (intros A B HAB Ha Hb; exact (disjoint_codes_spec A B _ HAB Ha Hb)).
  repeat match goal with |- _ /\ _ => split end; intros Hc; (split; [|tauto]).
  - intros [X|[X|[X|[X|X]]]]; [exact X| | | |]; exfalso.
    + apply (D IMPL_CODES IMM_CODES); [vm_compute; reflexivity|exact Hc|exact (in_imm _ _ _ X)].
    + apply (D IMPL_CODES CTOR_CODES); [vm_compute; reflexivity|exact Hc|exact (in_ctor _ _ _ X)].
    + apply (D IMPL_CODES TONL_CODES); [vm_compute; reflexivity|exact Hc|exact (in_tonl _ _ _ X)].
    + apply (D IMPL_CODES PKGO_CODES); [vm_compute; reflexivity|exact Hc|exact (in_pkgo _ _ _ X)].
  - intros [X|[X|[X|[X|X]]]]; [|exact X| | |]; exfalso.
    + apply (D IMM_CODES IMPL_CODES); [vm_compute; reflexivity|exact Hc|exact (in_impl _ _ X)].
    + apply (D IMM_CODES CTOR_CODES); [vm_compute; reflexivity|exact Hc|exact (in_ctor _ _ _ X)].
    + apply (D IMM_CODES TONL_CODES); [vm_compute; reflexivity|exact Hc|exact (in_tonl _ _ _ X)].
    + apply (D IMM_CODES PKGO_CODES); [vm_compute; reflexivity|exact Hc|exact (in_pkgo _ _ _ X)].
  - intros [X|[X|[X|[X|X]]]]; [| |exact X| |]; exfalso.
    + apply (D CTOR_CODES IMPL_CODES); [vm_compute; reflexivity|exact Hc|exact (in_impl _ _ X)].
    + apply (D CTOR_CODES IMM_CODES); [vm_compute; reflexivity|exact Hc|exact (in_imm _ _ _ X)].
    + apply (D CTOR_CODES TONL_CODES); [vm_compute; reflexivity|exact Hc|exact (in_tonl _ _ _ X)].
    + apply (D CTOR_CODES PKGO_CODES); [vm_compute; reflexivity|exact Hc|exact (in_pkgo _ _ _ X)].
  - intros [X|[X|[X|[X|X]]]]; [| | |exact X|]; exfalso.
    + apply (D TONL_CODES IMPL_CODES); [vm_compute; reflexivity|exact Hc|exact (in_impl _ _ X)].
    + apply (D TONL_CODES IMM_CODES); [vm_compute; reflexivity|exact Hc|exact (in_imm _ _ _ X)].
    + apply (D TONL_CODES CTOR_CODES); [vm_compute; reflexivity|exact Hc|exact (in_ctor _ _ _ X)].
    + apply (D TONL_CODES PKGO_CODES); [vm_compute; reflexivity|exact Hc|exact (in_pkgo _ _ _ X)].
  - intros [X|[X|[X|[X|X]]]]; [| | | |exact X]; exfalso.
    + apply (D PKGO_CODES IMPL_CODES); [vm_compute; reflexivity|exact Hc|exact (in_impl _ _ X)].
    + apply (D PKGO_CODES IMM_CODES); [vm_compute; reflexivity|exact Hc|exact (in_imm _ _ _ X)].
    + apply (D PKGO_CODES CTOR_CODES); [vm_compute; reflexivity|exact Hc|exact (in_ctor _ _ _ X)].
    + apply (D PKGO_CODES TONL_CODES); [vm_compute; reflexivity|exact Hc|exact (in_tonl _ _ _ X)].
Qed.

Theorem section_of_code :
  exists ops, x_ignore_ops cfg p = Some ops /\ own = x_read_all cfg p /\
    let fs := x_facts p own all in let sup := x_suppressed ops in
    forall d,
      (In (d_code d) IMPL_CODES -> (In d ds <-> In d (x_impl cfg p sup))) /\
      (In (d_code d) IMM_CODES -> (In d ds <-> In d (x_imm cfg p fs sup))) /\
      (In (d_code d) CTOR_CODES -> (In d ds <-> In d (x_ctor cfg p fs sup))) /\
      (In (d_code d) TONL_CODES -> (In d ds <-> In d (x_tonl cfg p fs sup))) /\
      (In (d_code d) PKGO_CODES -> (In d ds <-> In d (x_pkgo cfg p fs sup))).
Proof.
  destruct (analyze_sections cfg p all own ds Hres) as (ops & Ho & Hown & Hds). exists ops. split; [exact Ho|]. split; [exact Hown|].
  cbv zeta. intros d. rewrite Hds, Hown. exact (sections_under (x_suppressed ops) d).
Qed.
End Sections.
