(* C07 end to end: one more @ignore comment in a file of a package = the same analysis under "covered by the new marker, or
   suppressed as before" - same annotations, same candidates, nothing else changes. *)
From Coq Require Import List String ZArith Bool Lia Permutation.
From GG Require Import Base.Strs Model.Codes Model.IgnoreSet Model.Config Model.GoTypes Model.GoAst Model.RegexSyntax Model.Regex Model.Annot
                       Model.Annots Model.Analyze Model.Impl Extracted Exec Proofs.WalkProofs Proofs.CheckerProofs Proofs.IgnoreSetProofs Proofs.OpsProofs Proofs.IgnoreProofs Proofs.DiagProofs Proofs.WholeProofs.
Import ListNotations.
Local Open Scope string_scope.
Local Open Scope Z_scope.

(* the diagnostics of a package under a given suppression function (what x_analyze assembles once the markers are known) *)
Definition diags_under (cfg : config) (p : package) (all : list (string * annots)) (sup : string -> Z -> bool) : list diag :=
  let own := x_read_all cfg p in
  let fs := x_facts p own all in
  (x_impl cfg p sup ++ x_imm cfg p fs sup ++ x_ctor cfg p fs sup ++ x_tonl cfg p fs sup ++ x_pkgo cfg p fs sup)%list.

Lemma analyze_is_diags_under cfg p all :
  x_analyze cfg p all = match x_ignore_ops cfg p with
                        | Some ops => AOk (x_read_all cfg p) (diags_under cfg p all (x_suppressed ops))
                        | None => APanic "token.File.LineStart: invalid line number"
                        end.
Proof. unfold x_analyze, diags_under. destruct (x_ignore_ops cfg p); reflexivity. Qed.

Lemma diags_under_ext cfg p all s1 s2 : (forall c q, s1 c q = s2 c q) -> diags_under cfg p all s1 = diags_under cfg p all s2.
Proof.
  intros H. unfold diags_under, x_impl, x_imm, x_ctor, x_tonl, x_pkgo.
  rewrite !(report_filter_ext s1 s2 H), (tonl_diags_ext s1 s2 H), (pkgo_diags_ext s1 s2 H). reflexivity.
Qed.

(* the suppression decision does not depend on the order in which the markers were added *)
Lemma suppressed_perm ops ops' c q : ops_positive ops -> Permutation ops ops' -> x_suppressed ops' c q = x_suppressed ops c q.
Proof.
  intros Hp P. assert (Hp' : ops_positive ops') by (intros cs st en Hin; apply (Hp cs st en); eapply Permutation_in; [apply Permutation_sym; exact P|exact Hin]).
  unfold x_suppressed, x_is_contains, x_is_run.
  rewrite (contains_run x_all codes_table ops' c q Hp'), (contains_run x_all codes_table ops c q Hp).
  unfold spec. symmetry. apply existsb_perm. exact P.
Qed.

Definition hit (C : list string) (s e : Z) (c : string) (q : Z) : bool :=
  (s <=? q) && (q <=? e) && existsb (fun tk => str_mem tk C) (x_tokens_for c).

Lemma suppressed_cons C s e ops c q : ops_positive (OpAdd C s e :: ops) -> x_suppressed (OpAdd C s e :: ops) c q = hit C s e c q || x_suppressed ops c q.
Proof.
  intros H. unfold x_suppressed, x_is_contains, x_is_run.
  rewrite (contains_run x_all codes_table (OpAdd C s e :: ops) c q H).
  rewrite (contains_run x_all codes_table ops c q) by (intros cs st en Hin; apply (H cs st en); right; exact Hin).
  reflexivity.
Qed.

Section Reader.
Variable re_ign : RegexSyntax.re.
Variable kw : list string.

(* the reader's operations over a comment list with one more @ignore comment: one more operation, the others unchanged *)
Lemma ops_comments_insert f pre c' post C s e :
  is_ignore_comment kw (c_text c') = true -> parse_ignore re_ign (c_text c') = Some C -> comment_scope f c' = Some (s, e) ->
  ignore_ops_comments re_ign kw f (pre ++ c' :: post) =
  match ignore_ops_comments re_ign kw f (pre ++ post) with
  | None => None
  | Some ops => match ignore_ops_comments re_ign kw f pre, ignore_ops_comments re_ign kw f post with
                | Some a, Some b => Some (a ++ OpAdd C s e :: b)%list
                | _, _ => None
                end
  end.
Proof.
  intros Hi Hpz Hs.
  assert (App : forall l1 l2, ignore_ops_comments re_ign kw f (l1 ++ l2) =
                              match ignore_ops_comments re_ign kw f l1, ignore_ops_comments re_ign kw f l2 with
                              | Some a, Some b => Some (a ++ b)%list | _, _ => None end).
  { induction l1 as [|x r IH]; intros l2; cbn [app ignore_ops_comments].
    - destruct (ignore_ops_comments re_ign kw f l2); reflexivity.
    - rewrite IH. destruct (ignore_ops_comments re_ign kw f r) as [a|]; [|reflexivity].
      destruct (ignore_ops_comments re_ign kw f l2) as [b|].
      + destruct (is_ignore_comment kw (c_text x)); [|reflexivity]. destruct (comment_scope f x) as [[s0 e0]|]; [|reflexivity].
        destruct (parse_ignore re_ign (c_text x)); reflexivity.
      + destruct (is_ignore_comment kw (c_text x)); [|reflexivity]. destruct (comment_scope f x) as [[s0 e0]|]; [|reflexivity].
        destruct (parse_ignore re_ign (c_text x)); reflexivity. }
  rewrite !App. cbn [ignore_ops_comments]. rewrite Hi, Hs, Hpz.
  destruct (ignore_ops_comments re_ign kw f pre) as [a|]; [|reflexivity].
  destruct (ignore_ops_comments re_ign kw f post) as [b|]; reflexivity.
Qed.
End Reader.

(* a file with one more comment: everything else the same *)
Record one_more (f f' : file) (c' : comment) (pre post : list comment) : Prop := {
  om_name : f_name f' = f_name f; om_pkg : f_package f' = f_package f; om_end : f_end f' = f_end f; om_decls : f_decls f' = f_decls f;
  om_imports : f_imports f' = f_imports f; om_lines : f_lines f' = f_lines f;
  om_before : List.concat (f_comments f) = (pre ++ post)%list; om_after : List.concat (f_comments f') = (pre ++ c' :: post)%list }.

Lemma comment_scope_same f f' c : f_package f' = f_package f -> f_end f' = f_end f -> f_decls f' = f_decls f -> f_lines f' = f_lines f ->
  comment_scope f' c = comment_scope f c.
Proof.
  intros H1 H2 H3 H4. unfold comment_scope, find_inline, find_next_end, line_of, line_start. rewrite H1, H2, H3, H4.
  destruct (c_pos c <? f_package f); [reflexivity|].
  assert (Hh : forall cp cl d, has_code_on_line f' cp cl d = has_code_on_line f cp cl d).
  { intros cp cl d. induction d as [k q e a cs IH] using node_ind'. cbn [has_code_on_line]. unfold line_of. rewrite H4.
    destruct (q >=? cp); [reflexivity|]. destruct (_ || _); [reflexivity|].
    induction cs as [|x r IHr]; [reflexivity|]. inversion IH as [|? ? Hx Hr]; subst. rewrite Hx. f_equal. apply IHr. exact Hr. }
  cbv zeta. destruct (match first_index _ _ 0 with O => false | S j => _ end); [reflexivity|].
  destruct (nth_error (f_decls f) _) as [d|]; [|reflexivity]. destruct (c_pos c <? n_pos d); [reflexivity|].
  fold (line_of f (c_pos c)). unfold line_of at 1. rewrite <- H4. fold (line_of f' (c_pos c)).
  assert (El : line_of f' (c_pos c) = line_of f (c_pos c)) by (unfold line_of; rewrite H4; reflexivity).
  rewrite El, Hh. reflexivity.
Qed.

Lemma ops_comments_same re_ign kw f f' cs : f_package f' = f_package f -> f_end f' = f_end f -> f_decls f' = f_decls f -> f_lines f' = f_lines f ->
  ignore_ops_comments re_ign kw f' cs = ignore_ops_comments re_ign kw f cs.
Proof.
  intros H1 H2 H3 H4. induction cs as [|c r IH]; [reflexivity|]. cbn [ignore_ops_comments]. rewrite IH, (comment_scope_same f f' c H1 H2 H3 H4). reflexivity.
Qed.

(* the checkers and the annotation reader do not look at the comment list of a file *)
Lemma file_annots_same cur f f' : f_decls f' = f_decls f -> f_imports f' = f_imports f ->
  file_annots re_implements re_constructor re_immutable re_testonly re_mutable re_packageonly kw_annotations cur f' =
  file_annots re_implements re_constructor re_immutable re_testonly re_mutable re_packageonly kw_annotations cur f.
Proof. intros H1 H2. unfold file_annots. rewrite H1, H2. reflexivity. Qed.

Section Package.
Variables (cfg : config) (p p' : package) (all : list (string * annots)).
Variables (A B : list file) (f f' : file) (c' : comment) (pre post : list comment) (C : list string) (s e : Z).
Hypothesis Hpath : p_path p' = p_path p.
Hypothesis Hname : p_name p' = p_name p.
Hypothesis Himps : p_imports p' = p_imports p.
Hypothesis Htypes : p_types p' = p_types p.
Hypothesis Hk : kept_files cfg p = (A ++ f :: B)%list.
Hypothesis Hk' : kept_files cfg p' = (A ++ f' :: B)%list.
Hypothesis Hom : one_more f f' c' pre post.
Hypothesis Hign : is_ignore_comment kw_ignore (c_text c') = true.
Hypothesis Hcodes : x_parse_ignore (c_text c') = Some C.
Hypothesis Hscope : comment_scope f c' = Some (s, e).
Hypothesis Hpos : x_pos_ok cfg p = true.
Hypothesis Hs1 : 1 <= s.

Lemma read_all_same : x_read_all cfg p' = x_read_all cfg p.
Proof.
  unfold x_read_all, read_all. rewrite Hk, Hk', Hpath, !map_app. cbn [map]. f_equal. f_equal. f_equal.
  apply file_annots_same; [apply (om_decls _ _ _ _ _ Hom)|apply (om_imports _ _ _ _ _ Hom)].
Qed.

Lemma checkers_same sup : diags_under cfg p' all sup = diags_under cfg p all sup.
Proof.
  unfold diags_under. rewrite read_all_same. unfold x_impl, x_imm, x_ctor, x_tonl, x_pkgo, x_facts. rewrite read_all_same, Hpath, Hname, Himps, Htypes, Hk, Hk'.
  assert (Ei : forall fs, imm_candidates fs (p_path p) (A ++ f' :: B) = imm_candidates fs (p_path p) (A ++ f :: B)).
  { intros fs. unfold imm_candidates. destruct (imm_index_empty fs); [reflexivity|]. rewrite !flat_map_app. cbn [flat_map]. rewrite (om_decls _ _ _ _ _ Hom). reflexivity. }
  assert (Ec : forall fs, ctor_candidates fs (p_path p) (A ++ f' :: B) = ctor_candidates fs (p_path p) (A ++ f :: B)).
  { intros fs. unfold ctor_candidates. destruct (ctor_index_empty fs); [reflexivity|]. rewrite !flat_map_app. cbn [flat_map]. rewrite (om_decls _ _ _ _ _ Hom). reflexivity. }
  assert (Et : forall fs, tonl_diags fs (p_path p) sup (A ++ f' :: B) = tonl_diags fs (p_path p) sup (A ++ f :: B)).
  { intros fs. unfold tonl_diags. destruct (_ && _); [reflexivity|]. rewrite !flat_map_app. cbn [flat_map]. unfold tonl_file.
    rewrite (om_decls _ _ _ _ _ Hom), (om_name _ _ _ _ _ Hom). reflexivity. }
  assert (Ep : forall fs, pkgo_diags fs (p_path p) (p_name p) sup (A ++ f' :: B) = pkgo_diags fs (p_path p) (p_name p) sup (A ++ f :: B)).
  { intros fs. unfold pkgo_diags. destruct (pkgo_index_empty fs); [reflexivity|]. rewrite !flat_map_app. cbn [flat_map]. unfold pkgo_file.
    rewrite (om_decls _ _ _ _ _ Hom). reflexivity. }
  rewrite Ei, Ec, Et, Ep. reflexivity.
Qed.

Theorem analyze_one_more_ignore :
  match x_analyze cfg p all with
  | APanic m => x_analyze cfg p' all = APanic m
  | AOk own ds =>
      exists ops, x_ignore_ops cfg p = Some ops /\
        x_analyze cfg p' all = AOk own (diags_under cfg p all (fun c q => hit C s e c q || x_suppressed ops c q))
  end.
Proof.
  rewrite !analyze_is_diags_under.
  pose proof (fun ops => x_ops_positive cfg p ops Hpos) as Hpp. revert Hpp.
  unfold x_ignore_ops, ignore_ops.
  change (filter (fun f0 => negb (should_skip cfg (f_name f0))) (p_files p)) with (kept_files cfg p).
  change (filter (fun f0 => negb (should_skip cfg (f_name f0))) (p_files p')) with (kept_files cfg p').
  rewrite Hk, Hk'.
  assert (App : forall l1 l2, ignore_ops_files re_ignore kw_ignore (l1 ++ l2) =
                              match ignore_ops_files re_ignore kw_ignore l1, ignore_ops_files re_ignore kw_ignore l2 with
                              | Some a, Some b => Some (a ++ b)%list | _, _ => None end).
  { induction l1 as [|x r IH]; intros l2; cbn [app ignore_ops_files].
    - destruct (ignore_ops_files re_ignore kw_ignore l2); reflexivity.
    - rewrite IH. destruct (ignore_ops_comments re_ignore kw_ignore x (List.concat (f_comments x))) as [a|]; [|reflexivity].
      destruct (ignore_ops_files re_ignore kw_ignore r) as [b|]; [|reflexivity].
      destruct (ignore_ops_files re_ignore kw_ignore l2) as [c|]; [rewrite app_assoc; reflexivity|reflexivity]. }
  rewrite !App. cbn [ignore_ops_files].
  destruct Hom as [Hn Hpk He Hd Hi Hl Hb Ha].
  rewrite Ha, Hb, (ops_comments_same re_ignore kw_ignore f f' _ Hpk He Hd Hl).
  rewrite (ops_comments_insert re_ignore kw_ignore f pre c' post C s e Hign Hcodes Hscope).
  assert (AppC : ignore_ops_comments re_ignore kw_ignore f (pre ++ post) =
                 match ignore_ops_comments re_ignore kw_ignore f pre, ignore_ops_comments re_ignore kw_ignore f post with
                 | Some a, Some b => Some (a ++ b)%list | _, _ => None end).
  { clear. induction pre as [|x r IH]; cbn [app ignore_ops_comments].
    - destruct (ignore_ops_comments re_ignore kw_ignore f post); reflexivity.
    - rewrite IH. destruct (ignore_ops_comments re_ignore kw_ignore f r) as [a|]; [|reflexivity].
      destruct (ignore_ops_comments re_ignore kw_ignore f post) as [b|]; destruct (is_ignore_comment kw_ignore (c_text x)); try reflexivity;
        destruct (comment_scope f x) as [[s0 e0]|]; try reflexivity; destruct (parse_ignore re_ignore (c_text x)); reflexivity. }
  rewrite AppC.
  destruct (ignore_ops_files re_ignore kw_ignore A) as [oa|]; [|intros _; reflexivity].
  destruct (ignore_ops_comments re_ignore kw_ignore f pre) as [o1|]; [|intros _; reflexivity].
  destruct (ignore_ops_comments re_ignore kw_ignore f post) as [o2|]; [|intros _; reflexivity].
  destruct (ignore_ops_files re_ignore kw_ignore B) as [ob|]; [|intros _; reflexivity].
  set (glob := fun ops : list op => match exclude_checks cfg with [] => ops | cs => OpGlobal cs :: ops end).
  change (match exclude_checks cfg with [] => (oa ++ (o1 ++ o2) ++ ob)%list | cs => OpGlobal cs :: (oa ++ (o1 ++ o2) ++ ob)%list end) with (glob (oa ++ (o1 ++ o2) ++ ob)%list).
  change (match exclude_checks cfg with [] => (oa ++ (o1 ++ OpAdd C s e :: o2) ++ ob)%list | cs => OpGlobal cs :: (oa ++ (o1 ++ OpAdd C s e :: o2) ++ ob)%list end)
    with (glob (oa ++ (o1 ++ OpAdd C s e :: o2) ++ ob)%list).
  intros Hpp. specialize (Hpp (glob (oa ++ (o1 ++ o2) ++ ob)%list) eq_refl).
  exists (glob (oa ++ (o1 ++ o2) ++ ob)%list). split; [reflexivity|].
  rewrite read_all_same. f_equal. rewrite checkers_same.
  apply diags_under_ext. intros c q.
  assert (Hp1 : ops_positive (OpAdd C s e :: glob (oa ++ (o1 ++ o2) ++ ob)%list)).
  { intros cs st en [Hx|Hx]; [injection Hx as _ <- _; exact Hs1|exact (Hpp cs st en Hx)]. }
  rewrite <- (suppressed_cons C s e _ c q Hp1).
  apply suppressed_perm; [exact Hp1|].
  assert (Eq1 : (oa ++ (o1 ++ OpAdd C s e :: o2) ++ ob = (oa ++ o1) ++ OpAdd C s e :: (o2 ++ ob))%list) by (rewrite <- !app_assoc; reflexivity).
  assert (Eq2 : (oa ++ (o1 ++ o2) ++ ob = (oa ++ o1) ++ (o2 ++ ob))%list) by (rewrite <- !app_assoc; reflexivity).
  unfold glob. rewrite Eq1, Eq2. destruct (exclude_checks cfg) as [|g gs].
  - apply Permutation_cons_app. apply Permutation_refl.
  - eapply perm_trans; [apply perm_swap|]. apply perm_skip. apply Permutation_cons_app. apply Permutation_refl.
Qed.
End Package.

(* the effect on the report-time checkers, in the whole result: exactly the matching diagnostics inside the new range go *)
Theorem report_time_effect cfg p all sup (h : string -> Z -> bool) d :
  In (d_code d) (IMPL_CODES ++ IMM_CODES ++ CTOR_CODES) ->
  (In d (diags_under cfg p all (fun c q => h c q || sup c q)) <-> In d (diags_under cfg p all sup) /\ h (d_code d) (d_pos d) = false).
Proof.
  intros Hc. unfold diags_under. cbv zeta.
  destruct (sections_under cfg p all (fun c q => h c q || sup c q) d) as (A1 & A2 & A3 & _).
  destruct (sections_under cfg p all sup d) as (B1 & B2 & B3 & _). cbv zeta in A1, A2, A3, B1, B2, B3.
  assert (F : forall ds, In d (report_filter (fun c q => h c q || sup c q) ds) <-> In d (report_filter sup ds) /\ h (d_code d) (d_pos d) = false).
  { intros ds. change (fun c q => h c q || sup c q) with (sup1 sup h). rewrite (one_more_ignore_report_filter sup h ds), filter_In, negb_true_iff. reflexivity. }
  apply in_app_or in Hc. destruct Hc as [Hc|Hc]; [|apply in_app_or in Hc; destruct Hc as [Hc|Hc]].
  - rewrite (A1 Hc), (B1 Hc). unfold x_impl. apply F.
  - rewrite (A2 Hc), (B2 Hc). unfold x_imm. apply F.
  - rewrite (A3 Hc), (B3 Hc). unfold x_ctor. apply F.
Qed.
