(* C19: the excerpt shows the reported byte under the caret; bounds; no slice panic; the window. *)
From Coq Require Import List String Ascii ZArith Bool Lia Arith ZifyBool.
From GG Require Import Base.Strs Model.Reporter.
Import ListNotations.
Local Open Scope Z_scope.

Ltac Zify.zify_post_hook ::= Z.div_mod_to_equations.

(* case split on the conditions of the if-expressions in sight, then linear arithmetic *)
Ltac dif := repeat match goal with
  | |- context [if ?c then _ else _] => destruct c eqn:?
  | H : context [if ?c then _ else _] |- _ => destruct c eqn:?
  end.

Lemma clamp_pos0_range len pos : 1 <= len -> 0 <= clamp_pos0 len pos <= len - 1.
Proof. intros H. unfold clamp_pos0. dif; lia. Qed.

(* ---------- strings: length / get / substring / append ---------- *)
Lemma length_append (a b : string) : String.length (a ++ b) = (String.length a + String.length b)%nat.
Proof. induction a as [|c a IH]; simpl; [reflexivity|rewrite IH; reflexivity]. Qed.

Lemma slen_app a b : slen (a ++ b) = slen a + slen b.
Proof. unfold slen. rewrite length_append. lia. Qed.

Lemma slen_nonneg s : 0 <= slen s.
Proof. unfold slen. lia. Qed.

Lemma length_substring s : forall n m, (n + m <= String.length s)%nat -> String.length (substring n m s) = m.
Proof.
  induction s as [|c s IH]; intros n m H; simpl in *.
  - destruct n, m; simpl; try reflexivity; lia.
  - destruct n.
    + destruct m; simpl; [reflexivity|]. rewrite IH by lia. reflexivity.
    + apply IH. lia.
Qed.

Lemma substr_some s lo hi : 0 <= lo <= hi -> hi <= slen s -> exists t, substr s lo hi = Some t.
Proof.
  intros H1 H2. unfold substr.
  replace ((0 <=? lo) && (lo <=? hi) && (hi <=? slen s)) with true by lia.
  eexists; reflexivity.
Qed.

Lemma substr_inv s lo hi t :
  substr s lo hi = Some t ->
  0 <= lo <= hi /\ hi <= slen s /\ t = substring (Z.to_nat lo) (Z.to_nat (hi - lo)) s.
Proof.
  unfold substr. destruct ((0 <=? lo) && (lo <=? hi) && (hi <=? slen s)) eqn:E; [|discriminate].
  intros H; inversion H. repeat split; lia.
Qed.

Lemma slen_substr s lo hi t : substr s lo hi = Some t -> slen t = hi - lo.
Proof.
  intros H. apply substr_inv in H. destruct H as (H1 & H2 & ->).
  unfold slen in *. rewrite length_substring; lia.
Qed.

Lemma get_substr s lo hi t k :
  substr s lo hi = Some t -> 0 <= k < hi - lo ->
  String.get (Z.to_nat k) t = String.get (Z.to_nat (lo + k)) s.
Proof.
  intros H Hk. apply substr_inv in H. destruct H as (H1 & H2 & ->).
  rewrite substring_correct1 by lia. f_equal; lia.
Qed.

Lemma get_app_l k a b : 0 <= k < slen a -> String.get (Z.to_nat k) (a ++ b) = String.get (Z.to_nat k) a.
Proof. intros H. symmetry. apply append_correct1. unfold slen in H. lia. Qed.

Lemma get_app_r k a b : 0 <= k -> String.get (Z.to_nat (slen a + k)) (a ++ b) = String.get (Z.to_nat k) b.
Proof.
  intros H. rewrite (append_correct2 a b (Z.to_nat k)). f_equal. unfold slen. lia.
Qed.

Lemma get_lt_some s : forall n, (n < String.length s)%nat -> String.get n s <> None.
Proof.
  induction s as [|c s IH]; intros n H; simpl in *; [lia|].
  destruct n; [discriminate|]. apply IH. lia.
Qed.

Lemma slen_dots : slen dots = 3.
Proof. reflexivity. Qed.

(* ---------- truncation never slices out of range ---------- *)
Lemma truncate_total s maxLen pos : 0 <= maxLen -> exists t, truncate s maxLen pos = Some t.
Proof.
  intros HM. unfold truncate.
  pose proof (slen_nonneg s) as HL.
  destruct (slen s <=? maxLen) eqn:E1; [eexists; reflexivity|].
  destruct (maxLen <=? 3) eqn:E2; [apply substr_some; lia|].
  set (p0 := clamp_pos0 (slen s) pos).
  assert (Hp0 : 0 <= p0 <= slen s - 1) by (apply clamp_pos0_range; lia).
  destruct (p0 <? maxLen - 3) eqn:E3.
  { destruct (substr_some s 0 (maxLen - 3)) as [t Ht]; [lia|lia|]. rewrite Ht. eexists; reflexivity. }
  destruct (p0 >=? slen s - maxLen + 3) eqn:E4.
  { destruct (substr_some s (slen s - maxLen + 3) (slen s)) as [t Ht]; [lia|lia|]. rewrite Ht. eexists; reflexivity. }
  match goal with |- exists t, option_map _ (substr s ?a ?b) = _ =>
    destruct (substr_some s a b) as [t Ht]; [dif; lia|dif; lia|rewrite Ht; eexists; reflexivity] end.
Qed.

(* ---------- the caret stands under the reported byte; the excerpt is bounded ---------- *)
Theorem caret_under_reported_byte s maxLen col :
  4 <= maxLen -> slen s > maxLen -> 1 <= col <= slen s ->
  exists t, truncate s maxLen col = Some t /\
            String.get (Z.to_nat (display_col s col maxLen - 1)) t = String.get (Z.to_nat (col - 1)) s /\
            String.get (Z.to_nat (col - 1)) s <> None /\
            1 <= display_col s col maxLen <= slen t /\
            slen t <= maxLen + 3.
Proof.
  intros HM HL Hc.
  assert (Hget : String.get (Z.to_nat (col - 1)) s <> None) by (apply get_lt_some; unfold slen in *; lia).
  unfold truncate, display_col.
  replace (slen s <=? maxLen) with false by lia.
  replace (maxLen <=? 3) with false by lia.
  replace (col - 1 <? 0) with false by lia.
  replace (col - 1 >=? slen s) with false by lia.
  unfold clamp_pos0.
  replace (col - 1 <? 0) with false by lia.
  replace (col - 1 >=? slen s) with false by lia.
  destruct (col - 1 <? maxLen - 3) eqn:E3.
  - (* head *)
    destruct (substr_some s 0 (maxLen - 3)) as [h Hh]; [lia|lia|]. rewrite Hh. cbn [option_map].
    pose proof (slen_substr _ _ _ _ Hh) as Hlen.
    exists (h ++ dots)%string. split; [reflexivity|].
    split; [|split; [exact Hget|]].
    + rewrite get_app_l by lia. rewrite (get_substr _ _ _ _ (col - 1) Hh) by lia. f_equal; lia.
    + rewrite slen_app, slen_dots. lia.
  - destruct (col - 1 >=? slen s - maxLen + 3) eqn:E4.
    + (* tail *)
      destruct (substr_some s (slen s - maxLen + 3) (slen s)) as [tl Htl]; [lia|lia|]. rewrite Htl. cbn [option_map].
      pose proof (slen_substr _ _ _ _ Htl) as Hlen.
      exists (dots ++ tl)%string. split; [reflexivity|].
      split; [|split; [exact Hget|]].
      * replace (4 + (col - 1 - (slen s - maxLen + 3)) - 1) with (slen dots + (col - 1 - (slen s - maxLen + 3)))
          by (rewrite slen_dots; lia).
        rewrite get_app_r by lia.
        rewrite (get_substr _ _ _ _ _ Htl) by lia. f_equal; lia.
      * rewrite slen_app, slen_dots. lia.
    + (* middle *)
      set (before := (maxLen - 3) / 2).
      assert (Hb : 0 <= before /\ before < maxLen - 3 /\ 2 * before <= maxLen - 3) by (unfold before; lia).
      replace (col - 1 - before <? 0) with false by lia.
      replace (col - 1 + (maxLen - 3 - before) >? slen s) with false by lia.
      destruct (substr_some s (col - 1 - before) (col - 1 + (maxLen - 3 - before))) as [m Hm]; [lia|lia|].
      rewrite Hm. cbn [option_map].
      pose proof (slen_substr _ _ _ _ Hm) as Hlen.
      exists (dots ++ m ++ dots)%string. split; [reflexivity|].
      split; [|split; [exact Hget|]].
      * replace (4 + before - 1) with (slen dots + before) by (rewrite slen_dots; lia).
        rewrite get_app_r by lia. rewrite get_app_l by lia.
        rewrite (get_substr _ _ _ _ _ Hm) by lia. f_equal; lia.
      * rewrite !slen_app, slen_dots. lia.
Qed.

(* short lines are shown as they are *)
Theorem short_line_unchanged s maxLen col :
  slen s <= maxLen -> truncate s maxLen col = Some s /\ display_col s col maxLen = col.
Proof.
  intros H. unfold truncate, display_col. replace (slen s <=? maxLen) with true by lia. split; reflexivity.
Qed.

(* every excerpt line is bounded by the display limit plus its two ellipsis markers, for every column *)
Theorem excerpt_bounded s maxLen pos t :
  4 <= maxLen -> truncate s maxLen pos = Some t -> slen t <= maxLen + 3.
Proof.
  intros HM. unfold truncate.
  destruct (slen s <=? maxLen) eqn:E1; [intros H; inversion H; subst; lia|].
  replace (maxLen <=? 3) with false by lia.
  set (p0 := clamp_pos0 (slen s) pos).
  assert (Hp0 : 0 <= p0 <= slen s - 1) by (apply clamp_pos0_range; lia).
  destruct (p0 <? maxLen - 3) eqn:E3.
  { destruct (substr s 0 (maxLen - 3)) as [h|] eqn:Hh; cbn [option_map]; [|discriminate].
    intros H. assert (Ht : t = (h ++ dots)%string) by congruence.
    rewrite Ht, slen_app, slen_dots, (slen_substr _ _ _ _ Hh). lia. }
  destruct (p0 >=? slen s - maxLen + 3) eqn:E4.
  { destruct (substr s (slen s - maxLen + 3) (slen s)) as [h|] eqn:Hh; cbn [option_map]; [|discriminate].
    intros H. assert (Ht : t = (dots ++ h)%string) by congruence.
    rewrite Ht, slen_app, slen_dots, (slen_substr _ _ _ _ Hh). lia. }
  match goal with |- option_map _ (substr s ?a ?b) = _ -> _ => destruct (substr s a b) as [m|] eqn:Hm end; cbn [option_map]; [|discriminate].
  intros H. assert (Ht : t = (dots ++ m ++ dots)%string) by congruence.
  rewrite Ht, !slen_app, slen_dots, (slen_substr _ _ _ _ Hm). dif; lia.
Qed.

(* ---------- caret padding mirrors tabs ---------- *)
Lemma caret_pad_length n t : String.length (caret_pad n t) = n.
Proof. revert t. induction n as [|n IH]; intros t; simpl; [reflexivity|]. destruct t; simpl; rewrite IH; reflexivity. Qed.

Lemma caret_pad_get n t k :
  (k < n)%nat ->
  String.get k (caret_pad n t) =
  Some (match String.get k t with
        | Some a => if Ascii.eqb a "009"%char then "009"%char else " "%char
        | None => " "%char
        end).
Proof.
  revert t k. induction n as [|n IH]; intros t k Hk; [lia|].
  destruct t as [|a t]; simpl.
  - destruct k; [reflexivity|]. rewrite IH by lia. destruct k; reflexivity.
  - destruct k; [reflexivity|]. apply IH. lia.
Qed.

(* ---------- the context window ---------- *)
Lemma take_numbered_In ls first count num text :
  In (num, text) (take_numbered ls first count) <->
  first <= num < first + Z.of_nat count /\ nth_error ls (Z.to_nat (num - first)) = Some text.
Proof.
  revert ls first. induction count as [|c IH]; intros ls first; simpl.
  - split; [intros []|lia].
  - destruct ls as [|l r]; simpl.
    + split; [intros []|]. intros [_ H]. destruct (Z.to_nat (num - first)); discriminate.
    + rewrite IH. split.
      * intros [H|[H1 H2]].
        -- inversion H; subst. split; [lia|]. rewrite Z.sub_diag. reflexivity.
        -- split; [lia|]. replace (Z.to_nat (num - first)) with (S (Z.to_nat (num - (first + 1)))) by lia. exact H2.
      * intros [H1 H2]. destruct (Z.eq_dec num first) as [->|Hne].
        -- left. rewrite Z.sub_diag in H2. simpl in H2. inversion H2. reflexivity.
        -- right. split; [lia|].
           replace (Z.to_nat (num - first)) with (S (Z.to_nat (num - (first + 1)))) in H2 by lia. exact H2.
Qed.

Lemma nth_error_skipn {A} (l : list A) n k : nth_error (skipn n l) k = nth_error l (n + k).
Proof. revert l. induction n as [|n IH]; intros l; simpl; [reflexivity|]. destruct l; [destruct k; reflexivity|apply IH]. Qed.

Theorem window_spec ls n before after num text :
  0 <= before -> 0 <= after ->
  (In (num, text) (window (Some ls) n before after) <->
   Z.max 1 (n - before) <= num <= Z.min (Z.of_nat (List.length ls)) (n + after) /\
   nth_error ls (Z.to_nat (num - 1)) = Some text).
Proof.
  intros Hb Ha. unfold window.
  destruct ls as [|l0 r0] eqn:Els.
  - simpl. split; [intros []|]. intros [H _]. lia.
  - rewrite <- Els. set (len := Z.of_nat (List.length ls)).
    assert (Hlen : 1 <= len) by (unfold len; subst ls; simpl; lia).
    set (start := if n - before - 1 <? 0 then 0 else n - before - 1).
    set (stop := if n + after - 1 >=? len then len - 1 else n + after - 1).
    destruct (start >=? len) eqn:E.
    + split; [intros []|]. intros [H _]. unfold start in E. dif; lia.
    + rewrite take_numbered_In, nth_error_skipn. unfold start, stop in *.
      dif; (split; intros [H1 H2]; (split; [lia|]); rewrite <- H2; f_equal; lia).
Qed.

Theorem window_unreadable n before after : window None n before after = [].
Proof. reflexivity. Qed.

Theorem window_beyond_file ls n before after :
  0 <= before -> n - before - 1 >= Z.of_nat (List.length ls) -> window (Some ls) n before after = [].
Proof.
  intros Hb H. unfold window. destruct ls as [|l r]; [reflexivity|].
  set (len := Z.of_nat (List.length (l :: r))) in *.
  replace (n - before - 1 <? 0) with false by lia.
  replace (n - before - 1 >=? len) with true by lia. reflexivity.
Qed.

(* ---------- no slice panic for any input ---------- *)
Lemma render_lines_total w maxLen line col ls : 0 <= maxLen -> exists b, render_lines w maxLen line col ls = Some b.
Proof.
  intros HM. induction ls as [|[num text] r [b IH]]; simpl; [eexists; reflexivity|].
  destruct (truncate_total text maxLen col HM) as [t Ht]. rewrite Ht, IH. eexists; reflexivity.
Qed.

Theorem format_never_panics maxLen before after url content line col code msg :
  0 <= maxLen -> format_message maxLen before after url content line col code msg <> PanicSlice.
Proof.
  intros HM. unfold format_message.
  destruct (window (option_map scan_lines content) line before after) as [|p r] eqn:E; [discriminate|].
  match goal with |- context [render_lines ?w maxLen line col ?l] =>
    destruct (render_lines_total w maxLen line col l HM) as [b Hb]; rewrite Hb end.
  discriminate.
Qed.

Lemma sapp_nil_r (s : string) : (s ++ "")%string = s.
Proof. induction s; simpl; congruence. Qed.

(* the message always starts with the header carrying exactly the code in brackets *)
Theorem format_header maxLen before after url content line col code msg m :
  format_message maxLen before after url content line col code msg = Msg m ->
  exists rest, m = (header code msg ++ rest)%string.
Proof.
  unfold format_message.
  destruct (window (option_map scan_lines content) line before after) as [|p r] eqn:E.
  - intros H. injection H as <-. exists EmptyString. rewrite sapp_nil_r. reflexivity.
  - match goal with |- context [render_lines ?w maxLen line col ?l] => destruct (render_lines w maxLen line col l) end; [|discriminate].
    intros H. injection H as <-. eexists. reflexivity.
Qed.
