(* C15: what the backtracking matcher computes on the shapes the annotation expressions are made of. *)
From Coq Require Import List Ascii String NArith Arith Bool Lia.
From GG Require Import Base.Strs Model.RegexSyntax Model.Regex Model.Annot.
Import ListNotations.

(* ---------- single-character expressions ---------- *)
Inductive single : re -> (ascii -> bool) -> Prop :=
| SgCls cl : single (RCls cl) (in_cls cl)
| SgAnyNL : single RAnyNL (fun x => negb (N_of_ascii x =? 10)%N)
| SgAny : single RAny (fun _ => true).

Lemma m_single r p : single r p -> forall s i c k,
  m r s i c k = match s with x :: xs => if p x then k xs (S i) c else None | [] => None end.
Proof.
  intros H s i c k. destruct H; cbn [m]; destruct s as [|x xs]; try reflexivity.
  destruct (N_of_ascii x =? 10)%N; reflexivity.
Qed.

(* greedy with backtracking: as many characters as possible, giving back one at a time *)
Fixpoint star_p (p : ascii -> bool) (k : K) (s : list ascii) (i : nat) (c : caps) : option caps :=
  match s with
  | x :: xs => if p x then match star_p p k xs (S i) c with Some r => Some r | None => k s i c end else k s i c
  | [] => k s i c
  end.

Lemma star_loop_single r p k : single r p -> forall s n i c, (List.length s < n)%nat ->
  star_loop (m r) k n s i c = star_p p k s i c.
Proof.
  intros H s. induction s as [|x xs IH]; intros n i c Hn.
  - destruct n as [|n]; [simpl in Hn; lia|]. cbn [star_loop star_p]. rewrite (m_single r p H). reflexivity.
  - destruct n as [|n]; [simpl in Hn; lia|]. cbn [star_loop star_p]. rewrite (m_single r p H).
    destruct (p x); [|reflexivity].
    replace (Nat.eqb (S i) i) with false by (symmetry; apply Nat.eqb_neq; lia).
    rewrite IH by (simpl in Hn; lia). reflexivity.
Qed.

Theorem m_star_single r p : single r p -> forall s i c k, m (RStar r) s i c k = star_p p k s i c.
Proof. intros H s i c k. cbn [m]. apply (star_loop_single r p k H). lia. Qed.

Theorem m_plus_single r p : single r p -> forall s i c k,
  m (RPlus r) s i c k = match s with x :: xs => if p x then star_p p k xs (S i) c else None | [] => None end.
Proof.
  intros H s i c k. cbn [m]. rewrite (m_single r p H). destruct s as [|x xs]; [reflexivity|].
  destruct (p x); [|reflexivity]. apply (star_loop_single r p k H). lia.
Qed.

Lemma m_cat a b s i c k : m (RCat a b) s i c k = m a s i c (fun s' i' c' => m b s' i' c' k).
Proof. reflexivity. Qed.
Lemma m_opt a s i c k : m (ROpt a) s i c k = match m a s i c k with Some r => Some r | None => k s i c end.
Proof. reflexivity. Qed.
Lemma m_grp n a s i c k : m (RGrp n a) s i c k = m a s i c (fun s' i' c' => k s' i' ((n, (i, i')) :: c')).
Proof. reflexivity. Qed.
Lemma m_eot s i c k : m REot s i c k = match s with [] => k s i c | _ => None end.
Proof. reflexivity. Qed.

(* ---------- maximal munch ---------- *)
Fixpoint takew (p : ascii -> bool) (s : list ascii) : list ascii :=
  match s with x :: xs => if p x then x :: takew p xs else [] | [] => [] end.
Fixpoint dropw (p : ascii -> bool) (s : list ascii) : list ascii :=
  match s with x :: xs => if p x then dropw p xs else s | [] => [] end.

Lemma take_drop p s : (takew p s ++ dropw p s)%list = s.
Proof. induction s as [|x xs IH]; simpl; [reflexivity|]. destruct (p x); simpl; [rewrite IH|]; reflexivity. Qed.
Lemma takew_all p s : forallb p (takew p s) = true.
Proof. induction s as [|x xs IH]; simpl; [reflexivity|]. destruct (p x) eqn:E; simpl; [rewrite E; exact IH|reflexivity]. Qed.
Lemma dropw_head p s : match dropw p s with x :: _ => p x = false | [] => True end.
Proof. induction s as [|x xs IH]; simpl; [exact I|]. destruct (p x) eqn:E; [exact IH|exact E]. Qed.

(* a continuation that cannot start with a character of the class *)
Definition rejects (p : ascii -> bool) (k : K) : Prop := forall x xs i c, p x = true -> k (x :: xs) i c = None.

(* then the class star is deterministic: it takes the maximal run *)
Theorem star_p_det p k : rejects p k -> forall s i c,
  star_p p k s i c = k (dropw p s) (i + List.length (takew p s)) c.
Proof.
  intros Hr s. induction s as [|x xs IH]; intros i c; cbn [star_p dropw takew].
  - simpl. rewrite Nat.add_0_r. reflexivity.
  - destruct (p x) eqn:E.
    + rewrite IH. cbn [List.length]. replace (S i + List.length (takew p xs)) with (i + S (List.length (takew p xs))) by lia.
      destruct (k (dropw p xs) _ c); [reflexivity|]. rewrite (Hr x xs i c E). reflexivity.
    + simpl. rewrite Nat.add_0_r. reflexivity.
Qed.

(* ---------- literals ---------- *)
Fixpoint lit (w : list ascii) : re :=
  match w with
  | [] => REps
  | [a] => RCls [(N_of_ascii a, N_of_ascii a)]
  | a :: r => RCat (RCls [(N_of_ascii a, N_of_ascii a)]) (lit r)
  end.

Fixpoint strip_prefix (w s : list ascii) : option (list ascii) :=
  match w, s with
  | [], _ => Some s
  | a :: w', x :: s' => if Ascii.eqb a x then strip_prefix w' s' else None
  | _ :: _, [] => None
  end.

Lemma in_cls_one a x : in_cls [(N_of_ascii a, N_of_ascii a)] x = Ascii.eqb a x.
Proof.
  unfold in_cls. simpl. rewrite orb_false_r.
  destruct (Ascii.eqb a x) eqn:E.
  - apply Ascii.eqb_eq in E. subst. rewrite N.leb_refl. reflexivity.
  - apply andb_false_iff. destruct (N.leb_spec (N_of_ascii a) (N_of_ascii x)) as [H1|H1]; [|left; reflexivity].
    right. apply N.leb_gt. apply N.le_lteq in H1. destruct H1 as [H1|H1]; [exact H1|].
    exfalso. apply Ascii.eqb_neq in E. apply E. rewrite <- (ascii_N_embedding a), <- (ascii_N_embedding x), H1. reflexivity.
Qed.

Lemma strip_cons a w x xs : strip_prefix (a :: w) (x :: xs) = if Ascii.eqb a x then strip_prefix w xs else None.
Proof. reflexivity. Qed.

Theorem m_lit w : forall s i c k,
  m (lit w) s i c k = match strip_prefix w s with Some s' => k s' (i + List.length w) c | None => None end.
Proof.
  induction w as [|a w IH]; intros s i c k.
  - simpl. rewrite Nat.add_0_r. reflexivity.
  - destruct w as [|b w'].
    + cbn [lit m]. destruct s as [|x xs]; [reflexivity|]. rewrite in_cls_one, strip_cons. destruct (Ascii.eqb a x); [|reflexivity].
      simpl. replace (i + 1) with (S i) by lia. reflexivity.
    + change (lit (a :: b :: w')) with (RCat (RCls [(N_of_ascii a, N_of_ascii a)]) (lit (b :: w'))).
      cbn [m]. destruct s as [|x xs]; [reflexivity|]. rewrite in_cls_one, strip_cons. destruct (Ascii.eqb a x); [|reflexivity].
      rewrite IH. destruct (strip_prefix (b :: w') xs); [|reflexivity]. f_equal. simpl. lia.
Qed.

(* ---------- anchors ---------- *)
Lemma search_bot r s i fuel : (0 < i)%nat -> search (RCat RBot r) s i fuel = None.
Proof.
  revert s i. induction fuel as [|f IH]; intros s i Hi; destruct s as [|x xs]; cbn [search m];
    replace (Nat.eqb i 0) with false by (symmetry; apply Nat.eqb_neq; lia); try reflexivity.
  apply IH. lia.
Qed.

Definition final : K := fun _ _ c => Some c.

Theorem re_find_anchored r s :
  re_find (RCat RBot r) s = m r (list_ascii_of_string s) 0 [] final.
Proof.
  unfold re_find. set (l := list_ascii_of_string s). unfold final.
  destruct l as [|x xs]; cbn [search m Nat.eqb List.length].
  - destruct (m r [] 0 [] (fun _ _ c => Some c)); reflexivity.
  - destruct (m r (x :: xs) 0 [] (fun _ _ c => Some c)); [reflexivity|]. apply search_bot. lia.
Qed.

(* ---------- the optional free-text tail: blanks, then anything but a line break, up to the end ---------- *)
Definition k_eot (k : K) : K := fun s i c => match s with [] => k s i c | _ => None end.

Lemma star_p_eot p k s i c :
  star_p p (k_eot k) s i c = if forallb p s then k [] (i + List.length s) c else None.
Proof.
  revert i. induction s as [|x xs IH]; intros i; cbn [star_p forallb].
  - simpl. rewrite Nat.add_0_r. reflexivity.
  - destruct (p x); cbn [andb].
    + rewrite IH. cbn [List.length]. replace (S i + List.length xs) with (i + S (List.length xs)) by lia.
      destruct (forallb p xs); [destruct (k [] _ c); reflexivity|reflexivity].
    + reflexivity.
Qed.

Lemma forallb_dropw p q s : forallb p s = true -> forallb p (dropw q s) = true.
Proof. induction s as [|x xs IH]; simpl; [auto|]. intros H. apply andb_true_iff in H. destruct H as [H1 H2]. destruct (q x); [apply IH; exact H2|]. simpl. rewrite H1, H2. reflexivity. Qed.

Section Tail.
Variable ws : list (N * N).
Definition nonl : ascii -> bool := fun x => negb (N_of_ascii x =? 10)%N.
Definition tail_re : re := ROpt (RCat (RPlus (RCls ws)) (RStar RAnyNL)).

(* the rest of the line after the annotation: nothing, or at least one blank and then no line break *)
Definition tail_ok (s : list ascii) : bool :=
  match s with [] => true | x :: _ => in_cls ws x && forallb nonl (dropw (in_cls ws) s) end.

Lemma star_ws_then_rest k s i c :
  (forall j, k [] j c = Some c) ->
  star_p (in_cls ws) (fun s0 i0 c0 => star_p nonl (k_eot k) s0 i0 c0) s i c = if forallb nonl (dropw (in_cls ws) s) then Some c else None.
Proof.
  intros Hk. set (K2 := fun s0 i0 c0 => star_p nonl (k_eot k) s0 i0 c0).
  assert (HK2 : forall s0 i0, K2 s0 i0 c = if forallb nonl s0 then Some c else None).
  { intros s0 i0. unfold K2. rewrite star_p_eot. destruct (forallb nonl s0); [apply Hk|reflexivity]. }
  revert i. induction s as [|x xs IH]; intros i; cbn [star_p dropw].
  - rewrite HK2. reflexivity.
  - destruct (in_cls ws x) eqn:E.
    + rewrite IH. destruct (forallb nonl (dropw (in_cls ws) xs)) eqn:F; [reflexivity|].
      rewrite HK2. destruct (forallb nonl (x :: xs)) eqn:G; [|reflexivity].
      simpl in G. apply andb_true_iff in G. destruct G as [_ G]. rewrite (forallb_dropw nonl (in_cls ws) xs G) in F. discriminate.
    + rewrite HK2. reflexivity.
Qed.

Theorem m_tail s i c : m (RCat tail_re REot) s i c final = if tail_ok s then Some c else None.
Proof.
  unfold tail_re. rewrite m_cat, m_opt, m_cat.
  rewrite (m_plus_single (RCls ws) (in_cls ws) (SgCls ws)).
  destruct s as [|x xs]; [reflexivity|]. cbn [tail_ok dropw].
  destruct (in_cls ws x) eqn:E; cbn [andb]; [|reflexivity].
  assert (Hext : forall (k1 k2 : K) s0 i0 c0, (forall a b d, k1 a b d = k2 a b d) -> star_p (in_cls ws) k1 s0 i0 c0 = star_p (in_cls ws) k2 s0 i0 c0).
  { intros k1 k2 s0. induction s0 as [|y ys IHs]; intros i0 c0 Hk; cbn [star_p]; rewrite ?Hk; [reflexivity|].
    destruct (in_cls ws y); [rewrite (IHs (S i0) c0 Hk)|]; reflexivity. }
  rewrite (Hext _ (fun s0 i0 c0 => star_p nonl (k_eot final) s0 i0 c0)).
  - rewrite star_ws_then_rest by (intros; reflexivity).
    destruct (forallb nonl (dropw (in_cls ws) xs)); reflexivity.
  - intros a b d. rewrite (m_star_single RAnyNL nonl SgAnyNL). reflexivity.
Qed.
End Tail.

(* ---------- more list facts ---------- *)
Lemma strip_prefix_spec w : forall s s', strip_prefix w s = Some s' <-> s = (w ++ s')%list.
Proof.
  induction w as [|a w IH]; intros s s'; simpl.
  - split; [intros H; inversion H; reflexivity|intros ->; reflexivity].
  - destruct s as [|x xs]; [split; discriminate|].
    destruct (Ascii.eqb a x) eqn:E.
    + apply Ascii.eqb_eq in E. subst x. rewrite IH. split; [intros ->; reflexivity|intros H; inversion H; reflexivity].
    + split; [discriminate|]. intros H. inversion H. subst. rewrite Ascii.eqb_refl in E. discriminate.
Qed.

Lemma dropw_app_all p w s : forallb p w = true -> match s with x :: _ => p x = false | [] => True end -> dropw p (w ++ s) = s.
Proof.
  induction w as [|a w IH]; simpl; intros Hw Hs.
  - destruct s as [|x xs]; [reflexivity|]. simpl. rewrite Hs. reflexivity.
  - apply andb_true_iff in Hw. destruct Hw as [H1 H2]. rewrite H1. apply IH; assumption.
Qed.

Lemma rejects_lit p a w r k : p a = false -> rejects p (fun s i c => m (RCat (lit (a :: w)) r) s i c k).
Proof.
  intros Ha x xs i c Hx. rewrite m_cat, m_lit, strip_cons.
  destruct (Ascii.eqb a x) eqn:E; [|reflexivity]. apply Ascii.eqb_eq in E. subst. congruence.
Qed.

(* ---------- the flag annotations: @immutable, @testonly, @mutable ---------- *)
Definition WS : list (N * N) := [(9, 10); (12, 13); (32, 32)]%N.
Definition is_ws : ascii -> bool := in_cls WS.
Definition slashes : list ascii := ["/"; "/"]%char.

Definition flag_re (kw : list ascii) : re :=
  RCat RBot (RCat (RStar (RCls WS)) (RCat (lit slashes) (RCat (RStar (RCls WS)) (RCat (lit kw) (RCat (tail_re WS) REot))))).

(* the documented shape: blanks, two slashes, blanks, the keyword, and then either nothing or a blank followed by
   free text that does not break the line *)
Definition spec_flag (kw s : list ascii) : bool :=
  match strip_prefix slashes (dropw is_ws s) with
  | Some s2 => match strip_prefix kw (dropw is_ws s2) with
               | Some s4 => tail_ok WS s4
               | None => false
               end
  | None => false
  end.

Theorem flag_re_correct a kw s :
  is_ws a = false ->
  m (RCat (RStar (RCls WS)) (RCat (lit slashes) (RCat (RStar (RCls WS)) (RCat (lit (a :: kw)) (RCat (tail_re WS) REot))))) s 0 [] final
  = if spec_flag (a :: kw) s then Some [] else None.
Proof.
  intros Ha. unfold spec_flag.
  rewrite m_cat, (m_star_single (RCls WS) is_ws (SgCls WS)).
  rewrite star_p_det by (apply rejects_lit; vm_compute; reflexivity).
  rewrite m_cat, m_lit. destruct (strip_prefix slashes (dropw is_ws s)) as [s2|]; [|reflexivity].
  rewrite m_cat, (m_star_single (RCls WS) is_ws (SgCls WS)).
  rewrite star_p_det by (apply rejects_lit; exact Ha).
  rewrite m_cat, m_lit. destruct (strip_prefix (a :: kw) (dropw is_ws s2)) as [s4|]; [|reflexivity].
  apply m_tail.
Qed.

Corollary re_find_flag a kw text :
  is_ws a = false ->
  re_find (flag_re (a :: kw)) text = if spec_flag (a :: kw) (list_ascii_of_string text) then Some [] else None.
Proof. intros Ha. unfold flag_re. rewrite re_find_anchored. apply flag_re_correct. exact Ha. Qed.

(* declaratively *)
Theorem tail_ok_spec s :
  tail_ok WS s = true <-> s = [] \/ exists w t, s = (w ++ t)%list /\ w <> [] /\ forallb is_ws w = true /\ forallb nonl t = true.
Proof.
  split.
  - destruct s as [|x xs]; [left; reflexivity|]. cbn [tail_ok]. intros H. apply andb_true_iff in H. destruct H as [H1 H2]. right.
    exists (takew is_ws (x :: xs)), (dropw is_ws (x :: xs)). split; [symmetry; apply take_drop|]. split.
    + cbn [takew]. unfold is_ws. rewrite H1. discriminate.
    + split; [apply takew_all|exact H2].
  - intros [->|[w [t [-> [Hw [H1 H2]]]]]]; [reflexivity|].
    destruct w as [|x w]; [contradiction Hw; reflexivity|]. cbn [forallb] in H1. apply andb_true_iff in H1. destruct H1 as [Hx H1].
    cbn [app tail_ok dropw]. unfold is_ws in Hx. rewrite Hx. cbn [andb].
    clear Hx Hw. induction w as [|y w IH]; cbn [app].
    + apply forallb_dropw. exact H2.
    + cbn [forallb] in H1. apply andb_true_iff in H1. destruct H1 as [Hy H1]. unfold is_ws in Hy. cbn [dropw]. rewrite Hy. apply IH. exact H1.
Qed.

Theorem spec_flag_spec a kw s :
  is_ws a = false ->
  (spec_flag (a :: kw) s = true <->
   exists w1 w2 rest, s = (w1 ++ slashes ++ w2 ++ (a :: kw) ++ rest)%list /\ forallb is_ws w1 = true /\ forallb is_ws w2 = true /\ tail_ok WS rest = true).
Proof.
  intros Ha. unfold spec_flag. split.
  - destruct (strip_prefix slashes (dropw is_ws s)) as [s2|] eqn:E1; [|discriminate].
    destruct (strip_prefix (a :: kw) (dropw is_ws s2)) as [s4|] eqn:E2; [|discriminate].
    intros Ht. apply strip_prefix_spec in E1. apply strip_prefix_spec in E2.
    exists (takew is_ws s), (takew is_ws s2), s4. split.
    + rewrite <- (take_drop is_ws s) at 1. f_equal. rewrite E1. f_equal. rewrite <- (take_drop is_ws s2) at 1. f_equal. exact E2.
    + split; [apply takew_all|]. split; [apply takew_all|exact Ht].
  - intros [w1 [w2 [rest [-> [H1 [H2 Ht]]]]]].
    rewrite (dropw_app_all is_ws w1) by (try exact H1; vm_compute; reflexivity).
    replace (strip_prefix slashes (slashes ++ w2 ++ (a :: kw) ++ rest)) with (Some (w2 ++ (a :: kw) ++ rest)%list)
      by (symmetry; apply strip_prefix_spec; reflexivity).
    rewrite (dropw_app_all is_ws w2) by (try exact H2; exact Ha).
    replace (strip_prefix (a :: kw) ((a :: kw) ++ rest)) with (Some rest) by (symmetry; apply strip_prefix_spec; reflexivity).
    exact Ht.
Qed.

(* ---------- disjoint character classes (finite check over the 256 bytes) ---------- *)
Definition disjoint_b (c1 c2 : list (N * N)) : bool :=
  forallb (fun n => negb (in_cls c1 (ascii_of_nat n) && in_cls c2 (ascii_of_nat n))) (seq 0 256).

Lemma disjoint_sound c1 c2 : disjoint_b c1 c2 = true -> forall y, in_cls c1 y = true -> in_cls c2 y = false.
Proof.
  unfold disjoint_b. rewrite forallb_forall. intros H y Hy.
  specialize (H (nat_of_ascii y)). rewrite ascii_nat_embedding in H.
  assert (Hin : In (nat_of_ascii y) (seq 0 256)) by (apply in_seq; pose proof (nat_ascii_bounded y); lia).
  specialize (H Hin). rewrite Hy in H. simpl in H. apply negb_true_iff in H. exact H.
Qed.

(* ---------- a maximal run of a class followed by something that cannot start with that class ---------- *)
Theorem m_plus_det cl k : rejects (in_cls cl) k -> forall s i c,
  m (RPlus (RCls cl)) s i c k =
  match s with
  | x :: xs => if in_cls cl x then k (dropw (in_cls cl) s) (i + List.length (takew (in_cls cl) s)) c else None
  | [] => None
  end.
Proof.
  intros Hr s i c. rewrite (m_plus_single (RCls cl) (in_cls cl) (SgCls cl)). destruct s as [|x xs]; [reflexivity|].
  cbn [dropw takew]. destruct (in_cls cl x); [|reflexivity]. rewrite star_p_det by exact Hr. cbn [List.length]. f_equal. lia.
Qed.

(* ---------- @implements ---------- *)
Definition WORD : list (N * N) := [(48, 57); (65, 90); (95, 95); (97, 122)]%N.
Definition is_word : ascii -> bool := in_cls WORD.
Definition AMP : list (N * N) := [(38, 38)]%N.
Definition DOT : list (N * N) := [(46, 46)]%N.

Definition impl_args_re : re :=
  RCat (RPlus (RCls WS))
    (RCat (ROpt (RGrp 1 (RCls AMP)))
       (RCat (ROpt (RCat (RGrp 2 (RPlus (RCls WORD))) (RCls DOT)))
          (RCat (RGrp 3 (RPlus (RCls WORD))) (RCat (tail_re WS) REot)))).

Definition implements_re (kw : list ascii) : re :=
  RCat RBot (RCat (RStar (RCls WS)) (RCat (lit slashes) (RCat (RStar (RCls WS)) (RCat (lit kw) impl_args_re)))).

(* the arguments of @implements, by maximal munch: blanks, an optional &, an identifier, optionally a dot and a second
   identifier, then the free-text tail.  Returns (pointer?, qualifier, interface) *)
Definition spec_impl_args (s : list ascii) : option (bool * list ascii * list ascii) :=
  match s with
  | x :: _ =>
      if is_ws x then
        let s5 := dropw is_ws s in
        let '(amp, s6) := match s5 with y :: r => if in_cls AMP y then (true, r) else (false, s5) | [] => (false, s5) end in
        let w1 := takew is_word s6 in
        let r1 := dropw is_word s6 in
        match w1 with
        | [] => None
        | _ =>
            match r1 with
            | d :: r1' =>
                if in_cls DOT d then
                  let w2 := takew is_word r1' in
                  match w2 with
                  | [] => None
                  | _ => if tail_ok WS (dropw is_word r1') then Some (amp, w1, w2) else None
                  end
                else if tail_ok WS (d :: r1') then Some (amp, [], w1) else None
            | [] => Some (amp, [], w1)
            end
        end
      else None
  | [] => None
  end.

(* the captures the matcher returns for it, as positions *)
Definition impl_caps (i : nat) (s : list ascii) (c : caps) : option caps :=
  match s with
  | x :: _ =>
      if is_ws x then
        let nws := List.length (takew is_ws s) in
        let s5 := dropw is_ws s in
        let i5 := i + nws in
        let '(c6, i6, s6) := match s5 with
                             | y :: r => if in_cls AMP y then ((1, (i5, S i5)) :: c, S i5, r) else (c, i5, s5)
                             | [] => (c, i5, s5)
                             end in
        let n1 := List.length (takew is_word s6) in
        let r1 := dropw is_word s6 in
        match takew is_word s6 with
        | [] => None
        | _ =>
            match r1 with
            | d :: r1' =>
                if in_cls DOT d then
                  let n2 := List.length (takew is_word r1') in
                  match takew is_word r1' with
                  | [] => None
                  | _ => if tail_ok WS (dropw is_word r1')
                         then Some ((3, (S (i6 + n1), S (i6 + n1) + n2)) :: (2, (i6, i6 + n1)) :: c6) else None
                  end
                else if tail_ok WS (d :: r1') then Some ((3, (i6, i6 + n1)) :: c6) else None
            | [] => Some ((3, (i6, i6 + n1)) :: c6)
            end
        end
      else None
  | [] => None
  end.

Lemma ws_not_amp : forall y, is_ws y = true -> in_cls AMP y = false.
Proof. apply disjoint_sound. vm_compute. reflexivity. Qed.
Lemma ws_not_word : forall y, is_ws y = true -> is_word y = false.
Proof. apply disjoint_sound. vm_compute. reflexivity. Qed.
Lemma word_not_ws : forall y, is_word y = true -> is_ws y = false.
Proof. apply disjoint_sound. vm_compute. reflexivity. Qed.
Lemma word_not_dot : forall y, is_word y = true -> in_cls DOT y = false.
Proof. apply disjoint_sound. vm_compute. reflexivity. Qed.
Lemma amp_not_word : forall y, in_cls AMP y = true -> is_word y = false.
Proof. apply disjoint_sound. vm_compute. reflexivity. Qed.
Lemma dot_not_ws : forall y, in_cls DOT y = true -> is_ws y = false.
Proof. apply disjoint_sound. vm_compute. reflexivity. Qed.

Lemma tail_rejects_word n a : rejects is_word (fun s' i' c' => m (RCat (tail_re WS) REot) s' i' ((n, (a, i')) :: c') final).
Proof. intros x xs i c Hx. rewrite m_tail. cbn [tail_ok]. change (in_cls WS x) with (is_ws x). rewrite (word_not_ws x Hx). reflexivity. Qed.

(* the interface name: a maximal identifier followed by the tail *)
Lemma m_name s i c :
  m (RCat (RGrp 3 (RPlus (RCls WORD))) (RCat (tail_re WS) REot)) s i c final =
  match s with
  | x :: _ => if is_word x then
                if tail_ok WS (dropw is_word s) then Some ((3, (i, i + List.length (takew is_word s))) :: c) else None
              else None
  | [] => None
  end.
Proof.
  rewrite m_cat, m_grp. rewrite (m_plus_det WORD) by (apply tail_rejects_word).
  destruct s as [|x xs]; [reflexivity|]. change (in_cls WORD x) with (is_word x). destruct (is_word x); [|reflexivity].
  rewrite m_tail. reflexivity.
Qed.

Lemma opt_id {A} (o : option A) : match o with Some r => Some r | None => None end = o.
Proof. destruct o; reflexivity. Qed.

Lemma takew_nonempty p x xs : p x = true -> takew p (x :: xs) <> [].
Proof. intros H. simpl. rewrite H. discriminate. Qed.

Theorem m_impl_args s i c : m impl_args_re s i c final = impl_caps i s c.
Proof.
  unfold impl_args_re, impl_caps. rewrite m_cat.
  (* the leading blanks: what follows cannot start with a blank *)
  assert (Hrej : rejects is_ws (fun s' i' c' =>
            m (RCat (ROpt (RGrp 1 (RCls AMP))) (RCat (ROpt (RCat (RGrp 2 (RPlus (RCls WORD))) (RCls DOT)))
                 (RCat (RGrp 3 (RPlus (RCls WORD))) (RCat (tail_re WS) REot)))) s' i' c' final)).
  { intros y ys j d Hy. rewrite m_cat, m_opt, m_grp, (m_single (RCls AMP) (in_cls AMP) (SgCls AMP)). rewrite (ws_not_amp y Hy).
    rewrite m_cat, m_opt, m_cat, m_grp, (m_plus_single (RCls WORD) is_word (SgCls WORD)). rewrite (ws_not_word y Hy).
    rewrite m_name. rewrite (ws_not_word y Hy). reflexivity. }
  rewrite (m_plus_det WS) by exact Hrej.
  destruct s as [|x xs]; [reflexivity|]. change (in_cls WS x) with (is_ws x). destruct (is_ws x) eqn:Ex; [|reflexivity].
  set (s5 := dropw (in_cls WS) (x :: xs)). set (i5 := i + List.length (takew (in_cls WS) (x :: xs))).
  change (dropw is_ws (x :: xs)) with s5. change (i + List.length (takew is_ws (x :: xs))) with i5.
  (* after the optional & *)
  assert (Hafter : forall s6 i6 c6,
    m (RCat (ROpt (RCat (RGrp 2 (RPlus (RCls WORD))) (RCls DOT))) (RCat (RGrp 3 (RPlus (RCls WORD))) (RCat (tail_re WS) REot))) s6 i6 c6 final =
    match takew is_word s6 with
    | [] => None
    | _ => match dropw is_word s6 with
           | d :: r1' =>
               if in_cls DOT d then
                 match takew is_word r1' with
                 | [] => None
                 | _ => if tail_ok WS (dropw is_word r1')
                        then Some ((3, (S (i6 + List.length (takew is_word s6)), S (i6 + List.length (takew is_word s6)) + List.length (takew is_word r1')))
                                   :: (2, (i6, i6 + List.length (takew is_word s6))) :: c6) else None
                 end
               else if tail_ok WS (d :: r1') then Some ((3, (i6, i6 + List.length (takew is_word s6))) :: c6) else None
           | [] => Some ((3, (i6, i6 + List.length (takew is_word s6))) :: c6)
           end
    end).
  { intros s6 i6 c6. rewrite m_cat, m_opt, m_cat, m_grp.
    assert (Hrd : rejects (in_cls WORD) (fun s' i' c' => m (RCls DOT) s' i' ((2, (i6, i')) :: c')
                     (fun s'0 i'0 c'0 => m (RCat (RGrp 3 (RPlus (RCls WORD))) (RCat (tail_re WS) REot)) s'0 i'0 c'0 final))).
    { intros y ys j d Hy. rewrite (m_single (RCls DOT) (in_cls DOT) (SgCls DOT)). rewrite (word_not_dot y Hy). reflexivity. }
    rewrite (m_plus_det WORD) by exact Hrd. rewrite m_name.
    destruct s6 as [|y ys]; [reflexivity|]. change (in_cls WORD y) with (is_word y).
    destruct (is_word y) eqn:Ey; [|cbn [takew]; rewrite Ey; reflexivity].
    pose proof (takew_nonempty is_word y ys Ey) as Hne.
    change (dropw (in_cls WORD) (y :: ys)) with (dropw is_word (y :: ys)). change (takew (in_cls WORD) (y :: ys)) with (takew is_word (y :: ys)).
    destruct (takew is_word (y :: ys)) as [|t0 ts] eqn:Et; [contradiction Hne; reflexivity|].
    rewrite (m_single (RCls DOT) (in_cls DOT) (SgCls DOT)).
    pose proof (dropw_head is_word (y :: ys)) as Hh.
    destruct (dropw is_word (y :: ys)) as [|d r1'] eqn:Ed.
    - (* nothing after the identifier *) reflexivity.
    - destruct (in_cls DOT d) eqn:Edot.
      + (* a dot follows: the undotted reading cannot succeed, the dot is not a blank *)
        assert (Hfb : tail_ok WS (d :: r1') = false)
          by (cbn [tail_ok]; change (in_cls WS d) with (is_ws d); rewrite (dot_not_ws d Edot); reflexivity).
        rewrite Hfb. rewrite m_name. destruct r1' as [|z zs]; [reflexivity|].
        destruct (is_word z) eqn:Ez; [|cbn [takew]; rewrite Ez; reflexivity].
        pose proof (takew_nonempty is_word z zs Ez) as Hne2. destruct (takew is_word (z :: zs)) as [|u0 us] eqn:Eu; [contradiction Hne2; reflexivity|].
        destruct (tail_ok WS (dropw is_word (z :: zs))); [|reflexivity].
        reflexivity.
      + reflexivity. }
  destruct s5 as [|y r] eqn:E5.
  - rewrite m_cat, m_opt, m_grp, (m_single (RCls AMP) (in_cls AMP) (SgCls AMP)). apply Hafter.
  - rewrite m_cat, m_opt, m_grp, (m_single (RCls AMP) (in_cls AMP) (SgCls AMP)).
    destruct (in_cls AMP y) eqn:Ea.
    + rewrite Hafter. rewrite (Hafter (y :: r) i5 c).
      cbn [takew]. rewrite (amp_not_word y Ea). rewrite opt_id. reflexivity.
    + apply Hafter.
Qed.

(* ---------- from capture positions to the captured texts ---------- *)
Lemma substring_seg text : forall a n,
  String.substring a n text = string_of_list_ascii (firstn n (skipn a (list_ascii_of_string text))).
Proof.
  induction text as [|ch t IH]; intros a n.
  - destruct a, n; reflexivity.
  - destruct a as [|a]; simpl.
    + destruct n as [|n]; [reflexivity|]. simpl. f_equal. rewrite (IH 0 n). reflexivity.
    + apply IH.
Qed.

Lemma skipn_add {A} (l : list A) a b : skipn (a + b) l = skipn b (skipn a l).
Proof. revert l. induction a as [|a IH]; intros l; [reflexivity|]. destruct l; simpl; [destruct b; reflexivity|apply IH]. Qed.

Lemma skipn_app_exact {A} (w r : list A) : skipn (List.length w) (w ++ r) = r.
Proof. induction w; simpl; auto. Qed.
Lemma firstn_app_exact {A} (w r : list A) : firstn (List.length w) (w ++ r) = w.
Proof. induction w; simpl; [reflexivity|f_equal; assumption]. Qed.

(* the text between two positions, when the input from the first one on starts with w *)
Lemma seg_of l i (w r : list ascii) : skipn i l = (w ++ r)%list -> firstn (i + List.length w - i) (skipn i l) = w.
Proof. intros H. rewrite H. replace (i + List.length w - i) with (List.length w) by lia. apply firstn_app_exact. Qed.

Lemma skipn_after_run p s d r : dropw p s = d :: r -> skipn (List.length (takew p s) + 1) s = r.
Proof.
  induction s as [|a s IH]; simpl; [discriminate|]. destruct (p a); simpl.
  - exact IH.
  - intros H. inversion H. reflexivity.
Qed.

Definition show (x : bool * list ascii * list ascii) : bool * string * string :=
  let '(amp, q, n) := x in (amp, string_of_list_ascii q, string_of_list_ascii n).

Definition read_caps (text : string) (c : caps) : bool * string * string :=
  (String.eqb (group c 1 text) "&", group c 2 text, group c 3 text).

Lemma group_seg text c n a b : cap_get n c = Some (a, b) ->
  group c n text = string_of_list_ascii (firstn (b - a) (skipn a (list_ascii_of_string text))).
Proof. intros H. unfold group. rewrite H. apply substring_seg. Qed.
Lemma group_none text c n : cap_get n c = None -> group c n text = EmptyString.
Proof. intros H. unfold group. rewrite H. reflexivity. Qed.

Lemma takew_drop_app p s : s = (takew p s ++ dropw p s)%list.
Proof. symmetry. apply take_drop. Qed.

Theorem impl_caps_read text i s :
  skipn i (list_ascii_of_string text) = s ->
  match impl_caps i s [] with
  | Some c => option_map show (spec_impl_args s) = Some (read_caps text c)
  | None => spec_impl_args s = None
  end.
Proof.
  intros Hs. set (l := list_ascii_of_string text) in *. unfold impl_caps, spec_impl_args.
  destruct s as [|x xs] eqn:Es0; [reflexivity|]. rewrite <- Es0 in *. destruct (is_ws x); [|reflexivity].
  set (nws := List.length (takew is_ws s)). set (s5 := dropw is_ws s).
  assert (H5 : skipn (i + nws) l = s5).
  { rewrite skipn_add, Hs. rewrite (takew_drop_app is_ws s) at 1. apply skipn_app_exact. }
  (* the optional ampersand *)
  assert (Hgen : forall c6 i6 s6 amp,
            skipn i6 l = s6 -> cap_get 2 c6 = None -> cap_get 3 c6 = None ->
            String.eqb (group c6 1 text) "&" = amp ->
            (forall c', cap_get 1 ((3, c') :: c6) = cap_get 1 c6) ->
    match (match takew is_word s6 with
           | [] => None
           | _ => match dropw is_word s6 with
                  | d :: r1' =>
                      if in_cls DOT d then
                        match takew is_word r1' with
                        | [] => None
                        | _ => if tail_ok WS (dropw is_word r1')
                               then Some ((3, (S (i6 + List.length (takew is_word s6)), S (i6 + List.length (takew is_word s6)) + List.length (takew is_word r1')))
                                          :: (2, (i6, i6 + List.length (takew is_word s6))) :: c6) else None
                        end
                      else if tail_ok WS (d :: r1') then Some ((3, (i6, i6 + List.length (takew is_word s6))) :: c6) else None
                  | [] => Some ((3, (i6, i6 + List.length (takew is_word s6))) :: c6)
                  end
           end) with
    | Some c =>
        option_map show
          (match takew is_word s6 with
           | [] => None
           | _ => match dropw is_word s6 with
                  | d :: r1' =>
                      if in_cls DOT d then
                        match takew is_word r1' with
                        | [] => None
                        | _ => if tail_ok WS (dropw is_word r1') then Some (amp, takew is_word s6, takew is_word r1') else None
                        end
                      else if tail_ok WS (d :: r1') then Some (amp, [], takew is_word s6) else None
                  | [] => Some (amp, [], takew is_word s6)
                  end
           end) = Some (read_caps text c)
    | None =>
        (match takew is_word s6 with
         | [] => None
         | _ => match dropw is_word s6 with
                | d :: r1' =>
                    if in_cls DOT d then
                      match takew is_word r1' with
                      | [] => None
                      | _ => if tail_ok WS (dropw is_word r1') then Some (amp, takew is_word s6, takew is_word r1') else None
                      end
                    else if tail_ok WS (d :: r1') then Some (amp, [], takew is_word s6) else None
                | [] => Some (amp, [], takew is_word s6)
                end
         end) = None
    end).
  { intros c6 i6 s6 amp H6 Hc2 Hc3 Hamp Hc1.
    assert (Hw1 : firstn (i6 + List.length (takew is_word s6) - i6) (skipn i6 l) = takew is_word s6)
      by (apply (seg_of l i6 _ (dropw is_word s6)); rewrite H6; apply takew_drop_app).
    destruct (takew is_word s6) as [|t0 ts] eqn:Et; [reflexivity|]. rewrite <- Et in *.
    destruct (dropw is_word s6) as [|d r1'] eqn:Ed.
    - cbn [option_map show]. unfold read_caps. f_equal.
      rewrite (group_seg text _ 3 i6 (i6 + List.length (takew is_word s6))) by (cbn; reflexivity).
      rewrite (group_none text _ 2) by (cbn; exact Hc2).
      unfold group at 1. rewrite Hc1. fold (group c6 1 text). fold l. rewrite Hamp, Hw1. reflexivity.
    - destruct (in_cls DOT d).
      + assert (H7 : skipn (S (i6 + List.length (takew is_word s6))) l = r1').
        { replace (S (i6 + List.length (takew is_word s6))) with (i6 + (List.length (takew is_word s6) + 1)) by lia.
          rewrite skipn_add, H6. apply (skipn_after_run is_word s6 d r1' Ed). }
        assert (Hw2 : firstn (List.length (takew is_word r1')) (skipn (S (i6 + List.length (takew is_word s6))) l) = takew is_word r1')
          by (rewrite H7; rewrite (takew_drop_app is_word r1') at 2; apply firstn_app_exact).
        destruct (takew is_word r1') as [|u0 us] eqn:Eu; [reflexivity|]. rewrite <- Eu in *.
        destruct (tail_ok WS (dropw is_word r1')); [|reflexivity].
        cbn [option_map show]. unfold read_caps. f_equal.
        rewrite (group_seg text _ 3 _ _) by (cbn; reflexivity).
        rewrite (group_seg text _ 2 i6 (i6 + List.length (takew is_word s6))) by (cbn; reflexivity).
        fold l.
        replace (S (i6 + List.length (takew is_word s6) + List.length (takew is_word r1')) - S (i6 + List.length (takew is_word s6)))
          with (List.length (takew is_word r1')) by lia.
        rewrite Hw1, Hw2.
        unfold group at 1. replace (cap_get 1 _) with (cap_get 1 c6) by (cbn; reflexivity). fold (group c6 1 text). rewrite Hamp. reflexivity.
      + destruct (tail_ok WS (d :: r1')); [|reflexivity].
        cbn [option_map show]. unfold read_caps. f_equal.
        rewrite (group_seg text _ 3 i6 (i6 + List.length (takew is_word s6))) by (cbn; reflexivity).
        rewrite (group_none text _ 2) by (cbn; exact Hc2).
        unfold group at 1. rewrite Hc1. fold (group c6 1 text). fold l. rewrite Hamp, Hw1. reflexivity. }
  destruct s5 as [|y r] eqn:E5.
  - apply (Hgen [] (i + nws) [] false); try reflexivity; exact H5.
  - destruct (in_cls AMP y) eqn:Ea.
    + apply (Hgen [(1, (i + nws, S (i + nws)))] (S (i + nws)) r true); try reflexivity.
      * replace (S (i + nws)) with (i + nws + 1) by lia. rewrite skipn_add, H5. reflexivity.
      * (* the captured text of group 1 is the ampersand itself *)
        rewrite (group_seg text _ 1 (i + nws) (S (i + nws))) by (cbn; reflexivity).
        replace (S (i + nws) - (i + nws)) with 1 by lia. fold l. rewrite H5. cbn [firstn string_of_list_ascii].
        unfold in_cls in Ea. cbn in Ea. rewrite orb_false_r in Ea. apply andb_true_iff in Ea. destruct Ea as [E1 E2].
        apply N.leb_le in E1. apply N.leb_le in E2. assert (E : N_of_ascii y = 38%N) by lia.
        rewrite <- (ascii_N_embedding y), E. reflexivity.
    + apply (Hgen [] (i + nws) (y :: r) false); try reflexivity; exact H5.
Qed.

Lemma skipn_takew p s : skipn (List.length (takew p s)) s = dropw p s.
Proof. rewrite (takew_drop_app p s) at 2. apply skipn_app_exact. Qed.
Lemma skipn_strip w s s' : strip_prefix w s = Some s' -> skipn (List.length w) s = s'.
Proof. intros H. apply strip_prefix_spec in H. subst. apply skipn_app_exact. Qed.

(* the common head of every annotation line: blanks, two slashes, blanks, the keyword *)
Definition strip_head (kw s : list ascii) : option (list ascii) :=
  match strip_prefix slashes (dropw is_ws s) with
  | Some s2 => strip_prefix kw (dropw is_ws s2)
  | None => None
  end.

Lemma m_head a kw r s k :
  is_ws a = false ->
  m (RCat (RStar (RCls WS)) (RCat (lit slashes) (RCat (RStar (RCls WS)) (RCat (lit (a :: kw)) r)))) s 0 [] k =
  match strip_head (a :: kw) s with
  | Some s4 => m r s4 (List.length s - List.length s4) [] k
  | None => None
  end.
Proof.
  intros Ha. unfold strip_head.
  rewrite m_cat, (m_star_single (RCls WS) is_ws (SgCls WS)).
  rewrite star_p_det by (apply rejects_lit; vm_compute; reflexivity).
  rewrite m_cat, m_lit. destruct (strip_prefix slashes (dropw is_ws s)) as [s2|] eqn:E1; [|reflexivity].
  rewrite m_cat, (m_star_single (RCls WS) is_ws (SgCls WS)).
  rewrite star_p_det by (apply rejects_lit; exact Ha).
  rewrite m_cat, m_lit. destruct (strip_prefix (a :: kw) (dropw is_ws s2)) as [s4|] eqn:E2; [|reflexivity].
  f_equal.
  apply strip_prefix_spec in E1. apply strip_prefix_spec in E2.
  pose proof (f_equal (@List.length ascii) (take_drop is_ws s)) as H1. pose proof (f_equal (@List.length ascii) (take_drop is_ws s2)) as H2.
  rewrite E1 in H1. rewrite E2 in H2. rewrite !app_length in H1, H2. cbn [List.length slashes] in *. lia.
Qed.

Lemma strip_head_skipn kw s s4 : strip_head kw s = Some s4 -> skipn (List.length s - List.length s4) s = s4.
Proof.
  unfold strip_head. destruct (strip_prefix slashes (dropw is_ws s)) as [s2|] eqn:E1; [|discriminate]. intros E2.
  apply strip_prefix_spec in E1. apply strip_prefix_spec in E2.
  assert (Hs : s = ((takew is_ws s ++ slashes ++ takew is_ws s2 ++ kw) ++ s4)%list).
  { rewrite <- (take_drop is_ws s) at 1. rewrite E1. rewrite <- (take_drop is_ws s2) at 1. rewrite E2. rewrite <- !app_assoc. reflexivity. }
  set (pre := (takew is_ws s ++ slashes ++ takew is_ws s2 ++ kw)%list) in *.
  replace (List.length s - List.length s4) with (List.length pre) by (rewrite Hs at 1; rewrite app_length; lia).
  rewrite Hs at 1. apply skipn_app_exact.
Qed.

Theorem parse_implements_exact a kw text :
  is_ws a = false ->
  Annot.parse_implements (implements_re (a :: kw)) text =
  match strip_head (a :: kw) (list_ascii_of_string text) with
  | Some s4 => option_map show (spec_impl_args s4)
  | None => None
  end.
Proof.
  intros Ha. unfold Annot.parse_implements, implements_re. rewrite re_find_anchored, (m_head a kw _ _ _ Ha).
  destruct (strip_head (a :: kw) (list_ascii_of_string text)) as [s4|] eqn:E; [|reflexivity].
  rewrite m_impl_args.
  pose proof (impl_caps_read text _ s4 (strip_head_skipn _ _ _ E)) as H.
  destruct (impl_caps _ s4 []) as [c|].
  - rewrite H. reflexivity.
  - rewrite H. reflexivity.
Qed.

(* ---------- comma-separated lists: @constructor, @packageonly, @ignore ---------- *)
Definition COMMA : list (N * N) := [(44, 44)]%N.
Definition comma : ascii := ","%char.

Section Lists.
Variable item : re.                       (* one list item *)
Variable itemcls : list (N * N).          (* the characters that can continue an item *)
Variable item_len : list ascii -> option nat.   (* maximal munch: how many characters the item at the head of the input has *)

Hypothesis H_item : forall k, rejects (in_cls itemcls) k -> forall s i c,
  m item s i c k = match item_len s with Some n => k (skipn n s) (i + n) c | None => None end.
Hypothesis H_pos : forall s n, item_len s = Some n -> (1 <= n)%nat.
Hypothesis H_head : forall x xs n, item_len (x :: xs) = Some n -> in_cls itemcls x = true.
Hypothesis H_nil : item_len [] = None.
Hypothesis H_ws : forall y, is_ws y = true -> in_cls itemcls y = false.
Hypothesis H_comma : in_cls itemcls comma = false.

Definition body : re := RCat (RStar (RCls WS)) (RCat (RCls COMMA) (RCat (RStar (RCls WS)) item)).
Definition list_re : re := RCat item (RCat (RStar body) (ROpt (RCat (RStar (RCls WS)) (RCls COMMA)))).
Definition args_re : re := RCat (ROpt (RCat (RPlus (RCls WS)) (RGrp 1 list_re))) (RCat (tail_re WS) REot).

Lemma in_comma x : in_cls COMMA x = Ascii.eqb comma x.
Proof. apply (in_cls_one comma x). Qed.
Lemma ws_not_comma y : is_ws y = true -> in_cls COMMA y = false.
Proof. revert y. apply disjoint_sound. vm_compute. reflexivity. Qed.

Lemma item_rejects_ws k : rejects (in_cls itemcls) k -> rejects is_ws (fun s i c => m item s i c k).
Proof.
  intros Hk x xs i c Hx. rewrite (H_item k Hk). destruct (item_len (x :: xs)) as [n|] eqn:E; [|reflexivity].
  pose proof (H_head x xs n E) as Hh. rewrite (H_ws x Hx) in Hh. discriminate.
Qed.

(* "blanks , blanks item": how many characters, by maximal munch *)
Definition body_len (s : list ascii) : option nat :=
  match dropw is_ws s with
  | x :: r => if Ascii.eqb comma x then
                match item_len (dropw is_ws r) with
                | Some n => Some (List.length (takew is_ws s) + 1 + List.length (takew is_ws r) + n)
                | None => None
                end
              else None
  | [] => None
  end.

Lemma skipn_run p s : skipn (List.length (takew p s)) s = dropw p s.
Proof. apply skipn_takew. Qed.

Lemma m_body k : rejects (in_cls itemcls) k -> forall s i c,
  m body s i c k = match body_len s with Some n => k (skipn n s) (i + n) c | None => None end.
Proof.
  intros Hk s i c. unfold body, body_len.
  rewrite m_cat, (m_star_single (RCls WS) is_ws (SgCls WS)).
  assert (R1 : rejects is_ws (fun s' i' c' => m (RCat (RCls COMMA) (RCat (RStar (RCls WS)) item)) s' i' c' k)).
  { intros x xs j d Hx. rewrite m_cat, (m_single (RCls COMMA) (in_cls COMMA) (SgCls COMMA)). rewrite (ws_not_comma x Hx). reflexivity. }
  rewrite star_p_det by exact R1.
  rewrite m_cat, (m_single (RCls COMMA) (in_cls COMMA) (SgCls COMMA)).
  destruct (dropw is_ws s) as [|x r] eqn:Ed; [reflexivity|]. rewrite in_comma. destruct (Ascii.eqb comma x) eqn:Ex; [|reflexivity].
  rewrite m_cat, (m_star_single (RCls WS) is_ws (SgCls WS)).
  rewrite star_p_det by (apply item_rejects_ws; exact Hk).
  rewrite (H_item k Hk). destruct (item_len (dropw is_ws r)) as [n|]; [|reflexivity].
  f_equal; [|lia].
  (* the input after the whole body *)
  rewrite <- !Nat.add_assoc. rewrite skipn_add, skipn_run, Ed.
  change (skipn (1 + (List.length (takew is_ws r) + n)) (x :: r)) with (skipn (List.length (takew is_ws r) + n) r).
  rewrite skipn_add, skipn_run. reflexivity.
Qed.

Lemma body_len_pos s n : body_len s = Some n -> (1 <= n)%nat.
Proof.
  unfold body_len. destruct (dropw is_ws s) as [|x r]; [discriminate|]. destruct (Ascii.eqb comma x); [|discriminate].
  destruct (item_len (dropw is_ws r)); [|discriminate]. intros H. inversion H. lia.
Qed.

Lemma body_rejects_item k : rejects (in_cls itemcls) k -> rejects (in_cls itemcls) (fun s i c => m body s i c k).
Proof.
  intros Hk x xs i c Hx. rewrite (m_body k Hk). unfold body_len.
  assert (Hw : is_ws x = false) by (destruct (is_ws x) eqn:E; [rewrite (H_ws x E) in Hx; discriminate|reflexivity]).
  cbn [dropw]. rewrite Hw. destruct (Ascii.eqb comma x) eqn:E; [|reflexivity].
  apply Ascii.eqb_eq in E. subst x. rewrite H_comma in Hx. discriminate.
Qed.

(* the star over the body: the longest chain first, one body less on every failure *)
Fixpoint chain (k : K) (fuel : nat) (s : list ascii) (i : nat) (c : caps) : option caps :=
  match fuel with
  | O => k s i c
  | S f => match body_len s with
           | Some n => match chain k f (skipn n s) (i + n) c with Some r => Some r | None => k s i c end
           | None => k s i c
           end
  end.

Lemma chain_rejects k fuel : rejects (in_cls itemcls) k -> rejects (in_cls itemcls) (chain k fuel).
Proof.
  intros Hk x xs i c Hx. destruct fuel as [|f]; cbn [chain]; [apply Hk; exact Hx|].
  destruct (body_len (x :: xs)) as [n|] eqn:E; [|apply Hk; exact Hx].
  (* a body cannot start with an item character *)
  exfalso. unfold body_len in E. assert (Hw : is_ws x = false) by (destruct (is_ws x) eqn:E'; [rewrite (H_ws x E') in Hx; discriminate|reflexivity]).
  cbn [dropw] in E. rewrite Hw in E. destruct (Ascii.eqb comma x) eqn:Ec; [|discriminate].
  apply Ascii.eqb_eq in Ec. subst x. rewrite H_comma in Hx. discriminate.
Qed.

Lemma star_loop_body k : rejects (in_cls itemcls) k -> forall fuel s i c,
  star_loop (m body) k fuel s i c = chain k fuel s i c.
Proof.
  intros Hk fuel. induction fuel as [|f IH]; intros s i c; cbn [star_loop chain]; [reflexivity|].
  assert (Hr : rejects (in_cls itemcls) (fun s' i' c' => if Nat.eqb i' i then None else star_loop (m body) k f s' i' c')).
  { intros x xs j d Hx. destruct (Nat.eqb j i); [reflexivity|]. rewrite IH. apply (chain_rejects k f Hk). exact Hx. }
  rewrite (m_body _ Hr). destruct (body_len s) as [n|] eqn:E; [|reflexivity].
  pose proof (body_len_pos s n E) as Hn. replace (Nat.eqb (i + n) i) with false by (symmetry; apply Nat.eqb_neq; lia).
  rewrite IH. reflexivity.
Qed.

(* the end of the list: an optional "blanks ," and then the free-text tail; the position is recorded as the end of group 1 *)
Definition k_end (i0 : nat) : K := fun s i c => if tail_ok WS s then Some ((1, (i0, i)) :: c) else None.
Definition k_opt (i0 : nat) : K := fun s i c =>
  match (match dropw is_ws s with
         | x :: r => if Ascii.eqb comma x then k_end i0 r (i + List.length (takew is_ws s) + 1) c else None
         | [] => None
         end) with
  | Some r => Some r
  | None => k_end i0 s i c
  end.

Lemma k_end_rejects i0 : rejects (in_cls itemcls) (k_end i0).
Proof.
  intros x xs i c Hx. unfold k_end. cbn [tail_ok]. change (in_cls WS x) with (is_ws x).
  destruct (is_ws x) eqn:E; [rewrite (H_ws x E) in Hx; discriminate|reflexivity].
Qed.

Lemma k_opt_rejects i0 : rejects (in_cls itemcls) (k_opt i0).
Proof.
  intros x xs i c Hx. unfold k_opt.
  assert (Hw : is_ws x = false) by (destruct (is_ws x) eqn:E; [rewrite (H_ws x E) in Hx; discriminate|reflexivity]).
  cbn [dropw]. rewrite Hw. destruct (Ascii.eqb comma x) eqn:Ec.
  - apply Ascii.eqb_eq in Ec. subst x. rewrite H_comma in Hx. discriminate.
  - apply k_end_rejects. exact Hx.
Qed.

Lemma m_trailing_comma i0 s i c :
  m (ROpt (RCat (RStar (RCls WS)) (RCls COMMA))) s i c (fun s' i' c' => m (RCat (tail_re WS) REot) s' i' ((1, (i0, i')) :: c') final) = k_opt i0 s i c.
Proof.
  rewrite m_opt, m_cat, (m_star_single (RCls WS) is_ws (SgCls WS)).
  assert (R1 : rejects is_ws (fun s' i' c' => m (RCls COMMA) s' i' c' (fun s'0 i'0 c'0 => m (RCat (tail_re WS) REot) s'0 i'0 ((1, (i0, i'0)) :: c'0) final))).
  { intros x xs j d Hx. rewrite (m_single (RCls COMMA) (in_cls COMMA) (SgCls COMMA)). rewrite (ws_not_comma x Hx). reflexivity. }
  rewrite star_p_det by exact R1. rewrite (m_single (RCls COMMA) (in_cls COMMA) (SgCls COMMA)).
  unfold k_opt, k_end. rewrite !m_tail.
  destruct (dropw is_ws s) as [|x r]; [reflexivity|]. rewrite in_comma. destruct (Ascii.eqb comma x); [|reflexivity].
  rewrite m_tail. replace (S (i + List.length (takew is_ws s))) with (i + List.length (takew is_ws s) + 1) by lia. reflexivity.
Qed.

Lemma m_star r s i c k : m (RStar r) s i c k = star_loop (m r) k (S (List.length s)) s i c.
Proof. reflexivity. Qed.

Lemma m_star_body k s i c : rejects (in_cls itemcls) k -> m (RStar body) s i c k = chain k (S (List.length s)) s i c.
Proof. intros Hk. rewrite m_star. apply star_loop_body. exact Hk. Qed.

Lemma chain_ext k1 k2 : (forall s i c, k1 s i c = k2 s i c) -> forall fuel s i c, chain k1 fuel s i c = chain k2 fuel s i c.
Proof.
  intros H fuel. induction fuel as [|f IH]; intros s i c; cbn [chain]; [apply H|].
  destruct (body_len s); [rewrite IH, H; reflexivity|apply H].
Qed.

(* the whole list inside group 1, started at position i *)
Theorem m_list s i c :
  m (RGrp 1 list_re) s i c (fun s' i' c' => m (RCat (tail_re WS) REot) s' i' c' final) =
  match item_len s with
  | Some n => chain (k_opt i) (S (List.length (skipn n s))) (skipn n s) (i + n) c
  | None => None
  end.
Proof.
  rewrite m_grp. unfold list_re. rewrite m_cat.
  set (Kt := fun s'0 i'0 c'0 => m (RCat (tail_re WS) REot) s'0 i'0 ((1, (i, i'0)) :: c'0) final).
  set (Ko := fun s' i' c' => m (ROpt (RCat (RStar (RCls WS)) (RCls COMMA))) s' i' c' Kt).
  assert (Heq : forall s0 i1 c1, Ko s0 i1 c1 = k_opt i s0 i1 c1) by (intros; apply m_trailing_comma).
  assert (Hko : rejects (in_cls itemcls) Ko) by (intros y ys a b Hy; rewrite Heq; apply k_opt_rejects; exact Hy).
  assert (Hk : rejects (in_cls itemcls) (fun s' i' c' => m (RCat (RStar body) (ROpt (RCat (RStar (RCls WS)) (RCls COMMA)))) s' i' c' Kt)).
  { intros x xs j d Hx. rewrite m_cat. change (m (RStar body) (x :: xs) j d Ko = None). rewrite (m_star_body Ko _ _ _ Hko).
    apply (chain_rejects Ko _ Hko). exact Hx. }
  rewrite (H_item _ Hk). destruct (item_len s) as [n|]; [|reflexivity].
  rewrite m_cat. change (m (RStar body) (skipn n s) (i + n) c Ko = chain (k_opt i) (S (List.length (skipn n s))) (skipn n s) (i + n) c).
  rewrite (m_star_body Ko _ _ _ Hko). apply chain_ext. exact Heq.
Qed.

(* everything after the keyword *)
Definition list_caps (i : nat) (s : list ascii) : option caps :=
  match (match s with
         | x :: _ => if is_ws x then
                       let s5 := dropw is_ws s in
                       let i5 := i + List.length (takew is_ws s) in
                       match item_len s5 with
                       | Some n => chain (k_opt i5) (S (List.length (skipn n s5))) (skipn n s5) (i5 + n) []
                       | None => None
                       end
                     else None
         | [] => None
         end) with
  | Some r => Some r
  | None => if tail_ok WS s then Some [] else None
  end.

Theorem m_args s i : m args_re s i [] final = list_caps i s.
Proof.
  unfold args_re, list_caps. rewrite m_cat, m_opt, m_cat.
  assert (Hr : rejects is_ws (fun s' i' c' => m (RGrp 1 list_re) s' i' c' (fun s'0 i'0 c'0 => m (RCat (tail_re WS) REot) s'0 i'0 c'0 final))).
  { intros x xs j d Hx. rewrite m_list. destruct (item_len (x :: xs)) as [n|] eqn:E; [|reflexivity].
    pose proof (H_head x xs n E) as Hh. rewrite (H_ws x Hx) in Hh. discriminate. }
  rewrite (m_plus_det WS) by exact Hr.
  rewrite m_tail.
  destruct s as [|x xs]; [reflexivity|]. change (in_cls WS x) with (is_ws x). destruct (is_ws x); [|reflexivity].
  rewrite m_list. reflexivity.
Qed.
End Lists.

(* ---------- where the list ends: positions ---------- *)
Section ListEnd.
Variable item_len : list ascii -> option nat.

Definition body_len' := body_len item_len.

(* the end of the list at the current position: with a trailing "blanks ," if the tail is fine after it, else without *)
Definition end_here (s : list ascii) (i : nat) : option nat :=
  match (match dropw is_ws s with
         | x :: r => if Ascii.eqb comma x then (if tail_ok WS r then Some (i + List.length (takew is_ws s) + 1) else None) else None
         | [] => None
         end) with
  | Some e => Some e
  | None => if tail_ok WS s then Some i else None
  end.

Fixpoint chain_end (fuel : nat) (s : list ascii) (i : nat) : option nat :=
  match fuel with
  | O => end_here s i
  | S f => match body_len' s with
           | Some n => match chain_end f (skipn n s) (i + n) with Some r => Some r | None => end_here s i end
           | None => end_here s i
           end
  end.

Lemma k_opt_end i0 s i c : k_opt i0 s i c = option_map (fun e => (1, (i0, e)) :: c) (end_here s i).
Proof.
  unfold k_opt, k_end, end_here. destruct (dropw is_ws s) as [|x r].
  - destruct (tail_ok WS s); reflexivity.
  - destruct (Ascii.eqb comma x); [destruct (tail_ok WS r); [reflexivity|]|]; destruct (tail_ok WS s); reflexivity.
Qed.

Lemma chain_is_end i0 fuel : forall s i c,
  chain item_len (k_opt i0) fuel s i c = option_map (fun e => (1, (i0, e)) :: c) (chain_end fuel s i).
Proof.
  induction fuel as [|f IH]; intros s i c; cbn [chain chain_end]; [apply k_opt_end|].
  unfold body_len'. destruct (body_len item_len s) as [n|]; [|apply k_opt_end].
  rewrite IH. destruct (chain_end f (skipn n s) (i + n)); [reflexivity|apply k_opt_end].
Qed.

Lemma end_here_shift a s i : end_here s (a + i) = option_map (fun e => a + e) (end_here s i).
Proof.
  unfold end_here. destruct (dropw is_ws s) as [|x r].
  - destruct (tail_ok WS s); reflexivity.
  - destruct (Ascii.eqb comma x); [destruct (tail_ok WS r); [cbn; f_equal; lia|]|]; destruct (tail_ok WS s); reflexivity.
Qed.

Lemma chain_end_shift a fuel : forall s i, chain_end fuel s (a + i) = option_map (fun e => a + e) (chain_end fuel s i).
Proof.
  induction fuel as [|f IH]; intros s i; cbn [chain_end]; [apply end_here_shift|].
  destruct (body_len' s) as [n|]; [|apply end_here_shift].
  rewrite <- Nat.add_assoc, IH. destruct (chain_end f (skipn n s) (i + n)); [reflexivity|apply end_here_shift].
Qed.

(* wherever the list is taken to end, the free-text tail follows, and the end is not before the current position *)
Lemma end_here_sound s i e : end_here s i = Some e -> (i <= e)%nat /\ tail_ok WS (skipn (e - i) s) = true.
Proof.
  unfold end_here. destruct (dropw is_ws s) as [|x r] eqn:Ed.
  - destruct (tail_ok WS s) eqn:Et; [|discriminate]. intros H. inversion H. subst. split; [lia|]. rewrite Nat.sub_diag. exact Et.
  - destruct (Ascii.eqb comma x).
    + destruct (tail_ok WS r) eqn:Er.
      * intros H. inversion H. subst. split; [lia|].
        replace (i + List.length (takew is_ws s) + 1 - i) with (List.length (takew is_ws s) + 1) by lia.
        rewrite (skipn_after_run is_ws s x r Ed). exact Er.
      * destruct (tail_ok WS s) eqn:Et; [|discriminate]. intros H. inversion H. subst. split; [lia|]. rewrite Nat.sub_diag. exact Et.
    + destruct (tail_ok WS s) eqn:Et; [|discriminate]. intros H. inversion H. subst. split; [lia|]. rewrite Nat.sub_diag. exact Et.
Qed.

Lemma chain_end_sound fuel : forall s i e, chain_end fuel s i = Some e -> (i <= e)%nat /\ tail_ok WS (skipn (e - i) s) = true.
Proof.
  induction fuel as [|f IH]; intros s i e; cbn [chain_end]; [apply end_here_sound|].
  destruct (body_len' s) as [n|] eqn:Eb; [|apply end_here_sound].
  destruct (chain_end f (skipn n s) (i + n)) as [r|] eqn:Ec; [|apply end_here_sound].
  intros H. inversion H. subst r. destruct (IH _ _ _ Ec) as [H1 H2]. split; [lia|].
  replace (e - i) with (n + (e - (i + n))) by lia. rewrite skipn_add. exact H2.
Qed.

(* the list group, relative to the start of the list *)
Definition spec_list (s5 : list ascii) : option nat :=
  match item_len s5 with
  | Some n => chain_end (S (List.length (skipn n s5))) (skipn n s5) n
  | None => None
  end.
End ListEnd.

(* ---------- the two kinds of items ---------- *)
Definition HEADC : list (N * N) := [(65, 90); (95, 95); (97, 122)]%N.
Definition ident_item : re := RCat (RCls HEADC) (RStar (RCls WORD)).
Definition ident_len (s : list ascii) : option nat :=
  match s with x :: xs => if in_cls HEADC x then Some (S (List.length (takew is_word xs))) else None | [] => None end.

Lemma ident_item_ok k : rejects (in_cls WORD) k -> forall s i c,
  m ident_item s i c k = match ident_len s with Some n => k (skipn n s) (i + n) c | None => None end.
Proof.
  intros Hk s i c. unfold ident_item, ident_len. rewrite m_cat, (m_single (RCls HEADC) (in_cls HEADC) (SgCls HEADC)).
  destruct s as [|x xs]; [reflexivity|]. destruct (in_cls HEADC x); [|reflexivity].
  rewrite (m_star_single (RCls WORD) is_word (SgCls WORD)), star_p_det by exact Hk.
  cbn [skipn]. rewrite skipn_run. f_equal. lia.
Qed.

Lemma headc_word : forall y, in_cls HEADC y = true -> in_cls WORD y = true.
Proof.
  assert (H : forallb (fun n => negb (in_cls HEADC (ascii_of_nat n)) || in_cls WORD (ascii_of_nat n)) (seq 0 256) = true) by (vm_compute; reflexivity).
  rewrite forallb_forall in H. intros y Hy. specialize (H (nat_of_ascii y)). rewrite ascii_nat_embedding in H.
  assert (Hin : In (nat_of_ascii y) (seq 0 256)) by (apply in_seq; pose proof (nat_ascii_bounded y); lia).
  specialize (H Hin). rewrite Hy in H. exact H.
Qed.

Definition run_item (cl : list (N * N)) : re := RPlus (RCls cl).
Definition run_len (cl : list (N * N)) (s : list ascii) : option nat :=
  match s with x :: _ => if in_cls cl x then Some (List.length (takew (in_cls cl) s)) else None | [] => None end.

Lemma run_item_ok cl k : rejects (in_cls cl) k -> forall s i c,
  m (run_item cl) s i c k = match run_len cl s with Some n => k (skipn n s) (i + n) c | None => None end.
Proof.
  intros Hk s i c. unfold run_item, run_len. rewrite (m_plus_det cl k Hk). destruct s as [|x xs]; [reflexivity|].
  destruct (in_cls cl x); [|reflexivity]. rewrite skipn_run. reflexivity.
Qed.

(* ---------- the whole line of a list annotation ---------- *)
Definition list_annot_re (kw : list ascii) (item : re) : re :=
  RCat RBot (RCat (RStar (RCls WS)) (RCat (lit slashes) (RCat (RStar (RCls WS)) (RCat (lit kw) (args_re item))))).

(* the text of the list group (None: the expression does not match at all; Some None: it matches without a list) *)
Definition spec_list_line (item_len : list ascii -> option nat) (kw s : list ascii) : option (option (list ascii)) :=
  match strip_head kw s with
  | None => None
  | Some s4 =>
      match (match s4 with
             | x :: _ => if is_ws x then
                           match spec_list item_len (dropw is_ws s4) with
                           | Some n => Some (firstn n (dropw is_ws s4))
                           | None => None
                           end
                         else None
             | [] => None
             end) with
      | Some g => Some (Some g)
      | None => if tail_ok WS s4 then Some None else None
      end
  end.

Section ListLine.
Variable item : re.
Variable itemcls : list (N * N).
Variable item_len : list ascii -> option nat.
Hypothesis H_item : forall k, rejects (in_cls itemcls) k -> forall s i c,
  m item s i c k = match item_len s with Some n => k (skipn n s) (i + n) c | None => None end.
Hypothesis H_pos : forall s n, item_len s = Some n -> (1 <= n)%nat.
Hypothesis H_head : forall x xs n, item_len (x :: xs) = Some n -> in_cls itemcls x = true.
Hypothesis H_nil : item_len [] = None.
Hypothesis H_ws : forall y, is_ws y = true -> in_cls itemcls y = false.
Hypothesis H_comma : in_cls itemcls comma = false.

Theorem list_line_group a kw text :
  is_ws a = false ->
  match re_find (list_annot_re (a :: kw) item) text with
  | Some c => exists g, spec_list_line item_len (a :: kw) (list_ascii_of_string text) = Some g /\
                        group c 1 text = match g with Some t => string_of_list_ascii t | None => EmptyString end
  | None => spec_list_line item_len (a :: kw) (list_ascii_of_string text) = None
  end.
Proof.
  intros Ha. unfold list_annot_re, spec_list_line. rewrite re_find_anchored, (m_head a kw _ _ _ Ha).
  set (l := list_ascii_of_string text).
  destruct (strip_head (a :: kw) l) as [s4|] eqn:E; [|reflexivity].
  pose proof (strip_head_skipn _ _ _ E) as Hsk. set (i := List.length l - List.length s4) in *.
  rewrite (m_args item itemcls item_len H_item H_head H_ws H_comma). unfold list_caps.
  destruct s4 as [|x xs] eqn:Es4.
  - (* nothing after the keyword *) cbn [tail_ok]. eexists. split; [reflexivity|]. reflexivity.
  - rewrite <- Es4 in *. destruct (is_ws x) eqn:Ex.
    + set (s5 := dropw is_ws s4). set (i5 := i + List.length (takew is_ws s4)).
      assert (H5 : skipn i5 l = s5) by (unfold i5; rewrite skipn_add, Hsk; apply skipn_run).
      unfold spec_list. destruct (item_len s5) as [n|] eqn:En.
      * rewrite chain_is_end. replace (i5 + n) with (i5 + n) by reflexivity. rewrite chain_end_shift.
        destruct (chain_end item_len (S (List.length (skipn n s5))) (skipn n s5) n) as [e|] eqn:Ec; cbn [option_map].
        -- eexists. split; [reflexivity|].
           rewrite (group_seg text _ 1 i5 (i5 + e)) by (cbn; reflexivity).
           replace (i5 + e - i5) with e by lia. fold l. rewrite H5. reflexivity.
        -- destruct (tail_ok WS s4); [eexists; split; [reflexivity|reflexivity]|reflexivity].
      * destruct (tail_ok WS s4); [eexists; split; [reflexivity|reflexivity]|reflexivity].
    + destruct (tail_ok WS s4); [eexists; split; [reflexivity|reflexivity]|reflexivity].
Qed.
End ListLine.
