(* C15: what the backtracking matcher computes on the shapes the annotation expressions are made of. *)
From Coq Require Import List Ascii String NArith Arith Bool Lia.
From GG Require Import Base.Strs Model.RegexSyntax Model.Regex.
Import ListNotations.

(* ---------- single-character expressions ---------- *)
Inductive single : re -> (ascii -> bool) -> Prop :=
| SgCls cl : single (RCls cl) (in_cls cl)
| SgAnyNL : single RAnyNL (fun x => negb (N_of_ascii x =? 10)%N)
| SgAny : single RAny (fun _ => true).

Lemma m_single r p : single r p -> forall s i c k,
  m r s i c k = match s with x :: xs => if p x then k xs (S i) c else None | [] => None end.
Proof.
  intros H s i c k. destruct H; cbn [m]; destruct s as [|x xs]; try reflexivity.
  destruct (N_of_ascii x =? 10)%N; reflexivity.
Qed.

(* greedy with backtracking: as many characters as possible, giving back one at a time *)
Fixpoint star_p (p : ascii -> bool) (k : K) (s : list ascii) (i : nat) (c : caps) : option caps :=
  match s with
  | x :: xs => if p x then match star_p p k xs (S i) c with Some r => Some r | None => k s i c end else k s i c
  | [] => k s i c
  end.

Lemma star_loop_single r p k : single r p -> forall s n i c, (List.length s < n)%nat ->
  star_loop (m r) k n s i c = star_p p k s i c.
Proof.
  intros H s. induction s as [|x xs IH]; intros n i c Hn.
  - destruct n as [|n]; [simpl in Hn; lia|]. cbn [star_loop star_p]. rewrite (m_single r p H). reflexivity.
  - destruct n as [|n]; [simpl in Hn; lia|]. cbn [star_loop star_p]. rewrite (m_single r p H).
    destruct (p x); [|reflexivity].
    replace (Nat.eqb (S i) i) with false by (symmetry; apply Nat.eqb_neq; lia).
    rewrite IH by (simpl in Hn; lia). reflexivity.
Qed.

Theorem m_star_single r p : single r p -> forall s i c k, m (RStar r) s i c k = star_p p k s i c.
Proof. intros H s i c k. cbn [m]. apply (star_loop_single r p k H). lia. Qed.

Theorem m_plus_single r p : single r p -> forall s i c k,
  m (RPlus r) s i c k = match s with x :: xs => if p x then star_p p k xs (S i) c else None | [] => None end.
Proof.
  intros H s i c k. cbn [m]. rewrite (m_single r p H). destruct s as [|x xs]; [reflexivity|].
  destruct (p x); [|reflexivity]. apply (star_loop_single r p k H). lia.
Qed.

Lemma m_cat a b s i c k : m (RCat a b) s i c k = m a s i c (fun s' i' c' => m b s' i' c' k).
Proof. reflexivity. Qed.
Lemma m_opt a s i c k : m (ROpt a) s i c k = match m a s i c k with Some r => Some r | None => k s i c end.
Proof. reflexivity. Qed.
Lemma m_grp n a s i c k : m (RGrp n a) s i c k = m a s i c (fun s' i' c' => k s' i' ((n, (i, i')) :: c')).
Proof. reflexivity. Qed.
Lemma m_eot s i c k : m REot s i c k = match s with [] => k s i c | _ => None end.
Proof. reflexivity. Qed.

(* ---------- maximal munch ---------- *)
Fixpoint takew (p : ascii -> bool) (s : list ascii) : list ascii :=
  match s with x :: xs => if p x then x :: takew p xs else [] | [] => [] end.
Fixpoint dropw (p : ascii -> bool) (s : list ascii) : list ascii :=
  match s with x :: xs => if p x then dropw p xs else s | [] => [] end.

Lemma take_drop p s : (takew p s ++ dropw p s)%list = s.
Proof. induction s as [|x xs IH]; simpl; [reflexivity|]. destruct (p x); simpl; [rewrite IH|]; reflexivity. Qed.
Lemma takew_all p s : forallb p (takew p s) = true.
Proof. induction s as [|x xs IH]; simpl; [reflexivity|]. destruct (p x) eqn:E; simpl; [rewrite E; exact IH|reflexivity]. Qed.
Lemma dropw_head p s : match dropw p s with x :: _ => p x = false | [] => True end.
Proof. induction s as [|x xs IH]; simpl; [exact I|]. destruct (p x) eqn:E; [exact IH|exact E]. Qed.

(* a continuation that cannot start with a character of the class *)
Definition rejects (p : ascii -> bool) (k : K) : Prop := forall x xs i c, p x = true -> k (x :: xs) i c = None.

(* then the class star is deterministic: it takes the maximal run *)
Theorem star_p_det p k : rejects p k -> forall s i c,
  star_p p k s i c = k (dropw p s) (i + List.length (takew p s)) c.
Proof.
  intros Hr s. induction s as [|x xs IH]; intros i c; cbn [star_p dropw takew].
  - simpl. rewrite Nat.add_0_r. reflexivity.
  - destruct (p x) eqn:E.
    + rewrite IH. cbn [List.length]. replace (S i + List.length (takew p xs)) with (i + S (List.length (takew p xs))) by lia.
      destruct (k (dropw p xs) _ c); [reflexivity|]. rewrite (Hr x xs i c E). reflexivity.
    + simpl. rewrite Nat.add_0_r. reflexivity.
Qed.

(* ---------- literals ---------- *)
Fixpoint lit (w : list ascii) : re :=
  match w with
  | [] => REps
  | [a] => RCls [(N_of_ascii a, N_of_ascii a)]
  | a :: r => RCat (RCls [(N_of_ascii a, N_of_ascii a)]) (lit r)
  end.

Fixpoint strip_prefix (w s : list ascii) : option (list ascii) :=
  match w, s with
  | [], _ => Some s
  | a :: w', x :: s' => if Ascii.eqb a x then strip_prefix w' s' else None
  | _ :: _, [] => None
  end.

Lemma in_cls_one a x : in_cls [(N_of_ascii a, N_of_ascii a)] x = Ascii.eqb a x.
Proof.
  unfold in_cls. simpl. rewrite orb_false_r.
  destruct (Ascii.eqb a x) eqn:E.
  - apply Ascii.eqb_eq in E. subst. rewrite N.leb_refl. reflexivity.
  - apply andb_false_iff. destruct (N.leb_spec (N_of_ascii a) (N_of_ascii x)) as [H1|H1]; [|left; reflexivity].
    right. apply N.leb_gt. apply N.le_lteq in H1. destruct H1 as [H1|H1]; [exact H1|].
    exfalso. apply Ascii.eqb_neq in E. apply E. rewrite <- (ascii_N_embedding a), <- (ascii_N_embedding x), H1. reflexivity.
Qed.

Lemma strip_cons a w x xs : strip_prefix (a :: w) (x :: xs) = if Ascii.eqb a x then strip_prefix w xs else None.
Proof. reflexivity. Qed.

Theorem m_lit w : forall s i c k,
  m (lit w) s i c k = match strip_prefix w s with Some s' => k s' (i + List.length w) c | None => None end.
Proof.
  induction w as [|a w IH]; intros s i c k.
  - simpl. rewrite Nat.add_0_r. reflexivity.
  - destruct w as [|b w'].
    + cbn [lit m]. destruct s as [|x xs]; [reflexivity|]. rewrite in_cls_one, strip_cons. destruct (Ascii.eqb a x); [|reflexivity].
      simpl. replace (i + 1) with (S i) by lia. reflexivity.
    + change (lit (a :: b :: w')) with (RCat (RCls [(N_of_ascii a, N_of_ascii a)]) (lit (b :: w'))).
      cbn [m]. destruct s as [|x xs]; [reflexivity|]. rewrite in_cls_one, strip_cons. destruct (Ascii.eqb a x); [|reflexivity].
      rewrite IH. destruct (strip_prefix (b :: w') xs); [|reflexivity]. f_equal. simpl. lia.
Qed.

(* ---------- anchors ---------- *)
Lemma search_bot r s i fuel : (0 < i)%nat -> search (RCat RBot r) s i fuel = None.
Proof.
  revert s i. induction fuel as [|f IH]; intros s i Hi; destruct s as [|x xs]; cbn [search m];
    replace (Nat.eqb i 0) with false by (symmetry; apply Nat.eqb_neq; lia); try reflexivity.
  apply IH. lia.
Qed.

Definition final : K := fun _ _ c => Some c.

Theorem re_find_anchored r s :
  re_find (RCat RBot r) s = m r (list_ascii_of_string s) 0 [] final.
Proof.
  unfold re_find. set (l := list_ascii_of_string s). unfold final.
  destruct l as [|x xs]; cbn [search m Nat.eqb List.length].
  - destruct (m r [] 0 [] (fun _ _ c => Some c)); reflexivity.
  - destruct (m r (x :: xs) 0 [] (fun _ _ c => Some c)); [reflexivity|]. apply search_bot. lia.
Qed.

(* ---------- the optional free-text tail: blanks, then anything but a line break, up to the end ---------- *)
Definition k_eot (k : K) : K := fun s i c => match s with [] => k s i c | _ => None end.

Lemma star_p_eot p k s i c :
  star_p p (k_eot k) s i c = if forallb p s then k [] (i + List.length s) c else None.
Proof.
  revert i. induction s as [|x xs IH]; intros i; cbn [star_p forallb].
  - simpl. rewrite Nat.add_0_r. reflexivity.
  - destruct (p x); cbn [andb].
    + rewrite IH. cbn [List.length]. replace (S i + List.length xs) with (i + S (List.length xs)) by lia.
      destruct (forallb p xs); [destruct (k [] _ c); reflexivity|reflexivity].
    + reflexivity.
Qed.

Lemma forallb_dropw p q s : forallb p s = true -> forallb p (dropw q s) = true.
Proof. induction s as [|x xs IH]; simpl; [auto|]. intros H. apply andb_true_iff in H. destruct H as [H1 H2]. destruct (q x); [apply IH; exact H2|]. simpl. rewrite H1, H2. reflexivity. Qed.

Section Tail.
Variable ws : list (N * N).
Definition nonl : ascii -> bool := fun x => negb (N_of_ascii x =? 10)%N.
Definition tail_re : re := ROpt (RCat (RPlus (RCls ws)) (RStar RAnyNL)).

(* the rest of the line after the annotation: nothing, or at least one blank and then no line break *)
Definition tail_ok (s : list ascii) : bool :=
  match s with [] => true | x :: _ => in_cls ws x && forallb nonl (dropw (in_cls ws) s) end.

Lemma star_ws_then_rest k s i c :
  (forall j, k [] j c = Some c) ->
  star_p (in_cls ws) (fun s0 i0 c0 => star_p nonl (k_eot k) s0 i0 c0) s i c = if forallb nonl (dropw (in_cls ws) s) then Some c else None.
Proof.
  intros Hk. set (K2 := fun s0 i0 c0 => star_p nonl (k_eot k) s0 i0 c0).
  assert (HK2 : forall s0 i0, K2 s0 i0 c = if forallb nonl s0 then Some c else None).
  { intros s0 i0. unfold K2. rewrite star_p_eot. destruct (forallb nonl s0); [apply Hk|reflexivity]. }
  revert i. induction s as [|x xs IH]; intros i; cbn [star_p dropw].
  - rewrite HK2. reflexivity.
  - destruct (in_cls ws x) eqn:E.
    + rewrite IH. destruct (forallb nonl (dropw (in_cls ws) xs)) eqn:F; [reflexivity|].
      rewrite HK2. destruct (forallb nonl (x :: xs)) eqn:G; [|reflexivity].
      simpl in G. apply andb_true_iff in G. destruct G as [_ G]. rewrite (forallb_dropw nonl (in_cls ws) xs G) in F. discriminate.
    + rewrite HK2. reflexivity.
Qed.

Theorem m_tail s i c : m (RCat tail_re REot) s i c final = if tail_ok s then Some c else None.
Proof.
  unfold tail_re. rewrite m_cat, m_opt, m_cat.
  rewrite (m_plus_single (RCls ws) (in_cls ws) (SgCls ws)).
  destruct s as [|x xs]; [reflexivity|]. cbn [tail_ok dropw].
  destruct (in_cls ws x) eqn:E; cbn [andb]; [|reflexivity].
  assert (Hext : forall (k1 k2 : K) s0 i0 c0, (forall a b d, k1 a b d = k2 a b d) -> star_p (in_cls ws) k1 s0 i0 c0 = star_p (in_cls ws) k2 s0 i0 c0).
  { intros k1 k2 s0. induction s0 as [|y ys IHs]; intros i0 c0 Hk; cbn [star_p]; rewrite ?Hk; [reflexivity|].
    destruct (in_cls ws y); [rewrite (IHs (S i0) c0 Hk)|]; reflexivity. }
  rewrite (Hext _ (fun s0 i0 c0 => star_p nonl (k_eot final) s0 i0 c0)).
  - rewrite star_ws_then_rest by (intros; reflexivity).
    destruct (forallb nonl (dropw (in_cls ws) xs)); reflexivity.
  - intros a b d. rewrite (m_star_single RAnyNL nonl SgAnyNL). reflexivity.
Qed.
End Tail.

(* ---------- more list facts ---------- *)
Lemma strip_prefix_spec w : forall s s', strip_prefix w s = Some s' <-> s = (w ++ s')%list.
Proof.
  induction w as [|a w IH]; intros s s'; simpl.
  - split; [intros H; inversion H; reflexivity|intros ->; reflexivity].
  - destruct s as [|x xs]; [split; discriminate|].
    destruct (Ascii.eqb a x) eqn:E.
    + apply Ascii.eqb_eq in E. subst x. rewrite IH. split; [intros ->; reflexivity|intros H; inversion H; reflexivity].
    + split; [discriminate|]. intros H. inversion H. subst. rewrite Ascii.eqb_refl in E. discriminate.
Qed.

Lemma dropw_app_all p w s : forallb p w = true -> match s with x :: _ => p x = false | [] => True end -> dropw p (w ++ s) = s.
Proof.
  induction w as [|a w IH]; simpl; intros Hw Hs.
  - destruct s as [|x xs]; [reflexivity|]. simpl. rewrite Hs. reflexivity.
  - apply andb_true_iff in Hw. destruct Hw as [H1 H2]. rewrite H1. apply IH; assumption.
Qed.

Lemma rejects_lit p a w r k : p a = false -> rejects p (fun s i c => m (RCat (lit (a :: w)) r) s i c k).
Proof.
  intros Ha x xs i c Hx. rewrite m_cat, m_lit, strip_cons.
  destruct (Ascii.eqb a x) eqn:E; [|reflexivity]. apply Ascii.eqb_eq in E. subst. congruence.
Qed.

(* ---------- the flag annotations: @immutable, @testonly, @mutable ---------- *)
Definition WS : list (N * N) := [(9, 10); (12, 13); (32, 32)]%N.
Definition is_ws : ascii -> bool := in_cls WS.
Definition slashes : list ascii := ["/"; "/"]%char.

Definition flag_re (kw : list ascii) : re :=
  RCat RBot (RCat (RStar (RCls WS)) (RCat (lit slashes) (RCat (RStar (RCls WS)) (RCat (lit kw) (RCat (tail_re WS) REot))))).

(* the documented shape: blanks, two slashes, blanks, the keyword, and then either nothing or a blank followed by
   free text that does not break the line *)
Definition spec_flag (kw s : list ascii) : bool :=
  match strip_prefix slashes (dropw is_ws s) with
  | Some s2 => match strip_prefix kw (dropw is_ws s2) with
               | Some s4 => tail_ok WS s4
               | None => false
               end
  | None => false
  end.

Theorem flag_re_correct a kw s :
  is_ws a = false ->
  m (RCat (RStar (RCls WS)) (RCat (lit slashes) (RCat (RStar (RCls WS)) (RCat (lit (a :: kw)) (RCat (tail_re WS) REot))))) s 0 [] final
  = if spec_flag (a :: kw) s then Some [] else None.
Proof.
  intros Ha. unfold spec_flag.
  rewrite m_cat, (m_star_single (RCls WS) is_ws (SgCls WS)).
  rewrite star_p_det by (apply rejects_lit; vm_compute; reflexivity).
  rewrite m_cat, m_lit. destruct (strip_prefix slashes (dropw is_ws s)) as [s2|]; [|reflexivity].
  rewrite m_cat, (m_star_single (RCls WS) is_ws (SgCls WS)).
  rewrite star_p_det by (apply rejects_lit; exact Ha).
  rewrite m_cat, m_lit. destruct (strip_prefix (a :: kw) (dropw is_ws s2)) as [s4|]; [|reflexivity].
  apply m_tail.
Qed.

Corollary re_find_flag a kw text :
  is_ws a = false ->
  re_find (flag_re (a :: kw)) text = if spec_flag (a :: kw) (list_ascii_of_string text) then Some [] else None.
Proof. intros Ha. unfold flag_re. rewrite re_find_anchored. apply flag_re_correct. exact Ha. Qed.

(* declaratively *)
Theorem tail_ok_spec s :
  tail_ok WS s = true <-> s = [] \/ exists w t, s = (w ++ t)%list /\ w <> [] /\ forallb is_ws w = true /\ forallb nonl t = true.
Proof.
  split.
  - destruct s as [|x xs]; [left; reflexivity|]. cbn [tail_ok]. intros H. apply andb_true_iff in H. destruct H as [H1 H2]. right.
    exists (takew is_ws (x :: xs)), (dropw is_ws (x :: xs)). split; [symmetry; apply take_drop|]. split.
    + cbn [takew]. unfold is_ws. rewrite H1. discriminate.
    + split; [apply takew_all|exact H2].
  - intros [->|[w [t [-> [Hw [H1 H2]]]]]]; [reflexivity|].
    destruct w as [|x w]; [contradiction Hw; reflexivity|]. cbn [forallb] in H1. apply andb_true_iff in H1. destruct H1 as [Hx H1].
    cbn [app tail_ok dropw]. unfold is_ws in Hx. rewrite Hx. cbn [andb].
    clear Hx Hw. induction w as [|y w IH]; cbn [app].
    + apply forallb_dropw. exact H2.
    + cbn [forallb] in H1. apply andb_true_iff in H1. destruct H1 as [Hy H1]. unfold is_ws in Hy. cbn [dropw]. rewrite Hy. apply IH. exact H1.
Qed.

Theorem spec_flag_spec a kw s :
  is_ws a = false ->
  (spec_flag (a :: kw) s = true <->
   exists w1 w2 rest, s = (w1 ++ slashes ++ w2 ++ (a :: kw) ++ rest)%list /\ forallb is_ws w1 = true /\ forallb is_ws w2 = true /\ tail_ok WS rest = true).
Proof.
  intros Ha. unfold spec_flag. split.
  - destruct (strip_prefix slashes (dropw is_ws s)) as [s2|] eqn:E1; [|discriminate].
    destruct (strip_prefix (a :: kw) (dropw is_ws s2)) as [s4|] eqn:E2; [|discriminate].
    intros Ht. apply strip_prefix_spec in E1. apply strip_prefix_spec in E2.
    exists (takew is_ws s), (takew is_ws s2), s4. split.
    + rewrite <- (take_drop is_ws s) at 1. f_equal. rewrite E1. f_equal. rewrite <- (take_drop is_ws s2) at 1. f_equal. exact E2.
    + split; [apply takew_all|]. split; [apply takew_all|exact Ht].
  - intros [w1 [w2 [rest [-> [H1 [H2 Ht]]]]]].
    rewrite (dropw_app_all is_ws w1) by (try exact H1; vm_compute; reflexivity).
    replace (strip_prefix slashes (slashes ++ w2 ++ (a :: kw) ++ rest)) with (Some (w2 ++ (a :: kw) ++ rest)%list)
      by (symmetry; apply strip_prefix_spec; reflexivity).
    rewrite (dropw_app_all is_ws w2) by (try exact H2; exact Ha).
    replace (strip_prefix (a :: kw) ((a :: kw) ++ rest)) with (Some rest) by (symmetry; apply strip_prefix_spec; reflexivity).
    exact Ht.
Qed.
