(* Where diagnostics stand: every diagnostic of the four AST checkers is positioned at a node of a declaration of a kept file -
   hence (LocalProofs) inside that file's range of positions, and its suppression is decided by that file's own comments. *)
From Coq Require Import List String ZArith Bool Lia.
From GG Require Import Base.Strs Model.Codes Model.IgnoreSet Model.Config Model.GoTypes Model.GoAst Model.Annots Model.Analyze
                       Proofs.WalkProofs Proofs.CheckerProofs Proofs.LocalProofs.
Import ListNotations.
Local Open Scope string_scope.
Local Open Scope Z_scope.

(* ---- trees ---- *)
Lemma preorder_self n : In n (preorder n).
Proof. rewrite preorder_unfold. left. reflexivity. Qed.

Lemma preorder_child n c x : In c (n_children n) -> In x (preorder c) -> In x (preorder n).
Proof.
  intros Hc Hx. rewrite preorder_unfold. right. unfold preorder_list. apply in_flat_map. exists c. split; assumption.
Qed.

Lemma preorder_trans d : forall n x, In n (preorder d) -> In x (preorder n) -> In x (preorder d).
Proof.
  induction d as [k p e a cs IH] using node_ind'. intros n x Hn Hx. rewrite preorder_unfold in Hn. destruct Hn as [<-|Hn]; [exact Hx|].
  cbn [n_children] in Hn. unfold preorder_list in Hn. apply in_flat_map in Hn. destruct Hn as [c [Hc Hn]].
  rewrite Forall_forall in IH. apply (preorder_child (Node k p e a cs) c x Hc). exact (IH c Hc n x Hn Hx).
Qed.

Definition at_node_of (d : node) (q : Z) : Prop := exists x, In x (preorder d) /\ n_pos x = q.

Lemma at_child n c q : In c (n_children n) -> at_node_of c q -> at_node_of n q.
Proof. intros Hc [x [Hx E]]. exists x. split; [exact (preorder_child n c x Hc Hx)|exact E]. Qed.

Lemma at_sub d n q : In n (preorder d) -> at_node_of n q -> at_node_of d q.
Proof. intros Hn [x [Hx E]]. exists x. split; [exact (preorder_trans d n x Hn Hx)|exact E]. Qed.

Lemma firstn_In {A} k (l : list A) x : In x (firstn k l) -> In x l.
Proof. revert l. induction k as [|k IH]; intros [|y l]; simpl; try tauto. intros [H|H]; [left; exact H|right; apply IH; exact H]. Qed.

Section Checkers.
Variable fs : facts.
Variable cur cur_name : string.

Definition all_at (d : node) (ds : list diag) : Prop := forall x, In x ds -> at_node_of d (d_pos x).

Lemma all_at_nil d : all_at d []. Proof. intros x []. Qed.
Lemma all_at_app d a b : all_at d a -> all_at d b -> all_at d (a ++ b).
Proof. intros Ha Hb x H. apply in_app_or in H. destruct H; auto. Qed.
Lemma all_at_flat_map {A} d (f : A -> list diag) l : (forall y, In y l -> all_at d (f y)) -> all_at d (flat_map f l).
Proof. intros H x Hx. apply in_flat_map in Hx. destruct Hx as [y [Hy Hx]]. exact (H y Hy x Hx). Qed.
Lemma all_at_one d x : at_node_of d (d_pos x) -> all_at d [x].
Proof. intros H y [<-|[]]. exact H. Qed.
Lemma self_at n : at_node_of n (n_pos n). Proof. exists n. split; [apply preorder_self|reflexivity]. Qed.

(* --- immutable --- *)
Lemma imm_check_lhs_at st e : all_at e (imm_check_lhs fs cur st e).
Proof.
  unfold imm_check_lhs. destruct (n_kind e); try apply all_at_nil.
  - destruct (imm_field_target fs cur st e); [apply all_at_one; apply self_at|apply all_at_nil].
  - destruct (n_children e) as [|x r]; [apply all_at_nil|]. destruct (n_kind x); try apply all_at_nil.
    destruct (imm_field_target fs cur st x); [apply all_at_one; apply self_at|apply all_at_nil].
  - destruct (imm_recv_target fs cur st e); [apply all_at_one; apply self_at|apply all_at_nil].
Qed.

Lemma imm_check_compound_at st tok e : all_at e (imm_check_compound fs cur st tok e).
Proof.
  unfold imm_check_compound. destruct (n_kind e); try apply all_at_nil.
  destruct (imm_field_target fs cur st e); [apply all_at_one; apply self_at|apply all_at_nil].
Qed.

Lemma imm_check_node_at st n : all_at n (imm_check_node fs cur st n).
Proof.
  unfold imm_check_node. destruct (n_kind n); try apply all_at_nil.
  - destruct (String.eqb (a_tok (n_attrs n)) "="); apply all_at_flat_map; intros e He x Hx; apply firstn_In in He.
    + exact (at_child n e _ He (imm_check_lhs_at st e x Hx)).
    + exact (at_child n e _ He (imm_check_compound_at st _ e x Hx)).
  - destruct (n_children n) as [|x r] eqn:Ec; [apply all_at_nil|]. destruct (n_kind x); try apply all_at_nil.
    + destruct (imm_field_target fs cur st x); [apply all_at_one; apply self_at|apply all_at_nil].
    + destruct (imm_recv_target fs cur st x); [|apply all_at_nil]. apply all_at_one. cbn [d_pos].
      apply (at_child n x); [rewrite Ec; left; reflexivity|apply self_at].
Qed.

Lemma fold_at {S} (step : S * list diag -> node -> S * list diag) d l :
  (forall st out n, In n l -> In n (preorder d) -> all_at d out -> all_at d (snd (step (st, out) n))) ->
  (forall n, In n l -> In n (preorder d)) ->
  forall st out, all_at d out -> all_at d (snd (fold_left step l (st, out))).
Proof.
  intros Hstep. induction l as [|n r IH]; intros Hin st out Hout; [exact Hout|]. cbn [fold_left].
  destruct (step (st, out) n) as [st' out'] eqn:E.
  apply IH.
  - intros st0 out0 n0 Hn0. apply Hstep. right. exact Hn0.
  - intros n0 Hn0. apply Hin. right. exact Hn0.
  - pose proof (Hstep st out n (or_introl eq_refl) (Hin n (or_introl eq_refl)) Hout) as H. rewrite E in H. exact H.
Qed.

Theorem imm_decl_at d : all_at d (imm_decl fs cur d).
Proof.
  unfold imm_decl. apply fold_at; [|intros n H; exact H|apply all_at_nil].
  intros st out n _ Hn Hout. unfold imm_step. destruct (n_kind n); cbn [snd]; try exact Hout;
    (apply all_at_app; [exact Hout|]; intros x Hx; exact (at_sub d n _ Hn (imm_check_node_at st n x Hx))).
Qed.

(* --- constructor --- *)
Lemma ctor_viol_at d fn t pos code reason : at_node_of d pos -> all_at d (ctor_viol fs cur fn t pos code reason).
Proof.
  intros H. unfold ctor_viol. destruct t as [[p tn]|]; [|apply all_at_nil].
  destruct (ctor_has_type fs p tn && negb (String.eqb cur p && ctor_match fs p fn tn)); [apply all_at_one; exact H|apply all_at_nil].
Qed.

Lemma plain_children_In n x : In x (plain_children n) -> In x (n_children n).
Proof. unfold plain_children. intros H. apply filter_In in H. tauto. Qed.

Lemma ctor_check_node_at fn n : all_at n (ctor_check_node fs cur fn n).
Proof.
  unfold ctor_check_node. destruct (n_kind n); try apply all_at_nil.
  - destruct (String.eqb (a_tok (n_attrs n)) "var"); [|apply all_at_nil]. apply all_at_flat_map. intros spec Hs.
    destruct (kind_eqb (n_kind spec) KValueSpec && Nat.eqb (a_m (n_attrs spec)) 0); [|apply all_at_nil].
    apply all_at_flat_map. intros nm Hnm. apply firstn_In in Hnm. apply plain_children_In in Hnm.
    destruct (String.eqb (a_name (n_attrs nm)) "_"); [apply all_at_nil|]. apply ctor_viol_at.
    apply (at_child n spec _ Hs). apply (at_child spec nm _ Hnm). apply self_at.
  - apply ctor_viol_at. apply self_at.
  - destruct (n_children n) as [|f r]; [apply all_at_nil|]. destruct (n_kind f); try apply all_at_nil.
    destruct (String.eqb (a_name (n_attrs f)) "new" && Nat.eqb (a_n (n_attrs n)) 1); [apply ctor_viol_at; apply self_at|apply all_at_nil].
Qed.

Theorem ctor_decl_at d : all_at d (ctor_decl fs cur d).
Proof.
  unfold ctor_decl. apply fold_at; [|intros n H; exact H|apply all_at_nil].
  intros st out n _ Hn Hout. unfold ctor_step. destruct (n_kind n); cbn [snd]; try exact Hout;
    (apply all_at_app; [exact Hout|]; intros x Hx; exact (at_sub d n _ Hn (ctor_check_node_at st n x Hx))).
Qed.

(* --- testonly / packageonly: every candidate stands at its own node --- *)
Lemma tonl_cands_at n c : In c (tonl_cands fs n) -> d_pos (fst c) = n_pos n.
Proof.
  intros H. apply (tonl_cands_spec fs n c) in H. unfold tonl_candidate in H.
  destruct H as [(_ & f & rest & o & p & _ & _ & _ & _ & _ & _ & _ & ->)|[(_ & f & rest & p & _ & _ & _ & _ & ->)|[(_ & f & rest & p & tn & _ & _ & _ & _ & _ & ->)|(_ & p & tn & _ & _ & ->)]]]; reflexivity.
Qed.

Lemma pkgo_cands_at n c : In c (pkgo_cands fs cur cur_name n) -> d_pos (fst c) = n_pos n.
Proof.
  intros H.
  assert (T : forall p tn, In c (pkgo_type_cand fs cur cur_name p tn (n_pos n)) -> d_pos (fst c) = n_pos n).
  { intros p tn. unfold pkgo_type_cand. destruct (pkgo_attach fs AKType p "" tn); [intros []|].
    destruct (negb (String.eqb p cur) && negb (pkgo_allowed cur cur_name (s :: l))); [intros [<-|[]]; reflexivity|intros []]. }
  assert (O : forall o declared, In c (pkgo_obj_cand fs cur cur_name o declared (n_pos n)) -> d_pos (fst c) = n_pos n).
  { intros o declared. unfold pkgo_obj_cand. destruct (o_kind o); try (intros []).
    - destruct (if o_is_alias o then named_direct (o_type o) else None) as [[tp tn]|]; apply T.
    - destruct (o_is_method o).
      + unfold pkgo_method_cand. destruct (pkgo_attach fs AKMethod declared (type_name (o_recv o)) (o_name o)); [intros []|].
        destruct (negb (String.eqb declared cur) && negb (pkgo_allowed cur cur_name (s :: l))); [intros [<-|[]]; reflexivity|intros []].
      + unfold pkgo_func_cand. destruct (pkgo_attach fs AKFunc declared "" (o_name o)); [intros []|].
        destruct (negb (String.eqb declared cur) && negb (pkgo_allowed cur cur_name (s :: l))); [intros [<-|[]]; reflexivity|intros []]. }
  unfold pkgo_cands in H. destruct (n_kind n); try contradiction.
  - destruct (a_obj (n_attrs n)) as [o|]; [|contradiction]. destruct (o_pkg o) as [p|]; [|contradiction].
    destruct (String.eqb p cur); [contradiction|exact (O o p H)].
  - destruct (a_flag (n_attrs n)); [contradiction|]. destruct (a_obj (n_attrs n)) as [o|]; [|contradiction]. destruct (o_pkg o) as [p|]; [|contradiction].
    exact (O o p H).
Qed.

Lemma dedup_rec_sub sup seen cs x : In x (dedup_rec sup seen cs) -> exists k, In (x, k) cs.
Proof.
  revert seen. induction cs as [|[d k] r IH]; intros seen H; [contradiction|]. cbn [dedup_rec] in H.
  destruct (sup (d_code d) (d_pos d)); [destruct (IH _ H) as [k' Hk]; exists k'; right; exact Hk|].
  destruct k as [k0|].
  - destruct (existsb (key_eqb k0) seen); [destruct (IH _ H) as [k' Hk]; exists k'; right; exact Hk|].
    destruct H as [<-|H]; [exists (Some k0); left; reflexivity|destruct (IH _ H) as [k' Hk]; exists k'; right; exact Hk].
  - destruct H as [<-|H]; [exists None; left; reflexivity|destruct (IH _ H) as [k' Hk]; exists k'; right; exact Hk].
Qed.

Lemma preorder_pruned_sub keep n x : In x (preorder_pruned keep n) -> In x (preorder n).
Proof.
  revert x. induction n as [k p e a cs IH] using node_ind'. intros x H. cbn [preorder_pruned] in H. rewrite preorder_unfold.
  destruct H as [<-|H]; [left; reflexivity|]. right. destruct (keep (Node k p e a cs)); [|contradiction].
  cbn [n_children]. unfold preorder_list. induction cs as [|c r IHr]; [contradiction|]. inversion IH as [|? ? Hc Hr]; subst.
  cbn [flat_map] in *. apply in_app_or in H. apply in_or_app. destruct H as [H|H]; [left; exact (Hc x H)|right; exact (IHr Hr H)].
Qed.

Definition at_decl_of (f : file) (q : Z) : Prop := exists d, In d (f_decls f) /\ at_node_of d q.

Theorem tonl_file_at sup f x : In x (tonl_file fs cur sup f) -> at_decl_of f (d_pos x).
Proof.
  rewrite tonl_file_spec. destruct (has_suffix "_test.go" (f_name f)); [intros []|]. intros H.
  destruct (dedup_rec_sub _ _ _ _ H) as [k Hk]. apply in_flat_map in Hk. destruct Hk as [n [Hn Hc]].
  apply in_flat_map in Hn. destruct Hn as [d [Hd Hn]]. exists d. split; [exact Hd|].
  exists n. split; [exact (preorder_pruned_sub _ d n Hn)|]. symmetry. exact (tonl_cands_at n (x, k) Hc).
Qed.

Theorem pkgo_file_at sup f x : In x (pkgo_file fs cur cur_name sup f) -> at_decl_of f (d_pos x).
Proof.
  rewrite pkgo_file_spec. intros H. destruct (dedup_rec_sub _ _ _ _ H) as [k Hk]. apply in_flat_map in Hk. destruct Hk as [n [Hn Hc]].
  unfold preorder_list in Hn. apply in_flat_map in Hn. destruct Hn as [d [Hd Hn]]. exists d. split; [exact Hd|].
  exists n. split; [exact Hn|]. symmetry. exact (pkgo_cands_at n (x, k) Hc).
Qed.

End Checkers.

(* a position at a node of a declaration of a file lies in the file's range *)
Theorem at_decl_in_span f q : file_range_ok f = true -> at_decl_of f q -> in_span f q.
Proof.
  unfold file_range_ok. intros H [d [Hd [x [Hx <-]]]]. apply andb_true_iff in H. destruct H as [H _]. apply andb_true_iff in H. destruct H as [Hn _].
  rewrite forallb_forall in Hn. destruct (node_in_all _ _ d (Hn d Hd) x Hx) as [H1 H2].
  assert (n_pos x <= n_end x \/ True) by (right; exact I). unfold in_span. split; [exact H1|].
  (* the node's position is bounded by the file range through node_in: both ends were checked *)
  clear H. revert Hx. generalize (Hn d Hd). clear. intros Hd Hx.
  assert (G : forall n, node_in (span_lo f) (span_hi f) n = true -> forall y, In y (preorder n) -> n_pos y <= span_hi f).
  { induction n as [k p e a cs IH] using node_ind'. intros Hb y Hy. cbn [node_in] in Hb.
    apply andb_true_iff in Hb. destruct Hb as [Hb Hcs]. apply andb_true_iff in Hb. destruct Hb as [Hb _]. apply andb_true_iff in Hb. destruct Hb as [Hb _].
    apply andb_true_iff in Hb. destruct Hb as [_ Hp]. apply Z.leb_le in Hp.
    rewrite preorder_unfold in Hy. destruct Hy as [<-|Hy]; [exact Hp|].
    cbn [n_children] in Hy. unfold preorder_list in Hy. apply in_flat_map in Hy. destruct Hy as [c [Hc Hy]].
    assert (Hc' : node_in (span_lo f) (span_hi f) c = true).
    { clear -Hcs Hc. induction cs as [|z r IHr]; [contradiction|]. apply andb_true_iff in Hcs. destruct Hcs as [Hz Hr]. destruct Hc as [<-|Hc]; [exact Hz|exact (IHr Hr Hc)]. }
    rewrite Forall_forall in IH. exact (IH c Hc Hc' y Hy). }
  exact (G d Hd x Hx).
Qed.

(* ---- one more comment in file f leaves the once-per-file checkers of every OTHER file g untouched ---- *)
Lemma dedup_rec_ext_on (s1 s2 : string -> Z -> bool) cs :
  (forall c, In c cs -> s1 (d_code (fst c)) (d_pos (fst c)) = s2 (d_code (fst c)) (d_pos (fst c))) ->
  forall seen, dedup_rec s1 seen cs = dedup_rec s2 seen cs.
Proof.
  induction cs as [|[d k] r IH]; intros H seen; [reflexivity|]. cbn [dedup_rec].
  pose proof (H (d, k) (or_introl eq_refl)) as Hd. cbn [fst] in Hd. rewrite Hd.
  assert (Hr : forall c, In c r -> s1 (d_code (fst c)) (d_pos (fst c)) = s2 (d_code (fst c)) (d_pos (fst c))) by (intros c Hc; apply H; right; exact Hc).
  destruct (s2 (d_code d) (d_pos d)); [apply IH; exact Hr|].
  destruct k as [k0|]; [destruct (existsb (key_eqb k0) seen)|]; try (apply IH; exact Hr); f_equal; apply IH; exact Hr.
Qed.

Section OtherFiles.
Variable fs : facts.
Variable cur cur_name : string.
Variables sup h : string -> Z -> bool.
Variable g : file.
Hypothesis Hg : file_range_ok g = true.
(* the new marker covers nothing inside g's range *)
Hypothesis Hout : forall c q, in_span g q -> h c q = false.

Theorem tonl_file_other : tonl_file fs cur (fun c q => h c q || sup c q) g = tonl_file fs cur sup g.
Proof.
  rewrite !tonl_file_spec. destruct (has_suffix "_test.go" (f_name g)); [reflexivity|].
  apply dedup_rec_ext_on. intros c Hc. apply in_flat_map in Hc. destruct Hc as [n [Hn Hc]].
  apply in_flat_map in Hn. destruct Hn as [d [Hd Hn]].
  rewrite (tonl_cands_at fs n c Hc).
  rewrite Hout; [reflexivity|]. apply at_decl_in_span; [exact Hg|]. exists d. split; [exact Hd|]. exists n. split; [exact (preorder_pruned_sub _ d n Hn)|reflexivity].
Qed.

Theorem pkgo_file_other : pkgo_file fs cur cur_name (fun c q => h c q || sup c q) g = pkgo_file fs cur cur_name sup g.
Proof.
  rewrite !pkgo_file_spec. apply dedup_rec_ext_on. intros c Hc. apply in_flat_map in Hc. destruct Hc as [n [Hn Hc]].
  unfold preorder_list in Hn. apply in_flat_map in Hn. destruct Hn as [d [Hd Hn]].
  rewrite (pkgo_cands_at fs cur cur_name n c Hc).
  rewrite Hout; [reflexivity|]. apply at_decl_in_span; [exact Hg|]. exists d. split; [exact Hd|]. exists n. split; [exact Hn|reflexivity].
Qed.
End OtherFiles.
