(* C10: the modelled partial operations never fail. *)
From Coq Require Import List String ZArith Bool Lia.
From GG Require Import Base.Strs Model.Codes Model.IgnoreSet Model.Config Model.GoTypes Model.GoAst Model.RegexSyntax Model.Regex Model.Annot Model.Annots Model.Analyze.
Import ListNotations.
Local Open Scope Z_scope.

Lemma filter_length_le {A} (f : A -> bool) l : (List.length (filter f l) <= List.length l)%nat.
Proof. induction l as [|x l IH]; simpl; [lia|]. destruct (f x); simpl; lia. Qed.

(* token.File.LineStart is defined on the physical line of any position that lies at or after the first line start *)
Lemma line_start_of_line_of f p : 1 <= line_of f p -> exists s, line_start f (line_of f p) = Some s.
Proof.
  unfold line_start, line_of. intros H.
  set (n := List.length (filter (fun s => s <=? p) (f_lines f))) in *.
  assert (Hle : (n <= List.length (f_lines f))%nat) by apply filter_length_le.
  replace (1 <=? Z.of_nat n) with true by (symmetry; apply Z.leb_le; exact H).
  replace (Z.of_nat n <=? Z.of_nat (List.length (f_lines f))) with true by (symmetry; apply Z.leb_le; lia).
  cbn [andb]. destruct (nth_error (f_lines f) (Z.to_nat (Z.of_nat n - 1))) as [s|] eqn:E; [exists s; reflexivity|].
  apply nth_error_None in E. lia.
Qed.

Section Ignore.
Variable re_ign : RegexSyntax.re.
Variable kw : list string.

Definition comment_ok (f : file) (c : comment) : bool :=
  negb (is_ignore_comment kw (c_text c)) || (c_pos c <? f_package f) || (1 <=? line_of f (c_pos c)).

Lemma find_inline_total f c s : line_start f (line_of f (c_pos c)) = Some s -> find_inline f c <> LinePanic.
Proof.
  intros Hs. unfold find_inline. cbv zeta. rewrite Hs.
  destruct (match first_index (fun d => n_end d >? c_pos c) (f_decls f) 0 with
            | O => false
            | S j => match nth_error (f_decls f) j with Some d => line_of f (n_end d) =? line_of f (c_pos c) | None => false end
            end); [discriminate|].
  destruct (nth_error (f_decls f) (first_index (fun d => n_end d >? c_pos c) (f_decls f) 0)) as [d|]; [|discriminate].
  destruct (c_pos c <? n_pos d); [discriminate|].
  destruct (has_code_on_line f (c_pos c) (line_of f (c_pos c)) d); discriminate.
Qed.

Lemma comment_scope_total f c : (c_pos c <? f_package f) || (1 <=? line_of f (c_pos c)) = true -> comment_scope f c <> None.
Proof.
  unfold comment_scope. destruct (c_pos c <? f_package f); [intros _; discriminate|]. cbn [orb]. intros H. apply Z.leb_le in H.
  destruct (line_start_of_line_of f (c_pos c) H) as [s Hs].
  pose proof (find_inline_total f c s Hs) as Hf.
  destruct (find_inline f c); [discriminate|discriminate|contradiction Hf; reflexivity].
Qed.

Lemma ignore_ops_comments_total f cs :
  forallb (comment_ok f) cs = true -> ignore_ops_comments re_ign kw f cs <> None.
Proof.
  induction cs as [|c r IH]; simpl; [discriminate|]. intros H. apply andb_true_iff in H. destruct H as [Hc Hr].
  specialize (IH Hr). destruct (ignore_ops_comments re_ign kw f r) as [rest|]; [|contradiction IH; reflexivity].
  unfold comment_ok in Hc. destruct (is_ignore_comment kw (c_text c)); [|discriminate].
  cbn [negb orb] in Hc. pose proof (comment_scope_total f c Hc) as Hs.
  destruct (comment_scope f c) as [[s e]|]; [|contradiction Hs; reflexivity].
  destruct (parse_ignore re_ign (c_text c)); discriminate.
Qed.

Definition file_ok (f : file) : bool := forallb (comment_ok f) (List.concat (f_comments f)).

Lemma ignore_ops_files_total fs : forallb file_ok fs = true -> ignore_ops_files re_ign kw fs <> None.
Proof.
  induction fs as [|f r IH]; simpl; [discriminate|]. intros H. apply andb_true_iff in H. destruct H as [Hf Hr].
  specialize (IH Hr). pose proof (ignore_ops_comments_total f _ Hf) as Hc.
  destruct (ignore_ops_comments re_ign kw f (List.concat (f_comments f))); [|contradiction Hc; reflexivity].
  destruct (ignore_ops_files re_ign kw r); [discriminate|contradiction IH; reflexivity].
Qed.

Theorem ignore_ops_total cfg p :
  forallb file_ok (filter (fun f => negb (should_skip cfg (f_name f))) (p_files p)) = true -> ignore_ops re_ign kw cfg p <> None.
Proof.
  intros H. unfold ignore_ops. pose proof (ignore_ops_files_total _ H) as Ht.
  destruct (ignore_ops_files re_ign kw _); [discriminate|contradiction Ht; reflexivity].
Qed.
End Ignore.
