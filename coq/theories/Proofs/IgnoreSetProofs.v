(* C16: for every history of Add / AddModuleIgnore, Contains = the list-scan reference. *)
From Coq Require Import List String ZArith Bool Lia Arith Permutation.
From GG Require Import Base.Strs Model.Codes Model.IgnoreSet.
Import ListNotations.
Local Open Scope Z_scope.

Section Proofs.
Variable all : string.
Variable t : table.

Notation contains := (contains all t).
Notation covers := (covers all t).
Notation spec := (spec all t).
Notation cl := (check_list all t).

Definition in_range (m : marker) (pos : Z) : bool := (m_start m <=? pos) && (pos <=? m_end m).

Fixpoint scoped (ops : list op) : list marker :=
  match ops with
  | [] => []
  | OpAdd cs st en :: r => {| m_codes := cs; m_start := st; m_end := en |} :: scoped r
  | OpGlobal _ :: r => scoped r
  end.

Fixpoint globals (ops : list op) : list string :=
  match ops with
  | [] => []
  | OpAdd _ _ _ :: r => globals r
  | OpGlobal cs :: r => (cs ++ globals r)%list
  end.

Definition starts_ok (ops : list op) : Prop :=
  forall cs st en, In (OpAdd cs st en) ops -> 1 <= st.

Definition index_ok (s : iset) : Prop :=
  forall c i, In i (idx_get c (index s)) <->
              exists m, nth_error (markers s) i = Some m /\ str_mem c (m_codes m) = true.

Definition Inv (ops : list op) (s : iset) : Prop :=
  markers s = scoped ops /\ module_ign s = globals ops /\ index_ok s /\
  (inited s = false -> ops = []) /\
  (markers s = [] -> minp s = 0) /\
  (forall m, In m (markers s) -> 1 <= minp s <= m_start m) /\
  (forall m, In m (markers s) -> m_end m <= Z.max (maxp s) 0).

Lemma scoped_app a b : scoped (a ++ b) = (scoped a ++ scoped b)%list.
Proof. induction a as [|[cs st en|cs] a IH]; simpl; [reflexivity| rewrite IH; reflexivity | exact IH]. Qed.

Lemma globals_app a b : globals (a ++ b) = (globals a ++ globals b)%list.
Proof.
  induction a as [|[cs st en|cs] a IH]; simpl; [reflexivity| exact IH |].
  rewrite IH, app_assoc. reflexivity.
Qed.

Lemma run_snoc ops o : run (ops ++ [o]) = step (run ops) o.
Proof. unfold run. rewrite fold_left_app. reflexivity. Qed.

(* ---------- the index ---------- *)
Lemma idx_get_app c c' i ix :
  idx_get c (idx_app c' i ix) = if String.eqb c c' then (idx_get c ix ++ [i])%list else idx_get c ix.
Proof.
  induction ix as [|[k v] r IH]; simpl.
  - destruct (String.eqb c c'); reflexivity.
  - destruct (String.eqb c' k) eqn:Ek; simpl.
    + apply String.eqb_eq in Ek. subst k.
      destruct (String.eqb c c') eqn:Ec; reflexivity.
    + destruct (String.eqb c k) eqn:Eck.
      * apply String.eqb_eq in Eck. subst k.
        destruct (String.eqb c c') eqn:Ec; [|reflexivity].
        apply String.eqb_eq in Ec. subst c'. rewrite String.eqb_refl in Ek. discriminate.
      * exact IH.
Qed.

Lemma idx_get_fold c i cs ix j :
  In j (idx_get c (fold_left (fun ix c => idx_app c i ix) cs ix)) <->
  In j (idx_get c ix) \/ (j = i /\ str_mem c cs = true).
Proof.
  revert ix. induction cs as [|c' cs IH]; intros ix; simpl.
  - split; [intros H; left; exact H | intros [H|[_ H]]; [exact H | discriminate]].
  - rewrite IH, idx_get_app.
    destruct (String.eqb c c') eqn:Ec.
    + rewrite in_app_iff. simpl. split.
      * intros [[H|[H|[]]]|[H1 H2]]; [left; exact H | right; split; [symmetry; exact H|reflexivity] | right; split; [exact H1|reflexivity]].
      * intros [H|[H1 _]]; [left; left; exact H | left; right; left; symmetry; exact H1].
    + simpl. reflexivity.
Qed.

Lemma nth_error_snoc {A} (l : list A) (x : A) j y :
  nth_error (l ++ [x]) j = Some y <-> nth_error l j = Some y \/ (j = List.length l /\ y = x).
Proof.
  split.
  - intros H. destruct (Nat.lt_ge_cases j (List.length l)) as [Hl|Hl].
    + rewrite nth_error_app1 in H by exact Hl. left; exact H.
    + rewrite nth_error_app2 in H by exact Hl.
      destruct (j - List.length l)%nat eqn:E; simpl in H.
      * inversion H. right. split; [lia|reflexivity].
      * destruct n; discriminate.
  - intros [H|[H1 H2]].
    + rewrite nth_error_app1; [exact H|]. apply nth_error_Some. rewrite H. discriminate.
    + subst. rewrite nth_error_app2 by lia. rewrite Nat.sub_diag. reflexivity.
Qed.

(* ---------- the invariant ---------- *)
Lemma Inv_zero : Inv [] zero.
Proof.
  unfold Inv, zero, index_ok; simpl.
  split; [reflexivity|]. split; [reflexivity|]. split.
  { intros c i. split; [intros []|intros [m [H _]]; destruct i; discriminate]. }
  split; [reflexivity|]. split; [reflexivity|]. split; intros m [].
Qed.

Lemma ensure_init_Inv ops s : Inv ops s -> Inv ops (ensure_init s).
Proof.
  intros H. unfold ensure_init. destruct (inited s) eqn:Ei; [exact H|].
  destruct H as (Hm & Hg & Hi & Hinit & Hmin & Hlo & Hhi).
  specialize (Hinit Ei). subst ops.
  unfold Inv, index_ok; simpl.
  split; [reflexivity|]. split; [exact Hg|]. split.
  { intros c i. split; [intros []|intros [m [H _]]; destruct i; discriminate]. }
  split; [discriminate|]. split; [reflexivity|]. split; intros m [].
Qed.

Lemma ensure_init_inited s : inited (ensure_init s) = true.
Proof. unfold ensure_init. destruct (inited s) eqn:E; [exact E|reflexivity]. Qed.

Lemma Inv_step ops s o :
  starts_ok (ops ++ [o]) -> Inv ops s -> Inv (ops ++ [o]) (step s o).
Proof.
  intros Hst H0.
  pose proof (ensure_init_Inv _ _ H0) as H.
  pose proof (ensure_init_inited s) as Hin.
  destruct H as (Hm & Hg & Hi & Hinit & Hmin & Hlo & Hhi).
  destruct o as [cs st en|cs]; unfold step.
  - (* Add *)
    assert (Hst1 : 1 <= st) by (apply (Hst cs st en); apply in_or_app; right; left; reflexivity).
    unfold add. set (s1 := ensure_init s) in *.
    unfold Inv; simpl. rewrite scoped_app, globals_app; simpl. rewrite app_nil_r.
    split; [rewrite Hm; reflexivity|]. split; [exact Hg|].
    split.
    { (* index_ok *)
      unfold index_ok; simpl. intros c i. rewrite idx_get_fold. rewrite (Hi c i). split.
      - intros [[m [H1 H2]]|[H1 H2]].
        + exists m. split; [apply nth_error_snoc; left; exact H1|exact H2].
        + eexists. split; [apply nth_error_snoc; right; split; [exact H1|reflexivity]|exact H2].
      - intros [m [H1 H2]]. apply nth_error_snoc in H1. destruct H1 as [H1|[H1 H3]].
        + left. exists m. split; assumption.
        + right. subst m. split; [exact H1|exact H2]. }
    split; [discriminate|].
    split; [intros Habs; destruct (markers s1); discriminate|].
    split.
    + intros m Hin'. apply in_app_or in Hin'. destruct Hin' as [Hin'|[Hin'|[]]].
      * specialize (Hlo m Hin').
        destruct ((minp s1 =? 0) || (st <? minp s1)) eqn:E.
        -- apply orb_true_iff in E. destruct E as [E|E]; [apply Z.eqb_eq in E; lia|apply Z.ltb_lt in E; lia].
        -- lia.
      * subst m; simpl.
        destruct ((minp s1 =? 0) || (st <? minp s1)) eqn:E; [lia|].
        apply orb_false_iff in E. destruct E as [E1 E2]. apply Z.eqb_neq in E1. apply Z.ltb_ge in E2.
        destruct (markers s1) as [|m0 ms] eqn:Em; [specialize (Hmin eq_refl); contradiction|].
        specialize (Hlo m0 (or_introl eq_refl)). lia.
    + intros m Hin'. apply in_app_or in Hin'. destruct Hin' as [Hin'|[Hin'|[]]].
      * specialize (Hhi m Hin').
        destruct ((maxp s1 =? 0) || (en >? maxp s1)) eqn:E; [|lia].
        apply orb_true_iff in E. destruct E as [E|E]; [apply Z.eqb_eq in E; lia|].
        rewrite Z.gtb_ltb in E. apply Z.ltb_lt in E. lia.
      * subst m; simpl.
        destruct ((maxp s1 =? 0) || (en >? maxp s1)) eqn:E; [lia|].
        apply orb_false_iff in E. destruct E as [_ E]. rewrite Z.gtb_ltb in E. apply Z.ltb_ge in E. lia.
  - (* AddModuleIgnore *)
    unfold add_module. set (s1 := ensure_init s) in *.
    unfold Inv; simpl. rewrite scoped_app, globals_app; simpl. rewrite !app_nil_r.
    split; [exact Hm|]. split; [rewrite Hg; reflexivity|].
    split; [exact Hi|]. split; [discriminate|]. split; [exact Hmin|]. split; [exact Hlo|exact Hhi].
Qed.

Lemma starts_ok_app_l a b : starts_ok (a ++ b) -> starts_ok a.
Proof. intros H cs st en Hin. apply (H cs st en). apply in_or_app. left. exact Hin. Qed.

Lemma Inv_run ops : starts_ok ops -> Inv ops (run ops).
Proof.
  induction ops as [|o ops IH] using rev_ind; intros Hst.
  - exact Inv_zero.
  - rewrite run_snoc. apply Inv_step; [exact Hst|]. apply IH. eapply starts_ok_app_l; exact Hst.
Qed.

(* ---------- scanning ---------- *)
Definition idx_covers (s : iset) (pos : Z) (i : nat) : bool :=
  match nth_error (markers s) i with Some m => in_range m pos | None => false end.

Lemma scan_idx_ok s pos l :
  (forall i, In i l -> exists m, nth_error (markers s) i = Some m) ->
  scan_idx s pos l = Ok (existsb (idx_covers s pos) l).
Proof.
  induction l as [|i l IH]; intros H; simpl; [reflexivity|].
  destruct (H i (or_introl eq_refl)) as [m Hm].
  unfold covers_idx, idx_covers at 1. rewrite Hm. fold (in_range m pos).
  destruct (in_range m pos); simpl; [reflexivity|].
  apply IH. intros j Hj. apply H. right; exact Hj.
Qed.

Lemma scan_codes_ok s pos l :
  index_ok s ->
  scan_codes s pos l = Ok (existsb (fun c => existsb (idx_covers s pos) (idx_get c (index s))) l).
Proof.
  intros Hi. induction l as [|c l IH]; simpl; [reflexivity|].
  rewrite scan_idx_ok.
  - destruct (existsb (idx_covers s pos) (idx_get c (index s))); simpl; [reflexivity|exact IH].
  - intros i Hin. apply Hi in Hin. destruct Hin as [m [Hm _]]. exists m; exact Hm.
Qed.

Definition marker_covers (toks : list string) (pos : Z) (m : marker) : bool :=
  in_range m pos && overlaps (m_codes m) toks.

Lemma scan_equiv s pos toks :
  index_ok s ->
  existsb (fun c => existsb (idx_covers s pos) (idx_get c (index s))) toks
  = existsb (marker_covers toks pos) (markers s).
Proof.
  intros Hi. apply eq_iff_eq_true. rewrite !existsb_exists. split.
  - intros [c [Hc H]]. apply existsb_exists in H. destruct H as [i [Hin Hcov]].
    apply Hi in Hin. destruct Hin as [m [Hm Hmem]].
    exists m. split; [eapply nth_error_In; exact Hm|].
    unfold idx_covers in Hcov. rewrite Hm in Hcov.
    unfold marker_covers. rewrite Hcov. simpl.
    unfold overlaps. apply existsb_exists. exists c. split; assumption.
  - intros [m [Hin H]]. unfold marker_covers in H. apply andb_true_iff in H. destruct H as [Hr Ho].
    unfold overlaps in Ho. apply existsb_exists in Ho. destruct Ho as [c [Hc Hmem]].
    exists c. split; [exact Hc|]. apply existsb_exists.
    apply In_nth_error in Hin. destruct Hin as [i Hi'].
    exists i. split.
    + apply Hi. exists m. split; assumption.
    + unfold idx_covers. rewrite Hi'. exact Hr.
Qed.

(* ---------- the reference, split in its global and scoped halves ---------- *)
Lemma spec_split ops code pos :
  spec ops code pos =
  existsb (fun c => str_mem c (globals ops)) (cl code) || existsb (marker_covers (cl code) pos) (scoped ops).
Proof.
  unfold IgnoreSet.spec. induction ops as [|[cs st en|cs] ops IH]; simpl.
  - assert (E : existsb (fun _ : string => false) (cl code) = false)
      by (induction (cl code); simpl; auto).
    rewrite E. reflexivity.
  - rewrite IH. unfold marker_covers at 1, in_range; simpl.
    rewrite orb_assoc.
    rewrite (orb_comm _ (existsb (fun c => str_mem c (globals ops)) (cl code))).
    rewrite <- orb_assoc. reflexivity.
  - rewrite IH. rewrite orb_assoc. f_equal.
    unfold overlaps. apply eq_iff_eq_true. rewrite orb_true_iff, !existsb_exists. split.
    + intros [[c [H1 H2]]|[c [H1 H2]]]; exists c; (split; [exact H1|]);
        apply str_mem_In; apply in_or_app; [left|right]; apply str_mem_In; exact H2.
    + intros [c [H1 H2]]. apply str_mem_In in H2. apply in_app_or in H2.
      destruct H2 as [H2|H2]; [left|right]; exists c; (split; [exact H1|apply str_mem_In; exact H2]).
Qed.

Lemma existsb_false_of {A} (f : A -> bool) l : (forall x, In x l -> f x = false) -> existsb f l = false.
Proof.
  induction l as [|x l IH]; intros H; simpl; [reflexivity|].
  rewrite (H x (or_introl eq_refl)). simpl. apply IH. intros y Hy. apply H. right; exact Hy.
Qed.

Lemma contains_of_Inv ops s code pos :
  Inv ops s -> contains s code pos = Ok (spec ops code pos).
Proof.
  intros (Hm & Hg & Hi & Hinit & Hmin & Hlo & Hhi).
  unfold IgnoreSet.contains.
  destruct (inited s) eqn:Ei; simpl.
  2:{ rewrite (Hinit eq_refl). reflexivity. }
  rewrite spec_split, <- Hg, <- Hm.
  assert (Eg : negb (Nat.eqb (List.length (module_ign s)) 0)
               && existsb (fun c => str_mem c (module_ign s)) (cl code)
               = existsb (fun c => str_mem c (module_ign s)) (cl code)).
  { destruct (module_ign s) as [|g gs]; simpl; [|reflexivity].
    symmetry. apply existsb_false_of. intros; reflexivity. }
  rewrite Eg.
  destruct (existsb (fun c => str_mem c (module_ign s)) (cl code)); simpl; [reflexivity|].
  destruct ((minp s =? 0) || (pos <? minp s) || (pos >? maxp s)) eqn:Eq.
  - (* quick reject is sound *)
    f_equal. symmetry. apply existsb_false_of. intros m Hin.
    unfold marker_covers, in_range.
    specialize (Hlo m Hin). specialize (Hhi m Hin).
    apply orb_true_iff in Eq. destruct Eq as [Eq|Eq]; [apply orb_true_iff in Eq; destruct Eq as [Eq|Eq]|].
    + apply Z.eqb_eq in Eq. lia.
    + apply Z.ltb_lt in Eq.
      destruct (m_start m <=? pos) eqn:E1; [apply Z.leb_le in E1; lia|reflexivity].
    + rewrite Z.gtb_ltb in Eq. apply Z.ltb_lt in Eq.
      destruct (m_start m <=? pos) eqn:E1; [|reflexivity]. apply Z.leb_le in E1.
      destruct (pos <=? m_end m) eqn:E2; [apply Z.leb_le in E2; lia|reflexivity].
  - rewrite scan_codes_ok by exact Hi. rewrite scan_equiv by exact Hi. reflexivity.
Qed.

Theorem contains_run ops code pos :
  starts_ok ops -> contains (run ops) code pos = Ok (spec ops code pos).
Proof. intros H. apply contains_of_Inv. apply Inv_run. exact H. Qed.

(* order independence: the reference is an [existsb], hence invariant under permutation *)
Lemma existsb_perm {A} (f : A -> bool) l l' : Permutation l l' -> existsb f l = existsb f l'.
Proof.
  induction 1; simpl; auto.
  - rewrite IHPermutation. reflexivity.
  - rewrite !orb_assoc, (orb_comm (f y)). reflexivity.
  - congruence.
Qed.

Lemma starts_ok_perm ops ops' : Permutation ops ops' -> starts_ok ops -> starts_ok ops'.
Proof.
  intros P H cs st en Hin. apply (H cs st en). eapply Permutation_in; [apply Permutation_sym; exact P|exact Hin].
Qed.

Theorem contains_order_independent ops ops' code pos :
  Permutation ops ops' -> starts_ok ops ->
  contains (run ops) code pos = contains (run ops') code pos.
Proof.
  intros P H. rewrite !contains_run; [|eapply starts_ok_perm; eassumption|exact H].
  unfold IgnoreSet.spec. rewrite (existsb_perm _ _ _ P). reflexivity.
Qed.

Theorem contains_never_panics ops code pos :
  starts_ok ops -> contains (run ops) code pos <> Panic.
Proof. intros H. rewrite contains_run by exact H. discriminate. Qed.

Theorem empty_never_suppresses code pos :
  contains zero code pos = Ok false /\ contains (ensure_init zero) code pos = Ok false.
Proof. split; reflexivity. Qed.

End Proofs.
