(* C13: the four AST checkers see a recorded type only through its identity.  Rewriting the type recorded at EVERY node of
   a package by any function that preserves type identity (alias names inserted or removed at any depth) changes no
   candidate, no diagnostic, no message. *)
From Coq Require Import List String ZArith Bool.
From GG Require Import Base.Strs Model.Codes Model.IgnoreSet Model.Config Model.GoTypes Model.GoAst Model.Annots Model.Analyze
                       Proofs.WalkProofs Proofs.LayoutProofs.
Import ListNotations.
Local Open Scope string_scope.

(* ---- type identity on the fragment: equality after removing every alias name, at every depth ---- *)
Fixpoint strip (t : ty) : ty :=
  match t with
  | TAlias _ r => strip r
  | TPtr e => TPtr (strip e)
  | _ => t
  end.

Definition same_type (a b : option ty) : Prop := option_map strip a = option_map strip b.

Lemma unalias_not_alias t : forall n r, unalias t <> TAlias n r.
Proof. induction t as [p n0|n0 r0 IH|e IH|s]; intros n r; cbn [unalias]; try discriminate. apply IH. Qed.

Lemma strip_unalias t : strip (unalias t) = strip t.
Proof. induction t as [p n0|n0 r0 IH|e IH|s]; cbn [unalias strip]; auto. Qed.

Lemma unalias_strip t : unalias (strip t) = strip t.
Proof. induction t as [p n0|n0 r0 IH|e IH|s]; cbn [unalias strip]; auto. Qed.

(* the head of the stripped type is the head of the unaliased one *)
Lemma strip_head t : strip t = match unalias t with TPtr e => TPtr (strip e) | u => u end.
Proof.
  induction t as [p n0|n0 r0 IH|e IH|s]; cbn [unalias strip]; auto.
Qed.

Ltac no_alias := try reflexivity; try (exfalso; eapply unalias_not_alias; eassumption).

Lemma type_info_strip t : type_info (Some (strip t)) = type_info (Some t).
Proof.
  unfold type_info. rewrite unalias_strip. rewrite (strip_head t).
  destruct (unalias t) as [p n0|n0 r0|e|s] eqn:E; no_alias.
  rewrite unalias_strip. rewrite (strip_head e).
  destruct (unalias e) as [p' n'|n' r'|e'|s'] eqn:E'; no_alias.
Qed.

Lemma named_direct_strip t : named_direct (Some (strip t)) = named_direct (Some t).
Proof.
  unfold named_direct. rewrite unalias_strip, (strip_head t).
  destruct (unalias t) as [p n0|n0 r0|e|s] eqn:E; no_alias.
Qed.

Lemma type_name_strip t : type_name (Some (strip t)) = type_name (Some t).
Proof.
  unfold type_name. rewrite unalias_strip. rewrite (strip_head t).
  destruct (unalias t) as [p n0|n0 r0|e|s] eqn:E; no_alias.
  rewrite unalias_strip. rewrite (strip_head e).
  destruct (unalias e) as [p' n'|n' r'|e'|s'] eqn:E'; no_alias.
Qed.

Lemma is_pointer_strip t : is_pointer (strip t) = is_pointer t.
Proof.
  unfold is_pointer. rewrite unalias_strip, (strip_head t).
  destruct (unalias t) as [p n0|n0 r0|e|s] eqn:E; no_alias.
Qed.

(* everything the checkers ask of a recorded type is a function of its identity *)
Theorem type_info_same a b : same_type a b -> type_info a = type_info b.
Proof.
  unfold same_type. destruct a as [a|], b as [b|]; cbn [option_map]; try discriminate; [|reflexivity].
  intros H. injection H as H. rewrite <- (type_info_strip a), <- (type_info_strip b), H. reflexivity.
Qed.
Theorem named_direct_same a b : same_type a b -> named_direct a = named_direct b.
Proof.
  unfold same_type. destruct a as [a|], b as [b|]; cbn [option_map]; try discriminate; [|reflexivity].
  intros H. injection H as H. rewrite <- (named_direct_strip a), <- (named_direct_strip b), H. reflexivity.
Qed.
Theorem type_name_same a b : same_type a b -> type_name a = type_name b.
Proof.
  unfold same_type. destruct a as [a|], b as [b|]; cbn [option_map]; try discriminate; [|reflexivity].
  intros H. injection H as H. rewrite <- (type_name_strip a), <- (type_name_strip b), H. reflexivity.
Qed.

(* ---- respelling a whole tree ---- *)
Section Respell.
Variable psi : option ty -> option ty.
Hypothesis Hpsi : forall t, same_type (psi t) t.

Definition ra (a : attrs) : attrs :=
  {| a_name := a_name a; a_tok := a_tok a; a_n := a_n a; a_m := a_m a; a_flag := a_flag a; a_ty := psi (a_ty a);
     a_obj := a_obj a; a_str2 := a_str2 a; a_str3 := a_str3 a |}.

Fixpoint rt (n : node) : node :=
  let 'Node k p e a cs := n in Node k p e (ra a) (map rt cs).

Lemma rt_kind n : n_kind (rt n) = n_kind n. Proof. destruct n; reflexivity. Qed.
Lemma rt_pos n : n_pos (rt n) = n_pos n. Proof. destruct n; reflexivity. Qed.
Lemma rt_children n : n_children (rt n) = map rt (n_children n). Proof. destruct n; reflexivity. Qed.
Lemma rt_name n : a_name (n_attrs (rt n)) = a_name (n_attrs n). Proof. destruct n; reflexivity. Qed.
Lemma rt_tok n : a_tok (n_attrs (rt n)) = a_tok (n_attrs n). Proof. destruct n; reflexivity. Qed.
Lemma rt_n n : a_n (n_attrs (rt n)) = a_n (n_attrs n). Proof. destruct n; reflexivity. Qed.
Lemma rt_m n : a_m (n_attrs (rt n)) = a_m (n_attrs n). Proof. destruct n; reflexivity. Qed.
Lemma rt_flag n : a_flag (n_attrs (rt n)) = a_flag (n_attrs n). Proof. destruct n; reflexivity. Qed.
Lemma rt_obj n : a_obj (n_attrs (rt n)) = a_obj (n_attrs n). Proof. destruct n; reflexivity. Qed.
Lemma rt_str2 n : a_str2 (n_attrs (rt n)) = a_str2 (n_attrs n). Proof. destruct n; reflexivity. Qed.
Lemma rt_str3 n : a_str3 (n_attrs (rt n)) = a_str3 (n_attrs n). Proof. destruct n; reflexivity. Qed.
Lemma rt_ty n : a_ty (n_attrs (rt n)) = psi (a_ty (n_attrs n)). Proof. destruct n; reflexivity. Qed.
Lemma rt_type_info n : type_info (a_ty (n_attrs (rt n))) = type_info (a_ty (n_attrs n)).
Proof. rewrite rt_ty. apply type_info_same. apply Hpsi. Qed.
Lemma rt_named_direct n : named_direct (a_ty (n_attrs (rt n))) = named_direct (a_ty (n_attrs n)).
Proof. rewrite rt_ty. apply named_direct_same. apply Hpsi. Qed.

Ltac rtw := rewrite ?rt_kind, ?rt_pos, ?rt_children, ?rt_name, ?rt_tok, ?rt_n, ?rt_m, ?rt_flag, ?rt_obj, ?rt_str2, ?rt_str3, ?rt_type_info, ?rt_named_direct.

Lemma preorder_rt n : preorder (rt n) = map rt (preorder n).
Proof.
  induction n as [k p e a cs IH] using node_ind'. rewrite (preorder_unfold (rt (Node k p e a cs))), (preorder_unfold (Node k p e a cs)).
  cbn [map]. f_equal. rewrite rt_children. cbn [n_children]. unfold preorder_list.
  induction cs as [|c r IHr]; [reflexivity|]. inversion IH as [|? ? Hc Hr]; subst. cbn [map flat_map]. rewrite map_app, Hc, (IHr Hr). reflexivity.
Qed.

Lemma preorder_list_rt l : preorder_list (map rt l) = map rt (preorder_list l).
Proof. unfold preorder_list. induction l as [|c r IH]; [reflexivity|]. cbn [map flat_map]. rewrite map_app, preorder_rt, IH. reflexivity. Qed.

Lemma filter_map_rt (p : node -> bool) l : (forall n, p (rt n) = p n) -> filter p (map rt l) = map rt (filter p l).
Proof. intros H. induction l as [|x l IH]; simpl; [reflexivity|]. rewrite H. destruct (p x); simpl; [f_equal|]; exact IH. Qed.

Lemma plain_children_rt n : plain_children (rt n) = map rt (plain_children n).
Proof. unfold plain_children. rewrite rt_children. apply filter_map_rt. intros m. unfold non_comment. rewrite rt_kind. reflexivity. Qed.

Lemma flat_map_eq {A B} (f g : A -> list B) l : (forall x, f x = g x) -> flat_map f l = flat_map g l.
Proof. intros H. induction l as [|x l IH]; simpl; [reflexivity|]. rewrite H, IH. reflexivity. Qed.

Section Checkers.
Variable fs : facts.
Variable cur cur_name : string.

(* --- immutable --- *)
Lemma field_target_rt st sel : imm_field_target fs cur st (rt sel) = imm_field_target fs cur st sel.
Proof. unfold imm_field_target. rtw. reflexivity. Qed.

Lemma recv_target_rt st star : imm_recv_target fs cur st (rt star) = imm_recv_target fs cur st star.
Proof.
  unfold imm_recv_target. rtw. destruct (is_recv st) as [ri|]; [|reflexivity].
  destruct (n_children star) as [|x rest]; [reflexivity|]. cbn [map]. rtw. reflexivity.
Qed.

Lemma check_lhs_rt st e : imm_check_lhs fs cur st (rt e) = imm_check_lhs fs cur st e.
Proof.
  unfold imm_check_lhs. rtw. destruct (n_kind e); try reflexivity.
  - rewrite field_target_rt. reflexivity.
  - destruct (n_children e) as [|x r]; [reflexivity|]. cbn [map]. rtw.
    destruct (n_kind x); try reflexivity. rewrite field_target_rt. rtw. reflexivity.
  - rewrite recv_target_rt. reflexivity.
Qed.

Lemma check_compound_rt st tok e : imm_check_compound fs cur st tok (rt e) = imm_check_compound fs cur st tok e.
Proof.
  unfold imm_check_compound. rtw. destruct (n_kind e); try reflexivity.
  rewrite field_target_rt. reflexivity.
Qed.

Lemma imm_check_node_rt st n : imm_check_node fs cur st (rt n) = imm_check_node fs cur st n.
Proof.
  unfold imm_check_node. rtw. destruct (n_kind n); try reflexivity.
  - rewrite firstn_map, !flat_map_map. destruct (String.eqb (a_tok (n_attrs n)) "=").
    + apply flat_map_eq. intros x. apply check_lhs_rt.
    + apply flat_map_eq. intros x. apply check_compound_rt.
  - destruct (n_children n) as [|x r]; [reflexivity|]. cbn [map]. rtw. destruct (n_kind x); try reflexivity.
    + rewrite field_target_rt. reflexivity.
    + rewrite recv_target_rt. reflexivity.
Qed.

Lemma recv_info_rt n : extract_recv_info (rt n) = extract_recv_info n.
Proof. unfold extract_recv_info. rtw. reflexivity. Qed.

Lemma imm_step_rt acc n : imm_step fs cur acc (rt n) = imm_step fs cur acc n.
Proof.
  unfold imm_step. destruct acc as [st out]. rtw. destruct (n_kind n); try (rewrite imm_check_node_rt; reflexivity).
  rewrite recv_info_rt. reflexivity.
Qed.

Lemma imm_decl_rt d : imm_decl fs cur (rt d) = imm_decl fs cur d.
Proof.
  unfold imm_decl. rewrite preorder_rt. f_equal.
  generalize ({| is_fn := ""; is_recv := None |}, @nil diag) as acc. induction (preorder d) as [|n l IH]; intros acc; [reflexivity|].
  cbn [map fold_left]. rewrite imm_step_rt. apply IH.
Qed.

(* --- constructor --- *)
Lemma ctor_check_node_rt fn n : ctor_check_node fs cur fn (rt n) = ctor_check_node fs cur fn n.
Proof.
  unfold ctor_check_node. rtw. destruct (n_kind n); try reflexivity.
  - destruct (String.eqb (a_tok (n_attrs n)) "var"); [|reflexivity]. rewrite flat_map_map. apply flat_map_eq. intros spec.
    rtw. rewrite plain_children_rt. destruct (kind_eqb (n_kind spec) KValueSpec && Nat.eqb (a_m (n_attrs spec)) 0); [|reflexivity].
    rewrite firstn_map, flat_map_map. apply flat_map_eq. intros nm. rtw. reflexivity.
  - destruct (n_children n) as [|f r]; [reflexivity|]. cbn [map]. rtw. reflexivity.
Qed.

Lemma ctor_step_rt acc n : ctor_step fs cur acc (rt n) = ctor_step fs cur acc n.
Proof.
  unfold ctor_step. destruct acc as [fn out]. rtw. destruct (n_kind n); try (rewrite ctor_check_node_rt; reflexivity). reflexivity.
Qed.

Lemma ctor_decl_rt d : ctor_decl fs cur (rt d) = ctor_decl fs cur d.
Proof.
  unfold ctor_decl. rewrite preorder_rt. f_equal.
  generalize ("", @nil diag) as acc. induction (preorder d) as [|n l IH]; intros acc; [reflexivity|].
  cbn [map fold_left]. rewrite ctor_step_rt. apply IH.
Qed.

(* --- testonly / packageonly --- *)
Lemma nth_error_map_rt k l : nth_error (map rt l) k = option_map rt (nth_error l k).
Proof. revert l. induction k as [|k IH]; intros [|x l]; simpl; auto. Qed.

Lemma recv_type_expr_rt fd : recv_type_expr (rt fd) = option_map rt (recv_type_expr fd).
Proof.
  unfold recv_type_expr. rtw. destruct (a_flag (n_attrs fd)); [|reflexivity].
  rewrite filter_map_rt by (intros m; rewrite rt_kind; reflexivity).
  destruct (filter (fun c => kind_eqb (n_kind c) KFieldList) (n_children fd)) as [|fl r]; [reflexivity|]. cbn [map].
  rtw. destruct (n_children fl) as [|fld r']; [reflexivity|]. cbn [map]. rewrite plain_children_rt. rtw.
  apply nth_error_map_rt.
Qed.

Lemma extract_receiver_type_rt e : extract_receiver_type (rt e) = extract_receiver_type e.
Proof.
  unfold extract_receiver_type. rtw. destruct (n_kind e); try reflexivity.
  destruct (n_children e) as [|x r]; [reflexivity|]. cbn [map]. rtw. reflexivity.
Qed.

Lemma func_recv_type_rt fd : func_recv_type (rt fd) = func_recv_type fd.
Proof. unfold func_recv_type. rewrite recv_type_expr_rt. destruct (recv_type_expr fd); [apply extract_receiver_type_rt|reflexivity]. Qed.

Lemma tonl_keep_rt n : tonl_keep fs cur (rt n) = tonl_keep fs cur n.
Proof. unfold tonl_keep, in_testonly_context. rtw. rewrite func_recv_type_rt. reflexivity. Qed.

Lemma tonl_type_cand_rt n pos : tonl_type_cand fs (a_ty (n_attrs (rt n))) pos = tonl_type_cand fs (a_ty (n_attrs n)) pos.
Proof. unfold tonl_type_cand. rtw. reflexivity. Qed.

Lemma method_recv_type_rt f : type_info (method_recv_type (rt f)) = type_info (method_recv_type f).
Proof.
  unfold method_recv_type. rewrite rt_obj. destruct (a_obj (n_attrs f)) as [o|]; [|apply rt_type_info].
  destruct (o_kind o); try apply rt_type_info. destruct (o_is_method o); [reflexivity|apply rt_type_info].
Qed.

Lemma tonl_cands_rt n : tonl_cands fs (rt n) = tonl_cands fs n.
Proof.
  unfold tonl_cands. rtw. destruct (n_kind n); try reflexivity; try apply tonl_type_cand_rt.
  - destruct (a_flag (n_attrs n)); [apply tonl_type_cand_rt|reflexivity].
  - destruct (n_children n) as [|f r]; [reflexivity|]. cbn [map]. rewrite method_recv_type_rt. rtw. destruct (n_kind f); try reflexivity.
    destruct (n_children f) as [|x r']; cbn [map]; [reflexivity|]. rtw. reflexivity.
Qed.

Lemma pkgo_cands_rt n : pkgo_cands fs cur cur_name (rt n) = pkgo_cands fs cur cur_name n.
Proof. unfold pkgo_cands. rtw. reflexivity. Qed.

Lemma preorder_pruned_rt keep n : (forall m, keep (rt m) = keep m) -> preorder_pruned keep (rt n) = map rt (preorder_pruned keep n).
Proof.
  intros Hk. induction n as [k p e a cs IH] using node_ind'.
  cbn [rt preorder_pruned]. change (Node k p e (ra a) (map rt cs)) with (rt (Node k p e a cs)). rewrite Hk.
  cbn [map]. f_equal. destruct (keep (Node k p e a cs)); [|reflexivity].
  induction cs as [|c r IHr]; [reflexivity|]. inversion IH as [|? ? Hc Hr]; subst. cbn [map]. rewrite map_app, Hc, (IHr Hr). reflexivity.
Qed.

Definition rt_file (f : file) : file :=
  {| f_name := f_name f; f_package := f_package f; f_end := f_end f; f_decls := map rt (f_decls f);
     f_comments := f_comments f; f_imports := f_imports f; f_lines := f_lines f |}.

Theorem imm_candidates_rt files : imm_candidates fs cur (map rt_file files) = imm_candidates fs cur files.
Proof.
  unfold imm_candidates. destruct (imm_index_empty fs); [reflexivity|]. rewrite flat_map_map. apply flat_map_eq. intros f.
  cbn [rt_file f_decls]. rewrite flat_map_map. apply flat_map_eq. intros d. apply imm_decl_rt.
Qed.

Theorem ctor_candidates_rt files : ctor_candidates fs cur (map rt_file files) = ctor_candidates fs cur files.
Proof.
  unfold ctor_candidates. destruct (ctor_index_empty fs); [reflexivity|]. rewrite flat_map_map. apply flat_map_eq. intros f.
  cbn [rt_file f_decls]. rewrite flat_map_map. apply flat_map_eq. intros d. apply ctor_decl_rt.
Qed.

Theorem tonl_diags_rt sup files : tonl_diags fs cur sup (map rt_file files) = tonl_diags fs cur sup files.
Proof.
  unfold tonl_diags. destruct (negb (tonl_has AKType fs) && negb (tonl_has AKFunc fs) && negb (tonl_has AKMethod fs)); [reflexivity|].
  rewrite flat_map_map. apply flat_map_eq. intros f. unfold tonl_file. cbn [rt_file f_name f_decls].
  destruct (has_suffix "_test.go" (f_name f)); [reflexivity|]. f_equal.
  rewrite flat_map_map.
  transitivity (flat_map (tonl_cands fs) (map rt (flat_map (preorder_pruned (tonl_keep fs cur)) (f_decls f)))).
  - f_equal. induction (f_decls f) as [|d r IH]; [reflexivity|]. cbn [flat_map]. rewrite map_app, <- IH. f_equal.
    apply preorder_pruned_rt. apply tonl_keep_rt.
  - rewrite flat_map_map. apply flat_map_eq. intros n. apply tonl_cands_rt.
Qed.

Theorem pkgo_diags_rt sup files : pkgo_diags fs cur cur_name sup (map rt_file files) = pkgo_diags fs cur cur_name sup files.
Proof.
  unfold pkgo_diags. destruct (pkgo_index_empty fs); [reflexivity|].
  rewrite flat_map_map. apply flat_map_eq. intros f. unfold pkgo_file. cbn [rt_file f_decls]. f_equal.
  rewrite preorder_list_rt, flat_map_map. apply flat_map_eq. intros n. apply pkgo_cands_rt.
Qed.

End Checkers.
End Respell.
